(* Proofs/BibtexStrAlg.v -- compositional laws of the scanner and what they give for
   bibtex_len / bibtex_purify / bibtex_width / bibtex_first_letter (property C12, growth). *)
From Pybtex Require Import Base.Prelude Base.PyChar Base.PyStr Model.BibtexStr Spec.BibtexStrSpec
  Proofs.BibtexStr.

Lemma bind_ret {X} (r : res X) : bind r (fun x => Ok x) = r.
Proof. destruct r; reflexivity. Qed.

(* scanning a ++ b where a brings the brace depth back to 0 (and closes the special
   character the scanner may be in): the tokens of a, then the tokens of b *)
Lemma scan_go_app b : forall a level sp,
  depth_from (st_depth level sp) a = Some 0 ->
  scan_go (a ++ b) level sp =
  do ra <- scan_go a level sp; do rb <- scan_go b 0 None; Ok (ra ++ rb).
Proof.
  induction a as [|c t IH]; intros level sp Hd.
  - destruct sp as [[d acc]|]; cbn [st_depth depth_from] in Hd; [discriminate|].
    injection Hd as ->. cbn [app scan_go bind]. symmetry. apply bind_ret.
  - destruct sp as [[d acc]|]; cbn [st_depth depth_from] in Hd; cbn [app scan_go]; unfold is_lbrace, is_rbrace.
    + destruct (N.eqb c c_lbrace) eqn:El.
      * destruct (Nat.ltb max_level (2 + d)); [reflexivity|]. apply (IH level (Some (S d, c :: acc))). exact Hd.
      * destruct (N.eqb c c_rbrace) eqn:Er.
        -- destruct d as [|d'].
           ++ rewrite (IH 0 None Hd).
              destruct (scan_go t 0 None) as [ra| | |]; cbn [bind]; try reflexivity.
              destruct (scan_go b 0 None); reflexivity.
           ++ apply (IH level (Some (d', c :: acc))). exact Hd.
        -- apply (IH level (Some (d, c :: acc))). exact Hd.
    + destruct (N.eqb c c_lbrace) eqn:El.
      * assert (Hh : match t ++ b with b0 :: _ => N.eqb b0 c_bslash | [] => false end
                     = match t with b0 :: _ => N.eqb b0 c_bslash | [] => false end).
        { destruct t; [cbn [depth_from] in Hd; discriminate|reflexivity]. }
        rewrite Hh.
        destruct (Nat.eqb level 0 && _) eqn:Esp.
        -- apply andb_prop in Esp as [E0 _]. apply Nat.eqb_eq in E0. subst level.
           rewrite (IH 0 (Some (0, [])) Hd).
           destruct (scan_go t 0 (Some (0, []))) as [ra| | |]; cbn [bind]; try reflexivity.
           destruct (scan_go b 0 None); reflexivity.
        -- destruct (Nat.ltb max_level (S level)); [reflexivity|].
           rewrite (IH (S level) None Hd).
           destruct (scan_go t (S level) None) as [ra| | |]; cbn [bind]; try reflexivity.
           destruct (scan_go b 0 None); reflexivity.
      * destruct (N.eqb c c_rbrace) eqn:Er; cbn [andb].
        -- destruct level as [|l']; [discriminate|]. cbn [Nat.ltb Nat.leb pred].
           rewrite (IH l' None Hd).
           destruct (scan_go t l' None) as [ra| | |]; cbn [bind]; try reflexivity.
           destruct (scan_go b 0 None); reflexivity.
        -- rewrite (IH level None Hd).
           destruct (scan_go t level None) as [ra| | |]; cbn [bind]; try reflexivity.
           destruct (scan_go b 0 None); reflexivity.
Qed.

Lemma scan_app_lemma a b ra rb : balanced a -> scan a = Ok ra -> scan b = Ok rb -> scan (a ++ b) = Ok (ra ++ rb).
Proof.
  intros Hb Ha Hbb. unfold scan in *. rewrite (scan_go_app b a 0 None Hb), Ha, Hbb. reflexivity.
Qed.

Lemma len_additive_lemma a b n m : balanced a -> bibtex_len a = Ok n -> bibtex_len b = Ok m ->
  bibtex_len (a ++ b) = Ok (n + m).
Proof.
  unfold bibtex_len. intros Hb Ha Hbb. inv_ok.
  rewrite (scan_app_lemma a b _ _ Hb Hr0 Hr). cbn [bind]. rewrite filter_app, app_length. reflexivity.
Qed.

Lemma purify_additive_lemma a b p q : balanced a -> bibtex_purify a = Ok p -> bibtex_purify b = Ok q ->
  bibtex_purify (a ++ b) = Ok (p ++ q).
Proof.
  unfold bibtex_purify. intros Hb Ha Hbb. inv_ok.
  rewrite (scan_app_lemma a b _ _ Hb Hr0 Hr). cbn [bind]. rewrite flat_map_app. reflexivity.
Qed.

(* bibtex_width after fix 7dc0a71: [after_open] = the previous token opened a level-1 group *)
Lemma width_go_shift cw : forall ts ao z, width_go cw ts ao z = (z + width_go cw ts ao 0)%Z.
Proof.
  induction ts as [|t ts IH]; intros ao z; cbn [width_go]; [lia|].
  rewrite (IH _ (z + width_tok cw ao t)%Z), (IH _ (0 + width_tok cw ao t)%Z). lia.
Qed.

Fixpoint ao_after (ts : list tok) (ao : bool) : bool :=
  match ts with [] => ao | t :: r => ao_after r (is_open1 t) end.

Lemma width_go_app cw : forall ta tb ao z,
  width_go cw (ta ++ tb) ao z = width_go cw tb (ao_after ta ao) (width_go cw ta ao z).
Proof. induction ta as [|t ta IH]; intros tb ao z; [reflexivity|]. cbn [app width_go ao_after]. apply IH. Qed.

(* after the tokens of a text that ends at brace depth 0 the flag is off *)
Lemma ao_after_depth : forall ts d ao, toks_ok d ts ->
  exists e, depth_from d (concat (map fst ts)) = Some e /\
            (ao_after ts ao = true -> (ts = [] /\ ao = true) \/ e = 1).
Proof.
  induction ts as [|[t l] ts IH]; intros d ao H.
  - exists d. split; [reflexivity|]. cbn [ao_after]. auto.
  - cbn [toks_ok] in H. destruct H as [H1 H2].
    destruct (IH l (is_open1 (t, l)) H2) as (e & E1 & E2). exists e.
    split; [cbn [map fst concat]; rewrite depth_from_app, H1; exact E1|].
    cbn [ao_after]. intros Ha. right. destruct (E2 Ha) as [[-> Ho]|He]; [|exact He].
    cbn [map concat depth_from] in E1. injection E1 as <-.
    cbn [is_open1] in Ho. apply andb_prop in Ho as [Ho _]. apply Nat.eqb_eq in Ho. exact Ho.
Qed.

Lemma width_additive_lemma cw a b x y : balanced a -> bibtex_width cw a = Ok x -> bibtex_width cw b = Ok y ->
  bibtex_width cw (a ++ b) = Ok (x + y)%Z.
Proof.
  unfold bibtex_width. intros Hb Ha Hbb. inv_ok.
  rewrite (scan_app_lemma a b _ _ Hb Hr0 Hr). cbn [bind]. rewrite width_go_app.
  assert (Hao : ao_after r0 false = false).
  { pose proof Hr0 as Hs. apply scan_go_balanced in Hs. destruct (Hs Hb) as [Hc Ht].
    destruct (ao_after_depth r0 0 false Ht) as (e & E1 & E2).
    rewrite Hc in E1. unfold balanced in Hb. rewrite Hb in E1. injection E1 as <-.
    destruct (ao_after r0 false) eqn:E; [|reflexivity].
    destruct (E2 eq_refl) as [[_ ?]|?]; discriminate. }
  rewrite Hao, width_go_shift. reflexivity.
Qed.

(* ------------------------------------------------------------------ bibtex_first_letter *)
Definition nonbrace_texts (ts : list tok) : list str :=
  map fst (filter (fun t => negb (tok_is_brace (fst t))) ts).

Lemma nonbrace_texts_cons x l r :
  nonbrace_texts ((x, l) :: r) = if tok_is_brace x then nonbrace_texts r else x :: nonbrace_texts r.
Proof. unfold nonbrace_texts. cbn [filter fst]. destruct (tok_is_brace x); reflexivity. Qed.

(* iterating over BibTeXString(s) yields exactly the texts of the non-brace tokens *)
Lemma iter_scan : forall s level sp ts,
  scan_go s level sp = Ok ts ->
  depth_from (st_depth level sp) s = Some 0 ->
  sp_ok sp s ->
  iter_go s level sp = Ok (nonbrace_texts ts).
Proof.
  induction s as [|c t IH]; intros level sp ts H Hd Hok.
  - destruct sp as [[d acc]|]; cbn [st_depth depth_from] in Hd; [discriminate|].
    cbn [scan_go] in H. inv_ok. reflexivity.
  - destruct sp as [[d acc]|]; cbn [st_depth depth_from] in Hd; cbn [scan_go] in H; cbn [iter_go sp_ok] in *;
    unfold is_lbrace, is_rbrace in *.
    + destruct (N.eqb c c_lbrace) eqn:El.
      * destruct (Nat.ltb max_level (2 + d)); [discriminate|].
        apply (IH level (Some (S d, c :: acc)) ts H Hd). cbn [sp_ok]. rewrite bs_head_snoc. exact Hok.
      * destruct (N.eqb c c_rbrace) eqn:Er.
        -- destruct d as [|d'].
           ++ inv_ok. apply N.eqb_eq in Er. subst c.
              rewrite (IH 0 None r Hr Hd I). cbn [bind].
              rewrite !nonbrace_texts_cons, (bs_head_not_brace _ (bs_head_app_rb _ _ Hok)). reflexivity.
           ++ apply (IH level (Some (d', c :: acc)) ts H Hd). cbn [sp_ok]. rewrite bs_head_snoc. exact Hok.
        -- apply (IH level (Some (d, c :: acc)) ts H Hd). cbn [sp_ok]. rewrite bs_head_snoc. exact Hok.
    + destruct (N.eqb c c_lbrace) eqn:El.
      * apply N.eqb_eq in El. subst c.
        match type of H with context [if ?b then _ else _] => destruct b eqn:Esp end.
        -- inv_ok. apply andb_prop in Esp as [E0 Eb]. apply Nat.eqb_eq in E0. subst level.
           rewrite nonbrace_texts_cons. apply (IH 0 (Some (0, [])) r Hr Hd). exact Eb.
        -- destruct (Nat.ltb max_level (S level)); [discriminate|]. inv_ok.
           rewrite nonbrace_texts_cons. apply (IH (S level) None r Hr Hd I).
      * destruct (N.eqb c c_rbrace) eqn:Er; cbn [andb] in *.
        -- destruct level as [|l']; [discriminate|]. cbn [Nat.ltb Nat.leb pred] in *. inv_ok.
           apply N.eqb_eq in Er. subst c. rewrite nonbrace_texts_cons. apply (IH l' None r Hr Hd I).
        -- inv_ok. rewrite (IH level None r Hr Hd I). cbn [bind]. rewrite nonbrace_texts_cons.
           cbn [tok_is_brace]. unfold is_brace, is_lbrace, is_rbrace. rewrite El, Er. reflexivity.
Qed.

Lemma first_letter_spec_lemma s ts : balanced s -> scan s = Ok ts ->
  bibtex_first_letter s = Ok (first_letter_of (map fst (filter (fun t => negb (tok_is_brace (fst t))) ts))).
Proof.
  intros Hb H. unfold bibtex_first_letter. rewrite (iter_scan s 0 None ts H Hb I). reflexivity.
Qed.

Lemma first_letter_of_shape : forall cs,
  first_letter_of cs = [] \/
  (exists c, first_letter_of cs = [c] /\ is_alpha c = true) \/
  (exists t, first_letter_of cs = c_lbrace :: t ++ [c_rbrace] /\ bs_head t = true /\ 2 <= length t /\ In t cs).
Proof.
  induction cs as [|t cs IH]; [left; reflexivity|]. cbn [first_letter_of].
  assert (IH' : first_letter_of cs = [] \/
    (exists c, first_letter_of cs = [c] /\ is_alpha c = true) \/
    (exists t0, first_letter_of cs = c_lbrace :: t0 ++ [c_rbrace] /\ bs_head t0 = true /\ 2 <= length t0 /\ In t0 (t :: cs))).
  { destruct IH as [H|[H|(t0 & H1 & H2 & H3 & H4)]]; auto. right; right. exists t0. repeat split; auto. right. exact H4. }
  destruct t as [|b [|b2 t']]; [exact IH'| |].
  - destruct (is_alpha b) eqn:E; [|exact IH']. right; left. exists b. auto.
  - destruct (N.eqb b c_bslash) eqn:E; [|exact IH']. right; right. exists (b :: b2 :: t').
    repeat split; [exact E|cbn [length]; lia|left; reflexivity].
Qed.

Lemma first_letter_shape_lemma s r : bibtex_first_letter s = Ok r ->
  r = [] \/ (exists c, r = [c] /\ is_alpha c = true) \/
  (exists t, r = c_lbrace :: t ++ [c_rbrace] /\ bs_head t = true /\ 2 <= length t).
Proof.
  unfold bibtex_first_letter. intros H. inv_ok.
  destruct (first_letter_of_shape r0) as [H|[H|(t & H1 & H2 & H3 & _)]]; auto.
  right; right. exists t. auto.
Qed.

(* ================================================================== round 3 *)
(* ------------------------------------------------------------------ bibtex_first_letter, every string *)
Lemma first_letter_of_cons_cong t cs cs' :
  first_letter_of cs = first_letter_of cs' -> first_letter_of (t :: cs) = first_letter_of (t :: cs').
Proof. intros H. cbn [first_letter_of]. rewrite H. reflexivity. Qed.

(* on ANY string the iteration over BibTeXString(s) differs from the non-brace tokens of the scan
   only by stray closing braces, which bibtex_first_letter skips *)
Lemma iter_scan_all : forall s level sp ts,
  scan_go s level sp = Ok ts -> sp_ok sp s ->
  exists cs, iter_go s level sp = Ok cs /\ first_letter_of cs = first_letter_of (nonbrace_texts ts).
Proof.
  induction s as [|c t IH]; intros level sp ts H Hok.
  - destruct sp as [[d acc]|]; cbn [scan_go] in H; inv_ok; cbn [iter_go sp_ok] in *.
    + rewrite app_nil_r in Hok. eexists; split; [reflexivity|].
      rewrite !nonbrace_texts_cons, (bs_head_not_brace _ Hok). reflexivity.
    + eexists; split; reflexivity.
  - destruct sp as [[d acc]|]; cbn [scan_go] in H; cbn [iter_go sp_ok] in *; unfold is_lbrace, is_rbrace in *.
    + destruct (N.eqb c c_lbrace) eqn:El.
      * destruct (Nat.ltb max_level (2 + d)); [discriminate|].
        apply (IH level (Some (S d, c :: acc)) ts H). cbn [sp_ok]. rewrite bs_head_snoc. exact Hok.
      * destruct (N.eqb c c_rbrace) eqn:Er.
        -- destruct d as [|d'].
           ++ inv_ok. apply N.eqb_eq in Er. subst c.
              destruct (IH 0 None r Hr I) as (cs & H1 & H2). rewrite H1. cbn [bind].
              eexists; split; [reflexivity|].
              rewrite !nonbrace_texts_cons, (bs_head_not_brace _ (bs_head_app_rb _ _ Hok)).
              cbn [tok_is_brace]. change (is_brace c_rbrace) with true. cbv iota.
              apply first_letter_of_cons_cong. exact H2.
           ++ apply (IH level (Some (d', c :: acc)) ts H). cbn [sp_ok]. rewrite bs_head_snoc. exact Hok.
        -- apply (IH level (Some (d, c :: acc)) ts H). cbn [sp_ok]. rewrite bs_head_snoc. exact Hok.
    + destruct (N.eqb c c_lbrace) eqn:El.
      * apply N.eqb_eq in El. subst c.
        match type of H with context [if ?b then _ else _] => destruct b eqn:Esp end.
        -- inv_ok. apply andb_prop in Esp as [E0 Eb]. apply Nat.eqb_eq in E0. subst level.
           rewrite nonbrace_texts_cons. apply (IH 0 (Some (0, [])) r Hr). exact Eb.
        -- destruct (Nat.ltb max_level (S level)); [discriminate|]. inv_ok.
           rewrite nonbrace_texts_cons. apply (IH (S level) None r Hr I).
      * destruct (N.eqb c c_rbrace && Nat.ltb 0 level) eqn:Erl.
        -- inv_ok. apply andb_prop in Erl as [Er _]. apply N.eqb_eq in Er. subst c.
           rewrite nonbrace_texts_cons. apply (IH (pred level) None r Hr I).
        -- inv_ok. destruct (IH level None r Hr I) as (cs & H1 & H2). rewrite H1. cbn [bind].
           eexists; split; [reflexivity|]. rewrite nonbrace_texts_cons. cbn [tok_is_brace].
           unfold is_brace, is_lbrace, is_rbrace. rewrite El. cbn [orb].
           destruct (N.eqb c c_rbrace) eqn:Er.
           ++ apply N.eqb_eq in Er. subst c. cbn [first_letter_of]. change (is_alpha c_rbrace) with false.
              cbv iota. exact H2.
           ++ apply first_letter_of_cons_cong. exact H2.
Qed.

Lemma first_letter_spec_all_lemma s ts : scan s = Ok ts ->
  bibtex_first_letter s = Ok (first_letter_of (map fst (filter (fun t => negb (tok_is_brace (fst t))) ts))).
Proof.
  intros H. unfold bibtex_first_letter. destruct (iter_scan_all s 0 None ts H I) as (cs & H1 & H2).
  rewrite H1. cbn [bind]. f_equal. exact H2.
Qed.

(* ------------------------------------------------------------------ bibtex_abbreviate, every string *)
Lemma map_res_Ok {X Y} (f : X -> res Y) : forall l ys, map_res f l = Ok ys -> Forall2 (fun x y => f x = Ok y) l ys.
Proof.
  induction l as [|x l IH]; intros ys H; cbn [map_res] in H.
  - injection H as <-. constructor.
  - inv_ok. constructor; [exact Hr|apply IH; exact Hr0].
Qed.

Lemma abbreviate_unfold_lemma s d out : bibtex_abbreviate s d = Ok out ->
  exists pieces letters,
    split_tex_string_gen sep_hyphen s true false = Ok pieces /\
    Forall2 (fun p l => bibtex_first_letter p = Ok l) pieces letters /\
    out = join (match d with None => [46%N; c_hyphen] | Some d => d end)
               (filter (fun l => negb (match l with [] => true | _ => false end)) letters).
Proof.
  unfold bibtex_abbreviate, split_tex_hyphen. intros H. inv_ok.
  exists r, r0. split; [exact Hr|]. split; [apply map_res_Ok; exact Hr0|reflexivity].
Qed.

(* ------------------------------------------------------------------ bibtex_width of a special character *)
Lemma scan_special_go s : forall inner level d acc ts, depth_from d inner = Some 0 ->
  scan_go (inner ++ c_rbrace :: s) level (Some (d, acc)) = Ok ts ->
  exists r, scan_go s 0 None = Ok r /\ ts = (rev acc ++ inner, 1) :: ([c_rbrace], 0) :: r.
Proof.
  induction inner as [|c t IH]; intros level d acc ts Hd H; cbn [depth_from] in Hd.
  - injection Hd as ->. cbn [app scan_go] in H. change (is_lbrace c_rbrace) with false in H.
    change (is_rbrace c_rbrace) with true in H. cbv iota in H. inv_ok. exists r. rewrite app_nil_r. auto.
  - cbn [app scan_go] in H. unfold is_lbrace, is_rbrace in H.
    destruct (N.eqb c c_lbrace) eqn:El.
    + destruct (Nat.ltb max_level (2 + d)); [discriminate|].
      destruct (IH level (S d) (c :: acc) ts Hd H) as (r & H1 & H2). exists r. split; [exact H1|].
      rewrite H2. cbn [rev]. rewrite <- app_assoc. reflexivity.
    + destruct (N.eqb c c_rbrace) eqn:Er.
      * destruct d as [|d']; [discriminate|].
        destruct (IH level d' (c :: acc) ts Hd H) as (r & H1 & H2). exists r. split; [exact H1|].
        rewrite H2. cbn [rev]. rewrite <- app_assoc. reflexivity.
      * destruct (IH level d (c :: acc) ts Hd H) as (r & H1 & H2). exists r. split; [exact H1|].
        rewrite H2. cbn [rev]. rewrite <- app_assoc. reflexivity.
Qed.

(* a special character {\c...} is measured as: the two braces at their own widths, the characters
   after the backslash and the command letter (non-brace ones) at theirs, minus 1000 *)
Lemma fold_left_shift (cw : char -> Z) : forall g z, fold_left (fun a c => a + cw c)%Z g z = (z + fold_left (fun a c => a + cw c)%Z g 0)%Z.
Proof.
  induction g as [|c g IH]; intros z; cbn [fold_left]; [lia|]. rewrite (IH (z + cw c)%Z), (IH (0 + cw c)%Z). lia.
Qed.

Lemma width_special_lemma cw inner w : balanced inner ->
  bibtex_width cw (c_lbrace :: c_bslash :: inner ++ [c_rbrace]) = Ok w ->
  w = (cw c_lbrace
       + (fold_left (fun a c => if is_brace c then a else a + cw c) (skipn 1 inner) 0 - 1000)
       + cw c_rbrace)%Z.
Proof.
  unfold bibtex_width, scan. intros Hb H. inv_ok. cbn [scan_go] in Hr.
  change (is_lbrace c_lbrace) with true in Hr. cbn [Nat.eqb andb app] in Hr.
  change (N.eqb c_bslash c_bslash) with true in Hr. cbv iota in Hr. inv_ok.
  cbn [scan_go] in Hr0. change (is_lbrace c_bslash) with false in Hr0. change (is_rbrace c_bslash) with false in Hr0.
  cbv iota in Hr0.
  destruct (scan_special_go [] inner 0 0 [c_bslash] r0 Hb Hr0) as (r' & H1 & H2).
  cbn [scan_go] in H1. injection H1 as <-. subst r0.
  cbn [width_go width_tok is_open1 rev app Nat.eqb andb skipn].
  change (is_lbrace c_lbrace) with true. change (N.eqb c_bslash c_bslash) with true.
  change (N.eqb c_rbrace c_bslash) with false. rewrite andb_false_r. cbn [andb]. cbv iota.
  lia.
Qed.

(* the repaired behaviour (C03-F3): in an ORDINARY level-1 group -- one that does not start with a
   backslash -- every character counts at its own width, backslashes included *)
Lemma scan_plain_group : forall g level, Forall (fun c => is_brace c = false) g -> level <= max_level ->
  scan_go (g ++ [c_rbrace]) (S level) None = Ok (map (fun c => ([c], S level)) g ++ [([c_rbrace], level)]).
Proof.
  induction g as [|c g IH]; intros level Hg Hl.
  - cbn [app scan_go map]. change (is_lbrace c_rbrace) with false. change (is_rbrace c_rbrace) with true.
    cbn [andb Nat.ltb Nat.leb pred scan_go bind]. reflexivity.
  - inversion Hg as [|? ? Hc Hg']; subst. unfold is_brace in Hc. apply orb_false_elim in Hc as [El Er].
    cbn [app scan_go map]. rewrite El, Er. cbn [andb]. rewrite (IH level Hg' Hl). reflexivity.
Qed.

Lemma width_go_plain cw : forall g l z, Forall (fun c => is_brace c = false) g ->
  width_go cw (map (fun c => ([c], l)) g ++ [([c_rbrace], 0)]) false z =
  (fold_left (fun a c => a + cw c) g z + cw c_rbrace)%Z.
Proof.
  induction g as [|c g IH]; intros l z Hg; [reflexivity|].
  inversion Hg as [|? ? Hc Hg']; subst. unfold is_brace in Hc. apply orb_false_elim in Hc as [El _].
  cbn [map app width_go fold_left width_tok is_open1 andb]. rewrite El, andb_false_r.
  apply (IH l _ Hg').
Qed.

Lemma width_ordinary_group_lemma cw x inner : N.eqb x c_bslash = false ->
  Forall (fun c => is_brace c = false) (x :: inner) ->
  bibtex_width cw (c_lbrace :: x :: inner ++ [c_rbrace]) =
  Ok (cw c_lbrace + fold_left (fun a c => a + cw c) (x :: inner) 0 + cw c_rbrace)%Z.
Proof.
  intros Hx Hg. unfold bibtex_width, scan.
  inversion Hg as [|? ? Hc Hg']; subst. unfold is_brace in Hc. apply orb_false_elim in Hc as [El Er].
  cbn [scan_go]. change (is_lbrace c_lbrace) with true. cbn [Nat.eqb andb]. rewrite Hx, El, Er. cbv iota.
  change (Nat.ltb max_level 1) with false. cbn [andb]. cbv iota.
  pose proof (scan_plain_group inner 0 Hg' (Nat.le_0_l _)) as Hs.
  match goal with |- context [scan_go ?a 1 None] => change (scan_go a 1 None) with (scan_go (@app char inner [c_rbrace]) 1 None) end.
  rewrite Hs. cbn [bind].
  cbn [width_go width_tok is_open1 Nat.eqb andb]. change (is_lbrace c_lbrace) with true. cbv iota.
  rewrite Hx, El. cbn [andb]. cbv iota.
  rewrite (width_go_plain cw inner 1 _ Hg'). cbn [fold_left]. f_equal.
  rewrite (fold_left_shift cw inner (0 + cw c_lbrace + cw x)), (fold_left_shift cw inner (0 + cw x)). lia.
Qed.
