(* Proofs/RichWf.v -- invariants of constructed texts, and the exact (erase-free) theorems. *)
From Pybtex Require Import Base.Prelude Base.PyChar Base.PyStr Model.RtTypes Model.RichText
  Spec.Flat Spec.FlatOps Proofs.RichText Proofs.RichSlice Proofs.RichOps.

(* ------------------------------------------------------------------------------ *)
(* a generic preservation principle: a property of texts that holds of strings, passes to the
   parts and is re-established by `build` is preserved by every operation *)
Section PresMk.
  Variable P : rt -> Prop.
  Hypothesis HStr : forall s, P (RStr s).
  Hypothesis Hparts : forall t, P t -> Forall P (parts_of t).
  Hypothesis Hbuild : forall k ps, Forall P ps -> P (build k ps).

  Lemma P_unpack l : Forall P l -> Forall P (flat_map unpack l).
  Proof.
    induction 1 as [|t l Ht _ IH]; cbn; [constructor|]. apply Forall_app; split; [|exact IH].
    destruct t; try (constructor; [exact Ht|constructor]). exact (Hparts _ Ht).
  Qed.
  Lemma P_filter g l : Forall P l -> Forall P (filter g l).
  Proof. rewrite !Forall_forall. intros H y Hy. apply filter_In in Hy. now apply H. Qed.
  Lemma P_groups l : Forall P l -> Forall (Forall P) (groupby l).
  Proof.
    intro H. rewrite <- (groupby_concat l) in H. revert H. generalize (groupby l) as gs.
    induction gs as [|g gs IH]; cbn; intro H; [constructor|].
    apply Forall_app in H as [H1 H2]. constructor; [exact H1|now apply IH].
  Qed.
  Lemma P_flat_map_parts g : Forall P g -> Forall P (flat_map parts_of g).
  Proof. induction 1 as [|t l Ht _ IH]; cbn; [constructor|]. apply Forall_app; split; [now apply Hparts|exact IH]. Qed.

  Definition rec_pres (rec : kind -> list rt -> option rt) : Prop :=
    forall k raw v, Forall P raw -> rec k raw = Some v -> P v.

  Lemma merge_group_pres rec g a : rec_pres rec -> Forall P g -> merge_group rec g = Some a -> Forall P a.
  Proof.
    intros Hrec Hg Hm. destruct g as [|x [|y r]].
    - cbn in Hm. inversion Hm. constructor.
    - cbn in Hm. inversion Hm; subst. exact Hg.
    - unfold merge_group in Hm. remember (x :: y :: r) as g eqn:Eg.
      pose proof (P_flat_map_parts g Hg) as Hp.
      destruct (typeinfo x).
      + inversion Hm; subst. exact Hg.
      + inversion Hm; subst. constructor; [apply HStr|constructor].
      + destruct (rec KText _) as [t|] eqn:R; inversion Hm; subst. constructor; [eapply Hrec; eauto|constructor].
      + destruct (rec (KTag n) _) as [t|] eqn:R; inversion Hm; subst. constructor; [eapply Hrec; eauto|constructor].
      + destruct (rec (KHRef u e) _) as [t|] eqn:R; inversion Hm; subst. constructor; [eapply Hrec; eauto|constructor].
      + destruct (rec KProt _) as [t|] eqn:R; inversion Hm; subst. constructor; [eapply Hrec; eauto|constructor].
  Qed.
  Lemma merge_all_pres rec gs a : rec_pres rec -> Forall (Forall P) gs -> merge_all rec gs = Some a -> Forall P a.
  Proof.
    intros Hrec Hgs. revert a. induction Hgs as [|g gs Hg _ IH]; cbn; intros a Hm.
    - inversion Hm. constructor.
    - destruct (merge_group rec g) as [x|] eqn:G; [|discriminate].
      destruct (merge_all rec gs) as [y|] eqn:A; [|discriminate]. inversion Hm; subst.
      apply Forall_app; split; [eapply merge_group_pres; eauto|now apply IH].
  Qed.
  Lemma mk_pres fuel : rec_pres (mk fuel).
  Proof.
    induction fuel as [|f IH]; intros k raw v Hraw H; cbn in H; [discriminate|].
    destruct (merge_all (mk f) _) as [ps|] eqn:M; [|discriminate]. inversion H; subst.
    apply Hbuild. eapply merge_all_pres; [exact IH| |exact M].
    apply P_groups, P_unpack, P_filter, Hraw.
  Qed.
  Lemma mkc_pres k raw v : Forall P raw -> mkc k raw = Ok v -> P v.
  Proof.
    unfold mkc. destruct (mk _ k raw) as [t|] eqn:E; cbn; [|discriminate]. intros Hr H; inversion H; subst.
    eapply mk_pres; eauto.
  Qed.
End PresMk.

(* ... and more generally by every operation, for any property the constructor establishes *)
Section Pres.
  Variable P : rt -> Prop.
  Hypothesis HStr : forall s, P (RStr s).
  Hypothesis Hparts : forall t, P t -> Forall P (parts_of t).
  Hypothesis Hmkc : forall k raw v, Forall P raw -> mkc k raw = Ok v -> P v.

  Lemma create_similar_pres t ps v : Forall P ps -> create_similar t ps = Ok v -> P v.
  Proof. apply Hmkc. Qed.

  Lemma mapM_pres {X} (g : X -> res rt) l ys :
    (forall x y, In x l -> g x = Ok y -> P y) -> mapM g l = Ok ys -> Forall P ys.
  Proof.
    revert ys. induction l as [|x l IH]; cbn; intros ys H Hm.
    - inversion Hm. constructor.
    - apply bind_ok in Hm as [y [Hy Hm]]. apply bind_ok in Hm as [ys' [Hys Hm]]. inversion Hm; subst.
      constructor; [eapply H; eauto|]. apply IH; [|exact Hys]. intros; eapply H; eauto.
  Qed.

  Lemma case_conv_pres up f : forall t v, P t -> case_conv f up t = Ok v -> P v.
  Proof.
    induction f as [|f IH]; intros t v Ht H; [discriminate|]. cbn [case_conv] in H.
    assert (G : forall w, (do ps <- mapM (case_conv f up) (parts_of t); create_similar t ps) = Ok w -> P w).
    { intros w Hw. apply bind_ok in Hw as [ps [Hps Hw]]. eapply create_similar_pres; [|exact Hw].
      eapply mapM_pres; [|exact Hps]. intros x y Hin Hy. eapply IH; [|exact Hy].
      pose proof (Hparts _ Ht) as Hp. rewrite Forall_forall in Hp. now apply Hp. }
    destruct t; try (now apply G); inversion H; subst; try exact Ht. apply HStr.
  Qed.

  Section Gi.
    Variable gi : rt -> key -> res rt.
    Hypothesis Hgi : forall p k x, P p -> gi p k = Ok x -> P x.
    Lemma sbp_pres ps : Forall P ps -> forall len sl rs, slice_beginning_parts gi ps len sl = Ok rs -> Forall P rs.
    Proof.
      induction 1 as [|p ps Hp _ IH]; intros len sl rs H; cbn [slice_beginning_parts] in H.
      - inversion H. constructor.
      - destruct (_ >? _)%Z.
        + apply bind_ok in H as [x [Hx H]]. inversion H; subst. constructor; [eapply Hgi; eauto|constructor].
        + apply bind_ok in H as [r [Hr H]]. inversion H; subst. constructor; [exact Hp|eapply IH; eauto].
    Qed.
    Lemma sep_pres ps : Forall P ps -> forall len sl rs, slice_end_parts gi ps len sl = Ok rs -> Forall P rs.
    Proof.
      induction 1 as [|p ps Hp _ IH]; intros len sl rs H; cbn [slice_end_parts] in H.
      - inversion H. constructor.
      - destruct (_ >? _)%Z.
        + apply bind_ok in H as [x [Hx H]]. inversion H; subst. constructor; [eapply Hgi; eauto|constructor].
        + apply bind_ok in H as [r [Hr H]]. inversion H; subst. constructor; [exact Hp|eapply IH; eauto].
    Qed.
    Lemma slice_beginning_pres t sl v : P t -> slice_beginning gi t sl = Ok v -> P v.
    Proof.
      intros Ht H. unfold slice_beginning in H. apply bind_ok in H as [ps [Hps H]].
      eapply create_similar_pres; [|exact H]. eapply sbp_pres; [|exact Hps]. now apply Hparts.
    Qed.
    Lemma slice_end_pres t sl v : P t -> slice_end gi t sl = Ok v -> P v.
    Proof.
      intros Ht H. unfold slice_end in H. apply bind_ok in H as [ps [Hps H]].
      eapply create_similar_pres; [|exact H]. apply Forall_rev. eapply sep_pres; [|exact Hps].
      apply Forall_rev. now apply Hparts.
    Qed.
  End Gi.

  Lemma getitem_pres f : forall t k v, P t -> getitem f t k = Ok v -> P v.
  Proof.
    induction f as [|f IH]; intros t k v Ht H; [discriminate|]. cbn [getitem] in H.
    assert (G : forall s e w, (do a <- slice_end (getitem f) t s; slice_beginning (getitem f) a e) = Ok w -> P w).
    { intros s e w Hw. apply bind_ok in Hw as [a [Ha Hw]].
      eapply slice_beginning_pres; [exact IH| |exact Hw]. eapply slice_end_pres; [exact IH|exact Ht|exact Ha]. }
    destruct t.
    - destruct k; [destruct (_ && _)%bool|]; inversion H; apply HStr.
    - destruct k; [destruct (_ || _)%bool|destruct (pyslice _ _ _)]; inversion H; subst; try exact Ht; apply HStr.
    - cbv zeta in H. destruct k; [|destruct (slice_indices _ _ _)]; eapply G; exact H.
    - cbv zeta in H. destruct k; [|destruct (slice_indices _ _ _)]; eapply G; exact H.
    - cbv zeta in H. destruct k; [|destruct (slice_indices _ _ _)]; eapply G; exact H.
    - cbv zeta in H. destruct k; [|destruct (slice_indices _ _ _)]; eapply G; exact H.
  Qed.

  Lemma add_pres a b v : P a -> P b -> add a b = Ok v -> P v.
  Proof. intros Ha Hb. apply Hmkc. repeat constructor; assumption. Qed.
  Lemma append_pres t x v : P t -> P x -> append t x = Ok v -> P v.
  Proof.
    intros Ht Hx. unfold append. destruct (is_multipart t); [|now apply add_pres].
    apply create_similar_pres. apply Forall_app; split; [now apply Hparts|constructor; [exact Hx|constructor]].
  Qed.
  Lemma join_list_pres s ps : P s -> Forall P ps -> Forall P (join_list s ps).
  Proof.
    intros Hs. induction 1 as [|p ps Hp Hps IH]; cbn [join_list]; [constructor|].
    destruct ps; [constructor; [exact Hp|constructor]|]. constructor; [exact Hp|]. constructor; [exact Hs|exact IH].
  Qed.
  Lemma rjoin_pres s ps v : P s -> Forall P ps -> rjoin s ps = Ok v -> P v.
  Proof. intros Hs Hps. apply Hmkc. now apply join_list_pres. Qed.
  Lemma capfirst_pres t v : P t -> capfirst t = Ok v -> P v.
  Proof.
    intros Ht H. unfold capfirst in H.
    assert (G : forall w, (do a <- getitem_c t (KSlice None (Some 1%Z)); do a' <- case_c true a;
                do b <- getitem_c t (KSlice (Some 1%Z) None); add a' b) = Ok w -> P w).
    { intros w Hw. apply bind_ok in Hw as [a [Ha Hw]]. apply bind_ok in Hw as [a' [Ha' Hw]].
      apply bind_ok in Hw as [b [Hb Hw]]. eapply add_pres; [| |exact Hw].
      - eapply case_conv_pres; [|exact Ha']. eapply getitem_pres; [exact Ht|exact Ha].
      - eapply getitem_pres; [exact Ht|exact Hb]. }
    destruct t; try (now apply G). inversion H; subst. exact Ht.
  Qed.
  Lemma capitalize_pres t v : P t -> capitalize t = Ok v -> P v.
  Proof.
    intros Ht H. unfold capitalize in H.
    assert (G : forall w, (do a <- getitem_c t (KSlice None (Some 1%Z)); do a' <- case_c true a;
                do b <- getitem_c t (KSlice (Some 1%Z) None); do b' <- case_c false b; add a' b') = Ok w -> P w).
    { intros w Hw. apply bind_ok in Hw as [a [Ha Hw]]. apply bind_ok in Hw as [a' [Ha' Hw]].
      apply bind_ok in Hw as [b [Hb Hw]]. apply bind_ok in Hw as [b' [Hb' Hw]]. eapply add_pres; [| |exact Hw].
      - eapply case_conv_pres; [|exact Ha']. eapply getitem_pres; [exact Ht|exact Ha].
      - eapply case_conv_pres; [|exact Hb']. eapply getitem_pres; [exact Ht|exact Hb]. }
    destruct t; try (now apply G). inversion H; subst. exact Ht.
  Qed.
End Pres.

(* ------------------------------------------------------------------------------ *)
(* well-formedness (no deprecated tag name) is such a property; on well-formed texts `erase`
   is the identity, so every theorem "up to erase" is an exact one *)
Lemma wf_parts t : wf t -> Forall wf (parts_of t).
Proof.
  unfold wf. destruct t; cbn [wfb parts_of]; intro H.
  - constructor; [reflexivity|constructor].
  - constructor.
  - apply Forall_forall. now apply forallb_forall.
  - apply andb_prop in H as [_ H]. apply Forall_forall. now apply forallb_forall.
  - apply Forall_forall. now apply forallb_forall.
  - apply Forall_forall. now apply forallb_forall.
Qed.
Lemma wf_build k ps : Forall wf ps -> wf (build k ps).
Proof.
  intro H. assert (F : forallb wfb ps = true) by (apply forallb_forall; now apply Forall_forall).
  unfold wf. destruct k; cbn [build wfb]; try exact F. rewrite F.
  change (check_name n) with (canon_name n). rewrite canon_name_idem, str_eqb_refl. reflexivity.
Qed.
Lemma wf_str s : wf (RStr s). Proof. reflexivity. Qed.

Lemma wf_flat t : wf t -> erase (flat t) = flat t.
Proof.
  unfold wf. induction t using rt_ind'; cbn [wfb]; intro W.
  - unfold erase. cbn [flat]. now rewrite map_map.
  - reflexivity.
  - change (flat_e (RText ps) = concat (map flat ps)). rewrite flat_e_text. f_equal.
    apply map_ext_in. intros p Hp. rewrite Forall_forall in H. apply H; [exact Hp|].
    rewrite forallb_forall in W. now apply W.
  - apply andb_prop in W as [Wn W]. destruct (str_eqb_spec (canon_name n) n) as [En|]; [|discriminate].
    change (flat_e (RTag n ps) = push_m (MTag n) (concat (map flat ps))). rewrite flat_e_tag, En. f_equal. f_equal.
    apply map_ext_in. intros p Hp. rewrite Forall_forall in H. apply H; [exact Hp|].
    rewrite forallb_forall in W. now apply W.
  - change (flat_e (RHRef u e ps) = push_m (MHRef u e) (concat (map flat ps))). rewrite flat_e_href. f_equal. f_equal.
    apply map_ext_in. intros p Hp. rewrite Forall_forall in H. apply H; [exact Hp|].
    rewrite forallb_forall in W. now apply W.
  - change (flat_e (RProt ps) = push_m MProt (concat (map flat ps))). rewrite flat_e_prot. f_equal. f_equal.
    apply map_ext_in. intros p Hp. rewrite Forall_forall in H. apply H; [exact Hp|].
    rewrite forallb_forall in W. now apply W.
Qed.

Lemma wf_flat_list raw : Forall wf raw -> erase (concat (map flat raw)) = concat (map flat raw).
Proof.
  intro H. rewrite flat_e_parts. f_equal. apply map_ext_in. intros p Hp.
  rewrite Forall_forall in H. apply wf_flat, H, Hp.
Qed.

Notation PW := (mkc_pres wf wf_str wf_parts wf_build).
Definition wf_mkc k raw v : Forall wf raw -> mkc k raw = Ok v -> wf v := PW k raw v.

Theorem ctor_flat_x k raw : Forall wf raw -> exists v, mkc k raw = Ok v /\ wf v /\
  flat v = pushk_e k (concat (map flat raw)).
Proof.
  intro W. destruct (ctor_flat_e k raw) as [v [Hv Hf]]. exists v. split; [exact Hv|].
  assert (Wv : wf v) by (eapply PW; eauto). split; [exact Wv|].
  rewrite <- (wf_flat v Wv), Hf, erase_pushk, wf_flat_list by exact W. reflexivity.
Qed.

Theorem case_flat_x up t : wf t -> exists v, case_c up t = Ok v /\ wf v /\
  flat v = map (conv_pair up) (flat t).
Proof.
  intro W. destruct (case_flat_e up t) as [v [Hv Hf]]. exists v. split; [exact Hv|].
  assert (Wv : wf v) by (eapply (case_conv_pres wf wf_str wf_parts wf_mkc); eauto). split; [exact Wv|].
  rewrite <- (wf_flat v Wv), Hf, conv_erase, wf_flat by exact W. reflexivity.
Qed.

Theorem slice_flat_x t i j : wf t -> exists v, getitem_c t (KSlice i j) = Ok v /\ wf v /\
  flat v = pyslice (flat t) i j.
Proof.
  intro W. destruct (slice_flat_e t i j) as [v [Hv Hf]]. exists v. split; [exact Hv|].
  assert (Wv : wf v) by (eapply (getitem_pres wf wf_str wf_parts wf_mkc); eauto). split; [exact Wv|].
  rewrite <- (wf_flat v Wv), Hf, wf_flat by exact W. reflexivity.
Qed.

Theorem index_flat_x t i p : wf t -> pyindex (flat t) i = Some p ->
  exists v, getitem_c t (KInt i) = Ok v /\ wf v /\ flat v = [p].
Proof.
  intros W Hp. rewrite <- (wf_flat t W) in Hp. destruct (index_flat_e t i p Hp) as [v [Hv Hf]].
  exists v. split; [exact Hv|].
  assert (Wv : wf v) by (eapply (getitem_pres wf wf_str wf_parts wf_mkc); eauto). split; [exact Wv|].
  now rewrite <- (wf_flat v Wv).
Qed.

Theorem add_flat_x a b : wf a -> wf b -> exists v, add a b = Ok v /\ wf v /\ flat v = flat a ++ flat b.
Proof.
  intros Wa Wb. destruct (add_flat_e a b) as [v [Hv Hf]]. exists v. split; [exact Hv|].
  assert (Wv : wf v) by exact (add_pres wf wf_mkc a b v Wa Wb Hv). split; [exact Wv|].
  rewrite <- (wf_flat v Wv), Hf, erase_app, !wf_flat by assumption. reflexivity.
Qed.

Lemma wf_top t : wf t -> top_e t = top_markup t.
Proof.
  unfold wf, top_e. destruct t; cbn; try reflexivity. intro H. apply andb_prop in H as [H _].
  destruct (str_eqb_spec (canon_name name) name) as [->|]; [reflexivity|discriminate].
Qed.

Theorem append_flat_x t x : wf t -> wf x -> exists v, append t x = Ok v /\ wf v /\
  flat v = flat t ++ push_top t (flat x).
Proof.
  intros Wt Wx. destruct (append_flat_e t x) as [v [Hv Hf]]. exists v. split; [exact Hv|].
  assert (Wv : wf v) by exact (append_pres wf wf_parts wf_mkc t x v Wt Wx Hv). split; [exact Wv|].
  rewrite <- (wf_flat v Wv), Hf, erase_app, erase_push_opt, (wf_top t Wt), !wf_flat by assumption. reflexivity.
Qed.

Theorem join_flat_x sep ps : wf sep -> Forall wf ps -> exists v, rjoin sep ps = Ok v /\ wf v /\
  flat v = join_flat (flat sep) (map flat ps).
Proof.
  intros Ws Wp. destruct (join_flat_e sep ps) as [v [Hv Hf]]. exists v. split; [exact Hv|].
  assert (Wv : wf v) by exact (rjoin_pres wf wf_mkc sep ps v Ws Wp Hv). split; [exact Wv|].
  rewrite <- (wf_flat v Wv), Hf, erase_join, (wf_flat sep Ws), map_map. f_equal.
  apply map_ext_in. intros p Hp. rewrite Forall_forall in Wp. apply wf_flat, Wp, Hp.
Qed.

Theorem capfirst_flat_x t : wf t -> exists v, capfirst t = Ok v /\ wf v /\ flat v = capfirst_flat (flat t).
Proof.
  intro W. destruct (capfirst_flat_e t) as [v [Hv Hf]]. exists v. split; [exact Hv|].
  assert (Wv : wf v) by (eapply (capfirst_pres wf wf_str wf_parts wf_mkc); eauto). split; [exact Wv|].
  rewrite <- (wf_flat v Wv), Hf, wf_flat by exact W. reflexivity.
Qed.
Theorem capitalize_flat_x t : wf t -> exists v, capitalize t = Ok v /\ wf v /\ flat v = capitalize_flat (flat t).
Proof.
  intro W. destruct (capitalize_flat_e t) as [v [Hv Hf]]. exists v. split; [exact Hv|].
  assert (Wv : wf v) by (eapply (capitalize_pres wf wf_str wf_parts wf_mkc); eauto). split; [exact Wv|].
  rewrite <- (wf_flat v Wv), Hf, wf_flat by exact W. reflexivity.
Qed.

(* ------------------------------------------------------------------------------ *)
(* markup stays attached: the sequence of markup stacks (external flags included) *)
Lemma stacks_conv up f : stacks (map (conv_pair up) f) = stacks f.
Proof.
  unfold stacks. rewrite map_map. apply map_ext. intro p. unfold conv_pair. now destruct (protected p).
Qed.
Lemma stacks_app a b : stacks (a ++ b) = stacks a ++ stacks b.
Proof. apply map_app. Qed.

Theorem markup_preserved t : wf t ->
  (forall up v, case_c up t = Ok v -> stacks (flat v) = stacks (flat t)) /\
  (forall v, capfirst t = Ok v -> stacks (flat v) = stacks (flat t)) /\
  (forall v, capitalize t = Ok v -> stacks (flat v) = stacks (flat t)) /\
  (forall i j v, getitem_c t (KSlice i j) = Ok v -> stacks (flat v) = pyslice (stacks (flat t)) i j) /\
  (forall x v, wf x -> add t x = Ok v -> stacks (flat v) = stacks (flat t) ++ stacks (flat x)) /\
  (forall x v, wf x -> append t x = Ok v ->
     stacks (flat v) = stacks (flat t) ++ stacks (push_top t (flat x))) /\
  (forall k v, mkc k [t] = Ok v -> stacks (flat v) = stacks (pushk_e k (flat t))).
Proof.
  intro W. repeat split.
  - intros up v Hv. destruct (case_flat_x up t W) as [v' [Hv' [_ Hf]]]. rewrite Hv in Hv'. inversion Hv'; subst.
    now rewrite Hf, stacks_conv.
  - intros v Hv. destruct (capfirst_flat_x t W) as [v' [Hv' [_ Hf]]]. rewrite Hv in Hv'. inversion Hv'; subst.
    rewrite Hf. unfold capfirst_flat. rewrite stacks_app, stacks_conv, <- stacks_app. now rewrite firstn_skipn.
  - intros v Hv. destruct (capitalize_flat_x t W) as [v' [Hv' [_ Hf]]]. rewrite Hv in Hv'. inversion Hv'; subst.
    rewrite Hf. unfold capitalize_flat. rewrite stacks_app, !stacks_conv, <- stacks_app. now rewrite firstn_skipn.
  - intros i j v Hv. destruct (slice_flat_x t i j W) as [v' [Hv' [_ Hf]]]. rewrite Hv in Hv'. inversion Hv'; subst.
    rewrite Hf. unfold stacks. now rewrite pyslice_map.
  - intros x v Wx Hv. destruct (add_flat_x t x W Wx) as [v' [Hv' [_ Hf]]]. rewrite Hv in Hv'. inversion Hv'; subst.
    now rewrite Hf, stacks_app.
  - intros x v Wx Hv. destruct (append_flat_x t x W Wx) as [v' [Hv' [_ Hf]]]. rewrite Hv in Hv'. inversion Hv'; subst.
    now rewrite Hf, stacks_app.
  - intros k v Hv. destruct (ctor_flat_x k [t] ltac:(constructor; [exact W|constructor])) as [v' [Hv' [_ Hf]]].
    rewrite Hv in Hv'. inversion Hv'; subst. rewrite Hf. cbn [map concat]. now rewrite app_nil_r.
Qed.
