(* Proofs/Bst.v -- lemmas about the BST stack machine model (Model/Bst.v). *)
From Pybtex Require Import Base.Prelude Base.PyChar Base.PyStr Model.BibtexStr Model.Wrap Model.Bst.
From Coq Require Import Permutation Sorted.

Lemma set_stack_id st : set_stack st (st_stack st) = st.
Proof. destruct st; reflexivity. Qed.

Section P.
  Variable fmt_name : str -> str -> res str.
  Variable cw : char -> Z.

  Notation exec := (exec fmt_name cw).
  Notation while_loop := (while_loop fmt_name cw).
  Notation step := (step fmt_name cw).
  Notation exec_obj := (exec_obj fmt_name cw).
  Notation builtin_step := (builtin_step fmt_name cw).

  Lemma exec_nil fuel st : exec fuel st [] = Ok st.
  Proof. destruct fuel; reflexivity. Qed.

  (* ------------------------------------------------------------------------------ *)
  (* fuel monotonicity                                                               *)
  Definition below (f g : state -> list instr -> res state) :=
    forall st p, f st p <> OutOfFuel -> g st p = f st p.
  Definition below_wh (f g : state -> value -> value -> res state) :=
    forall st p q, f st p q <> OutOfFuel -> g st p q = f st p q.

  Lemma bind_mono {A B} (r r' : res A) (k k' : A -> res B) :
    (r <> OutOfFuel -> r' = r) -> (forall a, k a <> OutOfFuel -> k' a = k a) ->
    bind r k <> OutOfFuel -> bind r' k' = bind r k.
  Proof.
    intros Hr Hk H. destruct r as [a|c l| |]; cbn in *.
    - rewrite Hr by discriminate. cbn. auto.
    - rewrite Hr by discriminate. reflexivity.
    - rewrite Hr by discriminate. reflexivity.
    - congruence.
  Qed.

  Lemma exec_value_mono rec rec' st v : below rec rec' ->
    exec_value rec st v <> OutOfFuel -> exec_value rec' st v = exec_value rec st v.
  Proof. intros H. destruct v; cbn; auto. Qed.

  Lemma builtin_mono rec rec' wh wh' b st : below rec rec' -> below_wh wh wh' ->
    builtin_step rec wh b st <> OutOfFuel -> builtin_step rec' wh' b st = builtin_step rec wh b st.
  Proof.
    intros Hr Hw. destruct b; try (intros _; reflexivity).
    - (* call.type$ *)
      cbn. destruct (st_cur st) as [[k e]|]; auto.
      destruct (vlookup (e_type e) (st_vars st)); auto.
      match goal with |- context [match ?x with Some _ => _ | None => _ end] => destruct x end; auto.
    - (* if$ *)
      cbn. destruct (pop st) as [[f1 s1]|? ?| |]; cbn; auto.
      destruct (pop s1) as [[f2 s2]|? ?| |]; cbn; auto.
      destruct (pop s2) as [[p s3]|? ?| |]; cbn; auto.
      destruct p; auto. destruct (0 <? z)%Z; apply exec_value_mono; auto.
    - (* while$ *)
      cbn. destruct (pop st) as [[f1 s1]|? ?| |]; cbn; auto.
      destruct (pop s1) as [[f2 s2]|? ?| |]; cbn; auto.
  Qed.

  Lemma exec_obj_mono rec rec' wh wh' o st : below rec rec' -> below_wh wh wh' ->
    exec_obj rec wh o st <> OutOfFuel -> exec_obj rec' wh' o st = exec_obj rec wh o st.
  Proof.
    intros Hr Hw. destruct o; try (intros _; reflexivity); cbn; auto.
    apply builtin_mono; auto.
  Qed.

  Lemma step_mono rec rec' wh wh' st i : below rec rec' -> below_wh wh wh' ->
    step rec wh st i <> OutOfFuel -> step rec' wh' st i = step rec wh st i.
  Proof.
    intros Hr Hw. destruct i; try (intros _; reflexivity). cbn.
    destruct (vlookup name (st_vars st)); auto. apply exec_obj_mono; auto.
  Qed.

  Lemma exec_succ n : below (exec n) (exec (S n)) /\ below_wh (while_loop n) (while_loop (S n)).
  Proof.
    induction n as [|n [IHe IHw]].
    - split.
      + intros st [|i r] H; [reflexivity|]. cbn in H. congruence.
      + intros st p q H. cbn in H. congruence.
    - split.
      + intros st [|i r] H; [reflexivity|].
        change (exec (S (S n)) st (i :: r)) with
          (bind (step (exec (S n)) (while_loop (S n)) st i) (fun st' => exec (S n) st' r)).
        change (exec (S n) st (i :: r)) with
          (bind (step (exec n) (while_loop n) st i) (fun st' => exec n st' r)) in *.
        apply bind_mono; auto. apply step_mono; auto.
      + intros st p q H.
        change (while_loop (S (S n)) st p q) with
          (bind (exec_value (exec (S n)) st p) (fun st1 =>
           bind (pop st1) (fun '(v, st2) =>
             match v with
             | VInt z => if (z <=? 0)%Z then Ok st2
                         else bind (exec_value (exec (S n)) st2 q) (fun st3 => while_loop (S n) st3 p q)
             | _ => Crash
             end))).
        change (while_loop (S n) st p q) with
          (bind (exec_value (exec n) st p) (fun st1 =>
           bind (pop st1) (fun '(v, st2) =>
             match v with
             | VInt z => if (z <=? 0)%Z then Ok st2
                         else bind (exec_value (exec n) st2 q) (fun st3 => while_loop n st3 p q)
             | _ => Crash
             end))) in *.
        apply bind_mono; auto.
        * apply exec_value_mono; auto.
        * intros st1. apply bind_mono; auto. intros [v st2].
          destruct v; auto. destruct (z <=? 0)%Z; auto.
          apply bind_mono; auto. apply exec_value_mono; auto.
  Qed.

  Lemma exec_fuel_mono n m st p : n <= m -> exec n st p <> OutOfFuel -> exec m st p = exec n st p.
  Proof.
    induction 1 as [|m Hle IH]; [reflexivity|].
    intros H. rewrite <- (IH H). apply (proj1 (exec_succ m)). rewrite (IH H). exact H.
  Qed.

  Lemma while_fuel_mono n m st p q : n <= m ->
    while_loop n st p q <> OutOfFuel -> while_loop m st p q = while_loop n st p q.
  Proof.
    induction 1 as [|m Hle IH]; [reflexivity|].
    intros H. rewrite <- (IH H). apply (proj2 (exec_succ m)). rewrite (IH H). exact H.
  Qed.

  (* the result of a run does not depend on how much fuel it was given *)
  Lemma exec_deterministic n m st p r1 r2 :
    exec n st p = r1 -> exec m st p = r2 -> r1 <> OutOfFuel -> r2 <> OutOfFuel -> r1 = r2.
  Proof.
    intros H1 H2 N1 N2. subst.
    destruct (Nat.le_ge_cases n m) as [L|L].
    - symmetry. apply exec_fuel_mono; auto.
    - apply exec_fuel_mono; auto.
  Qed.

  (* ------------------------------------------------------------------------------ *)
  (* calling conventions                                                             *)
  Lemma pop_cons st v r : st_stack st = v :: r -> pop st = Ok (v, set_stack st r).
  Proof. unfold pop. intros ->. reflexivity. Qed.
  Lemma pop_push v st : pop (push v st) = Ok (v, st).
  Proof. destruct st; reflexivity. Qed.
  Lemma pop_set_stack st v r : pop (set_stack st (v :: r)) = Ok (v, set_stack st r).
  Proof. reflexivity. Qed.

  Lemma exec_cons_builtin n st name b r : vlookup name (st_vars st) = Some (OBuiltin b) ->
    exec (S n) st (IId name :: r) =
    bind (builtin_step (exec n) (while_loop n) b st) (fun st' => exec n st' r).
  Proof. intros H. cbn [Bst.exec Bst.step]. rewrite H. reflexivity. Qed.
  Lemma exec_cons_id n st name o r : vlookup name (st_vars st) = Some o ->
    exec (S n) st (IId name :: r) =
    bind (exec_obj (exec n) (while_loop n) o st) (fun st' => exec n st' r).
  Proof. intros H. cbn [Bst.exec Bst.step]. rewrite H. reflexivity. Qed.
  Lemma exec_cons_int n st z r : exec (S n) st (IInt z :: r) = exec n (push (VInt z) st) r.
  Proof. reflexivity. Qed.
  Lemma exec_cons_str n st s r : exec (S n) st (IStr s :: r) = exec n (push (VStr s) st) r.
  Proof. reflexivity. Qed.
  Lemma exec_cons_fun n st b r : exec (S n) st (IFun b :: r) = exec n (push (VFun b) st) r.
  Proof. reflexivity. Qed.

  (* ------------------------------------------------------------------------------ *)
  (* per-built-in stack laws (for every way of running nested code: rec, wh)          *)
  Section Laws.
    Variable rec : state -> list instr -> res state.
    Variable wh : state -> value -> value -> res state.
    Notation bs := (builtin_step rec wh).

    Lemma swap_law st a b r : st_stack st = a :: b :: r ->
      bs B_swap st = Ok (set_stack st (b :: a :: r)).
    Proof. intros H. cbn. rewrite (pop_cons _ _ _ H). cbn. reflexivity. Qed.

    Lemma duplicate_law st a r : st_stack st = a :: r ->
      bs B_duplicate st = Ok (set_stack st (a :: a :: r)).
    Proof. intros H. cbn. rewrite (pop_cons _ _ _ H). reflexivity. Qed.

    Lemma pop_law st a r : st_stack st = a :: r -> bs B_pop st = Ok (set_stack st r).
    Proof. intros H. cbn. rewrite (pop_cons _ _ _ H). reflexivity. Qed.

    Lemma underflow_law st b : st_stack st = [] ->
      In b [B_gt; B_lt; B_eq; B_concat; B_assign; B_plus; B_minus; B_add_period; B_change_case;
            B_chr_to_int; B_duplicate; B_empty; B_format_name; B_if; B_int_to_chr; B_int_to_str;
            B_missing; B_num_names; B_pop; B_purify; B_substring; B_swap; B_text_length;
            B_text_prefix; B_top; B_warning; B_while; B_width; B_write] ->
      bs b st = PyErr E_BST (-1).
    Proof.
      intros H Hin. cbn in Hin.
      repeat (destruct Hin as [<-|Hin]; [cbn; unfold pop; rewrite H; reflexivity|]). contradiction.
    Qed.

    (* arithmetic: the second element from the top is the left operand *)
    Lemma plus_law st x y r : st_stack st = VInt x :: VInt y :: r ->
      bs B_plus st = Ok (set_stack st (VInt (y + x) :: r)).
    Proof. intros H. cbn. rewrite (pop_cons _ _ _ H). reflexivity. Qed.
    Lemma minus_law st x y r : st_stack st = VInt x :: VInt y :: r ->
      bs B_minus st = Ok (set_stack st (VInt (y - x) :: r)).
    Proof. intros H. cbn. rewrite (pop_cons _ _ _ H). reflexivity. Qed.
    Lemma plus_comm st x y r :
      bs B_plus (set_stack st (VInt x :: VInt y :: r)) = bs B_plus (set_stack st (VInt y :: VInt x :: r)).
    Proof. cbn. rewrite Z.add_comm. reflexivity. Qed.

    (* comparison: 1 / 0 for "second OP top" *)
    Lemma less_law st x y r : st_stack st = VInt x :: VInt y :: r ->
      bs B_lt st = Ok (set_stack st (VInt (if (y <? x)%Z then 1 else 0) :: r)).
    Proof. intros H. cbn. rewrite (pop_cons _ _ _ H). reflexivity. Qed.
    Lemma more_law st x y r : st_stack st = VInt x :: VInt y :: r ->
      bs B_gt st = Ok (set_stack st (VInt (if (x <? y)%Z then 1 else 0) :: r)).
    Proof. intros H. cbn. rewrite (pop_cons _ _ _ H). reflexivity. Qed.
    Lemma equals_int_law st x y r : st_stack st = VInt x :: VInt y :: r ->
      bs B_eq st = Ok (set_stack st (VInt (if (y =? x)%Z then 1 else 0) :: r)).
    Proof. intros H. cbn. rewrite (pop_cons _ _ _ H). reflexivity. Qed.
    Lemma equals_str_law st s t r : st_stack st = VStr s :: VStr t :: r ->
      bs B_eq st = Ok (set_stack st (VInt (if str_eqb t s then 1 else 0) :: r)).
    Proof. intros H. cbn. rewrite (pop_cons _ _ _ H). reflexivity. Qed.

    (* concatenation: second ++ top *)
    Lemma concat_law st s t r : st_stack st = VStr s :: VStr t :: r ->
      bs B_concat st = Ok (set_stack st (VStr (t ++ s) :: r)).
    Proof. intros H. cbn. rewrite (pop_cons _ _ _ H). reflexivity. Qed.

    (* if$: the integer decides on "> 0"; only the chosen branch is run *)
    Lemma if_true st f1 f2 z r : st_stack st = f1 :: f2 :: VInt z :: r -> (0 < z)%Z ->
      bs B_if st = exec_value rec (set_stack st r) f2.
    Proof.
      intros H Hz. cbn. rewrite (pop_cons _ _ _ H). cbn.
      apply Z.ltb_lt in Hz. rewrite Hz. reflexivity.
    Qed.
    Lemma if_false st f1 f2 z r : st_stack st = f1 :: f2 :: VInt z :: r -> (z <= 0)%Z ->
      bs B_if st = exec_value rec (set_stack st r) f1.
    Proof.
      intros H Hz. cbn. rewrite (pop_cons _ _ _ H). cbn.
      apply Z.ltb_ge in Hz. rewrite Hz. reflexivity.
    Qed.

    (* while$ pops the body, then the condition, and loops *)
    Lemma while_law st f p r : st_stack st = f :: p :: r ->
      bs B_while st = wh (set_stack st r) p f.
    Proof. intros H. cbn. rewrite (pop_cons _ _ _ H). reflexivity. Qed.
  End Laws.

  Lemma while_unfold n st p f :
    while_loop (S n) st p f =
    bind (exec_value (exec n) st p) (fun st1 =>
    bind (pop st1) (fun '(v, st2) =>
      match v with
      | VInt z => if (z <=? 0)%Z then Ok st2
                  else bind (exec_value (exec n) st2 f) (fun st3 => while_loop n st3 p f)
      | _ => Crash
      end)).
  Proof. reflexivity. Qed.

  (* program-level corollaries *)
  Lemma swap_swap n st name a b r :
    vlookup name (st_vars st) = Some (OBuiltin B_swap) -> st_stack st = a :: b :: r ->
    exec (S (S n)) st [IId name; IId name] = Ok st.
  Proof.
    intros Hv Hs. rewrite (exec_cons_builtin _ _ _ _ _ Hv), (swap_law _ _ _ _ _ _ Hs). cbn [bind].
    rewrite (exec_cons_builtin _ _ name B_swap) by exact Hv.
    rewrite (swap_law _ _ _ b a r) by reflexivity. cbn [bind]. rewrite exec_nil.
    f_equal. rewrite <- Hs. destruct st; reflexivity.
  Qed.

  Lemma duplicate_pop n st dup pp a r :
    vlookup dup (st_vars st) = Some (OBuiltin B_duplicate) ->
    vlookup pp (st_vars st) = Some (OBuiltin B_pop) -> st_stack st = a :: r ->
    exec (S (S n)) st [IId dup; IId pp] = Ok st.
  Proof.
    intros Hd Hp Hs. rewrite (exec_cons_builtin _ _ _ _ _ Hd), (duplicate_law _ _ _ _ _ Hs). cbn [bind].
    rewrite (exec_cons_builtin _ _ pp B_pop) by exact Hp.
    rewrite (pop_law _ _ _ a (a :: r)) by reflexivity. cbn [bind]. rewrite exec_nil.
    f_equal. rewrite <- Hs. destruct st; reflexivity.
  Qed.

  Lemma concat_assoc n st star a b c :
    vlookup star (st_vars st) = Some (OBuiltin B_concat) ->
    exec (5 + n) st [IStr a; IStr b; IId star; IStr c; IId star] = Ok (push (VStr (a ++ b ++ c)) st) /\
    exec (5 + n) st [IStr a; IStr b; IStr c; IId star; IId star] = Ok (push (VStr (a ++ b ++ c)) st).
  Proof.
    intros Hv. split.
    - cbn [plus]. rewrite !exec_cons_str.
      rewrite (exec_cons_builtin _ _ star B_concat) by exact Hv.
      rewrite (concat_law _ _ _ b a (st_stack st)) by reflexivity. cbn [bind].
      rewrite exec_cons_str. rewrite (exec_cons_builtin _ _ star B_concat) by exact Hv.
      rewrite (concat_law _ _ _ c (a ++ b) (st_stack st)) by reflexivity. cbn [bind].
      rewrite exec_nil, <- app_assoc. reflexivity.
    - cbn [plus]. rewrite !exec_cons_str.
      rewrite (exec_cons_builtin _ _ star B_concat) by exact Hv.
      rewrite (concat_law _ _ _ c b (VStr a :: st_stack st)) by reflexivity. cbn [bind].
      rewrite (exec_cons_builtin _ _ star B_concat) by exact Hv.
      rewrite (concat_law _ _ _ (b ++ c) a (st_stack st)) by reflexivity. cbn [bind].
      rewrite exec_nil. reflexivity.
  Qed.

  (* ------------------------------------------------------------------------------ *)
  (* assignment                                                                      *)
  Lemma alookup_aset_same {V} k (v : V) l : alookup str_eqb k (aset str_eqb k v l) = Some v.
  Proof.
    induction l as [|[k' v'] l IH]; cbn.
    - rewrite str_eqb_refl. reflexivity.
    - destruct (str_eqb k k') eqn:E; cbn; rewrite E; auto.
  Qed.
  Lemma alookup_aset_other {V} k k2 (v : V) l : k2 <> k ->
    alookup str_eqb k2 (aset str_eqb k v l) = alookup str_eqb k2 l.
  Proof.
    intros N. induction l as [|[k' v'] l IH]; cbn.
    - destruct (str_eqb_spec k2 k); [contradiction|reflexivity].
    - destruct (str_eqb_spec k k') as [->|N2]; cbn.
      + destruct (str_eqb_spec k2 k'); [contradiction|reflexivity].
      + destruct (str_eqb k2 k'); auto.
  Qed.

  Section Assign.
    Variable rec : state -> list instr -> res state.
    Variable wh : state -> value -> value -> res state.
    Notation bs := (builtin_step rec wh).
    Notation eo := (exec_obj rec wh).

    (* global integer: after  v 'x :=  the variable x pushes v; every other variable is untouched *)
    Lemma assign_then_read_global_int st x old z r :
      st_stack st = VRef x :: VInt z :: r -> alookup str_eqb x (st_vars st) = Some (OInt old) ->
      exists st', bs B_assign st = Ok st' /\ st_stack st' = r /\
        alookup str_eqb x (st_vars st') = Some (OInt (VInt z)) /\
        eo (OInt (VInt z)) st' = Ok (push (VInt z) st') /\
        (forall y, y <> x -> alookup str_eqb y (st_vars st') = alookup str_eqb y (st_vars st)) /\
        st_evars st' = st_evars st.
    Proof.
      intros Hs Hv. cbn. rewrite (pop_cons _ _ _ Hs). cbn. rewrite Hv.
      eexists; split; [reflexivity|]. cbn. repeat split.
      - apply alookup_aset_same.
      - intros y Hy. apply alookup_aset_other; auto.
    Qed.

    Lemma assign_then_read_global_str st x old s r :
      st_stack st = VRef x :: VStr s :: r -> alookup str_eqb x (st_vars st) = Some (OStr old) ->
      exists st', bs B_assign st = Ok st' /\ st_stack st' = r /\
        alookup str_eqb x (st_vars st') = Some (OStr (VStr s)) /\
        eo (OStr (VStr s)) st' = Ok (push (VStr s) st') /\
        (forall y, y <> x -> alookup str_eqb y (st_vars st') = alookup str_eqb y (st_vars st)) /\
        st_evars st' = st_evars st.
    Proof.
      intros Hs Hv. cbn. rewrite (pop_cons _ _ _ Hs). cbn. rewrite Hv.
      eexists; split; [reflexivity|]. cbn. repeat split.
      - apply alookup_aset_same.
      - intros y Hy. apply alookup_aset_other; auto.
    Qed.

    (* entry integer: the value is stored in the frame of the current citation only *)
    Lemma frame_aset_same st key f : frame (set_evars st (aset str_eqb key f (st_evars st))) key = f.
    Proof. unfold frame. cbn. rewrite alookup_aset_same. reflexivity. Qed.
    Lemma frame_aset_other st key key2 f : key2 <> key ->
      frame (set_evars st (aset str_eqb key f (st_evars st))) key2 = frame st key2.
    Proof. intros N. unfold frame. cbn. rewrite alookup_aset_other; auto. Qed.

    Lemma assign_then_read_entry_int st x name key e z r :
      st_stack st = VRef x :: VInt z :: r -> alookup str_eqb x (st_vars st) = Some (OEInt name) ->
      st_cur st = Some (key, e) ->
      exists st', bs B_assign st = Ok st' /\ st_stack st' = r /\ st_vars st' = st_vars st /\
        st_cur st' = st_cur st /\
        eo (OEInt name) st' = Ok (push (VInt z) st') /\
        (* entry_var_frames_disjoint: the frames of all other citations are unchanged *)
        (forall key2, key2 <> key -> frame st' key2 = frame st key2) /\
        (forall name2, name2 <> name ->
           alookup str_eqb name2 (frame st' key) = alookup str_eqb name2 (frame st key)).
    Proof.
      intros Hs Hv Hc. cbn. rewrite (pop_cons _ _ _ Hs). cbn. rewrite Hv. cbn. rewrite Hc.
      eexists; split; [reflexivity|]. cbn. repeat split.
      - exact Hc.
      - rewrite Hc. unfold frame at 1. cbn. rewrite alookup_aset_same, alookup_aset_same. reflexivity.
      - intros key2 N. unfold frame at 1. cbn. rewrite alookup_aset_other; auto.
      - intros name2 N. unfold frame at 1. cbn. rewrite alookup_aset_same.
        apply alookup_aset_other; auto.
    Qed.

    Lemma assign_then_read_entry_str st x name key e s r :
      st_stack st = VRef x :: VStr s :: r -> alookup str_eqb x (st_vars st) = Some (OEStr name) ->
      st_cur st = Some (key, e) ->
      exists st', bs B_assign st = Ok st' /\ st_stack st' = r /\ st_vars st' = st_vars st /\
        st_cur st' = st_cur st /\
        eo (OEStr name) st' = Ok (push (VStr s) st') /\
        (forall key2, key2 <> key -> frame st' key2 = frame st key2) /\
        (forall name2, name2 <> name ->
           alookup str_eqb name2 (frame st' key) = alookup str_eqb name2 (frame st key)).
    Proof.
      intros Hs Hv Hc. cbn. rewrite (pop_cons _ _ _ Hs). cbn. rewrite Hv. cbn. rewrite Hc.
      eexists; split; [reflexivity|]. cbn. repeat split.
      - exact Hc.
      - rewrite Hc. unfold frame at 1. cbn. rewrite alookup_aset_same, alookup_aset_same. reflexivity.
      - intros key2 N. unfold frame at 1. cbn. rewrite alookup_aset_other; auto.
      - intros name2 N. unfold frame at 1. cbn. rewrite alookup_aset_same.
        apply alookup_aset_other; auto.
    Qed.

    (* assignment is typed: an integer variable refuses a string (Python: ValueError) *)
    Lemma assign_type_error st x old s r :
      st_stack st = VRef x :: VStr s :: r -> alookup str_eqb x (st_vars st) = Some (OInt old) ->
      bs B_assign st = Crash.
    Proof. intros Hs Hv. cbn. rewrite (pop_cons _ _ _ Hs). cbn. rewrite Hv. reflexivity. Qed.

    (* write$ / newline$ *)
    Lemma write_law st v r : st_stack st = v :: r ->
      bs B_write st = Ok (set_out (set_stack st r) (st_buf st ++ [v]) (st_lines st)).
    Proof. intros H. cbn. rewrite (pop_cons _ _ _ H). reflexivity. Qed.

    Lemma join_buffer_strs l : join_buffer (map VStr l) = Ok (concat l).
    Proof. induction l as [|s l IH]; cbn; [reflexivity|]. rewrite IH. reflexivity. Qed.

    Lemma write_newline_spec st buffer w :
      st_buf st = map VStr buffer -> wrap (concat buffer) 79 [c_space; c_space] = Ok w ->
      exists st', bs B_newline st = Ok st' /\ st_buf st' = [] /\
        st_lines st' = st_lines st ++ [w; [c_nl]] /\ st_stack st' = st_stack st /\
        output_of st' = output_of st ++ w ++ [c_nl].
    Proof.
      intros Hb Hw. cbn. unfold do_newline. rewrite Hb, join_buffer_strs. cbn.
      unfold default_width, default_indent. rewrite Hw. cbn.
      eexists; split; [reflexivity|]. cbn. repeat split.
      unfold output_of. rewrite concat_app. cbn [concat]. rewrite app_nil_r. reflexivity.
    Qed.
  End Assign.

  (* ------------------------------------------------------------------------------ *)
  (* ITERATE / REVERSE: the function runs once per citation, in (reverse) citation order.
     Made observable with the function { cite$ write$ }: the output buffer receives the keys. *)
  Lemma iterate_cite_write n f cite write keys : forall st d,
    vlookup f (st_vars st) = Some (OFun [IId cite; IId write]) ->
    vlookup cite (st_vars st) = Some (OBuiltin B_cite) ->
    vlookup write (st_vars st) = Some (OBuiltin B_write) ->
    st_db st = Some d ->
    (forall k, In k keys -> alookup str_eqb k (r_entries d) <> None) ->
    exists st', iterate fmt_name cw (3 + n) f keys st = Ok st' /\
      st_buf st' = st_buf st ++ map VStr keys /\ st_stack st' = st_stack st /\
      st_lines st' = st_lines st /\ st_vars st' = st_vars st /\ st_db st' = st_db st /\
      st_cites st' = st_cites st.
  Proof.
    induction keys as [|k keys IH]; intros st d Hf Hc Hw Hd Hall.
    - exists st. cbn. rewrite app_nil_r. repeat split.
    - cbn [Bst.iterate]. rewrite Hd.
      destruct (alookup str_eqb k (r_entries d)) as [e|] eqn:E;
        [|exfalso; apply (Hall k); [left; reflexivity|exact E]].
      set (st1 := set_cur st (Some (k, e))).
      assert (E1 : exec (3 + n) st1 [IId f] =
                   Ok (set_out st1 (st_buf st ++ [VStr k]) (st_lines st))).
      { change (3 + n) with (S (S (S n))).
        rewrite (exec_cons_id _ _ f (OFun [IId cite; IId write])) by exact Hf.
        cbn [Bst.exec_obj]. rewrite (exec_cons_builtin _ _ cite B_cite) by exact Hc.
        cbn [Bst.builtin_step]. change (st_cur st1) with (Some (k, e)). cbn [bind].
        rewrite (exec_cons_builtin _ _ write B_write) by exact Hw.
        rewrite (write_law _ _ _ (VStr k) (st_stack st)) by reflexivity. cbn [bind].
        rewrite exec_nil. cbn [bind]. rewrite exec_nil.
        unfold st1. destruct st; reflexivity. }
      rewrite E1. cbn [bind].
      destruct (IH (set_out st1 (st_buf st ++ [VStr k]) (st_lines st)) d Hf Hc Hw Hd) as (st' & R & B & S1 & L1 & V1 & D1 & C1).
      { intros k' Hk'. apply Hall. right. exact Hk'. }
      exists st'. split; [exact R|]. rewrite B, S1, L1, V1, D1, C1. cbn.
      rewrite <- app_assoc. repeat split; auto.
  Qed.

  Lemma iterate_order n st d f cite write :
    vlookup f (st_vars st) = Some (OFun [IId cite; IId write]) ->
    vlookup cite (st_vars st) = Some (OBuiltin B_cite) ->
    vlookup write (st_vars st) = Some (OBuiltin B_write) ->
    st_db st = Some d ->
    (forall k, In k (st_cites st) -> alookup str_eqb k (r_entries d) <> None) ->
    exists st', run_command fmt_name cw (3 + n) st (Cmd nm_iterate [[IId f]]) = Ok st' /\
      st_buf st' = st_buf st ++ map VStr (st_cites st) /\ st_cites st' = st_cites st.
  Proof.
    intros Hf Hc Hw Hd Hall.
    destruct (iterate_cite_write n f cite write (st_cites st) st d Hf Hc Hw Hd Hall)
      as (st' & R & B & _ & _ & _ & _ & C).
    exists st'. split; [|split; assumption].
    unfold run_command. cbn [lower map nm_iterate to_lower]. cbn -[iterate vlookup plus]. rewrite Hf. exact R.
  Qed.

  Lemma reverse_order n st d f cite write :
    vlookup f (st_vars st) = Some (OFun [IId cite; IId write]) ->
    vlookup cite (st_vars st) = Some (OBuiltin B_cite) ->
    vlookup write (st_vars st) = Some (OBuiltin B_write) ->
    st_db st = Some d ->
    (forall k, In k (st_cites st) -> alookup str_eqb k (r_entries d) <> None) ->
    exists st', run_command fmt_name cw (3 + n) st (Cmd nm_reverse [[IId f]]) = Ok st' /\
      st_buf st' = st_buf st ++ map VStr (rev (st_cites st)) /\ st_cites st' = st_cites st.
  Proof.
    intros Hf Hc Hw Hd Hall.
    destruct (iterate_cite_write n f cite write (rev (st_cites st)) st d Hf Hc Hw Hd)
      as (st' & R & B & _ & _ & _ & _ & C).
    { intros k Hk. apply Hall. apply in_rev. exact Hk. }
    exists st'. split; [|split; assumption].
    unfold run_command. cbn -[iterate vlookup plus rev]. rewrite Hf. exact R.
  Qed.
End P.
