(* Proofs/Bst.v -- lemmas about the BST stack machine model (Model/Bst.v). *)
From Pybtex Require Import Base.Prelude Base.PyChar Base.PyStr Model.BibtexStr Model.Wrap Model.Bst.

Section P.
  Variable fmt_name : str -> str -> res str.
  Variable cw : char -> Z.

  Lemma exec_nil fuel st : exec fmt_name cw fuel st [] = Ok st.
  Proof. destruct fuel; reflexivity. Qed.
End P.
