(* Proofs/CitationsReach.v -- filtered reading keeps everything reachable through cross-reference chains *)
From Pybtex Require Import Base.Prelude Base.PyChar Base.PyStr Model.Citations Spec.Citations
  Proofs.CitationsBase Proofs.Citations Proofs.CitationsFiltered.

Lemma first_entry_db_find q db : first_entry q db = db_find q db.
Proof. reflexivity. Qed.

(* q is wanted by the time the reader meets its first entry *)
Definition wanted_in_time (db : list entry) (cites : list key) (q : key) : Prop :=
  forall pre e post, db = pre ++ e :: post -> existsb (keyb q) (map fst pre) = false -> keyb q (fst e) = true ->
    want_entry (run (bd_init (Some cites)) pre) q = true.

Lemma want_init_cited_by cites q : cited_by cites q = true -> want_entry (bd_init (Some cites)) q = true.
Proof. unfold cited_by, want_entry. cbn. now rewrite !cis_mem_of_list. Qed.

Lemma split_after {X} (f : X -> bool) a x b pre e post :
  a ++ x :: b = pre ++ e :: post -> existsb f (a ++ [x]) = false -> f e = true -> exists mid, pre = a ++ x :: mid.
Proof.
  revert pre. induction a as [|z a IH]; intros pre Heq Hn He; cbn in *.
  - destruct pre as [|y pre]; cbn in Heq; injection Heq as -> Heq.
    + apply orb_false_elim in Hn as [Hn _]. congruence.
    + now exists pre.
  - apply orb_false_elim in Hn as [Hz Hn]. destruct pre as [|y pre]; cbn in Heq; injection Heq as -> Heq.
    + congruence.
    + destruct (IH pre Heq Hn He) as [mid ->]. now exists mid.
Qed.

Lemma existsb_map_fst p (l : list entry) : existsb (fun x => keyb p (fst x)) l = existsb (keyb p) (map fst l).
Proof. induction l as [|x l IH]; cbn; [reflexivity|]. now rewrite IH. Qed.

Lemma wanted_in_time_found db cites q : wanted_in_time db cites q ->
  found_like q (bd_entries (read_db (Some cites) db)) (db_find q db).
Proof.
  intros W. destruct (db_find q db) as [e|] eqn:Hf.
  - destruct (db_find_split _ _ _ Hf) as (pre & post & -> & Hpre & Hk).
    specialize (W pre e post eq_refl Hpre Hk).
    rewrite read_db_run, run_app.
    pose proof (run_next q (e :: post) (run (bd_init (Some cites)) pre) W (run_absent pre (bd_init (Some cites)) q eq_refl Hpre)) as G.
    unfold db_find in G at 1. cbn [find] in G. rewrite Hk in G. exact G.
  - apply db_find_none in Hf. rewrite read_db_run. cbn. now apply run_absent.
Qed.

Lemma reach_wanted db cites : ancestors_follow_descendants db cites ->
  forall q, reach db cites q -> wanted_in_time db cites q.
Proof.
  intros Hafd q Hr. induction Hr as [q Hc|c ck p Hrc IH Hf].
  - intros pre e post _ _ _. apply want_entry_run, want_init_cited_by, Hc.
  - destruct (cited_by cites p) eqn:Hp.
    { intros pre e post _ _ _. apply want_entry_run, want_init_cited_by, Hp. }
    rewrite first_entry_db_find in Hf.
    destruct (db_find_split _ _ _ Hf) as (prec & postc & Hdb & Hprec & Hk). cbn [fst] in Hk.
    assert (Hprec' : existsb (keyb ck) (map fst prec) = false).
    { rewrite keyb_sym in Hk. now rewrite (existsb_keyb_congr _ _ _ Hk). }
    (* p does not occur up to and including c's first entry *)
    assert (Hord : existsb (keyb p) (map fst (prec ++ [(ck, Some p)])) = false).
    { pose proof (first_index_here c prec (ck, Some p) postc Hprec Hk) as Hi.
      assert (Hi' : first_index c db = Some (length prec)) by (rewrite Hdb; exact Hi).
      clear Hi. rename Hi' into Hi.
      destruct (first_index p db) as [j|] eqn:Hj.
      - destruct (Hafd c ck p _ j Hrc Hf Hi Hj) as [H|H]; [congruence|].
        assert (Heq : forall x : entry, prec ++ x :: postc = (prec ++ [x]) ++ postc) by (intros; rewrite <- app_assoc; reflexivity).
        rewrite Hdb, Heq in Hj. apply (first_index_after _ _ _ _ Hj). rewrite app_length. cbn. lia.
      - apply first_index_none in Hj. rewrite Hdb in Hj. rewrite map_app, existsb_app in Hj |- *. cbn in *.
        apply orb_false_elim in Hj as [H1 H2]. apply orb_false_elim in H2 as [H2 _]. now rewrite H1, H2. }
    intros pre e post Hdb' Hpre He.
    assert (Hsp : exists mid, pre = prec ++ (ck, Some p) :: mid).
    { apply (split_after (fun x : entry => keyb p (fst x)) prec (ck, Some p) postc pre e post).
      - now rewrite <- Hdb, <- Hdb'.
      - rewrite existsb_map_fst. exact Hord.
      - exact He. }
    destruct Hsp as [mid ->].
    assert (Heq : forall x : entry, prec ++ x :: mid = (prec ++ [x]) ++ mid) by (intros; rewrite <- app_assoc; reflexivity).
    rewrite Heq, run_app. apply want_entry_run. rewrite run_app. cbn [run fold_left].
    fold (run (bd_init (Some cites)) prec). apply want_crossref.
    + rewrite <- (want_entry_congr _ c ck Hk). exact (IH prec (ck, Some p) postc Hdb Hprec Hk).
    + apply run_absent; [reflexivity|exact Hprec'].
Qed.

Lemma found_like_file q E db : found_like q E (db_find q db) ->
  ed_mem q E = existsb (keyb q) (map fst db) /\
  (forall e, first_entry q db = Some e -> exists k', ed_get q E = Some (k', snd e) /\ keyb k' (fst e) = true).
Proof.
  rewrite <- first_entry_db_find. intros H. split.
  - destruct (first_entry q db) as [e|] eqn:Hf; cbn in H.
    + destruct H as (k' & Hg & _). rewrite ed_mem_get, Hg. symmetry. apply existsb_exists.
      unfold first_entry in Hf. apply find_some in Hf as [Hin Hk]. exists (fst e). split; [now apply in_map|exact Hk].
    + rewrite H. symmetry. now apply db_find_none.
  - intros e He. rewrite He in H. exact H.
Qed.

Theorem reader_keeps_reachable_lemma db cites : ancestors_follow_descendants db cites ->
  forall q, reach db cites q ->
  ed_mem q (bd_entries (read_db (Some cites) db)) = existsb (keyb q) (map fst db) /\
  (forall e, first_entry q db = Some e ->
     exists k', ed_get q (bd_entries (read_db (Some cites) db)) = Some (k', snd e) /\ keyb k' (fst e) = true).
Proof. intros Hafd q Hr. apply found_like_file, wanted_in_time_found, (reach_wanted db cites Hafd q Hr). Qed.

Theorem filtered_chain_lemma db cites : ancestors_follow_descendants db cites ->
  forall n q, reach db cites q ->
  map lower (chain (bd_entries (read_db (Some cites) db)) n q) = map lower (chain (bd_entries (read_db None db)) n q).
Proof.
  intros Hafd. induction n as [|n IH]; intros q Hr; cbn [chain]; [reflexivity|].
  pose proof (wanted_in_time_found db cites q (reach_wanted db cites Hafd q Hr)) as Hf.
  pose proof (found_all db q) as Ha.
  destruct (db_find q db) as [[ck cr]|] eqn:Hdb.
  - destruct Hf as (k1 & -> & Hk1), Ha as (k2 & -> & Hk2). cbn [snd fst] in *.
    assert (Hl : lower k1 = lower k2).
    { apply keyb_true. rewrite keyb_sym in Hk2. exact (keyb_trans _ _ _ Hk1 Hk2). }
    destruct cr as [p|]; cbn [map]; rewrite Hl; [|reflexivity]. f_equal. apply IH.
    apply (reach_step db cites q ck p Hr). exact Hdb.
  - rewrite (found_like_none _ _ Hf), (found_like_none _ _ Ha). reflexivity.
Qed.

(* non-vacuity / the rule is needed: a chain child -> parent -> grandparent, only the child cited *)
Definition chain_db : list entry :=
  [(s2l "c", Some (s2l "P")); (s2l "p", Some (s2l "G")); (s2l "g", None)].
Lemma chain_example :
  ed_keys (bd_entries (read_db (Some [s2l "c"]) chain_db)) = [s2l "c"; s2l "p"; s2l "g"] /\
  chain (bd_entries (read_db (Some [s2l "c"]) chain_db)) 4 (s2l "c") = [s2l "c"; s2l "p"; s2l "g"] /\
  ed_keys (bd_entries (read_db (Some [s2l "c"]) (rev chain_db))) = [s2l "c"].
Proof. vm_compute. auto. Qed.
Lemma chain_db_afd : ancestors_follow_descendants chain_db [s2l "c"].
Proof.
  intros c ck p i j _ Hf Hi Hj. right.
  unfold first_entry, chain_db in Hf. unfold chain_db in Hi. cbn [find fst first_index] in Hf, Hi.
  destruct (keyb c (s2l "c")) eqn:E1.
  - injection Hf as <- <-. injection Hi as <-. vm_compute in Hj. injection Hj as <-. lia.
  - destruct (keyb c (s2l "p")) eqn:E2.
    + injection Hf as <- <-. cbn in Hi. injection Hi as <-. vm_compute in Hj. injection Hj as <-. lia.
    + destruct (keyb c (s2l "g")); discriminate.
Qed.
