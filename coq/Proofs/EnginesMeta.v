(* Proofs/EnginesMeta.v -- the metamorphic statements of C06 at the level of the entry points:
   adding / removing uncited entries does not change what format_from_string(s) returns. *)
From Pybtex Require Import Base.Prelude Base.PyChar Base.PyStr Model.BibtexStr Model.Wrap Model.Bst Model.Engines.
From Pybtex Require Import Model.Citations Proofs.CitationsBase Proofs.EnginesSort Proofs.EnginesExec Proofs.Engines Proofs.EnginesOrder.
From Coq Require Import Permutation.

Lemma existsb_perm {X} (p : X -> bool) a b : Permutation a b -> existsb p a = existsb p b.
Proof.
  induction 1; cbn; try congruence.
  - destruct (p y), (p x); reflexivity.
Qed.

Lemma never_wanted_perm db c c' k : Permutation c c' -> never_wanted db c k -> never_wanted db c' k.
Proof.
  intros Hp [H1 H2]. unfold never_wanted.
  rewrite <- (existsb_perm (keyb k) (c ++ xrefs db) (c' ++ xrefs db)), <- (existsb_perm (keyb star) (c ++ xrefs db) (c' ++ xrefs db));
    auto using Permutation_app_tail.
Qed.

Section Meta.
  Variable fmt_name : str -> str -> res str.
  Variable cw : char -> Z.
  Variable fuel : nat.

  Lemma split_at_read_pre : forall prog pre post, split_at_read prog = (pre, post) ->
    forallb (fun c => negb (is_read_cmd c)) pre = true /\ prog = pre ++ post.
  Proof.
    induction prog as [|c r IH]; intros pre post H; cbn in H.
    - inversion H; subst. auto.
    - destruct (is_read c) eqn:E.
      + inversion H; subst. auto.
      + destruct (split_at_read r) as [a b]. inversion H; subst.
        destruct (IH _ _ eq_refl) as [H1 H2]. split.
        * cbn. rewrite H1. destruct c as [name args]. cbn in E |- *. now rewrite E.
        * cbn. now rewrite <- H2.
  Qed.

  (* the citations READ is given are a permutation of the citations the engine was called with *)
  Lemma engine_run_uncited fs prog cites f db1 e db2 fmt m :
    never_wanted (db1 ++ db2) cites (b_key e) ->
    engine_run fmt_name cw fuel fs prog cites [BObj f (db1 ++ e :: db2)] fmt m =
    engine_run fmt_name cw fuel fs prog cites [BObj f (db1 ++ db2)] fmt m.
  Proof.
    intros Hn. unfold engine_run.
    destruct (split_at_read prog) as [pre post] eqn:Es.
    destruct (split_at_read_pre _ _ _ Es) as [Hpre _].
    destruct (run fmt_name cw fuel (initial_state cites []) pre) as [st1| | |] eqn:Er; cbn [bind]; try reflexivity.
    destruct (run_no_read_cites _ _ _ _ _ _ Hpre Er) as (Hp & _ & _). cbn in Hp.
    destruct post as [|[name args] post]; [reflexivity|]. destruct args; [|reflexivity].
    cbn [parse_files]. destruct (Nat.eqb f fmt); cbn [bind]; [|reflexivity].
    rewrite !app_nil_r. rewrite engine_read_uncited; [reflexivity|].
    eapply never_wanted_perm; [|exact Hn]. now apply Permutation_sym.
  Qed.

  Lemma format_from_string_uncited fs f db1 e db2 sty cites bf m :
    never_wanted (db1 ++ db2) cites (b_key e) ->
    format_from_string fmt_name cw fuel fs (f, db1 ++ e :: db2) sty (Some cites) bf m =
    format_from_string fmt_name cw fuel fs (f, db1 ++ db2) sty (Some cites) bf m.
  Proof.
    intros Hn. unfold format_from_string, format_from_strings, format_from_files. cbn [map fst snd].
    destruct (fs_get fs (sty ++ s_bst)) as [[l|p|g es|t]|]; cbn [bind]; try reflexivity.
    now rewrite (engine_run_uncited fs p cites f db1 e db2 _ m Hn).
  Qed.
End Meta.

(* ---- the same for re-ordering the file *)
Lemma reach_cites_perm c c' db k : Permutation c c' -> reach c db k -> reach c' db k.
Proof.
  intros Hp. induction 1 as [k Hk|? ? ? ? ? IH]; [|eapply reach_xref; eauto].
  apply reach_cite. now rewrite <- (existsb_perm (keyb k) c c' Hp).
Qed.
Lemma nostar_cites_perm c c' db : Permutation c c' -> nostar c db -> nostar c' db.
Proof.
  unfold nostar. intros Hp H. rewrite <- H. symmetry. apply existsb_perm. now apply Permutation_app_tail.
Qed.
Lemma children_first_cites_perm c c' db : Permutation c c' -> children_first c db -> children_first c' db.
Proof.
  intros Hp H l1 e l2 x p Hdb Hx Hr Hxp Hk.
  destruct (H l1 e l2 x p Hdb Hx (reach_cites_perm _ _ _ _ (Permutation_sym Hp) Hr) Hxp Hk) as [H1|H1]; [now left|right].
  now rewrite <- (existsb_perm (keyb (b_key e)) c c' Hp).
Qed.

Section MetaOrder.
  Variable fmt_name : str -> str -> res str.
  Variable cw : char -> Z.
  Variable fuel : nat.

  Lemma engine_run_reorder fs prog cites f db db' fmt m :
    Permutation db db' -> NoDup (map lkey db) -> nostar cites db ->
    children_first cites db -> children_first cites db' ->
    engine_run fmt_name cw fuel fs prog cites [BObj f db] fmt m =
    engine_run fmt_name cw fuel fs prog cites [BObj f db'] fmt m.
  Proof.
    intros Hp Hnd Hs Hc Hc'. unfold engine_run.
    destruct (split_at_read prog) as [pre post] eqn:Es.
    destruct (split_at_read_pre _ _ _ Es) as [Hpre _].
    destruct (run fmt_name cw fuel (initial_state cites []) pre) as [st1| | |] eqn:Er; cbn [bind]; try reflexivity.
    destruct (run_no_read_cites _ _ _ _ _ _ Hpre Er) as (Hpc & _ & _). cbn in Hpc. apply Permutation_sym in Hpc.
    destruct post as [|[name args] post]; [reflexivity|]. destruct args; [|reflexivity].
    cbn [parse_files]. destruct (Nat.eqb f fmt); cbn [bind]; [|reflexivity].
    rewrite !app_nil_r. rewrite (engine_read_reorder db db' (st_cites st1) m); auto.
    - eapply nostar_cites_perm; eauto.
    - eapply children_first_cites_perm; eauto.
    - eapply children_first_cites_perm; eauto.
  Qed.

  Lemma format_from_string_reorder fs f db db' sty cites bf m :
    Permutation db db' -> NoDup (map lkey db) -> nostar cites db ->
    children_first cites db -> children_first cites db' ->
    format_from_string fmt_name cw fuel fs (f, db) sty (Some cites) bf m =
    format_from_string fmt_name cw fuel fs (f, db') sty (Some cites) bf m.
  Proof.
    intros Hp Hnd Hs Hc Hc'. unfold format_from_string, format_from_strings, format_from_files. cbn [map fst snd].
    destruct (fs_get fs (sty ++ s_bst)) as [[l|p|g es|t]|]; cbn [bind]; try reflexivity.
    now rewrite (engine_run_reorder fs p cites f db db' _ m Hp Hnd Hs Hc Hc').
  Qed.
End MetaOrder.
