(* Proofs/BackendsHtmlWf.v -- HTML output is well-formed: every element opened is closed, in
   order; character data has no bare angle bracket or ampersand (property C09) *)
From Pybtex Require Import Base.Prelude Base.PyChar Base.PyStr Model.RtTypes Model.Backends
  Proofs.Backends Proofs.BackendsMd Proofs.BackendsHtml.
Local Open Scope N_scope.

Inductive wstate :=
| WText | WTagStart | WOpen (acc : str) | WAttrs (name : str) | WAttrQ (name : str) | WClose (acc : str) | WEnt.

(* a reader that keeps the stack of open elements.  None: a bare > or a < inside a tag, an element
   name that is not alphanumeric, a closing tag that does not match the innermost open element,
   a malformed entity, a < or & inside a tag; a double quote toggles "inside an attribute value" *)
Fixpoint wf_scan (stk : list str) (st : wstate) (s : str) : option (list str * wstate) :=
  match s with
  | [] => Some (stk, st)
  | c :: r =>
    match st with
    | WText =>
      if c =? c_lt then wf_scan stk WTagStart r
      else if c =? c_amp then wf_scan stk WEnt r
      else if c =? c_gt then None
      else wf_scan stk WText r
    | WTagStart =>
      if c =? 47 then wf_scan stk (WClose []) r
      else if is_alnum c then wf_scan stk (WOpen [c]) r else None
    | WOpen acc =>
      if c =? c_gt then wf_scan (rev acc :: stk) WText r
      else if c =? c_space then wf_scan stk (WAttrs (rev acc)) r
      else if is_alnum c then wf_scan stk (WOpen (c :: acc)) r else None
    | WAttrs name =>       (* between attributes *)
      if c =? c_gt then wf_scan (name :: stk) WText r
      else if c =? c_quote then wf_scan stk (WAttrQ name) r
      else if (c =? c_lt) || (c =? c_amp) then None else wf_scan stk (WAttrs name) r
    | WAttrQ name =>       (* inside a double-quoted attribute value *)
      if c =? c_quote then wf_scan stk (WAttrs name) r
      else if (c =? c_lt) || (c =? c_amp) then None else wf_scan stk (WAttrQ name) r
    | WClose acc =>
      if c =? c_gt then
        match stk with
        | top :: stk' => if str_eqb top (rev acc) then wf_scan stk' WText r else None
        | [] => None
        end
      else if is_alnum c then wf_scan stk (WClose (c :: acc)) r else None
    | WEnt =>
      if c =? c_semi then wf_scan stk WText r
      else if is_alnum c || (c =? c_hash) then wf_scan stk WEnt r else None
    end
  end.

Definition wellformed (s : str) : Prop := wf_scan [] WText s = Some ([], WText).
Definition wellformed_b (s : str) : bool :=
  match wf_scan [] WText s with Some ([], WText) => true | _ => false end.

Lemma wellformed_b_spec s : wellformed_b s = true -> wellformed s.
Proof.
  unfold wellformed_b, wellformed. destruct (wf_scan [] WText s) as [[[|x stk] st]|]; try discriminate.
  destruct st; try discriminate. reflexivity.
Qed.

Lemma wf_app a : forall stk st b,
  wf_scan stk st (a ++ b) =
  match wf_scan stk st a with Some (stk', st') => wf_scan stk' st' b | None => None end.
Proof.
  induction a as [|c a IH]; intros stk st b; [reflexivity|].
  cbn [app wf_scan]. destruct st.
  - destruct (c =? c_lt); [apply IH|]. destruct (c =? c_amp); [apply IH|]. destruct (c =? c_gt); [reflexivity|apply IH].
  - destruct (c =? 47); [apply IH|]. destruct (is_alnum c); [apply IH|reflexivity].
  - destruct (c =? c_gt); [apply IH|]. destruct (c =? c_space); [apply IH|]. destruct (is_alnum c); [apply IH|reflexivity].
  - destruct (c =? c_gt); [apply IH|]. destruct (c =? c_quote); [apply IH|].
    destruct ((c =? c_lt) || (c =? c_amp)); [reflexivity|apply IH].
  - destruct (c =? c_quote); [apply IH|]. destruct ((c =? c_lt) || (c =? c_amp)); [reflexivity|apply IH].
  - destruct (c =? c_gt).
    + destruct stk as [|top stk']; [reflexivity|]. destruct (str_eqb top (rev acc)); [apply IH|reflexivity].
    + destruct (is_alnum c); [apply IH|reflexivity].
  - destruct (c =? c_semi); [apply IH|]. destruct (is_alnum c || (c =? c_hash)); [apply IH|reflexivity].
Qed.

(* frame: a successful scan never looks below the stack it started with *)
Lemma wf_frame s : forall stk st stk' st' sigma,
  wf_scan stk st s = Some (stk', st') -> wf_scan (stk ++ sigma) st s = Some (stk' ++ sigma, st').
Proof.
  induction s as [|c s IH]; intros stk st stk' st' sigma H.
  - cbn in *. injection H as <- <-. reflexivity.
  - cbn [wf_scan] in *. destruct st.
    + destruct (c =? c_lt); [apply IH; exact H|]. destruct (c =? c_amp); [apply IH; exact H|].
      destruct (c =? c_gt); [discriminate|apply IH; exact H].
    + destruct (c =? 47); [apply IH; exact H|]. destruct (is_alnum c); [apply IH; exact H|discriminate].
    + destruct (c =? c_gt); [apply (IH (rev acc :: stk)); exact H|].
      destruct (c =? c_space); [apply IH; exact H|]. destruct (is_alnum c); [apply IH; exact H|discriminate].
    + destruct (c =? c_gt); [apply (IH (name :: stk)); exact H|].
      destruct (c =? c_quote); [apply IH; exact H|].
      destruct ((c =? c_lt) || (c =? c_amp)); [discriminate|apply IH; exact H].
    + destruct (c =? c_quote); [apply IH; exact H|].
      destruct ((c =? c_lt) || (c =? c_amp)); [discriminate|apply IH; exact H].
    + destruct (c =? c_gt).
      * destruct stk as [|top stk0]; [discriminate|]. cbn [app].
        destruct (str_eqb top (rev acc)); [apply IH; exact H|discriminate].
      * destruct (is_alnum c); [apply IH; exact H|discriminate].
    + destruct (c =? c_semi); [apply IH; exact H|].
      destruct (is_alnum c || (c =? c_hash)); [apply IH; exact H|discriminate].
Qed.

Lemma wellformed_at s sigma : wellformed s -> wf_scan sigma WText s = Some (sigma, WText).
Proof. intros H. apply (wf_frame s [] WText [] WText sigma) in H. exact H. Qed.

Lemma wellformed_nil : wellformed [].
Proof. reflexivity. Qed.

Lemma wellformed_app a b : wellformed a -> wellformed b -> wellformed (a ++ b).
Proof. unfold wellformed. intros Ha Hb. rewrite wf_app, Ha. exact Hb. Qed.

(* ---- escaped text ---- *)
Lemma wellformed_xesc c : wellformed (xesc c).
Proof.
  unfold xesc, wellformed.
  destruct (c =? c_amp) eqn:E1; [reflexivity|].
  destruct (c =? c_gt) eqn:E2; [reflexivity|].
  destruct (c =? c_lt) eqn:E3; [reflexivity|].
  cbn [wf_scan]. rewrite E1, E2, E3. reflexivity.
Qed.

Lemma wellformed_xml_escape s : wellformed (xml_escape s).
Proof.
  rewrite xml_escape_flat. induction s as [|c s IH]; [reflexivity|].
  cbn [flat_map]. apply wellformed_app; [apply wellformed_xesc|exact IH].
Qed.

(* ---- element names ---- *)
Definition xml_name (n : str) : bool := negb (is_empty n) && forallb is_alnum n.

Lemma alnum_not c : is_alnum c = true -> (c =? c_gt) = false /\ (c =? c_space) = false /\ (c =? 47) = false /\ (c =? c_lt) = false.
Proof.
  intros H. repeat split.
  all: match goal with |- (?x =? ?k) = false => destruct (N.eqb_spec x k) as [->|]; [vm_compute in H; discriminate|reflexivity] end.
Qed.

Lemma scan_open_name n : forall stk acc r, forallb is_alnum n = true ->
  wf_scan stk (WOpen acc) (n ++ c_gt :: r) = wf_scan ((rev acc ++ n) :: stk) WText r.
Proof.
  induction n as [|c n IH]; intros stk acc r H.
  - cbn [app wf_scan]. change (c_gt =? c_gt) with true. cbv iota. rewrite app_nil_r. reflexivity.
  - cbn [forallb] in H. apply andb_prop in H as [H1 H2].
    destruct (alnum_not c H1) as [E1 [E2 _]].
    cbn [app wf_scan]. rewrite E1, E2, H1. rewrite IH by exact H2.
    cbn [rev]. rewrite <- app_assoc. reflexivity.
Qed.

Lemma scan_close_name n : forall stk acc r, forallb is_alnum n = true ->
  wf_scan ((rev acc ++ n) :: stk) (WClose acc) (n ++ c_gt :: r) = wf_scan stk WText r.
Proof.
  induction n as [|c n IH]; intros stk acc r H.
  - cbn [app wf_scan]. change (c_gt =? c_gt) with true. cbv iota. rewrite app_nil_r, str_eqb_refl. reflexivity.
  - cbn [forallb] in H. apply andb_prop in H as [H1 H2].
    destruct (alnum_not c H1) as [E1 _].
    cbn [app wf_scan]. rewrite E1, H1.
    replace (rev acc ++ c :: n) with (rev (c :: acc) ++ n) by (cbn [rev]; rewrite <- app_assoc; reflexivity).
    apply IH. exact H2.
Qed.

(* attrs_ok a: a is a complete run of attributes (read between attributes, ends between attributes) *)
Definition attrs_ok (a : str) : Prop :=
  forall stk name r, wf_scan stk (WAttrs name) (a ++ r) = wf_scan stk (WAttrs name) r.

Lemma attrs_ok_app a b : attrs_ok a -> attrs_ok b -> attrs_ok (a ++ b).
Proof. intros Ha Hb stk name r. rewrite <- app_assoc, Ha, Hb. reflexivity. Qed.

Definition attr_plain (s : str) : bool :=
  forallb (fun c => negb (c =? c_gt) && negb (c =? c_quote) && negb (c =? c_lt) && negb (c =? c_amp)) s.

Lemma attrs_ok_plain s : attr_plain s = true -> attrs_ok s.
Proof.
  induction s as [|c s IH]; intros H stk name r; [reflexivity|].
  cbn [attr_plain forallb] in H. apply andb_prop in H as [H1 H2].
  apply andb_prop in H1 as [H1 Ha]. apply andb_prop in H1 as [H1 Hl]. apply andb_prop in H1 as [Hg Hq].
  apply negb_true_iff in Hg, Hq, Hl, Ha.
  cbn [app wf_scan]. rewrite Hg, Hq, Hl, Ha. cbn [orb]. apply IH. exact H2.
Qed.

(* an ordinary URL (and any attribute value the code emits): no double quote, no <, no & *)
Definition url_ok (u : str) : bool :=
  forallb (fun c => negb (c =? c_quote) && negb (c =? c_lt) && negb (c =? c_amp)) u.

Lemma scan_quoted u : forall stk name r, url_ok u = true ->
  wf_scan stk (WAttrQ name) (u ++ c_quote :: r) = wf_scan stk (WAttrs name) r.
Proof.
  induction u as [|c u IH]; intros stk name r H.
  - cbn [app wf_scan]. change (c_quote =? c_quote) with true. reflexivity.
  - cbn [url_ok forallb] in H. apply andb_prop in H as [H1 H2].
    apply andb_prop in H1 as [H1 Ha]. apply andb_prop in H1 as [Hq Hl].
    apply negb_true_iff in Hq, Hl, Ha.
    cbn [app wf_scan]. rewrite Hq, Hl, Ha. cbn [orb]. apply IH. exact H2.
Qed.

Lemma attrs_ok_quoted u : url_ok u = true -> attrs_ok ([c_quote] ++ u ++ [c_quote]).
Proof.
  intros H stk name r. cbn [app wf_scan]. change (c_quote =? c_gt) with false. change (c_quote =? c_quote) with true.
  cbv iota. rewrite <- app_assoc. cbn [app]. apply scan_quoted. exact H.
Qed.

(* <n> x </n> around a well-formed x *)
Lemma wellformed_element n x : xml_name n = true -> wellformed x ->
  wellformed ([c_lt] ++ n ++ [c_gt] ++ x ++ [c_lt; 47] ++ n ++ [c_gt]).
Proof.
  unfold xml_name. intros Hn Hx. apply andb_prop in Hn as [Hne Hal].
  destruct n as [|c0 n']; [discriminate|]. cbn [forallb] in Hal. apply andb_prop in Hal as [H0 Hal].
  destruct (alnum_not c0 H0) as [_ [_ [E47 _]]].
  unfold wellformed. cbn [app wf_scan]. change (c_lt =? c_lt) with true. cbv iota.
  rewrite E47, H0.
  rewrite (scan_open_name n' [] [c0]) by exact Hal. cbn [rev app].
  rewrite wf_app, (wellformed_at x _ Hx).
  cbn [app wf_scan]. change (c_lt =? c_lt) with true. cbv iota. change (47 =? 47) with true. cbv iota.
  destruct (alnum_not c0 H0) as [Egt _]. rewrite Egt, H0.
  apply (scan_close_name n' [] [c0] []). exact Hal.
Qed.

(* <name attrs> x </name> for a fixed alphanumeric one-word name given as a literal *)
Lemma wellformed_attr_element (name attrs x : str) :
  xml_name name = true -> attrs_ok attrs -> wellformed x ->
  wellformed ([c_lt] ++ name ++ [c_space] ++ attrs ++ [c_gt] ++ x ++ [c_lt; 47] ++ name ++ [c_gt]).
Proof.
  unfold xml_name. intros Hn Ha Hx. apply andb_prop in Hn as [Hne Hal].
  destruct name as [|c0 n']; [discriminate|]. cbn [forallb] in Hal. apply andb_prop in Hal as [H0 Hal].
  destruct (alnum_not c0 H0) as [Egt [_ [E47 _]]].
  unfold wellformed. cbn [app wf_scan]. change (c_lt =? c_lt) with true. cbv iota.
  rewrite E47, H0.
  assert (Hopen : forall n acc stk r, forallb is_alnum n = true ->
            wf_scan stk (WOpen acc) (n ++ c_space :: r) = wf_scan stk (WAttrs (rev acc ++ n)) r).
  { induction n as [|c n IH]; intros acc stk r H.
    - cbn [app wf_scan]. change (c_space =? c_gt) with false. change (c_space =? c_space) with true.
      cbv iota. rewrite app_nil_r. reflexivity.
    - cbn [forallb] in H. apply andb_prop in H as [H1 H2]. destruct (alnum_not c H1) as [E1 [E2 _]].
      cbn [app wf_scan]. rewrite E1, E2, H1, IH by exact H2. cbn [rev]. rewrite <- app_assoc. reflexivity. }
  rewrite (Hopen n' [c0] [] _ Hal). cbn [rev app].
  rewrite (Ha [] (c0 :: n') _). cbn [wf_scan]. change (c_gt =? c_gt) with true. cbv iota.
  rewrite wf_app, (wellformed_at x _ Hx).
  cbn [app wf_scan]. change (c_lt =? c_lt) with true. cbv iota. change (47 =? 47) with true. cbv iota.
  rewrite Egt, H0.
  apply (scan_close_name n' [] [c0] []). exact Hal.
Qed.

(* ---- the tree ---- *)
(* tag names are XML names; URLs are ordinary: no double quote, no <, no & *)
Fixpoint wf_names (t : rt) : bool :=
  match t with
  | RStr _ | RSym _ => true
  | RText ps | RProt ps => forallb wf_names ps
  | RTag n ps => xml_name n && forallb wf_names ps
  | RHRef u _ ps => url_ok u && forallb wf_names ps
  end.
Definition html_symbols_wf (T : tables) : bool := forallb (fun p => wellformed_b (snd p)) (t_symbols T).

Section HtmlWf.
Variable enc : str -> str.
Variable T : tables.
Hypothesis Hsym : html_symbols_wf T = true.

Lemma html_tag_wf n x : xml_name n = true -> wellformed x -> wellformed (html_tag n x).
Proof.
  intros Hn Hx. unfold html_tag. destruct (is_empty x); [apply wellformed_nil|].
  apply wellformed_element; assumption.
Qed.

Lemma html_href_wf u e x : url_ok u = true -> wellformed x -> wellformed (html_href u x e).
Proof.
  intros Hu Hx. unfold html_href. destruct (is_empty x); [apply wellformed_nil|].
  set (target := if e then _ else _).
  assert (Ht : attrs_ok target).
  { destruct e; subst target.
    - apply (attrs_ok_app (lit " target=") ([c_quote] ++ (lit "_blank") ++ [c_quote]));
        [apply attrs_ok_plain; reflexivity|apply attrs_ok_quoted; reflexivity].
    - intros stk name r. reflexivity. }
  assert (Ha : attrs_ok ((lit "href=") ++ ([c_quote] ++ u ++ [c_quote]) ++ target)).
  { apply attrs_ok_app; [apply attrs_ok_plain; reflexivity|].
    apply attrs_ok_app; [apply attrs_ok_quoted; exact Hu|exact Ht]. }
  pose proof (wellformed_attr_element [97] _ x eq_refl Ha Hx) as W.
  match type of W with wellformed ?A => match goal with |- wellformed ?B => replace B with A; [exact W|] end end.
  repeat rewrite <- app_assoc. cbn [app]. repeat rewrite <- app_assoc. reflexivity.
Qed.

Lemma html_protected_wf x : wellformed x -> wellformed (format_protected BHtml x).
Proof.
  intros Hx. cbn [format_protected].
  assert (Ha : attrs_ok ((lit "class=") ++ ([c_quote] ++ (lit "bibtex-protected") ++ [c_quote]))).
  { apply attrs_ok_app; [apply attrs_ok_plain; reflexivity|apply attrs_ok_quoted; reflexivity]. }
  pose proof (wellformed_attr_element (lit "span") _ x eq_refl Ha Hx) as W.
  cbn [app] in W |- *. exact W.
Qed.

Lemma html_parts_wf ps :
  Forall (fun t => forall out, wf_names t = true -> render enc T BHtml t = Ok out -> wellformed out) ps ->
  forall out, forallb wf_names ps = true -> render_parts enc T BHtml ps = Ok out -> wellformed out.
Proof.
  induction 1 as [|p r Hp Hr IH]; intros out Hn Hren.
  - cbn in Hren. injection Hren as <-. apply wellformed_nil.
  - cbn [forallb] in Hn. apply andb_prop in Hn as [Hn1 Hn2].
    cbn [render_parts] in Hren.
    destruct (render enc T BHtml p) as [x| | |] eqn:Ex; try discriminate. cbn [bind] in Hren.
    destruct (render_parts enc T BHtml r) as [y| | |] eqn:Ey; try discriminate. cbn [bind] in Hren.
    injection Hren as <-. apply wellformed_app; [apply Hp; auto|apply IH; auto].
Qed.

Lemma html_wellformed_holds t : forall out,
  wf_names t = true -> render enc T BHtml t = Ok out -> wellformed out.
Proof.
  induction t using rt_ind'; intros out Hn Hren; rewrite render_unfold in Hren.
  - injection Hren as <-. cbn [format_str]. apply wellformed_xml_escape.
  - destruct (lookup n (t_symbols T)) as [v|] eqn:El; [|discriminate]. injection Hren as <-.
    apply lookup_In in El as [k Hk]. unfold html_symbols_wf in Hsym. rewrite forallb_forall in Hsym.
    apply wellformed_b_spec. apply (Hsym (k, v) Hk).
  - cbn [wf_names] in Hn. eapply html_parts_wf; eauto.
  - cbn [wf_names] in Hn. apply andb_prop in Hn as [Hn1 Hn2].
    destruct (render_parts enc T BHtml ps) as [x| | |] eqn:Ex; try discriminate. cbn [bind] in Hren.
    injection Hren as <-. cbn [format_tag]. apply html_tag_wf; [exact Hn1|]. eapply html_parts_wf; eauto.
  - cbn [wf_names] in Hn. apply andb_prop in Hn as [Hn1 Hn2].
    destruct (render_parts enc T BHtml ps) as [x| | |] eqn:Ex; try discriminate. cbn [bind] in Hren.
    injection Hren as <-. cbn [format_href]. apply html_href_wf; [exact Hn1|]. eapply html_parts_wf; eauto.
  - cbn [wf_names] in Hn.
    destruct (render_parts enc T BHtml ps) as [x| | |] eqn:Ex; try discriminate. cbn [bind] in Hren.
    injection Hren as <-. apply html_protected_wf. eapply html_parts_wf; eauto.
Qed.

End HtmlWf.

(* the hypothesis on URLs is exactly what is needed: a double quote, a < or an & in a URL (the
   code inserts URLs unescaped) breaks well-formedness *)
Lemma html_url_refuted_holds enc T c : In c [c_quote; c_lt; c_amp] ->
  exists out, render enc T BHtml (RHRef [c] false [RStr [120]]) = Ok out /\ ~ wellformed out.
Proof.
  intros H. cbn [In] in H. destruct H as [<-|[<-|[<-|[]]]];
    (eexists; split; [reflexivity|]; intros W; unfold wellformed in W; vm_compute in W; discriminate).
Qed.
