(* Proofs/RichRender.v -- rendering through the real back ends (Model/Backends.v, property C09's
   model of html / latex / markdown / plaintext) depends only on the class and the pair sequence
   `flat` of a constructed text; isalpha on constructed texts. *)
From Pybtex Require Import Base.Prelude Base.PyChar Base.PyStr Model.RtTypes Model.RichText Model.Backends
  Spec.Flat Spec.FlatOps Proofs.RichText Proofs.RichWf Proofs.RichInj Proofs.RichNormal Proofs.RichHist Proofs.RichSplit Proofs.RichHist2.

Theorem render_flat_lem enc T b t1 t2 : good t1 -> good t2 -> typeinfo t1 = typeinfo t2 ->
  flat t1 = flat t2 -> render enc T b t1 = render enc T b t2.
Proof. intros [N1 _] [N2 _] Ht Hf. now rewrite (flat_injective_lem t1 t2 N1 N2 Ht Hf). Qed.

Theorem equal_render_lem enc T b t1 t2 : rt_eqb t1 t2 = true -> render enc T b t1 = render enc T b t2.
Proof. intro H. now rewrite (rt_eqb_eq t1 t2 H). Qed.

(* however the parts are grouped, the constructed text renders the same *)
Theorem grouping_render_lem enc T b k raw1 raw2 v1 v2 : Forall good raw1 -> Forall good raw2 ->
  concat (map flat raw1) = concat (map flat raw2) ->
  mkc k raw1 = Ok v1 -> mkc k raw2 = Ok v2 -> render enc T b v1 = render enc T b v2.
Proof. intros. now rewrite (grouping_irrelevant_lem k raw1 raw2 v1 v2). Qed.

(* isalpha *)
Lemma alpha_parts ps : Forall goodp ps ->
  Forall (fun p => good p -> risalpha p = isalpha_flat (flat p)) ps ->
  forallb risalpha ps = forallb (fun p : pair => match fst p with ACh c => is_alpha c | ASym _ => false end) (concat (map flat ps)).
Proof.
  induction 1 as [|p ps Hp _ IH]; intro H; [reflexivity|]. inversion H as [|? ? H1 H2]; subst.
  cbn [forallb map concat]. rewrite forallb_app, (IH H2), (H1 (goodp_good _ Hp)). f_equal.
  unfold isalpha_flat. destruct Hp as [Hp _]. apply part_ok_inv in Hp as [Hp _].
  destruct (nonempty_flat p Hp) as [x [r E]]. now rewrite E.
Qed.

Lemma forallb_push m g f : (forall p, g (push m p) = g p) -> forallb g (map (push m) f) = forallb g f.
Proof. intro H. induction f as [|p f IH]; cbn; [reflexivity|]. now rewrite H, IH. Qed.

Theorem isalpha_flat_lem t : good t -> risalpha t = isalpha_flat (flat t).
Proof.
  induction t using rt_ind'; intro G.
  - cbn [risalpha flat]. unfold isalpha_flat. rewrite map_length. f_equal. induction s as [|c s IH]; cbn; [reflexivity|]. now rewrite IH.
  - reflexivity.
  - cbn [risalpha]. rewrite (alpha_parts ps (good_parts _ G eq_refl) H). unfold isalpha_flat. now rewrite flat_length.
  - cbn [risalpha]. rewrite (alpha_parts ps (good_parts _ G eq_refl) H). unfold isalpha_flat. rewrite flat_length.
    cbn [flat]. now rewrite forallb_push.
  - cbn [risalpha]. rewrite (alpha_parts ps (good_parts _ G eq_refl) H). unfold isalpha_flat. rewrite flat_length.
    cbn [flat]. now rewrite forallb_push.
  - cbn [risalpha]. rewrite (alpha_parts ps (good_parts _ G eq_refl) H). unfold isalpha_flat. rewrite flat_length.
    cbn [flat]. now rewrite forallb_push.
Qed.

(* ---- the observers at the end of a history ---- *)
Theorem observe_compose_all e r : spec e = Some r -> exists v, eval_c e = Ok v /\
  rlen v = length (snd r) /\ rstr v = flat_str (snd r) /\ risalpha v = isalpha_flat (snd r).
Proof.
  intro H. destruct (ops_compose_x e r H) as [v [Hv [G [_ F]]]]. exists v. split; [exact Hv|].
  rewrite <- F. split; [symmetry; apply flat_length|]. split; [apply str_flat_lem|now apply isalpha_flat_lem].
Qed.

Theorem history_observers e v : covered e = true -> eval_c e = Ok v -> exists r, hsem e r /\
  rlen v = length (snd r) /\ rstr v = flat_str (snd r) /\ risalpha v = isalpha_flat (snd r).
Proof.
  intros C H. destruct (history_sound e v C H) as [r [Hr [G [_ F]]]]. exists r. split; [exact Hr|].
  rewrite <- F. split; [symmetry; apply flat_length|]. split; [apply str_flat_lem|now apply isalpha_flat_lem].
Qed.

(* ---- String(s).split() is s.split(): the regex split followed by dropping the empty pieces is
        exactly Python's whitespace split (Base/PyStr.split_ws, whitespace = the 29 code points of
        Base/PyChar.is_space) ---- *)
Lemma re_split_ws_filter s : forall acc w, (w = true -> acc = []) ->
  filter (fun p : str => negb (length p =? 0) || false) (re_split_ws s acc w) = split_ws_aux s acc.
Proof.
  induction s as [|c s IH]; intros acc w Hw; cbn [re_split_ws split_ws_aux].
  - destruct w; [rewrite (Hw eq_refl); reflexivity|]. cbn [filter]. rewrite rev_length.
    destruct acc; reflexivity.
  - destruct (is_space c).
    + destruct w.
      * rewrite (Hw eq_refl). now apply IH.
      * cbn [filter]. rewrite rev_length, IH by reflexivity. destruct acc; reflexivity.
    + apply IH. discriminate.
Qed.

Theorem string_split_ws_lem s : split_c (RStr s) SepNone None = Ok (map RStr (split_ws s)).
Proof.
  unfold split_c. cbn [split depth]. unfold str_split. cbn [bind]. unfold split_ws.
  f_equal. f_equal. apply (re_split_ws_filter s [] false). discriminate.
Qed.

(* ---- the same for a text whose only part is one String: Text('a b  c').split() and the like;
        every piece is rebuilt with the markup of the text (the F17s-free one-part domain) ---- *)
Lemma split_items_strs l : split_items false (map RStr l) [] =
  (map (fun w => [RStr w]) (filter (fun p : str => negb (length p =? 0)) l), []).
Proof.
  induction l as [|w l IH]; [reflexivity|]. cbn [map split_items]. rewrite IH. cbn [rlen filter].
  rewrite orb_false_r. destruct (negb (length w =? 0)); reflexivity.
Qed.

Lemma mkc_one k w : w <> [] -> mkc k [RStr w] = Ok (build k [RStr w]).
Proof. destruct w as [|c w]; [congruence|]. intros _. reflexivity. Qed.
Lemma mkc_one_empty k : mkc k [RStr []] = Ok (build k []).
Proof. reflexivity. Qed.

Lemma mapM_one k (l : list str) : Forall (fun w => w <> []) l ->
  mapM (fun ps => mkc k ps) (map (fun w => [RStr w]) l) = Ok (map (fun w => build k [RStr w]) l).
Proof.
  induction 1 as [|w l Hw _ IH]; [reflexivity|]. cbn [map mapM]. rewrite (mkc_one k w Hw). cbn [bind]. now rewrite IH.
Qed.

Lemma re_split_ws_nonnil s : forall acc w, re_split_ws s acc w <> [].
Proof. induction s as [|c s IH]; intros acc w; cbn; [destruct w; discriminate|]. destruct (is_space c); [destruct w; [apply IH|discriminate]|apply IH]. Qed.

Lemma filter_nonnil_forall (l : list str) : Forall (fun w => w <> []) (filter (fun p : str => negb (length p =? 0)) l).
Proof.
  apply Forall_forall. intros w Hw. apply filter_In in Hw as [_ Hw]. destruct w; [discriminate|discriminate].
Qed.

Theorem one_part_split_ws_lem t s : is_multipart t = true -> (forall ps, t <> RProt ps) -> parts_of t = [RStr s] ->
  split_c t SepNone None = Ok (map (fun w => build (kind_of t) [RStr w]) (split_ws s)).
Proof.
  intros Hm Hnp Hp.
  assert (E : split_c t SepNone None =
    (do sps <- mapM (fun p => split 1 p SepNone (Some true)) (parts_of t);
     let '(ys, tl) := split_loop false sps [] in
     do out <- mapM (create_similar t) ys;
     match tl with
     | [] => Ok out
     | _ => do tlt <- create_similar t tl; if negb (rlen tlt =? 0) || false then Ok (out ++ [tlt]) else Ok out
     end)).
  { unfold split_c. destruct t; cbn [is_multipart] in Hm; try discriminate; cbn [parts_of] in Hp; subst;
      try reflexivity. exfalso. now apply (Hnp [RStr s]). }
  rewrite E, Hp. cbn [mapM split str_split bind]. set (L := re_split_ws s [] false).
  assert (Ef : filter (fun p : str => negb (length p =? 0) || true) L = L).
  { clear. induction L as [|p L IH]; [reflexivity|]. cbn. rewrite orb_true_r. now rewrite IH. }
  match goal with |- context [filter ?f L] => replace (filter f L) with L by (symmetry; exact Ef) end. cbn [split_loop].
  pose proof (re_split_ws_nonnil s [] false) as Hne. fold L in Hne.
  destruct (map RStr L) as [|x0 l0] eqn:EL; [destruct L; [congruence|discriminate]|]. rewrite <- EL. clear x0 l0 EL.
  assert (Erl : removelast (map RStr L) = map RStr (removelast L)).
  { clear. induction L as [|p L IH]; [reflexivity|]. cbn [map removelast]. destruct L; [reflexivity|]. cbn [map] in *. now rewrite IH. }
  assert (Ela : last (map RStr L) (RStr []) = RStr (last L [])).
  { clear. induction L as [|p L IH]; [reflexivity|]. cbn [map last]. destruct L; [reflexivity|]. exact IH. }
  rewrite Erl, split_items_strs, Ela. cbn [app split_loop].
  rewrite app_nil_r. change (create_similar t) with (fun ps => mkc (kind_of t) ps).
  rewrite (mapM_one (kind_of t) _ (filter_nonnil_forall _)). cbn [bind]. cbv beta.
  assert (Esplit : split_ws s = filter (fun p : str => negb (length p =? 0)) L).
  { unfold split_ws, L. symmetry. rewrite <- (re_split_ws_filter s [] false ltac:(discriminate)).
    apply filter_ext. intro a. now rewrite orb_false_r. }
  assert (EL2 : filter (fun p : str => negb (length p =? 0)) L =
                filter (fun p : str => negb (length p =? 0)) (removelast L) ++ filter (fun p : str => negb (length p =? 0)) [last L []]).
  { rewrite <- filter_app. f_equal. apply app_removelast_last. exact Hne. }
  rewrite Esplit, EL2, map_app. cbn [filter].
  destruct (last L []) as [|c w] eqn:El.
  - rewrite mkc_one_empty. cbn [bind]. assert (Z : rlen (build (kind_of t) []) = 0) by (destruct (kind_of t); reflexivity).
    rewrite Z. cbn. now rewrite app_nil_r.
  - rewrite (mkc_one (kind_of t) (c :: w) ltac:(discriminate)). cbn [bind].
    assert (Z : negb (rlen (build (kind_of t) [RStr (c :: w)]) =? 0) = true) by (destruct (kind_of t); reflexivity).
    rewrite Z. reflexivity.
Qed.
