(* Proofs/RichRender.v -- rendering through the real back ends (Model/Backends.v, property C09's
   model of html / latex / markdown / plaintext) depends only on the class and the pair sequence
   `flat` of a constructed text; isalpha on constructed texts. *)
From Pybtex Require Import Base.Prelude Base.PyChar Base.PyStr Model.RtTypes Model.RichText Model.Backends
  Spec.Flat Spec.FlatOps Proofs.RichText Proofs.RichWf Proofs.RichInj Proofs.RichNormal.

Theorem render_flat_lem enc T b t1 t2 : good t1 -> good t2 -> typeinfo t1 = typeinfo t2 ->
  flat t1 = flat t2 -> render enc T b t1 = render enc T b t2.
Proof. intros [N1 _] [N2 _] Ht Hf. now rewrite (flat_injective_lem t1 t2 N1 N2 Ht Hf). Qed.

Theorem equal_render_lem enc T b t1 t2 : rt_eqb t1 t2 = true -> render enc T b t1 = render enc T b t2.
Proof. intro H. now rewrite (rt_eqb_eq t1 t2 H). Qed.

(* however the parts are grouped, the constructed text renders the same *)
Theorem grouping_render_lem enc T b k raw1 raw2 v1 v2 : Forall good raw1 -> Forall good raw2 ->
  concat (map flat raw1) = concat (map flat raw2) ->
  mkc k raw1 = Ok v1 -> mkc k raw2 = Ok v2 -> render enc T b v1 = render enc T b v2.
Proof. intros. now rewrite (grouping_irrelevant_lem k raw1 raw2 v1 v2). Qed.

(* isalpha *)
Lemma alpha_parts ps : Forall goodp ps ->
  Forall (fun p => good p -> risalpha p = isalpha_flat (flat p)) ps ->
  forallb risalpha ps = forallb (fun p : pair => match fst p with ACh c => is_alpha c | ASym _ => false end) (concat (map flat ps)).
Proof.
  induction 1 as [|p ps Hp _ IH]; intro H; [reflexivity|]. inversion H as [|? ? H1 H2]; subst.
  cbn [forallb map concat]. rewrite forallb_app, (IH H2), (H1 (goodp_good _ Hp)). f_equal.
  unfold isalpha_flat. destruct Hp as [Hp _]. apply part_ok_inv in Hp as [Hp _].
  destruct (nonempty_flat p Hp) as [x [r E]]. now rewrite E.
Qed.

Lemma forallb_push m g f : (forall p, g (push m p) = g p) -> forallb g (map (push m) f) = forallb g f.
Proof. intro H. induction f as [|p f IH]; cbn; [reflexivity|]. now rewrite H, IH. Qed.

Theorem isalpha_flat_lem t : good t -> risalpha t = isalpha_flat (flat t).
Proof.
  induction t using rt_ind'; intro G.
  - cbn [risalpha flat]. unfold isalpha_flat. rewrite map_length. f_equal. induction s as [|c s IH]; cbn; [reflexivity|]. now rewrite IH.
  - reflexivity.
  - cbn [risalpha]. rewrite (alpha_parts ps (good_parts _ G eq_refl) H). unfold isalpha_flat. now rewrite flat_length.
  - cbn [risalpha]. rewrite (alpha_parts ps (good_parts _ G eq_refl) H). unfold isalpha_flat. rewrite flat_length.
    cbn [flat]. now rewrite forallb_push.
  - cbn [risalpha]. rewrite (alpha_parts ps (good_parts _ G eq_refl) H). unfold isalpha_flat. rewrite flat_length.
    cbn [flat]. now rewrite forallb_push.
  - cbn [risalpha]. rewrite (alpha_parts ps (good_parts _ G eq_refl) H). unfold isalpha_flat. rewrite flat_length.
    cbn [flat]. now rewrite forallb_push.
Qed.
