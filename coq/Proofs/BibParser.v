(* Proofs/BibParser.v -- lemmas about Model/Scanner.v and Model/BibParser.v *)
From Pybtex Require Import Base.Prelude Base.PyChar Base.PyStr Model.BibtexStr Model.Names Model.Scanner Model.BibParser.
Local Open Scope N_scope.

Lemma capture_never_raises_handle : forall e s, exists s', handle_error Capture e s = Ret tt s'.
Proof. intros. eexists. reflexivity. Qed.
