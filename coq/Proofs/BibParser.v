(* Proofs/BibParser.v -- invariants of Model/BibParser.v: every function keeps the scanner
   on the text (position, line counter), reports only located errors, never crashes and
   never runs out of fuel *)
From Pybtex Require Import Base.Prelude Base.PyChar Base.PyStr Model.BibtexStr Model.Names
  Model.Scanner Model.BibParser Proofs.Scanner.
Local Open Scope N_scope.

Definition len (s : pst) : nat := length (sc_rest (p_sc s)).
Definition is_syntax (e : err) : bool := e_cls e <=? 5.

(* a syntax error carries the line of the position where the scanner stood, and that
   position lies inside the command (after its '@'); other errors carry no line *)
Definition err_ok (text : str) (e : err) : Prop :=
  if is_syntax e
  then e_line e = (1 + newlines (firstn (e_pos e) text))%Z
       /\ (e_start e < e_pos e <= length text)%nat /\ nth_error text (e_start e) = Some c_at
  else e_line e = (-1)%Z /\ e_cls e <> E_TOKEN.

Definition inv0 (text : str) (s : pst) : Prop :=
  at_pos text (p_sc s) /\ Forall (err_ok text) (p_errs s).
Definition inv (text : str) (s : pst) : Prop :=
  inv0 text s /\ (p_cstart s < sc_pos (p_sc s))%nat /\ nth_error text (p_cstart s) = Some c_at.

Definition ext (s s' : pst) : Prop :=
  p_cstart s' = p_cstart s /\ sc_step (p_sc s) (p_sc s') /\ exists l, p_errs s' = p_errs s ++ l.

Definition safe {A} (text : str) (s : pst) (r : out A) : Prop :=
  match r with
  | Ret _ s' => inv text s' /\ ext s s'
  | Exc e s' => inv text s' /\ ext s s' /\ err_ok text e /\ is_syntax e = true
  | Fatal (FErr _ _) => True
  | Fatal _ => False
  end.

Lemma ext_refl s : ext s s.
Proof. split; [reflexivity|]. split; [apply sc_step_refl|]. exists []. rewrite app_nil_r. reflexivity. Qed.

Lemma ext_trans a b c : ext a b -> ext b c -> ext a c.
Proof.
  intros (H1 & H2 & l1 & H3) (H4 & H5 & l2 & H6). split; [congruence|]. split.
  - eapply sc_step_trans; eauto.
  - exists (l1 ++ l2). rewrite H6, H3, app_assoc. reflexivity.
Qed.

Lemma ext_len a b : ext a b -> (len b <= len a)%nat.
Proof. intros (_ & H & _). apply sc_step_len in H. unfold len. lia. Qed.

Lemma safe_ext {A} text s s1 (r : out A) : ext s s1 -> safe text s1 r -> safe text s r.
Proof.
  intros He H. destruct r as [a s2|e s2|f]; cbn in *.
  - destruct H as [H1 H2]. split; [exact H1|]. eapply ext_trans; eauto.
  - destruct H as (H1 & H2 & H3). split; [exact H1|]. split; [eapply ext_trans; eauto|exact H3].
  - exact H.
Qed.

Lemma safe_bind {A B} text s (r : out A) (k : A -> pst -> out B) :
  safe text s r ->
  (forall a s1, r = Ret a s1 -> inv text s1 -> ext s s1 -> safe text s1 (k a s1)) ->
  safe text s (r >>= k).
Proof.
  intros H Hk. destruct r as [a s1|e s1|f]; cbn in *.
  - destruct H as [H1 H2]. eapply safe_ext; [exact H2|]. apply Hk; auto.
  - exact H.
  - exact H.
Qed.

(* states that differ only in the current_* attributes / the macro table *)
Definition same_core (s s' : pst) : Prop :=
  p_sc s' = p_sc s /\ p_errs s' = p_errs s /\ p_cstart s' = p_cstart s.

Lemma same_core_inv text s s' : same_core s s' -> inv text s -> inv text s' /\ ext s s'.
Proof.
  intros (H1 & H2 & H3) ((Ha & Hb) & Hc & Hd). split.
  - unfold inv, inv0. rewrite H1, H2, H3. auto.
  - split; [exact H3|]. split; [rewrite H1; apply sc_step_refl|]. exists []. rewrite H2, app_nil_r. reflexivity.
Qed.

Lemma safe_ret_same {A} text s s' (a : A) : same_core s s' -> inv text s -> safe text s (Ret a s').
Proof. intros H Hi. cbn. apply same_core_inv; auto. Qed.

Ltac same := (split; [reflexivity|split; reflexivity]).

Lemma mk_err_ok text cls s : inv text s -> (cls <=? 5) = true -> err_ok text (mk_err cls s) /\ is_syntax (mk_err cls s) = true.
Proof.
  intros ((Ha & _) & Hc & Hd) Hcls. unfold err_ok, is_syntax, mk_err. cbn [e_cls e_line e_pos e_start]. rewrite Hcls.
  destruct (at_pos_firstn _ _ Ha) as (_ & H2 & H3). repeat split; auto.
Qed.

Lemma data_err_ok text cls : (cls <=? 5) = false -> cls <> E_TOKEN -> err_ok text (data_err cls).
Proof. intros H1 H2. unfold err_ok, is_syntax, data_err. cbn [e_cls e_line]. rewrite H1. auto. Qed.

Lemma print_ok text e : err_ok text e -> print_error_ok e = true.
Proof.
  unfold err_ok, print_error_ok. destruct (is_syntax e).
  - intros (_ & (H & _) & _). apply Nat.leb_gt in H. rewrite H, andb_false_r. reflexivity.
  - intros (_ & H). apply N.eqb_neq in H. rewrite H. reflexivity.
Qed.

Lemma add_err_inv text s e : inv text s -> err_ok text e -> inv text (add_err s e) /\ ext s (add_err s e).
Proof.
  intros ((Ha & Hb) & Hc & Hd) He. split.
  - unfold inv, inv0, add_err. cbn. repeat split; auto. apply Forall_app. split; auto.
  - split; [reflexivity|]. split; [apply sc_step_refl|]. exists [e]. reflexivity.
Qed.

Lemma handle_error_safe text m e s : inv text s -> err_ok text e -> safe text s (handle_error m e s).
Proof.
  intros Hi He. destruct m; cbn.
  - exact I.
  - rewrite (print_ok _ _ He). cbn. apply add_err_inv; auto.
  - apply add_err_inv; auto.
Qed.

Lemma set_sc_inv text s c : inv text s -> at_pos text c -> sc_step (p_sc s) c -> inv text (set_sc s c) /\ ext s (set_sc s c).
Proof.
  intros ((Ha & Hb) & Hc & Hd) Hat Hs. split.
  - unfold inv, inv0, set_sc. cbn. repeat split; auto. apply sc_step_len in Hs. lia.
  - split; [reflexivity|]. split; [exact Hs|]. exists []. cbn. rewrite app_nil_r. reflexivity.
Qed.

Lemma required_safe text ps s : inv text s -> Forall pat_ok ps ->
  safe text s (required ps s) /\
  (forall tk s', required ps s = Ret tk s' -> (len s' < len s)%nat /\ In (fst tk) ps).
Proof.
  intros Hi Hok. unfold required. destruct (get_token ps (p_sc s)) as [t c'] eqn:Eg.
  destruct Hi as ((Ha & Hb) & Hc & Hd).
  destruct (get_token_spec text ps _ _ _ Hok Ha Eg) as (H1 & H2 & H3).
  assert (Hi : inv text s) by (repeat split; auto).
  destruct (set_sc_inv text s c' Hi H1 H2) as [Hi' He'].
  destruct t as [| |p v].
  - split; [|intros; discriminate]. cbn. destruct (mk_err_ok text E_EOF _ Hi' eq_refl). auto.
  - split; [|intros; discriminate]. cbn. destruct (mk_err_ok text E_TOKEN _ Hi' eq_refl). auto.
  - split; [cbn; auto|]. intros tk s' H. injection H as <- <-.
    destruct (H3 p v eq_refl) as (Hlt & Hin & _). split; [exact Hlt|exact Hin].
Qed.

Lemma optional_safe text ps s : inv text s -> Forall pat_ok ps ->
  safe text s (optional ps s) /\
  (forall tk s', optional ps s = Ret (Some tk) s' -> (len s' < len s)%nat /\ In (fst tk) ps).
Proof.
  intros Hi Hok. unfold optional. destruct (get_token ps (p_sc s)) as [t c'] eqn:Eg.
  destruct Hi as ((Ha & Hb) & Hc & Hd).
  destruct (get_token_spec text ps _ _ _ Hok Ha Eg) as (H1 & H2 & H3).
  assert (Hi : inv text s) by (repeat split; auto).
  destruct (set_sc_inv text s c' Hi H1 H2) as [Hi' He'].
  destruct t as [| |p v].
  - split; [|intros; discriminate]. cbn. destruct (mk_err_ok text E_EOF _ Hi' eq_refl). auto.
  - split; [cbn; auto|intros; discriminate].
  - split; [cbn; auto|]. intros tk s' H. injection H as <- <-.
    destruct (H3 p v eq_refl) as (Hlt & Hin & _). split; [exact Hlt|exact Hin].
Qed.

Lemma special_not_cr (q : bool) (level : nat) x :
  (is_lbrace x || is_rbrace x || (q && Nat.eqb level 0 && (x =? c_quote))) = true -> x <> 13.
Proof.
  intros H ->. cbn in H. rewrite andb_false_r in H. discriminate.
Qed.

Lemma pstring_safe text fuel : forall q level acc s, inv text s -> (len s < fuel)%nat ->
  safe text s (pstring fuel q level acc s) /\
  (forall a s', pstring fuel q level acc s = Ret a s' -> (len s' < len s)%nat).
Proof.
  induction fuel as [|f IH]; intros q level acc s Hi Hf; [lia|].
  cbn [pstring].
  set (special := fun c => is_lbrace c || is_rbrace c || (q && Nat.eqb level 0 && (c =? c_quote))).
  destruct (skip_to special (p_sc s)) as [[[v c] c']|] eqn:Es.
  - destruct Hi as ((Ha & Hb) & Hc & Hd).
    destruct (skip_to_spec text special _ _ _ _ (special_not_cr q level) Ha Es) as (H1 & H2 & H3 & H4 & H5).
    assert (Hi : inv text s) by (repeat split; auto).
    destruct (set_sc_inv text s c' Hi H1 H2) as [Hi' He'].
    assert (Hlt : (len (set_sc s c') < len s)%nat) by exact H3.
    destruct (c =? c_quote).
    { split; [cbn; auto|]. intros a s' H. injection H as <- <-. exact Hlt. }
    destruct (is_lbrace c).
    { destruct (Nat.ltb nest_limit (S level)).
      - split; [|intros; discriminate]. cbn. destruct (mk_err_ok text E_NESTED _ Hi' eq_refl). auto.
      - destruct (IH q (S level) (acc ++ v) (set_sc s c') Hi' ltac:(lia)) as [IH1 IH2]. split.
        + eapply safe_ext; eauto.
        + intros a s' H. specialize (IH2 a s' H). lia. }
    destruct level as [|l].
    { destruct q.
      - split; [|intros; discriminate]. cbn. destruct (mk_err_ok text E_UNBAL _ Hi' eq_refl). auto.
      - split; [cbn; auto|]. intros a s' H. injection H as <- <-. exact Hlt. }
    destruct (IH q l (acc ++ v) (set_sc s c') Hi' ltac:(lia)) as [IH1 IH2]. split.
    + eapply safe_ext; eauto.
    + intros a s' H. specialize (IH2 a s' H). lia.
  - split; [|intros; discriminate]. cbn. destruct (mk_err_ok text E_EOF _ Hi eq_refl).
    split; [exact Hi|]. split; [apply ext_refl|]. auto.
Qed.

Lemma capture_never_raises_handle : forall e s, exists s', handle_error Capture e s = Ret tt s'.
Proof. intros. eexists. reflexivity. Qed.

Lemma substitute_macro_safe text m name s : inv text s -> safe text s (substitute_macro m name s).
Proof.
  intros Hi. unfold substitute_macro. destruct (assoc_get (lower name) (p_macros s)).
  - cbn. split; [exact Hi|apply ext_refl].
  - apply safe_bind.
    + apply handle_error_safe; auto. apply (mk_err_ok text E_UNDEF s Hi eq_refl).
    + intros a s1 _ Hi1 _. cbn. split; [exact Hi1|apply ext_refl].
Qed.

Lemma value_pats_ok : Forall pat_ok [P_LIT c_quote; P_LIT c_lbrace; P_NUMBER; P_NAME].
Proof. repeat constructor; intros H; discriminate. Qed.
Lemma lit_ok c : c <> 10 -> c <> 13 -> Forall pat_ok [P_LIT c].
Proof. repeat constructor; auto. Qed.

(* out-values that made strict progress when they return *)
Definition progress {A} (s : pst) (r : out A) : Prop :=
  forall a s', r = Ret a s' -> (len s' < len s)%nat.

Lemma safe_len {A} text s (r : out A) a s' : safe text s r -> r = Ret a s' -> (len s' <= len s)%nat.
Proof. intros H ->. cbn in H. destruct H as [_ H]. apply ext_len. exact H. Qed.

Lemma parse_value_part_safe text m s : inv text s ->
  safe text s (parse_value_part m s) /\ progress s (parse_value_part m s).
Proof.
  intros Hi. unfold parse_value_part.
  destruct (required_safe text _ s Hi value_pats_ok) as [Hr Hp].
  destruct (required [P_LIT c_quote; P_LIT c_lbrace; P_NUMBER; P_NAME] s) as [tk s1|e s1|f] eqn:Er;
    [|split; [exact Hr|intros ? ? H; discriminate]|split; [exact Hr|intros ? ? H; discriminate]].
  destruct (Hp tk s1 eq_refl) as [Hlt _]. destruct Hr as [Hi1 He1]. cbn [obind].
  match goal with |- safe _ _ ?k /\ _ => assert (Hk : safe text s1 k) end.
  { destruct (fst tk) as [| | | |c]; try (apply substitute_macro_safe; exact Hi1).
    - cbn. split; [exact Hi1|apply ext_refl].
    - apply safe_bind.
      + apply pstring_safe; [exact Hi1|unfold len; lia].
      + intros a s2 _ Hi2 _. cbn. split; [exact Hi2|apply ext_refl]. }
  split; [eapply safe_ext; eauto|].
  intros a s' H. pose proof (safe_len _ _ _ _ _ Hk H). lia.
Qed.

Lemma hash_ok : Forall pat_ok [P_LIT c_hash]. Proof. apply lit_ok; discriminate. Qed.
Lemma comma_ok : Forall pat_ok [P_LIT c_comma]. Proof. apply lit_ok; discriminate. Qed.
Lemma equals_ok : Forall pat_ok [P_LIT 61]. Proof. apply lit_ok; discriminate. Qed.
Lemma name_ok : Forall pat_ok [P_NAME]. Proof. repeat constructor. Qed.

Lemma parse_value_loop_safe text m fuel : forall parts s, inv text s -> (len s < fuel)%nat ->
  safe text s (parse_value_loop fuel m parts s).
Proof.
  induction fuel as [|f IH]; intros parts s Hi Hf; [lia|]. cbn [parse_value_loop].
  destruct (parse_value_part_safe text m s Hi) as [Hs Hp].
  apply safe_bind; [exact Hs|]. intros part s1 E1 Hi1 He1. specialize (Hp part s1 E1).
  destruct (optional_safe text _ s1 Hi1 hash_ok) as [Ho Hop].
  apply safe_bind; [exact Ho|]. intros h s2 E2 Hi2 He2.
  destruct h as [tk|].
  - destruct (Hop tk s2 E2) as [Hlt _]. apply IH; [exact Hi2|lia].
  - cbn. split; [exact Hi2|apply ext_refl].
Qed.

Lemma parse_value_safe text m s : inv text s -> safe text s (parse_value m s).
Proof.
  intros Hi. unfold parse_value. apply safe_bind.
  - apply parse_value_loop_safe; [exact Hi|unfold len; lia].
  - intros parts s1 _ Hi1 _. apply safe_ret_same; [same|exact Hi1].
Qed.

Lemma parse_field_safe text m s : inv text s -> safe text s (parse_field m s).
Proof.
  intros Hi. unfold parse_field.
  destruct (optional_safe text _ s Hi name_ok) as [Ho _].
  apply safe_bind; [exact Ho|]. intros name s1 _ Hi1 _.
  destruct name as [tk|]; [|cbn; split; [exact Hi1|apply ext_refl]].
  destruct (same_core_inv text s1 (set_fname s1 (Some (snd tk))) ltac:(same) Hi1) as [Hi2 He2].
  eapply safe_ext; [exact He2|].
  destruct (required_safe text _ _ Hi2 equals_ok) as [Hr _].
  apply safe_bind; [exact Hr|]. intros x s3 _ Hi3 _. apply parse_value_safe. exact Hi3.
Qed.

Lemma parse_entry_fields_safe text m fuel : forall s, inv text s -> (len s < fuel)%nat ->
  safe text s (parse_entry_fields fuel m s).
Proof.
  induction fuel as [|f IH]; intros s Hi Hf; [lia|]. cbn [parse_entry_fields].
  destruct (same_core_inv text s (set_value (set_fname s None) []) ltac:(same) Hi) as [Hi0 He0].
  eapply safe_ext; [exact He0|].
  apply safe_bind; [apply parse_field_safe; exact Hi0|]. intros u s1 _ Hi1 He1.
  set (s2 := match p_fname s1, p_value s1 with
             | Some n, _ :: _ => set_fields s1 (p_fields s1 ++ [(n, p_value s1)])
             | _, _ => s1 end).
  assert (Hc : same_core s1 s2) by (unfold s2; destruct (p_fname s1); [destruct (p_value s1)|]; same).
  destruct (same_core_inv text s1 s2 Hc Hi1) as [Hi2 He2].
  eapply safe_ext; [exact He2|].
  destruct (optional_safe text _ s2 Hi2 comma_ok) as [Ho Hop].
  apply safe_bind; [exact Ho|]. intros comma s3 E3 Hi3 He3.
  destruct comma as [tk|]; [|cbn; split; [exact Hi3|apply ext_refl]].
  destruct (Hop tk s3 E3) as [Hlt _]. apply IH; [exact Hi3|].
  apply ext_len in He0, He1, He2. lia.
Qed.

Lemma key_ok (b : bool) : Forall pat_ok [if b then P_KEY_BRACE else P_KEY_PAREN].
Proof. destruct b; repeat constructor. Qed.

Lemma parse_entry_body_safe text m b s : inv text s -> safe text s (parse_entry_body m b s).
Proof.
  intros Hi. unfold parse_entry_body.
  destruct (required_safe text _ s Hi (key_ok b)) as [Hr _].
  apply safe_bind; [exact Hr|]. intros tk s1 _ Hi1 _.
  destruct (same_core_inv text s1 (set_key s1 (Some (snd tk))) ltac:(same) Hi1) as [Hi2 He2].
  eapply safe_ext; [exact He2|]. apply parse_entry_fields_safe; [exact Hi2|unfold len; cbn; lia].
Qed.

Lemma parse_string_body_safe text m s : inv text s -> safe text s (parse_string_body m s).
Proof.
  intros Hi. unfold parse_string_body.
  destruct (required_safe text _ s Hi name_ok) as [Hr _].
  apply safe_bind; [exact Hr|]. intros tk s1 _ Hi1 _.
  destruct (same_core_inv text s1 (set_fname s1 (Some (snd tk))) ltac:(same) Hi1) as [Hi2 He2].
  eapply safe_ext; [exact He2|].
  destruct (required_safe text _ _ Hi2 equals_ok) as [Hr2 _].
  apply safe_bind; [exact Hr2|]. intros x s3 _ Hi3 _.
  apply safe_bind; [apply parse_value_safe; exact Hi3|]. intros y s4 _ Hi4 _.
  apply safe_ret_same; [same|exact Hi4].
Qed.

Lemma open_ok : Forall pat_ok [P_LIT 40; P_LIT c_lbrace].
Proof. repeat constructor; discriminate. Qed.

(* parse_command: a syntax error can leave it only from the first two tokens; afterwards
   every error is handled *)
Lemma parse_command_safe text m s : inv text s -> safe text s (parse_command m s).
Proof.
  intros Hi. unfold parse_command.
  set (s0 := set_value (set_fname (set_fields (set_key s None) []) None) []).
  destruct (same_core_inv text s s0 ltac:(same) Hi) as [Hi0 He0].
  eapply safe_ext; [exact He0|].
  destruct (required_safe text _ s0 Hi0 name_ok) as [Hr _].
  apply safe_bind; [exact Hr|]. intros name s1 _ Hi1 _.
  destruct (required_safe text _ s1 Hi1 open_ok) as [Hr2 _].
  apply safe_bind; [exact Hr2|]. intros bs s2 _ Hi2 _.
  destruct (str_eqb (lower (snd name)) kw_comment); [cbn; split; [exact Hi2|apply ext_refl]|].
  set (brace := match fst bs with P_LIT c => c =? c_lbrace | _ => false end).
  set (k := if str_eqb (lower (snd name)) kw_string then KString
            else if str_eqb (lower (snd name)) kw_preamble then KPreamble else KEntry).
  set (body := match k with
               | KString => parse_string_body m s2
               | KPreamble => parse_preamble_body m s2
               | KEntry => parse_entry_body m brace s2 end).
  assert (Hb : safe text s2 body).
  { unfold body. destruct k; [apply parse_string_body_safe|apply parse_value_safe|apply parse_entry_body_safe]; exact Hi2. }
  assert (Hbe : safe text s2 (body >>= (fun _ s3 => required [P_LIT (if brace then c_rbrace else 41)] s3))).
  { apply safe_bind; [exact Hb|]. intros u s3 _ Hi3 _.
    apply required_safe; [exact Hi3|]. destruct brace; apply lit_ok; discriminate. }
  destruct (body >>= (fun _ s3 => required [P_LIT (if brace then c_rbrace else 41)] s3)) as [u s4|e s4|f].
  - cbn in Hbe |- *. exact Hbe.
  - cbn in Hbe. destruct Hbe as (Hi4 & He4 & Hok & _).
    eapply safe_ext; [exact He4|]. apply safe_bind; [apply handle_error_safe; auto|].
    intros x s5 _ Hi5 _. cbn. split; [exact Hi5|apply ext_refl].
  - exact Hbe.
Qed.

(* ---- the main loop *)
Definition final0 {D} (text : str) (r : out D) : Prop :=
  match r with
  | Ret _ s' => inv0 text s'
  | Exc _ _ => False
  | Fatal (FErr _ _) => True
  | Fatal _ => False
  end.

Definition proc_safe {D} (text : str) (proc : mode -> cmd -> D -> pst -> out D) : Prop :=
  forall m c d s, inv text s -> safe text s (proc m c d s) /\ (forall e s', proc m c d s <> Exc e s').

Lemma handle_no_exc m e s e' s' : handle_error m e s <> Exc e' s'.
Proof. destruct m; cbn; try discriminate. destruct (print_error_ok e); discriminate. Qed.

Lemma at_not_cr x : (x =? c_at) = true -> x <> 13.
Proof. intros H ->. discriminate. Qed.

Lemma bib_loop_safe {D} text (proc : mode -> cmd -> D -> pst -> out D) m : proc_safe text proc ->
  forall fuel d s, inv0 text s -> (len s < fuel)%nat -> final0 text (bib_loop proc fuel m d s).
Proof.
  intros Hproc. induction fuel as [|f IH]; intros d s Hi Hf; [lia|]. cbn [bib_loop].
  destruct (skip_to (fun c => c =? c_at) (p_sc s)) as [[[v c] c']|] eqn:Es; [|exact Hi].
  destruct Hi as [Ha Hb].
  destruct (skip_to_spec text _ _ _ _ _ at_not_cr Ha Es) as (H1 & H2 & H3 & H4 & _).
  destruct (skip_to_last text _ _ _ _ _ Ha Es) as [H5 H6].
  apply N.eqb_eq in H4. subst c.
  set (s1 := set_cstart (set_sc s c') (sc_pos c' - 1)).
  assert (Hi1 : inv text s1).
  { unfold inv, inv0, s1. cbn. repeat split; auto. lia. }
  assert (Hl1 : (len s1 < len s)%nat) by exact H3.
  pose proof (parse_command_safe text m s1 Hi1) as Hc.
  destruct (parse_command m s1) as [[c|] s2|e s2|x].
  - destruct Hc as [Hi2 He2]. destruct (Hproc m c d s2 Hi2) as [Hp Hne].
    destruct (proc m c d s2) as [d' s3|e3 s3|x3] eqn:Ep; cbn [obind].
    + destruct Hp as [Hi3 He3]. apply IH; [exact (proj1 Hi3)|]. apply ext_len in He2, He3. lia.
    + exfalso. eapply Hne; reflexivity.
    + exact Hp.
  - destruct Hc as [Hi2 He2]. apply IH; [exact (proj1 Hi2)|]. apply ext_len in He2. lia.
  - destruct Hc as (Hi2 & He2 & Hok & _).
    pose proof (handle_error_safe text m e s2 Hi2 Hok) as Hh.
    destruct (handle_error m e s2) as [u s3|e3 s3|x3] eqn:Eh; cbn [obind].
    + destruct Hh as [Hi3 He3]. apply IH; [exact (proj1 Hi3)|]. apply ext_len in He2, He3. lia.
    + exfalso. eapply handle_no_exc; exact Eh.
    + exact Hh.
  - exact Hc.
Qed.

Lemma inv0_init text macros : inv0 text (pst_init text macros).
Proof. split; [apply at_pos_init|constructor]. Qed.

(* the low-level parser is total: for every text and mode it neither crashes nor runs out
   of fuel, and every error it has reported is located *)
Lemma lowlevel_safe m text : final0 text (lowlevel m text).
Proof.
  unfold lowlevel. apply bib_loop_safe.
  - intros m' c d s Hi. split; [cbn; split; [exact Hi|apply ext_refl]|intros; discriminate].
  - apply inv0_init.
  - unfold len. cbn. lia.
Qed.

(* ---- Parser.process_* : they never touch the scanner; they can fail only through
   Person / split_name_list (models of Names.v / BibtexStr.v) *)
Definition names_total : Prop :=
  (forall s, person_of_string s <> Crash /\ person_of_string s <> OutOfFuel) /\
  (forall s, split_name_list s <> Crash /\ split_name_list s <> OutOfFuel).

Lemma persons_of_safe text m : names_total -> forall names acc s, inv text s ->
  safe text s (persons_of m names acc s) /\ (forall e s', persons_of m names acc s <> Exc e s').
Proof.
  intros [Hp _]. induction names as [|n r IH]; intros acc s Hi; cbn [persons_of].
  - split; [cbn; split; [exact Hi|apply ext_refl]|discriminate].
  - destruct (Hp n) as [Hc Hf]. destruct (person_of_string n) as [[p rep]|cls l| |]; try congruence.
    + assert (Hh : safe text s (if rep then handle_error m (data_err E_NAME) s else Ret tt s)).
      { destruct rep; [apply handle_error_safe; [exact Hi|apply data_err_ok; [reflexivity|discriminate]]|].
        cbn. split; [exact Hi|apply ext_refl]. }
      assert (Hn : forall e s', (if rep then handle_error m (data_err E_NAME) s else Ret tt s) <> Exc e s').
      { intros. destruct rep; [apply handle_no_exc|discriminate]. }
      destruct (if rep then handle_error m (data_err E_NAME) s else Ret tt s) as [u s1|e1 s1|x1]; cbn [obind].
      * destruct Hh as [Hi1 He1]. destruct (IH (acc ++ [p]) s1 Hi1) as [H1 H2]. split; [eapply safe_ext; eauto|exact H2].
      * exfalso. eapply Hn; reflexivity.
      * split; [exact Hh|discriminate].
    + split; [exact I|discriminate].
Qed.

Lemma process_fields_safe text m : names_total -> forall fields seen fs ps s, inv text s ->
  safe text s (process_fields m fields seen fs ps s) /\ (forall e s', process_fields m fields seen fs ps s <> Exc e s').
Proof.
  intros Hn. induction fields as [|[fname parts] rest IH]; intros seen fs ps s Hi; cbn [process_fields].
  - split; [cbn; split; [exact Hi|apply ext_refl]|discriminate].
  - destruct (existsb (str_eqb (lower fname)) seen).
    + pose proof (handle_error_safe text m (data_err E_DUPFIELD) s Hi (data_err_ok text E_DUPFIELD eq_refl ltac:(discriminate))) as Hh.
      pose proof (handle_no_exc m (data_err E_DUPFIELD) s) as Hne.
      destruct (handle_error m (data_err E_DUPFIELD) s) as [u s1|e1 s1|x1]; cbn [obind].
      * destruct Hh as [Hi1 He1]. destruct (IH seen fs ps s1 Hi1) as [H1 H2]. split; [eapply safe_ext; eauto|exact H2].
      * exfalso. eapply Hne; reflexivity.
      * split; [exact Hh|discriminate].
    + destruct (is_person_field (lower fname)).
      * destruct (proj2 Hn (normalize_whitespace (concat parts))) as [Hc Hf].
        destruct (split_name_list (normalize_whitespace (concat parts))) as [names|cls l| |]; try congruence.
        -- destruct (persons_of_safe text m Hn names [] s Hi) as [Hp Hpe].
           destruct (persons_of m names [] s) as [pl s1|e1 s1|x1]; cbn [obind].
           ++ destruct Hp as [Hi1 He1].
              destruct (IH (seen ++ [lower fname]) fs (match pl with [] => ps | _ => ps ++ [(fname, pl)] end) s1 Hi1) as [H1 H2].
              split; [eapply safe_ext; eauto|exact H2].
           ++ exfalso. eapply Hpe; reflexivity.
           ++ split; [exact Hp|discriminate].
        -- split; [exact I|discriminate].
      * apply IH. exact Hi.
Qed.

Lemma process_safe text : names_total -> proc_safe text process.
Proof.
  intros Hn m c d s Hi. destruct c as [n f v|n v|typ key fields]; cbn [process].
  - split; [cbn; split; [exact Hi|apply ext_refl]|discriminate].
  - unfold process_preamble. split; [cbn; split; [exact Hi|apply ext_refl]|discriminate].
  - unfold process_entry.
    destruct (match key with
              | Some k => (k, d)
              | None => ([117; 110; 110; 97; 109; 101; 100; 45] ++ dec (db_unnamed d),
                         mkDb (db_entries d) (db_preamble d) (db_unnamed d + 1) (db_mark d))
              end) as [k d1].
    destruct (process_fields_safe text m Hn fields [] [] [] s Hi) as [Hp Hpe].
    destruct (process_fields m fields [] [] [] s) as [r s1|e1 s1|x1]; cbn [obind].
    + destruct Hp as [Hi1 He1]. unfold add_entry.
      destruct (existsb (fun e => str_eqb (lower (en_key e)) (lower k)) (db_entries d1)).
      * pose proof (handle_error_safe text m (data_err E_REPEATED) s1 Hi1 (data_err_ok text E_REPEATED eq_refl ltac:(discriminate))) as Hh.
        pose proof (handle_no_exc m (data_err E_REPEATED) s1) as Hne.
        destruct (handle_error m (data_err E_REPEATED) s1) as [u s2|e2 s2|x2]; cbn [obind].
        -- destruct Hh as [Hi2 He2]. split; [|discriminate]. cbn. split; [exact Hi2|eapply ext_trans; eauto].
        -- exfalso. eapply Hne; reflexivity.
        -- split; [exact Hh|discriminate].
      * split; [|discriminate]. cbn. split; [exact Hi1|exact He1].
    + exfalso. eapply Hpe; reflexivity.
    + split; [exact Hp|discriminate].
Qed.

Lemma parse_bib_safe m text : names_total -> final0 text (parse_bib m text).
Proof.
  intros Hn. unfold parse_bib. apply bib_loop_safe.
  - apply process_safe. exact Hn.
  - apply inv0_init.
  - unfold len. cbn. lia.
Qed.

(* ---- non-strict mode reads exactly as capture mode does (printing a warning cannot fail) *)
Lemma eq_bind {A B} text s (r : out A) (k1 k2 : A -> pst -> out B) :
  safe text s r -> (forall a s1, r = Ret a s1 -> inv text s1 -> k1 a s1 = k2 a s1) -> (r >>= k1) = (r >>= k2).
Proof. intros H Hk. destruct r as [a s1|e s1|f]; cbn in *; auto. apply Hk; [reflexivity|exact (proj1 H)]. Qed.

Lemma handle_error_ns text e s : err_ok text e -> handle_error NonStrict e s = handle_error Capture e s.
Proof. intros H. cbn. rewrite (print_ok _ _ H). reflexivity. Qed.

Lemma substitute_macro_ns text name s : inv text s -> substitute_macro NonStrict name s = substitute_macro Capture name s.
Proof.
  intros Hi. unfold substitute_macro. destruct (assoc_get (lower name) (p_macros s)); [reflexivity|].
  rewrite (handle_error_ns text); [reflexivity|]. apply (mk_err_ok text E_UNDEF s Hi eq_refl).
Qed.

Lemma parse_value_part_ns text s : inv text s -> parse_value_part NonStrict s = parse_value_part Capture s.
Proof.
  intros Hi. unfold parse_value_part. eapply eq_bind.
  - apply required_safe; [exact Hi|exact value_pats_ok].
  - intros tk s1 _ Hi1. destruct (fst tk); try reflexivity; apply (substitute_macro_ns text); exact Hi1.
Qed.

Lemma parse_value_loop_ns text fuel : forall parts s, inv text s ->
  parse_value_loop fuel NonStrict parts s = parse_value_loop fuel Capture parts s.
Proof.
  induction fuel as [|f IH]; intros parts s Hi; [reflexivity|]. cbn [parse_value_loop].
  rewrite (parse_value_part_ns text s Hi). eapply eq_bind.
  - apply parse_value_part_safe. exact Hi.
  - intros part s1 _ Hi1. eapply eq_bind.
    + apply optional_safe; [exact Hi1|exact hash_ok].
    + intros h s2 _ Hi2. destruct h; [apply IH; exact Hi2|reflexivity].
Qed.

Lemma parse_value_ns text s : inv text s -> parse_value NonStrict s = parse_value Capture s.
Proof. intros Hi. unfold parse_value. rewrite (parse_value_loop_ns text); [reflexivity|exact Hi]. Qed.

Lemma parse_field_ns text s : inv text s -> parse_field NonStrict s = parse_field Capture s.
Proof.
  intros Hi. unfold parse_field. eapply eq_bind.
  - apply optional_safe; [exact Hi|exact name_ok].
  - intros name s1 _ Hi1. destruct name as [tk|]; [|reflexivity].
    destruct (same_core_inv text s1 (set_fname s1 (Some (snd tk))) ltac:(same) Hi1) as [Hi2 _].
    eapply eq_bind.
    + apply required_safe; [exact Hi2|exact equals_ok].
    + intros x s3 _ Hi3. apply (parse_value_ns text). exact Hi3.
Qed.

Lemma parse_entry_fields_ns text fuel : forall s, inv text s ->
  parse_entry_fields fuel NonStrict s = parse_entry_fields fuel Capture s.
Proof.
  induction fuel as [|f IH]; intros s Hi; [reflexivity|]. cbn [parse_entry_fields].
  destruct (same_core_inv text s (set_value (set_fname s None) []) ltac:(same) Hi) as [Hi0 _].
  rewrite (parse_field_ns text _ Hi0). eapply eq_bind.
  - apply parse_field_safe. exact Hi0.
  - intros u s1 _ Hi1.
    set (s2 := match p_fname s1, p_value s1 with
               | Some n, _ :: _ => set_fields s1 (p_fields s1 ++ [(n, p_value s1)])
               | _, _ => s1 end).
    assert (Hc : same_core s1 s2) by (unfold s2; destruct (p_fname s1); [destruct (p_value s1)|]; same).
    destruct (same_core_inv text s1 s2 Hc Hi1) as [Hi2 _].
    eapply eq_bind.
    + apply optional_safe; [exact Hi2|exact comma_ok].
    + intros comma s3 _ Hi3. destruct comma; [apply IH; exact Hi3|reflexivity].
Qed.

Lemma parse_entry_body_ns text b s : inv text s -> parse_entry_body NonStrict b s = parse_entry_body Capture b s.
Proof.
  intros Hi. unfold parse_entry_body. eapply eq_bind.
  - apply required_safe; [exact Hi|apply key_ok].
  - intros tk s1 _ Hi1.
    destruct (same_core_inv text s1 (set_key s1 (Some (snd tk))) ltac:(same) Hi1) as [Hi2 _].
    apply (parse_entry_fields_ns text). exact Hi2.
Qed.

Lemma parse_string_body_ns text s : inv text s -> parse_string_body NonStrict s = parse_string_body Capture s.
Proof.
  intros Hi. unfold parse_string_body. eapply eq_bind.
  - apply required_safe; [exact Hi|exact name_ok].
  - intros tk s1 _ Hi1.
    destruct (same_core_inv text s1 (set_fname s1 (Some (snd tk))) ltac:(same) Hi1) as [Hi2 _].
    eapply eq_bind.
    + apply required_safe; [exact Hi2|exact equals_ok].
    + intros x s3 _ Hi3. rewrite (parse_value_ns text s3 Hi3). reflexivity.
Qed.

Lemma parse_command_ns text s : inv text s -> parse_command NonStrict s = parse_command Capture s.
Proof.
  intros Hi. unfold parse_command.
  set (s0 := set_value (set_fname (set_fields (set_key s None) []) None) []).
  destruct (same_core_inv text s s0 ltac:(same) Hi) as [Hi0 _].
  eapply eq_bind.
  - apply required_safe; [exact Hi0|exact name_ok].
  - intros name s1 _ Hi1. eapply eq_bind.
    + apply required_safe; [exact Hi1|exact open_ok].
    + intros bs s2 _ Hi2.
      destruct (str_eqb (lower (snd name)) kw_comment); [reflexivity|].
      set (brace := match fst bs with P_LIT c => c =? c_lbrace | _ => false end).
      set (k := if str_eqb (lower (snd name)) kw_string then KString
                else if str_eqb (lower (snd name)) kw_preamble then KPreamble else KEntry).
      assert (Hb : match k with
                   | KString => parse_string_body NonStrict s2
                   | KPreamble => parse_preamble_body NonStrict s2
                   | KEntry => parse_entry_body NonStrict brace s2 end =
                   match k with
                   | KString => parse_string_body Capture s2
                   | KPreamble => parse_preamble_body Capture s2
                   | KEntry => parse_entry_body Capture brace s2 end).
      { destruct k; [apply (parse_string_body_ns text)|apply (parse_value_ns text)|apply (parse_entry_body_ns text)]; exact Hi2. }
      rewrite Hb.
      set (body := match k with
                   | KString => parse_string_body Capture s2
                   | KPreamble => parse_preamble_body Capture s2
                   | KEntry => parse_entry_body Capture brace s2 end).
      assert (Hs : safe text s2 (body >>= (fun _ s3 => required [P_LIT (if brace then c_rbrace else 41)] s3))).
      { apply safe_bind.
        - unfold body. destruct k; [apply parse_string_body_safe|apply parse_value_safe|apply parse_entry_body_safe]; exact Hi2.
        - intros u s3 _ Hi3 _. apply required_safe; [exact Hi3|]. destruct brace; apply lit_ok; discriminate. }
      destruct (body >>= (fun _ s3 => required [P_LIT (if brace then c_rbrace else 41)] s3)) as [u s4|e s4|f]; try reflexivity.
      cbn in Hs. destruct Hs as (_ & _ & Hok & _). rewrite (handle_error_ns text e s4 Hok). reflexivity.
Qed.

Definition proc_ns {D} (text : str) (proc : mode -> cmd -> D -> pst -> out D) : Prop :=
  forall c d s, inv text s -> proc NonStrict c d s = proc Capture c d s.

Lemma bib_loop_ns {D} text (proc : mode -> cmd -> D -> pst -> out D) : proc_safe text proc -> proc_ns text proc ->
  forall fuel d s, inv0 text s -> bib_loop proc fuel NonStrict d s = bib_loop proc fuel Capture d s.
Proof.
  intros Hps Hpn. induction fuel as [|f IH]; intros d s Hi; [reflexivity|]. cbn [bib_loop].
  destruct (skip_to (fun c => c =? c_at) (p_sc s)) as [[[v c] c']|] eqn:Es; [|reflexivity].
  destruct Hi as [Ha Hb].
  destruct (skip_to_spec text _ _ _ _ _ at_not_cr Ha Es) as (H1 & H2 & H3 & H4 & _).
  destruct (skip_to_last text _ _ _ _ _ Ha Es) as [H5 H6].
  apply N.eqb_eq in H4. subst c.
  set (s1 := set_cstart (set_sc s c') (sc_pos c' - 1)).
  assert (Hi1 : inv text s1).
  { unfold inv, inv0, s1. cbn. repeat split; auto. lia. }
  rewrite (parse_command_ns text s1 Hi1).
  pose proof (parse_command_safe text Capture s1 Hi1) as Hc.
  destruct (parse_command Capture s1) as [[c|] s2|e s2|x]; try reflexivity.
  - destruct Hc as [Hi2 _]. rewrite (Hpn c d s2 Hi2).
    destruct (Hps Capture c d s2 Hi2) as [Hp _].
    destruct (proc Capture c d s2) as [d' s3|e3 s3|x3]; cbn [obind]; try reflexivity.
    apply IH. exact (proj1 (proj1 Hp)).
  - apply IH. exact (proj1 (proj1 Hc)).
  - destruct Hc as (Hi2 & _ & Hok & _). rewrite (handle_error_ns text e s2 Hok).
    pose proof (handle_error_safe text Capture e s2 Hi2 Hok) as Hh.
    destruct (handle_error Capture e s2) as [u s3|e3 s3|x3]; cbn [obind]; try reflexivity.
    apply IH. exact (proj1 (proj1 Hh)).
Qed.

Lemma lowlevel_ns text : lowlevel NonStrict text = lowlevel Capture text.
Proof.
  unfold lowlevel. apply (bib_loop_ns text).
  - intros m' c d s Hi. split; [cbn; split; [exact Hi|apply ext_refl]|intros; discriminate].
  - intros c d s Hi. reflexivity.
  - apply inv0_init.
Qed.

Lemma data_handle_ns cls s : (cls <=? 5) = false -> cls <> E_TOKEN ->
  handle_error NonStrict (data_err cls) s = handle_error Capture (data_err cls) s.
Proof. intros H1 H2. apply (handle_error_ns []). apply data_err_ok; auto. Qed.

Lemma persons_of_ns : forall names acc s, persons_of NonStrict names acc s = persons_of Capture names acc s.
Proof.
  induction names as [|n r IH]; intros acc s; cbn [persons_of]; [reflexivity|].
  destruct (person_of_string n) as [[p rep]|? ?| |]; try reflexivity.
  destruct rep; [rewrite (data_handle_ns E_NAME s eq_refl ltac:(discriminate))|].
  - destruct (handle_error Capture (data_err E_NAME) s); cbn [obind]; auto.
  - cbn [obind]. apply IH.
Qed.

Lemma process_fields_ns : forall fields seen fs ps s,
  process_fields NonStrict fields seen fs ps s = process_fields Capture fields seen fs ps s.
Proof.
  induction fields as [|[fname parts] rest IH]; intros seen fs ps s; cbn [process_fields]; [reflexivity|].
  destruct (existsb (str_eqb (lower fname)) seen).
  - rewrite (data_handle_ns E_DUPFIELD s eq_refl ltac:(discriminate)).
    destruct (handle_error Capture (data_err E_DUPFIELD) s); cbn [obind]; auto.
  - destruct (is_person_field (lower fname)); [|apply IH].
    destruct (split_name_list (normalize_whitespace (concat parts))); try reflexivity.
    rewrite persons_of_ns. destruct (persons_of Capture a [] s); cbn [obind]; auto.
Qed.

Lemma process_ns text : proc_ns text process.
Proof.
  intros c d s _. destruct c as [n f v|n v|typ key fields]; cbn [process]; try reflexivity.
  unfold process_entry.
  destruct (match key with
            | Some k => (k, d)
            | None => ([117; 110; 110; 97; 109; 101; 100; 45] ++ dec (db_unnamed d),
                       mkDb (db_entries d) (db_preamble d) (db_unnamed d + 1) (db_mark d))
            end) as [k d1].
  rewrite process_fields_ns. destruct (process_fields Capture fields [] [] [] s) as [r s1|e1 s1|x1]; cbn [obind]; try reflexivity.
Qed.

Lemma parse_bib_ns text : names_total -> parse_bib NonStrict text = parse_bib Capture text.
Proof.
  intros Hn. unfold parse_bib. apply (bib_loop_ns text).
  - apply process_safe. exact Hn.
  - apply process_ns.
  - apply inv0_init.
Qed.

(* ---- statements in the form used by Props/C10.v *)
Definition no_internal_failure {A} (r : out A) : Prop :=
  r <> Fatal FCrash /\ r <> Fatal FFuel /\ (forall e s, r <> Exc e s).

Lemma final0_no_failure {D} text (r : out D) : final0 text r -> no_internal_failure r.
Proof.
  intros H. destruct r as [d s|e s|[c l| |]]; cbn in H; try contradiction; repeat split; try discriminate; intros; discriminate.
Qed.

Lemma lowlevel_total m text : no_internal_failure (lowlevel m text).
Proof. apply (final0_no_failure text). apply lowlevel_safe. Qed.

Lemma parse_bib_total m text : names_total -> no_internal_failure (parse_bib m text).
Proof. intros Hn. apply (final0_no_failure text). apply parse_bib_safe. exact Hn. Qed.

Definition located (text : str) (e : err) : Prop :=
  if e_cls e <=? 5
  then e_line e = (1 + newlines (firstn (e_pos e) text))%Z
       /\ (e_start e < e_pos e <= length text)%nat /\ nth_error text (e_start e) = Some 64
  else e_line e = (-1)%Z.

Lemma err_ok_located text e : err_ok text e -> located text e.
Proof. unfold err_ok, located, is_syntax. destruct (e_cls e <=? 5); [auto|intros [H _]; exact H]. Qed.

Lemma parse_bib_located m text d s : names_total -> parse_bib m text = Ret d s ->
  forall e, In e (p_errs s) -> located text e.
Proof.
  intros Hn H e He. pose proof (parse_bib_safe m text Hn) as Hs. rewrite H in Hs. cbn in Hs.
  destruct Hs as [_ Hf]. rewrite Forall_forall in Hf. apply err_ok_located. auto.
Qed.

Lemma lowlevel_located m text d s : lowlevel m text = Ret d s -> forall e, In e (p_errs s) -> located text e.
Proof.
  intros H e He. pose proof (lowlevel_safe m text) as Hs. rewrite H in Hs. cbn in Hs.
  destruct Hs as [_ Hf]. rewrite Forall_forall in Hf. apply err_ok_located. auto.
Qed.

(* the nesting guard: the 101st nested opening brace is a syntax error, whatever follows *)
Lemma nesting_guard f q acc s v sc' :
  skip_to (fun c => is_lbrace c || is_rbrace c || (q && Nat.eqb 100 0 && (c =? c_quote))) (p_sc s) = Some (v, c_lbrace, sc') ->
  pstring (S f) q 100 acc s = Exc (mk_err E_NESTED (set_sc s sc')) (set_sc s sc').
Proof. intros H. cbn [pstring]. rewrite H. reflexivity. Qed.

(* ---- confinement at command level *)
(* entries and preamble items are only ever appended: nothing that comes later in the text,
   malformed or not, alters what has been read before it *)
Lemma process_append m c d s d' s' : process m c d s = Ret d' s' ->
  (exists l, db_entries d' = db_entries d ++ l) /\ (exists l, db_preamble d' = db_preamble d ++ l).
Proof.
  destruct c as [n f v|n v|typ key fields]; cbn [process].
  - intros H. injection H as <- <-. split; exists []; rewrite app_nil_r; reflexivity.
  - unfold process_preamble. intros H. injection H as <- <-. cbn. split; [exists []; rewrite app_nil_r; reflexivity|eexists; reflexivity].
  - unfold process_entry.
    assert (Hd : forall d1, (match key with
              | Some k => (k, d)
              | None => ([117; 110; 110; 97; 109; 101; 100; 45] ++ dec (db_unnamed d),
                         mkDb (db_entries d) (db_preamble d) (db_unnamed d + 1) (db_mark d))
              end) = d1 -> db_entries (snd d1) = db_entries d /\ db_preamble (snd d1) = db_preamble d).
    { intros d1 <-. destruct key; cbn; auto. }
    destruct (match key with
              | Some k => (k, d)
              | None => ([117; 110; 110; 97; 109; 101; 100; 45] ++ dec (db_unnamed d),
                         mkDb (db_entries d) (db_preamble d) (db_unnamed d + 1) (db_mark d))
              end) as [k d1].
    destruct (Hd _ eq_refl) as [He Hp]. cbn in He, Hp.
    destruct (process_fields m fields [] [] [] s) as [r s1|e1 s1|x1]; cbn [obind]; try discriminate.
    unfold add_entry. destruct (existsb (fun e => str_eqb (lower (en_key e)) (lower k)) (db_entries d1)).
    + destruct (handle_error m (data_err E_REPEATED) s1) as [u s2|e2 s2|x2]; cbn [obind]; try discriminate.
      intros H. injection H as <- <-. cbn. rewrite He, Hp. split; exists []; rewrite app_nil_r; reflexivity.
    + intros H. injection H as <- <-. cbn. rewrite He, Hp. split; [eexists; reflexivity|exists []; rewrite app_nil_r; reflexivity].
Qed.

Lemma bib_loop_append m : forall fuel d s d' s', bib_loop process fuel m d s = Ret d' s' ->
  (exists l, db_entries d' = db_entries d ++ l) /\ (exists l, db_preamble d' = db_preamble d ++ l).
Proof.
  induction fuel as [|f IH]; intros d s d' s' H; [discriminate|]. cbn [bib_loop] in H.
  destruct (skip_to (fun c => c =? c_at) (p_sc s)) as [[[v c] c']|].
  2:{ injection H as <- <-. split; exists []; rewrite app_nil_r; reflexivity. }
  destruct (parse_command m (set_cstart (set_sc s c') (sc_pos c' - 1))) as [[c0|] s2|e s2|x]; try discriminate.
  - destruct (process m c0 d s2) as [d1 s3|e3 s3|x3] eqn:Ep; cbn [obind] in H; try discriminate.
    destruct (process_append _ _ _ _ _ _ Ep) as [[l1 H1] [l2 H2]].
    destruct (IH _ _ _ _ H) as [[l3 H3] [l4 H4]]. split.
    + exists (l1 ++ l3). rewrite H3, H1, app_assoc. reflexivity.
    + exists (l2 ++ l4). rewrite H4, H2, app_assoc. reflexivity.
  - apply (IH _ _ _ _ H).
  - destruct (handle_error m e s2) as [u s3|e3 s3|x3]; cbn [obind] in H; try discriminate.
    apply (IH _ _ _ _ H).
Qed.

(* what is read after a command depends only on the scanner, the macro table, the
   database and the errors so far -- not on the current_* attributes or command_start a
   (possibly malformed) command left behind *)
Definition view {D} (r : out D) : option (D * list err * list (str * str)) + fatal :=
  match r with
  | Ret d s => inl (Some (d, p_errs s, p_macros s))
  | Exc _ _ => inl None
  | Fatal f => inr f
  end.

Lemma bib_loop_forgets {D} (proc : mode -> cmd -> D -> pst -> out D) m fuel d s k fs fn v cs :
  view (bib_loop proc fuel m d (mkP (p_sc s) (p_macros s) (p_errs s) k fs fn v cs)) = view (bib_loop proc fuel m d s).
Proof.
  destruct fuel as [|f]; [reflexivity|]. cbn [bib_loop p_sc].
  destruct (skip_to (fun c => c =? c_at) (p_sc s)) as [[[v0 c] c']|]; [|reflexivity].
  unfold parse_command, set_cstart, set_sc, set_value, set_fname, set_fields, set_key. cbn. reflexivity.
Qed.

(* ---- the premise names_total is C04's theorem pair *)
From Pybtex Require Proofs.Names.
Lemma names_total_holds : names_total.
Proof. split; [exact Proofs.Names.person_of_string_total|exact Proofs.Names.split_name_list_total]. Qed.

Lemma parse_bib_total_all m text : no_internal_failure (parse_bib m text).
Proof. apply parse_bib_total. exact names_total_holds. Qed.
Lemma parse_bib_located_all m text d s : parse_bib m text = Ret d s -> forall e, In e (p_errs s) -> located text e.
Proof. apply parse_bib_located. exact names_total_holds. Qed.
Lemma parse_bib_ns_all text : parse_bib NonStrict text = parse_bib Capture text.
Proof. apply parse_bib_ns. exact names_total_holds. Qed.
