(* Proofs/WritersBib.v -- the BibTeX writer's output is a rendering the reader theorems of the C01/C10 builder
   (Proofs/BibFile.v, BibEntry.v, BibValues.v) quantify over, hence the file-level round trip
   read_bibtex (write_bibtex d) = d on the domain without persons (C02).  Nothing of BibFile.v is edited:
   its item_reads (any error mode) is reused; the loop is redone here for the strict mode with the
   reported errors tracked (file_roundtrip_partial there is for capture mode and does not expose them). *)
From Pybtex Require Import Base.Prelude Base.PyChar Base.PyStr Model.BibtexStr Model.Names Model.Scanner Model.BibParser Model.Writers
  Proofs.Scanner Proofs.CharFacts Proofs.BibValues Proofs.BibEntry Proofs.BibFile
  Proofs.WritersDict Proofs.WritersTree Proofs.WritersQuote Proofs.WritersField.
Local Open Scope N_scope.

(* ======================= reader side: process in any mode, no error reported ======================= *)
Lemma process_fields_fresh m : forall fields seen fs ps s,
  plain_fields fields -> NoDup (map (fun f => lower (fst f)) fields) ->
  (forall f, In f fields -> ~ In (lower (fst f)) seen) ->
  process_fields m fields seen fs ps s = Ret (fs ++ map field_value fields, ps) s.
Proof.
  induction fields as [|[n p] r IH]; intros seen fs ps s Hp Hnd Hfr; cbn [process_fields].
  - cbn. now rewrite app_nil_r.
  - assert (E : existsb (str_eqb (lower n)) seen = false).
    { destruct (existsb (str_eqb (lower n)) seen) eqn:E; [|reflexivity]. exfalso.
      apply existsb_str_in in E. apply (Hfr (n, p) (or_introl eq_refl)). exact E. }
    rewrite E. pose proof (Hp (n, p) (or_introl eq_refl)) as Hnp. cbn [fst] in Hnp. rewrite Hnp.
    inversion Hnd as [|? ? Hn1 Hn2]; subst.
    rewrite IH.
    + cbn [map field_value fst snd]. rewrite <- app_assoc. reflexivity.
    + intros f Hf. apply Hp. now right.
    + exact Hn2.
    + intros f Hf Hin. apply in_app_or in Hin as [Hin|[Hin|[]]].
      * apply (Hfr f (or_intror Hf)). exact Hin.
      * apply Hn1. rewrite Hin. apply (in_map (fun f => lower (fst f)) r f Hf).
Qed.

Definition clean (d : db) (s : pst) : Prop := p_errs s = [] /\ db_mark d = 0%nat.

Lemma process_entry_clean m typ key fields d s :
  clean d s -> plain_fields fields -> NoDup (map (fun f => lower (fst f)) fields) ->
  existsb (fun e => str_eqb (lower (en_key e)) (lower key)) (db_entries d) = false ->
  exists d', process m (CEntry typ (Some key) fields) d s = Ret d' s /\ clean d' s /\
             wdb_of_db d' = mkWDb (wd_entries (wdb_of_db d) ++ [mkWE key typ (map field_value fields) []]) (wd_preamble (wdb_of_db d)).
Proof.
  intros [He Hm] Hp Hnd Hk. cbn [process]. unfold process_entry.
  rewrite (process_fields_fresh m fields [] [] [] s Hp Hnd) by (intros f _ []).
  cbn [obind fst snd app]. unfold add_entry. rewrite Hk. rewrite He, Hm. cbn [length Nat.ltb Nat.leb].
  eexists. split; [reflexivity|]. split; [split; [exact He|reflexivity]|].
  unfold wdb_of_db. cbn [db_entries db_preamble wd_entries wd_preamble]. rewrite map_app. reflexivity.
Qed.

Lemma process_preamble_clean m kw vals d s : clean d s ->
  exists d', process m (CPreamble kw vals) d s = Ret d' s /\ clean d' s /\ db_entries d' = db_entries d /\
             wdb_of_db d' = mkWDb (wd_entries (wdb_of_db d)) (wd_preamble (wdb_of_db d) ++ [normalize_whitespace (concat vals)]).
Proof.
  intros [He Hm]. cbn [process]. unfold process_preamble. rewrite He, Hm. cbn [length Nat.ltb Nat.leb].
  eexists. split; [reflexivity|]. split; [split; [exact He|reflexivity]|]. split; [reflexivity|].
  unfold wdb_of_db. cbn [db_entries db_preamble wd_entries wd_preamble]. rewrite map_app. reflexivity.
Qed.

(* ======================= the writer's layout as items of the reader theorems ======================= *)
Definition sf_of (lastf : bool) (kv : str * str) : sfield :=
  ([10; 32; 32; 32; 32], fst kv, [32],
   [([32], SDelim (negb (has_quote (snd kv))) (snd kv), if lastf then [10] else [])]).
Fixpoint sfs (fields : list (str * str)) : list sfield :=
  match fields with
  | [] => []
  | [kv] => [sf_of true kv]
  | kv :: r => sf_of false kv :: sfs r
  end.
Definition ientry (e : wentry) : sitem :=
  match we_fields e with
  | [] => IEntry true [] (we_otype e) [] [] (we_key e) [10] false [] false []
  | fs => IEntry true [] (we_otype e) [] [] (we_key e) [] true (sfs fs) false []
  end.
(* the text of the entries: '@' item, line end, and an empty line before the next one *)
Fixpoint etext (es : list wentry) : str :=
  match es with
  | [] => []
  | e :: r => c_at :: item_text (ientry e) (10 :: match r with [] => [] | _ => 10 :: etext r end)
  end.

Section Enc.
  Variable enc : str -> str.

  Definition bib_ok_field (kv : str * str) : Prop :=
    is_name (fst kv) = true /\ is_person_field (lower (fst kv)) = false /\
    balanced (snd kv) /\ normalize_whitespace (snd kv) = snd kv /\ enc (snd kv) = snd kv.
  Definition bib_ok_entry (e : wentry) : Prop :=
    is_entry_type (we_otype e) = true /\ is_key true (we_key e) = true /\ we_persons e = [] /\
    Forall bib_ok_field (we_fields e).

  Lemma sfs_wf macros fs : Forall bib_ok_field fs -> Forall (wf_sfield macros) (sfs fs).
  Proof.
    induction 1 as [|kv r (Hn & _ & Hb & _ & _) Hr IH]; [constructor|].
    assert (W : forall b, wf_sfield macros (sf_of b kv)).
    { intros b. unfold sf_of, wf_sfield. repeat split; auto; try discriminate.
      constructor; [|constructor]. cbn. repeat split; [now destruct b|]. now apply wf_body_balanced. }
    cbn [sfs]. destruct r; constructor; auto.
  Qed.

  Lemma sfs_result macros fs :
    map field_value (map (field_result macros) (sfs fs)) = map (fun kv => (fst kv, normalize_whitespace (snd kv))) fs.
  Proof.
    assert (E : forall b kv, field_value (field_result macros (sf_of b kv)) = (fst kv, normalize_whitespace (snd kv))).
    { intros b kv. unfold sf_of, field_result, field_value. cbn. now rewrite app_nil_r. }
    induction fs as [|kv r IH]; [reflexivity|]. cbn [sfs]. destruct r as [|kv2 r'].
    - cbn [map]. now rewrite E.
    - cbn [map] in *. rewrite E. f_equal. exact IH.
  Qed.

  Lemma sfs_names macros fs : map (fun f => lower (fst f)) (map (field_result macros) (sfs fs)) = lkeys fs.
  Proof.
    induction fs as [|kv r IH]; [reflexivity|]. cbn [sfs]. destruct r as [|kv2 r']; [reflexivity|].
    cbn [map lkeys] in *. f_equal. exact IH.
  Qed.

  Lemma sfs_plain macros fs : Forall bib_ok_field fs -> plain_fields (map (field_result macros) (sfs fs)).
  Proof.
    intros H f Hin. apply in_map_iff in Hin as (sf & <- & Hin).
    assert (G : forall fs, Forall bib_ok_field fs -> forall sf, In sf (sfs fs) -> exists b kv, sf = sf_of b kv /\ bib_ok_field kv).
    { clear. induction 1 as [|kv r Hkv Hr IH]; intros sf Hin; [destruct Hin|]. cbn [sfs] in Hin. destruct r as [|kv2 r'].
      - destruct Hin as [<-|[]]. eauto.
      - destruct Hin as [<-|Hin]; [eauto|]. apply IH. exact Hin. }
    destruct (G fs H sf Hin) as (b & kv & -> & (_ & Hp & _)). exact Hp.
  Qed.

  Definition rd (e : wentry) : wentry :=
    mkWE (we_key e) (we_otype e) (map (fun kv => (fst kv, normalize_whitespace (snd kv))) (we_fields e)) [].

  Lemma ientry_wf macros e : bib_ok_entry e -> wf_item macros (ientry e).
  Proof.
    intros (Ht & Hk & _ & Hf). unfold ientry. destruct (we_fields e) as [|kv r] eqn:E; cbn [wf_item]; unfold sp.
    - repeat split; auto.
    - repeat split; auto; try discriminate. apply sfs_wf. exact Hf.
  Qed.

  Lemma ientry_cmd macros e :
    item_cmd macros (ientry e) = Some (CEntry (we_otype e) (Some (we_key e)) (map (field_result macros) (sfs (we_fields e)))) /\
    item_macros macros (ientry e) = macros.
  Proof. unfold ientry. destruct (we_fields e); split; reflexivity. Qed.

  Lemma loop_entries m : forall es fuel d st ws,
    (length es < fuel)%nat -> Forall bib_ok_entry es -> Forall wf_entry es -> clean d st -> no_at ws ->
    NoDup (map (fun e => lower (en_key e)) (db_entries d) ++ map (fun e => lower (we_key e)) es) ->
    sc_rest (p_sc st) = ws ++ etext es ->
    exists d' st', bib_loop process fuel m d st = Ret d' st' /\ clean d' st' /\
      wdb_of_db d' = mkWDb (wd_entries (wdb_of_db d) ++ map rd es) (wd_preamble (wdb_of_db d)).
  Proof.
    induction es as [|e r IH]; intros fuel d st ws Hf Hok Hwf Hcl Hws Hnd Hr; (destruct fuel as [|fu]; [cbn in Hf; lia|]); cbn [bib_loop].
    - cbn [etext] in Hr. rewrite app_nil_r in Hr. unfold skip_to. rewrite Hr, (find_first_all_false _ ws Hws).
      exists d, st. split; [reflexivity|]. split; [exact Hcl|]. cbn [map]. rewrite app_nil_r. now destruct (wdb_of_db d).
    - inversion Hok as [|? ? Hoe Hor]; subst. inversion Hwf as [|? ? Hwe Hwr]; subst.
      cbn [etext] in Hr. unfold skip_to. rewrite Hr, (BibValues.find_first_app _ ws c_at _ Hws eq_refl).
      match goal with |- context [parse_command m ?s1] =>
        destruct (item_reads m s1 (ientry e) _ (ientry_wf _ e Hoe) eq_refl) as (st2 & E & Hr2 & Her & Hma)
      end.
      rewrite E. cbn [p_macros p_errs set_cstart set_sc] in *.
      destruct (ientry_cmd (p_macros st) e) as [Ec Em]. rewrite Ec.
      assert (Hcl2 : clean d st2) by (destruct Hcl as [H1 H2]; split; [rewrite Her; exact H1|exact H2]).
      assert (Hfresh : existsb (fun x => str_eqb (lower (en_key x)) (lower (we_key e))) (db_entries d) = false).
      { destruct (existsb _ (db_entries d)) eqn:EX; [|reflexivity]. exfalso.
        apply existsb_exists in EX as (x & Hx & Hxe). apply str_eqb_eq in Hxe.
        cbn [map] in Hnd. apply (NoDup_app_disj _ _ (lower (we_key e)) Hnd).
        - rewrite <- Hxe. apply (in_map (fun e => lower (en_key e)) _ _ Hx).
        - now left. }
      destruct Hwe as (Hnf & _ & _).
      destruct (process_entry_clean m (we_otype e) (we_key e) _ d st2 Hcl2
                  (sfs_plain (p_macros st) _ (proj2 (proj2 (proj2 Hoe))))
                  ltac:(rewrite sfs_names; exact Hnf) Hfresh) as (d2 & Ep & Hcl3 & Hv).
      rewrite Ep. cbn [obind].
      destruct (IH fu d2 st2 (10 :: match r with [] => [] | _ => [10] end)) as (d' & st' & E' & Hcl' & Hv'); auto.
      + cbn [length] in Hf. lia.
      + intros x Hx. destruct r; cbn in Hx; intuition (subst; reflexivity).
      + assert (En : map (fun e0 => lower (en_key e0)) (db_entries d2) = map (fun e0 => lower (en_key e0)) (db_entries d) ++ [lower (we_key e)]).
        { apply (f_equal wd_entries) in Hv. unfold wdb_of_db in Hv. cbn [wd_entries] in Hv.
          apply (f_equal (map (fun w => lower (we_key w)))) in Hv. rewrite !map_map, map_app, map_map in Hv. cbn in Hv. exact Hv. }
        rewrite En, <- app_assoc. exact Hnd.
      + rewrite Hr2. destruct r; reflexivity.
      + exists d', st'. split; [exact E'|]. split; [exact Hcl'|]. rewrite Hv', Hv. cbn [wd_entries wd_preamble map].
        rewrite <- app_assoc. cbn [app]. unfold rd at 2. now rewrite sfs_result.
  Qed.
End Enc.

(* ======================= writer side: write_stream emits exactly that layout ======================= *)
Fixpoint wtext (fs : list (str * str)) : str :=
  match fs with
  | [] => []
  | kv :: r => c_comma :: render_sfield (sf_of false kv) ++ wtext r
  end.

Lemma render_sf_last kv : render_sfield (sf_of true kv) = render_sfield (sf_of false kv) ++ [10].
Proof.
  unfold sf_of, render_sfield. cbn [render_gparts render_gpart BibValues.part_text app].
  repeat (rewrite <- ?app_assoc; cbn [app]). rewrite ?app_nil_r. repeat (rewrite <- ?app_assoc; cbn [app]). reflexivity.
Qed.

Lemma wtext_fields fs rest : fs <> [] ->
  wtext fs ++ 10 :: c_rbrace :: rest = c_comma :: fields_text (sfs fs) false [] c_rbrace rest.
Proof.
  induction fs as [|kv r IH]; intros Hne; [congruence|]. cbn [wtext sfs]. destruct r as [|kv2 r'].
  - cbn [wtext fields_text]. rewrite render_sf_last, app_nil_r, <- app_assoc. reflexivity.
  - cbn [app]. rewrite <- app_assoc, IH by discriminate.
    change (sf_of false kv :: sfs (kv2 :: r')) with (sf_of false kv :: sfs (kv2 :: r')).
    cbn [fields_text]. destruct (sfs (kv2 :: r')) eqn:E; [destruct r'; discriminate|]. reflexivity.
Qed.

Section EncW.
  Variable enc : str -> str.

  Lemma write_field_text kv : bib_ok_field enc kv ->
    write_field enc (fst kv) (snd kv) = Ok (c_comma :: render_sfield (sf_of false kv)).
  Proof.
    intros (_ & _ & Hb & _ & He). unfold write_field. rewrite He.
    destruct (quote_total_pf (snd kv) Hb) as (q & Q). rewrite Q. cbn [bind].
    apply quote_as_dpart in Q. subst q.
    unfold sf_of, render_sfield. cbn [render_gparts render_gpart BibValues.part_text s_field_sep s_eq app].
    repeat (rewrite <- ?app_assoc; cbn [app]). rewrite ?app_nil_r. repeat (rewrite <- ?app_assoc; cbn [app]). reflexivity.
  Qed.

  Lemma write_fields_text fs : Forall (bib_ok_field enc) fs ->
    concat_res (map (fun kv => write_field enc (fst kv) (snd kv)) fs) = Ok (wtext fs).
  Proof.
    induction 1 as [|kv r Hkv _ IH]; [reflexivity|]. cbn [map concat_res wtext].
    rewrite (write_field_text kv Hkv), IH. cbn [bind app]. reflexivity.
  Qed.

  Lemma write_entry_text b e X : bib_ok_entry enc e ->
    exists a, write_entry enc b e = Ok a /\
      a ++ X = (if b then [] else [10]) ++ c_at :: item_text (ientry e) (10 :: X).
  Proof.
    intros (_ & _ & Hp & Hf). unfold write_entry. rewrite Hp. cbn [map concat_res bind].
    rewrite (write_fields_text _ Hf). cbn [bind]. eexists. split; [reflexivity|].
    unfold ientry. destruct (we_fields e) as [|kv r] eqn:E; cbn [item_text wtext]; unfold entry_text_gen, after_key, op_char, cl_char.
    - destruct b; repeat (rewrite <- ?app_assoc; cbn [app]); reflexivity.
    - rewrite <- (wtext_fields (kv :: r) (10 :: X)) by discriminate. cbn [wtext].
      destruct b; repeat (rewrite <- ?app_assoc; cbn [app]); reflexivity.
  Qed.

  Lemma write_entries_text : forall es b, Forall (bib_ok_entry enc) es ->
    write_entries enc b es = Ok ((if b then [] else match es with [] => [] | _ => [10] end) ++ etext es).
  Proof.
    induction es as [|e r IH]; intros b H; [destruct b; reflexivity|]. inversion H; subst.
    cbn [write_entries]. rewrite (IH false) by assumption.
    destruct (write_entry_text b e (match r with [] => [] | _ => 10 :: etext r end) H2) as (a & Ea & Ha).
    rewrite Ea. cbn [bind]. f_equal. cbn [etext].
    destruct r as [|e2 r']; destruct b; cbn [app etext] in *; rewrite ?app_nil_r in *; exact Ha.
  Qed.
End EncW.

(* ======================= the file-level round trip ======================= *)
Lemma fields_text_len : forall fs trailing wsend cl rest, (length rest <= length (fields_text fs trailing wsend cl rest))%nat.
Proof.
  induction fs as [|f r0 IHf]; intros; cbn [fields_text]; repeat (rewrite ?app_length; cbn [length]); [lia|].
  destruct r0; [destruct trailing; repeat (rewrite ?app_length; cbn [length]); lia|].
  cbn [length]. specialize (IHf trailing wsend cl rest). lia.
Qed.

Lemma etext_len es : (length es <= length (etext es))%nat.
Proof.
  induction es as [|e r IH]; [cbn; lia|]. cbn [etext length].
  assert (L : forall rest, (length rest <= length (item_text (ientry e) rest))%nat).
  { intros rest. unfold ientry. destruct (we_fields e); cbn [item_text]; unfold entry_text_gen, after_key;
      repeat (rewrite ?app_length; cbn [length]); [lia|].
    pose proof (fields_text_len (sfs (p :: l)) false [] (cl_char true) rest). lia. }
  specialize (L (10 :: match r with [] => [] | _ :: _ => 10 :: etext r end)).
  destruct r; cbn [length] in *; lia.
Qed.

Section Main.
  Variable enc : str -> str.

  (* the domain: API-buildable database; entry types / keys / field names the reader's patterns accept as such; no
     persons; field values brace-balanced, whitespace-normalised, left alone by the LaTeX encoder; the preamble text
     (if any) likewise *)
  Definition bib_ok (d : wdb) : Prop :=
    wf_db d /\ Forall (bib_ok_entry enc) (wd_entries d) /\
    (concat (wd_preamble d) = [] \/
     (balanced (concat (wd_preamble d)) /\ normalize_whitespace (concat (wd_preamble d)) = concat (wd_preamble d) /\
      encode_with_comments enc (concat (wd_preamble d)) = concat (wd_preamble d))).

  Lemma rd_id e : bib_ok_entry enc e -> rd e = e.
  Proof.
    intros (_ & _ & Hp & Hf). unfold rd. destruct e as [k t fs ps]. cbn in *. subst ps. f_equal.
    induction Hf as [|[n v] r (_ & _ & _ & Hn & _) _ IH]; [reflexivity|]. cbn in *. now rewrite Hn, IH.
  Qed.
  Lemma map_rd_id es : Forall (bib_ok_entry enc) es -> map rd es = es.
  Proof. induction 1 as [|e r He _ IH]; [reflexivity|]. cbn. now rewrite rd_id, IH. Qed.

  Definition kwp : str := [112; 114; 101; 97; 109; 98; 108; 101].
  Definition ipre (pre : str) : sitem := IPreamble true [] kwp [] [([], SDelim (negb (has_quote pre)) pre, [])].

  Lemma entries_only d : Forall (bib_ok_entry enc) (wd_entries d) -> NoDup (map (fun e => lower (we_key e)) (wd_entries d)) ->
    Forall wf_entry (wd_entries d) ->
    read_bibtex (etext (wd_entries d)) = Ok (mkWDb (wd_entries d) []).
  Proof.
    intros Hok Hk Hwe. unfold read_bibtex, parse_bib.
    destruct (loop_entries enc Strict (wd_entries d) (S (length (etext (wd_entries d)))) db_init
                (pst_init (etext (wd_entries d)) month_macros) []) as (d' & st' & E & _ & Hv); auto.
    - pose proof (etext_len (wd_entries d)). lia.
    - split; reflexivity.
    - intros x [].
    - rewrite E, Hv. cbn [wdb_of_db db_init db_entries db_preamble map wd_entries wd_preamble app].
      now rewrite map_rd_id.
  Qed.

  Lemma bibtex_roundtrip_pf d : bib_ok d -> write_read enc FBib d = Ok (norm_preamble d).
  Proof.
    intros ((Hk & Hwe) & Hok & Hpre). cbn [write_read]. unfold write_bibtex.
    rewrite (write_entries_text enc (wd_entries d) true Hok). cbn [app].
    unfold norm_preamble. destruct (concat (wd_preamble d)) as [|c0 p0] eqn:EP.
    - cbn [write_preamble bind app]. now apply entries_only.
    - destruct Hpre as [Hp0|(Hpb & Hpn & Hpe)]; [discriminate|].
      set (pre := c0 :: p0) in *.
      assert (WP : write_preamble enc pre = do q <- quote (encode_with_comments enc pre); Ok (s_preamble ++ q ++ [c_rbrace; c_nl; c_nl])) by reflexivity.
      rewrite WP. rewrite Hpe. destruct (quote_total_pf pre Hpb) as (q & Q). rewrite Q.
      apply quote_as_dpart in Q. cbn [bind].
      set (es := wd_entries d) in *.
      assert (T : (s_preamble ++ q ++ [c_rbrace; c_nl; c_nl]) ++ etext es = c_at :: item_text (ipre pre) ([10; 10] ++ etext es)).
      { subst q. unfold ipre, s_preamble, kwp. cbn [item_text render_gparts render_gpart BibValues.part_text op_char cl_char].
        repeat (rewrite <- ?app_assoc; cbn [app]). reflexivity. }
      rewrite T. unfold read_bibtex, parse_bib.
      set (text := c_at :: item_text (ipre pre) ([10; 10] ++ etext es)).
      cbn [bib_loop]. unfold skip_to. cbn [pst_init p_sc sc_init sc_rest]. unfold text at 1.
      cbn [find_first]. change (c_at =? c_at) with true. cbv iota.
      assert (Wf : forall macros, wf_item macros (ipre pre)).
      { intros macros. unfold ipre. cbn [wf_item]. unfold sp. repeat split; try discriminate.
        constructor; [|constructor]. unfold wf_gpart, wf_spart. repeat split. now apply wf_body_balanced. }
      match goal with |- context [parse_command Strict ?s1] =>
        destruct (item_reads Strict s1 (ipre pre) ([10; 10] ++ etext es) (Wf _) eq_refl) as (st2 & E & Hr2 & Her & Hma)
      end.
      rewrite E. cbn [ipre item_cmd item_macros map gpart_value part_value] in *.
      cbn [p_macros p_errs set_cstart set_sc pst_init] in *.
      destruct (process_preamble_clean Strict kwp [pre] db_init st2 (conj Her eq_refl)) as (d2 & Ep & Hcl2 & He2 & Hv2).
      unfold str, char in *. rewrite Ep. cbn [obind].
      destruct (loop_entries enc Strict es (length text) d2 st2 [10; 10]) as (d' & st' & E' & _ & Hv'); auto.
      + unfold text. cbn [length]. pose proof (etext_len es).
        assert (L : forall rest : str, (length rest <= length (item_text (ipre pre) rest))%nat).
        { intros rest. unfold ipre. cbn [item_text]. repeat (rewrite ?app_length; cbn [length]). lia. }
        specialize (L ([10; 10] ++ etext es)).
        assert (L2 : length ([10; 10] ++ etext es) = S (S (length (etext es)))) by reflexivity. unfold str, char in *. lia.
      + intros x [<-|[<-|[]]]; reflexivity.
      + rewrite He2. cbn [db_init db_entries map app]. exact Hk.
      + rewrite E', Hv', Hv2. cbn [wdb_of_db db_init db_entries db_preamble map wd_entries wd_preamble app concat].
        rewrite map_rd_id by assumption. rewrite app_nil_r, Hpn. reflexivity.
  Qed.
End Main.

(* ======================= chains with BibTeX steps ======================= *)
From Pybtex Require Import Proofs.WritersChain.

Section Chains.
  Variable enc : str -> str.
  Definition all_ok (d : wdb) : Prop := tree_ok d /\ bib_ok enc d.

  Lemma write_read_any f d : all_ok d -> write_read enc f d = Ok (step f d).
  Proof.
    intros [T B]. destruct f.
    - cbn [step]. now apply bibtex_roundtrip_pf.
    - apply write_read_tree; [discriminate|exact T].
    - apply write_read_tree; [discriminate|exact T].
  Qed.

  Lemma bib_ok_step f d : bib_ok enc d -> bib_ok enc (step f d).
  Proof.
    intros (W & E & P). destruct f; cbn [step]; unfold norm_preamble, drop_preamble, bib_ok; cbn [wd_entries wd_preamble].
    - split; [exact W|]. split; [exact E|]. destruct (concat (wd_preamble d)) eqn:EP; [now left|].
      cbn [concat]. rewrite app_nil_r. destruct P as [P|P]; [discriminate|right; exact P].
    - split; [exact W|]. split; [exact E|]. now left.
    - split; [exact W|]. split; [exact E|]. destruct (concat (wd_preamble d)) eqn:EP; [now left|].
      cbn [concat]. rewrite app_nil_r. destruct P as [P|P]; [discriminate|right; exact P].
  Qed.

  Lemma all_ok_step f d : all_ok d -> all_ok (step f d).
  Proof. intros [T B]. split; [now apply tree_ok_step|now apply bib_ok_step]. Qed.

  Lemma chain_rest_any : forall fs d, all_ok d -> chain_rest enc fs true d = Ok (expect_rest fs true d).
  Proof.
    induction fs as [|f r IH]; intros d H; [reflexivity|]. cbn [chain_rest expect_rest bind].
    rewrite write_read_any by exact H. cbn [bind]. apply IH. now apply all_ok_step.
  Qed.

  Lemma chain_roundtrip_pf fs d : all_ok d -> chain enc fs true d = Ok (expect fs true d).
  Proof.
    intros H. destruct fs as [|f r]; [reflexivity|]. cbn [chain expect].
    rewrite write_read_any by exact H. cbn [bind]. apply chain_rest_any. now apply all_ok_step.
  Qed.
End Chains.

(* ======================= identifier lower-casing keeps the domain ======================= *)
Lemma to_lower_cases c : (is_upper c = true /\ is_lower (to_lower c) = true) \/ (is_upper c = false /\ to_lower c = c).
Proof.
  unfold to_lower. destruct (is_upper c) eqn:E; [left|right; auto]. split; [reflexivity|].
  unfold is_upper in E. apply andb_prop in E as [E1 E2]. apply N.leb_le in E1, E2.
  unfold is_lower. apply andb_true_intro. split; apply N.leb_le; lia.
Qed.

Lemma name_start_lower c : is_name_start c = true -> is_name_start (to_lower c) = true.
Proof. destruct (to_lower_cases c) as [[_ H]|[_ ->]]; [|auto]. intros _. unfold is_name_start, is_alpha. now rewrite H, orb_true_r. Qed.
Lemma name_char_lower c : is_name_char c = true -> is_name_char (to_lower c) = true.
Proof. destruct (to_lower_cases c) as [[_ H]|[_ ->]]; [|auto]. intros _. unfold is_name_char, is_name_start, is_alpha. now rewrite H, orb_true_r. Qed.

Lemma is_name_lower n : is_name n = true -> is_name (lower n) = true.
Proof.
  destruct n as [|c t]; [discriminate|]. cbn [is_name lower map]. intros H. apply andb_prop in H as [H1 H2].
  rewrite (name_start_lower c H1). cbn [andb]. clear -H2. induction t as [|x t IH]; [reflexivity|]. cbn in *.
  apply andb_prop in H2 as [Hx H2]. now rewrite (name_char_lower x Hx), IH.
Qed.

Lemma lower_not_special c : is_lower c = true -> is_space c = false /\ (c =? c_comma) = false /\ (c =? c_rbrace) = false.
Proof.
  unfold is_lower. intros H. apply andb_prop in H as [H1 H2]. apply N.leb_le in H1, H2.
  repeat split.
  - unfold is_space. repeat (apply orb_false_iff; split); try (apply andb_false_iff); try (apply N.eqb_neq; lia);
      try (left; apply N.leb_gt; lia); try (right; apply N.leb_gt; lia).
  - apply N.eqb_neq. unfold c_comma. lia.
  - apply N.eqb_neq. unfold c_rbrace. lia.
Qed.

Lemma keyp_lower l : forallb (keyp true) l = true -> forallb (keyp true) (lower l) = true.
Proof.
  induction l as [|x l IH]; [reflexivity|]. cbn [forallb lower map]. intros H. apply andb_prop in H as [Hx H].
  fold (lower l). rewrite IH by exact H. rewrite andb_true_r.
  destruct (to_lower_cases x) as [[_ Hl]|[_ ->]]; [|exact Hx].
  destruct (lower_not_special _ Hl) as (A & B & C). unfold keyp. now rewrite A, B, C.
Qed.
Lemma is_key_lower k : is_key true k = true -> is_key true (lower k) = true.
Proof. destruct k as [|c t]; [discriminate|]. unfold is_key. intros H. apply (keyp_lower (c :: t) H). Qed.

Section Lower.
  Variable enc : str -> str.

  Lemma bib_ok_lower d : bib_ok enc d -> bib_ok enc (map_ids lower d).
  Proof.
    intros (W & E & P). split; [now apply map_ids_lower_wf|]. split; [|exact P].
    cbn [map_ids wd_entries]. rewrite Forall_map. eapply Forall_impl; [|exact E].
    intros e (Ht & Hk & Hp & Hf). unfold bib_ok_entry. cbn [map_ids_entry we_otype we_key we_persons we_fields].
    repeat split.
    - unfold is_entry_type in *. rewrite lower_idem.
      apply andb_prop in Ht as [Ht H3]. apply andb_prop in Ht as [Ht H2]. apply andb_prop in Ht as [H0 H1].
      now rewrite (is_name_lower _ H0), H1, H2, H3.
    - now apply is_key_lower.
    - now rewrite Hp.
    - rewrite Forall_map. eapply Forall_impl; [|exact Hf]. intros [k v] (A & B & C & D & F). unfold bib_ok_field. cbn [fst snd] in *.
      rewrite lower_idem. repeat split; auto. now apply is_name_lower.
  Qed.

  Lemma all_ok_lower d : all_ok enc d -> all_ok enc (map_ids lower d).
  Proof. intros [T B]. split; [now apply tree_ok_lower|now apply bib_ok_lower]. Qed.

  Lemma chain_rest_any_pc pc : forall fs d, all_ok enc d -> chain_rest enc fs pc d = Ok (expect_rest fs pc d).
  Proof.
    induction fs as [|f r IH]; intros d H; [reflexivity|]. cbn [chain_rest expect_rest].
    destruct pc.
    - cbn [bind]. rewrite write_read_any by exact H. cbn [bind]. apply IH. now apply all_ok_step.
    - destruct H as [T B]. pose proof (proj1 T) as W. rewrite lower_only_case_pf by exact W. cbn [bind].
      assert (A : all_ok enc (map_ids lower d)) by (apply all_ok_lower; split; assumption).
      rewrite write_read_any by exact A. cbn [bind]. apply IH. now apply all_ok_step.
  Qed.

  Lemma chain_roundtrip_pc_pf fs pc d : all_ok enc d -> chain enc fs pc d = Ok (expect fs pc d).
  Proof.
    intros H. destruct fs as [|f r]; [reflexivity|]. cbn [chain expect].
    rewrite write_read_any by exact H. cbn [bind]. apply chain_rest_any_pc. now apply all_ok_step.
  Qed.
End Lower.
