(* Proofs/RichEq.v -- equality of rich texts (property C08). *)
From Pybtex Require Import Base.Prelude Base.PyChar Base.PyStr Model.RtTypes Model.RichText
  Spec.Flat Spec.FlatOps Proofs.RichText.

Lemma list_eqb_flat ps : Forall (fun p => forall q, rt_eqb p q = true -> flat_e p = flat_e q) ps ->
  forall qs, list_eqb rt_eqb ps qs = true -> map flat_e ps = map flat_e qs.
Proof.
  induction 1 as [|p ps Hp _ IH]; intros [|q qs]; cbn; try discriminate; [reflexivity|].
  intro H. apply andb_prop in H as [H1 H2]. f_equal; [now apply Hp|now apply IH].
Qed.

(* texts that compare equal render the same (up to erase) *)
Lemma eq_sound_lem a : forall b, rt_eqb a b = true -> flat_e a = flat_e b.
Proof.
  induction a using rt_ind'; intros [] E; cbn [rt_eqb] in E; try discriminate.
  - destruct (str_eqb_spec s s0); [now subst|discriminate].
  - destruct (str_eqb_spec n name); [now subst|discriminate].
  - rewrite !flat_e_text. f_equal. now apply list_eqb_flat.
  - apply andb_prop in E as [E1 E2]. destruct (str_eqb_spec n name); [subst|discriminate].
    rewrite !flat_e_tag. do 2 f_equal. now apply list_eqb_flat.
  - apply andb_prop in E as [E1 E2]. destruct (str_eqb_spec u url); [subst|discriminate].
    rewrite !flat_e_href. do 2 f_equal. now apply list_eqb_flat.
  - rewrite !flat_e_prot. do 2 f_equal. now apply list_eqb_flat.
Qed.

Lemma list_eqb_refl ps : Forall (fun p => rt_eqb p p = true) ps -> list_eqb rt_eqb ps ps = true.
Proof. induction 1 as [|p ps Hp _ IH]; cbn; [reflexivity|]. now rewrite Hp, IH. Qed.

Lemma rt_eqb_refl a : rt_eqb a a = true.
Proof.
  induction a using rt_ind'; cbn [rt_eqb]; rewrite ?str_eqb_refl; cbn [andb];
    try reflexivity; now apply list_eqb_refl.
Qed.

(* == does not see HRef.external (F10): equal texts with different renderings *)
Lemma eq_exact_refuted : exists a b, rt_eqb a b = true /\ flat a <> flat b.
Proof.
  exists (RHRef [117%N] true [RStr [97%N]]), (RHRef [117%N] false [RStr [97%N]]).
  split; [reflexivity|]. vm_compute. discriminate.
Qed.

(* regrouping: an empty part, and the nesting of parts inside a Text part, never matter for
   the object that is built (hence neither for == nor for the rendering) *)
Lemma mk_drop_empty fuel k a e b : nonempty e = false -> mk fuel k (a ++ e :: b) = mk fuel k (a ++ b).
Proof.
  intro He. destruct fuel as [|f]; [reflexivity|]. cbn [mk].
  rewrite !filter_app. cbn [filter]. now rewrite He.
Qed.

Lemma filter_all {X} (g : X -> bool) l : Forall (fun x => g x = true) l -> filter g l = l.
Proof. induction 1 as [|x l Hx _ IH]; cbn; [reflexivity|]. now rewrite Hx, IH. Qed.

Lemma unpack_notext l : Forall (fun p => typeinfo p <> TIText) l -> flat_map unpack l = l.
Proof.
  induction 1 as [|p l Hp _ IH]; cbn; [reflexivity|]. rewrite IH.
  destruct p; try reflexivity. cbn in Hp. congruence.
Qed.

Lemma mk_unpack_text fuel k a ps b :
  Forall (fun p => nonempty p = true) ps -> Forall (fun p => typeinfo p <> TIText) ps ->
  mk fuel k (a ++ RText ps :: b) = mk fuel k (a ++ ps ++ b).
Proof.
  intros Hne Hnt. destruct fuel as [|f]; [reflexivity|]. cbn [mk].
  rewrite !filter_app. cbn [filter]. rewrite (filter_all _ _ Hne).
  rewrite !flat_map_app. rewrite (unpack_notext _ Hnt).
  destruct ps as [|p ps].
  - reflexivity.
  - assert (E : nonempty (RText (p :: ps)) = true).
    { inversion Hne as [|? ? Hp _]; subst. unfold nonempty in *. cbn [rlen map].
      destruct (Nat.eqb_spec (rlen p) 0) as [Z|Z]; [discriminate|].
      change (list_sum (rlen p :: map rlen ps)) with (rlen p + list_sum (map rlen ps)).
      destruct (Nat.eqb_spec (rlen p + list_sum (map rlen ps)) 0) as [Z2|Z2]; [lia|reflexivity]. }
    rewrite E. reflexivity.
Qed.
