(* Proofs/BibtexStrCase.v -- lemmas about change_case (Model/BibtexStr.v), property C12. *)
From Pybtex Require Import Base.Prelude Base.PyChar Base.PyStr Model.BibtexStr Spec.BibtexStrSpec
  Proofs.BibtexStr.
Local Open Scope N_scope.

(* ------------------------------------------------------------------ characters *)
Lemma to_lower_cases c :
  (to_lower c = c /\ is_upper c = false) \/ (to_lower c = c + 32 /\ 65 <= c /\ c <= 90).
Proof.
  unfold to_lower, is_upper. destruct (65 <=? c) eqn:E1, (c <=? 90) eqn:E2; cbn [andb]; auto.
  right. apply N.leb_le in E1, E2. auto.
Qed.

Lemma to_upper_cases c :
  (to_upper c = c /\ is_lower c = false) \/ (to_upper c = c - 32 /\ 97 <= c /\ c <= 122).
Proof.
  unfold to_upper, is_lower. destruct (97 <=? c) eqn:E1, (c <=? 122) eqn:E2; cbn [andb]; auto.
  right. apply N.leb_le in E1, E2. auto.
Qed.

Lemma to_lower_upper c : to_lower (to_upper c) = to_lower c.
Proof.
  destruct (to_upper_cases c) as [[-> _]|(-> & H1 & H2)]; [reflexivity|].
  unfold to_lower, is_upper.
  assert (E1 : (65 <=? c - 32) = true) by (apply N.leb_le; lia).
  assert (E2 : (c - 32 <=? 90) = true) by (apply N.leb_le; lia).
  assert (E3 : (c <=? 90) = false) by (apply N.leb_gt; lia).
  rewrite E1, E2, E3, andb_false_r. cbn [andb]. lia.
Qed.

Lemma to_upper_lower c : to_upper (to_lower c) = to_upper c.
Proof.
  destruct (to_lower_cases c) as [[-> _]|(-> & H1 & H2)]; [reflexivity|].
  unfold to_upper, is_lower.
  assert (E1 : (97 <=? c + 32) = true) by (apply N.leb_le; lia).
  assert (E2 : (c + 32 <=? 122) = true) by (apply N.leb_le; lia).
  assert (E3 : (97 <=? c) = false) by (apply N.leb_gt; lia).
  rewrite E1, E2, E3. cbn [andb]. lia.
Qed.

(* a character that is not a letter is only folded to by itself *)
Lemma nonalpha_lower_fix k : is_alpha k = false -> to_lower k = k.
Proof.
  unfold is_alpha. intros H. apply orb_false_elim in H as [Hu _]. unfold to_lower. rewrite Hu. reflexivity.
Qed.

Lemma to_lower_eq_nonalpha k b : is_alpha k = false -> to_lower b = k -> b = k.
Proof.
  intros Hk H. destruct (to_lower_cases b) as [[Hb _]|(Hb & H1 & H2)]; [congruence|].
  exfalso. unfold is_alpha, is_lower in Hk. apply orb_false_elim in Hk as [_ Hl].
  rewrite Hb in H. subst k.
  assert (E1 : (97 <=? b + 32) = true) by (apply N.leb_le; lia).
  assert (E2 : (b + 32 <=? 122) = true) by (apply N.leb_le; lia).
  rewrite E1, E2 in Hl. discriminate.
Qed.

Lemma fold_eq_nonalpha k a b : is_alpha k = false -> to_lower a = to_lower b -> N.eqb a k = N.eqb b k.
Proof.
  intros Hk H.
  destruct (N.eqb_spec a k) as [Ea|Ea], (N.eqb_spec b k) as [Eb|Eb]; try reflexivity; exfalso.
  - subst a. rewrite (nonalpha_lower_fix k Hk) in H. symmetry in H.
    apply (to_lower_eq_nonalpha k b Hk) in H. contradiction.
  - subst b. rewrite (nonalpha_lower_fix k Hk) in H.
    apply (to_lower_eq_nonalpha k a Hk) in H. contradiction.
Qed.

Lemma is_space_mid c : 33 <= c -> c <= 132 -> is_space c = false.
Proof.
  intros H1 H2. unfold is_space.
  replace (c <=? 13) with false by (symmetry; apply N.leb_gt; lia).
  replace (c <=? 32) with false by (symmetry; apply N.leb_gt; lia).
  replace (c =? 133) with false by (symmetry; apply N.eqb_neq; lia).
  replace (c =? 160) with false by (symmetry; apply N.eqb_neq; lia).
  replace (c =? 5760) with false by (symmetry; apply N.eqb_neq; lia).
  replace (8192 <=? c) with false by (symmetry; apply N.leb_gt; lia).
  replace (c =? 8232) with false by (symmetry; apply N.eqb_neq; lia).
  replace (c =? 8233) with false by (symmetry; apply N.eqb_neq; lia).
  replace (c =? 8239) with false by (symmetry; apply N.eqb_neq; lia).
  replace (c =? 8287) with false by (symmetry; apply N.eqb_neq; lia).
  replace (c =? 12288) with false by (symmetry; apply N.eqb_neq; lia).
  rewrite !andb_false_r. reflexivity.
Qed.

Lemma is_space_fold a b : to_lower a = to_lower b -> is_space a = is_space b.
Proof.
  intros H.
  destruct (to_lower_cases a) as [[Ha Ua]|(Ha & ? & ?)], (to_lower_cases b) as [[Hb Ub]|(Hb & ? & ?)];
  rewrite Ha, Hb in H.
  - subst. reflexivity.
  - subst a. rewrite !is_space_mid by lia. reflexivity.
  - subst b. rewrite !is_space_mid by lia. reflexivity.
  - assert (a = b) by lia. subst. reflexivity.
Qed.

Local Close Scope N_scope.

(* ------------------------------------------------------------------ join / split_on *)
Lemma startswith_true s p : startswith s p = true -> s = p ++ skipn (length p) s.
Proof.
  revert s; induction p as [|x p IH]; intros s H; [reflexivity|].
  destruct s as [|y s]; cbn [startswith] in H; [discriminate|].
  apply andb_prop in H as [E H]. apply N.eqb_eq in E; subst y.
  cbn [length skipn app]. f_equal. apply IH. exact H.
Qed.

Lemma split_on_aux_nonempty : forall fuel sep s acc, split_on_aux fuel sep s acc <> [].
Proof.
  induction fuel as [|f IH]; intros sep s acc; cbn [split_on_aux]; [discriminate|].
  destruct s as [|c t]; [discriminate|]. destruct (startswith (c :: t) sep); [discriminate|apply IH].
Qed.

Lemma join_cons_nonempty sep p rest : rest <> [] -> join sep (p :: rest) = p ++ sep ++ join sep rest.
Proof. destruct rest; [congruence|reflexivity]. Qed.

Lemma join_split_on_aux : forall fuel sep s acc,
  join sep (split_on_aux fuel sep s acc) = rev acc ++ s.
Proof.
  induction fuel as [|f IH]; intros sep s acc; cbn [split_on_aux]; [reflexivity|].
  destruct s as [|c t]; [cbn [join]; rewrite app_nil_r; reflexivity|].
  destruct (startswith (c :: t) sep) eqn:E.
  - rewrite join_cons_nonempty by apply split_on_aux_nonempty.
    rewrite IH. cbn [rev app]. rewrite <- (startswith_true _ _ E). reflexivity.
  - rewrite IH. cbn [rev]. rewrite <- app_assoc. reflexivity.
Qed.

Lemma join_split_on sep s : join sep (split_on sep s) = s.
Proof. unfold split_on. apply join_split_on_aux. Qed.

Lemma lower_app a b : lower (a ++ b) = lower a ++ lower b.
Proof. apply map_app. Qed.

Lemma lower_join sep l : lower (join sep l) = join (lower sep) (map lower l).
Proof.
  induction l as [|p [|q l] IH]; [reflexivity|reflexivity|].
  change (join sep (p :: q :: l)) with (p ++ sep ++ join sep (q :: l)).
  rewrite !lower_app, IH. reflexivity.
Qed.

Lemma lower_lower s : lower (lower s) = lower s.
Proof. unfold lower. rewrite map_map. apply map_ext. apply to_lower_idem. Qed.
Lemma lower_upper s : lower (upper s) = lower s.
Proof. unfold lower, upper. rewrite map_map. apply map_ext. apply to_lower_upper. Qed.
Lemma upper_upper s : upper (upper s) = upper s.
Proof. unfold upper. rewrite map_map. apply map_ext. apply to_upper_idem. Qed.

Lemma lower_convert mode st t : lower (convert mode st t) = lower t.
Proof.
  unfold convert. destruct mode as [|[|m]]; [apply lower_lower|apply lower_upper|].
  destruct st; [reflexivity|apply lower_lower|apply lower_lower].
Qed.

(* the per-word function of convert_special_char *)
Definition cword (mode : nat) (st : cstate) (w : str) : str :=
  if bs_head w then w else convert mode st w.

Lemma csc_eq mode st t :
  convert_special_char mode st t = join [c_space] (map (cword mode st) (split_on [c_space] t)).
Proof.
  unfold convert_special_char. f_equal. apply map_ext. intros w. unfold cword, bs_head.
  destruct w; reflexivity.
Qed.

Lemma lower_cword mode st w : lower (cword mode st w) = lower w.
Proof. unfold cword. destruct (bs_head w); [reflexivity|apply lower_convert]. Qed.

Lemma lower_csc mode st t : lower (convert_special_char mode st t) = lower t.
Proof.
  rewrite csc_eq, lower_join, map_map.
  rewrite (map_ext _ _ (lower_cword mode st)). rewrite <- lower_join, join_split_on. reflexivity.
Qed.

(* ------------------------------------------------------------------ letters up to case, length *)
Lemma cc_go_lower : forall ts mode st,
  lower (change_case_go ts mode st) = lower (concat (map fst ts)).
Proof.
  induction ts as [|[t l] ts IH]; intros mode st; [reflexivity|].
  cbn [change_case_go map fst concat]. destruct l as [|l'].
  - rewrite !lower_app, lower_convert, IH. reflexivity.
  - rewrite !lower_app, IH. f_equal.
    destruct (Nat.eqb (S l') 1 && _); [apply lower_csc|reflexivity].
Qed.

Lemma change_case_upto_case_lemma s mode out :
  balanced s -> change_case s mode = Ok out -> lower out = lower s.
Proof.
  unfold change_case. intros Hb H. inv_ok. rewrite cc_go_lower.
  rewrite (scan_lossless_lemma s r Hb Hr). reflexivity.
Qed.

Lemma change_case_length_lemma s mode out :
  balanced s -> change_case s mode = Ok out -> length out = length s.
Proof.
  intros Hb H. pose proof (change_case_upto_case_lemma s mode out Hb H) as E.
  apply (f_equal (@length _)) in E. unfold lower in E. rewrite !map_length in E. exact E.
Qed.

(* ------------------------------------------------------------------ strings equal up to case scan alike *)
Lemma fold_lb a b : to_lower a = to_lower b -> is_lbrace a = is_lbrace b.
Proof. apply fold_eq_nonalpha. reflexivity. Qed.
Lemma fold_rb a b : to_lower a = to_lower b -> is_rbrace a = is_rbrace b.
Proof. apply fold_eq_nonalpha. reflexivity. Qed.
Lemma fold_bs a b : to_lower a = to_lower b -> N.eqb a c_bslash = N.eqb b c_bslash.
Proof. apply fold_eq_nonalpha. reflexivity. Qed.

Lemma lower_bs_head s s' : lower s = lower s' -> bs_head s = bs_head s'.
Proof.
  destruct s, s'; cbn [lower map bs_head]; intros H; try discriminate; [reflexivity|].
  injection H as H _. apply fold_bs. exact H.
Qed.

Lemma lower_rev s : lower (rev s) = rev (lower s).
Proof. unfold lower. apply map_rev. Qed.

Lemma depth_from_lower : forall s s' d, lower s = lower s' -> depth_from d s = depth_from d s'.
Proof.
  induction s as [|a s IH]; intros [|b s'] d H; try discriminate; [reflexivity|].
  cbn [lower map] in H. injection H as Hc H. cbn [depth_from].
  pose proof (fold_lb _ _ Hc) as E1. pose proof (fold_rb _ _ Hc) as E2.
  unfold is_lbrace, is_rbrace in E1, E2. rewrite E1, E2.
  destruct (N.eqb b c_lbrace); [apply IH; exact H|].
  destruct (N.eqb b c_rbrace); [|apply IH; exact H].
  destruct d; [reflexivity|apply IH; exact H].
Qed.

Definition tok_rel (t t' : tok) : Prop := snd t = snd t' /\ lower (fst t) = lower (fst t').

Definition sp_rel (sp sp' : option (nat * str)) : Prop :=
  match sp, sp' with
  | None, None => True
  | Some (d, acc), Some (d', acc') => d = d' /\ lower acc = lower acc'
  | _, _ => False
  end.

Lemma scan_go_rel : forall s s' level sp sp' ts,
  lower s = lower s' -> sp_rel sp sp' -> scan_go s level sp = Ok ts ->
  exists ts', scan_go s' level sp' = Ok ts' /\ Forall2 tok_rel ts ts'.
Proof.
  induction s as [|a s IH]; intros [|b s'] level sp sp' ts Hs Hsp H; try discriminate.
  - destruct sp as [[d acc]|], sp' as [[d' acc']|]; cbn [sp_rel] in Hsp; try contradiction;
    cbn [scan_go] in H |- *; inv_ok.
    + destruct Hsp as [-> Hacc]. eexists; split; [reflexivity|].
      constructor; [split; [reflexivity|]; cbn [fst]; rewrite !lower_rev, Hacc; reflexivity|].
      constructor; [split; reflexivity|constructor].
    + eexists; split; [reflexivity|constructor].
  - cbn [lower map] in Hs. injection Hs as Hc Hs. fold (lower s) in Hs. fold (lower s') in Hs.
    pose proof (fold_lb _ _ Hc) as E1. pose proof (fold_rb _ _ Hc) as E2.
    destruct sp as [[d acc]|], sp' as [[d' acc']|]; cbn [sp_rel] in Hsp; try contradiction;
    cbn [scan_go] in H |- *; rewrite <- E1, <- E2.
    + destruct Hsp as [<- Hacc].
      assert (Hacc' : lower (a :: acc) = lower (b :: acc')) by (cbn [lower map]; f_equal; assumption).
      destruct (is_lbrace a).
      * destruct (Nat.ltb max_level (2 + d)); [discriminate|].
        apply (IH s' level (Some (S d, a :: acc)) (Some (S d, b :: acc')) ts Hs); [split; [reflexivity|exact Hacc']|exact H].
      * destruct (is_rbrace a).
        -- destruct d as [|d0].
           ++ inv_ok. destruct (IH s' 0 None None r Hs I Hr) as (r' & Hr' & HF).
              rewrite Hr'. cbn [bind]. eexists; split; [reflexivity|].
              constructor; [split; [reflexivity|]; cbn [fst]; rewrite !lower_rev, Hacc; reflexivity|].
              constructor; [split; reflexivity|exact HF].
           ++ apply (IH s' level (Some (d0, a :: acc)) (Some (d0, b :: acc')) ts Hs); [split; [reflexivity|exact Hacc']|exact H].
        -- apply (IH s' level (Some (d, a :: acc)) (Some (d, b :: acc')) ts Hs); [split; [reflexivity|exact Hacc']|exact H].
    + fold (bs_head s) in H. fold (bs_head s'). rewrite <- (lower_bs_head s s' Hs).
      destruct (is_lbrace a) eqn:El.
      * apply lb_eq in El. subst a.
        assert (b = c_lbrace) as -> by (symmetry in E1; apply lb_eq in E1; exact E1).
        destruct (Nat.eqb level 0 && bs_head s).
        -- inv_ok. destruct (IH s' 0 (Some (0, [])) (Some (0, [])) r Hs (conj eq_refl eq_refl) Hr) as (r' & Hr' & HF).
           rewrite Hr'. cbn [bind]. eexists; split; [reflexivity|].
           constructor; [split; reflexivity|exact HF].
        -- destruct (Nat.ltb max_level (S level)); [discriminate|]. inv_ok.
           destruct (IH s' (S level) None None r Hs I Hr) as (r' & Hr' & HF).
           rewrite Hr'. cbn [bind]. eexists; split; [reflexivity|].
           constructor; [split; reflexivity|exact HF].
      * destruct (is_rbrace a && Nat.ltb 0 level) eqn:Erl.
        -- inv_ok. apply andb_prop in Erl as [Er _]. rewrite Er in E2. apply rb_eq in Er. subst a.
           symmetry in E2. apply rb_eq in E2. subst b.
           destruct (IH s' (pred level) None None r Hs I Hr) as (r' & Hr' & HF).
           rewrite Hr'. cbn [bind]. eexists; split; [reflexivity|].
           constructor; [split; reflexivity|exact HF].
        -- inv_ok. destruct (IH s' level None None r Hs I Hr) as (r' & Hr' & HF).
           rewrite Hr'. cbn [bind]. eexists; split; [reflexivity|].
           constructor; [|exact HF]. split; [reflexivity|]. cbn [fst lower map]. f_equal. exact Hc.
Qed.

(* ------------------------------------------------------------------ str.split(' ') structurally *)
Fixpoint split1 (c0 : char) (s acc : str) : list str :=
  match s with
  | [] => [rev acc]
  | c :: t => if N.eqb c0 c then rev acc :: split1 c0 t [] else split1 c0 t (c :: acc)
  end.

Lemma split_on_aux_split1 c0 : forall fuel s acc, length s < fuel ->
  split_on_aux fuel [c0] s acc = split1 c0 s acc.
Proof.
  induction fuel as [|f IH]; intros s acc Hf; [lia|].
  destruct s as [|c t]; [reflexivity|]. cbn [split_on_aux split1 startswith length skipn].
  assert (Hnil : startswith t [] = true) by (destruct t; reflexivity). rewrite Hnil.
  cbn [length] in Hf. destruct (N.eqb c0 c); cbn [andb]; rewrite IH by lia; reflexivity.
Qed.

Lemma split_on_split1 c0 s : split_on [c0] s = split1 c0 s [].
Proof. unfold split_on. apply split_on_aux_split1. lia. Qed.

Definition nosp (c0 : char) (w : str) : Prop := Forall (fun c => N.eqb c0 c = false) w.

Lemma split1_free c0 : forall w X acc, nosp c0 w -> split1 c0 (w ++ X) acc = split1 c0 X (rev w ++ acc).
Proof.
  induction w as [|c w IH]; intros X acc H; [reflexivity|].
  inversion H as [|? ? Hc Hw]; subst. cbn [app split1]. rewrite Hc, IH by exact Hw.
  cbn [rev]. rewrite <- app_assoc. reflexivity.
Qed.

Lemma split1_join c0 : forall l, l <> [] -> Forall (nosp c0) l -> split1 c0 (join [c0] l) [] = l.
Proof.
  induction l as [|p [|q l] IH]; intros Hne HF; [congruence| |].
  - inversion HF; subst. cbn [join]. rewrite <- (app_nil_r p) at 1. rewrite split1_free by assumption.
    cbn [split1]. rewrite app_nil_r, rev_involutive. reflexivity.
  - inversion HF as [|? ? Hp HF']; subst.
    change (join [c0] (p :: q :: l)) with (p ++ [c0] ++ join [c0] (q :: l)).
    rewrite split1_free by assumption. cbn [app split1]. rewrite N.eqb_refl, app_nil_r, rev_involutive.
    rewrite IH; [reflexivity|discriminate|exact HF'].
Qed.

Lemma split1_nosp c0 : forall s acc, nosp c0 acc -> Forall (nosp c0) (split1 c0 s acc).
Proof.
  induction s as [|c t IH]; intros acc Ha; cbn [split1].
  - constructor; [|constructor]. apply Forall_rev. exact Ha.
  - destruct (N.eqb c0 c) eqn:E.
    + constructor; [apply Forall_rev; exact Ha|]. apply IH. constructor.
    + apply IH. constructor; assumption.
Qed.

Lemma split1_nonempty c0 s acc : split1 c0 s acc <> [].
Proof. revert acc; induction s as [|c t IH]; intros acc; cbn [split1]; [discriminate|]. destruct (N.eqb c0 c); [discriminate|apply IH]. Qed.

Lemma nosp_lower c0 : is_alpha c0 = false -> forall w w', lower w = lower w' -> nosp c0 w -> nosp c0 w'.
Proof.
  intros Hc0. induction w as [|a w IH]; intros [|b w'] H Hw; try discriminate; [constructor|].
  cbn [lower map] in H. injection H as Hc H. inversion Hw as [|? ? Ha Hw']; subst.
  constructor; [|apply (IH w' H Hw')].
  rewrite N.eqb_sym. rewrite <- (fold_eq_nonalpha c0 a b Hc0 Hc). rewrite N.eqb_sym. exact Ha.
Qed.

(* ------------------------------------------------------------------ per-token idempotence *)
Lemma convert_idem mode st t : convert mode st (convert mode st t) = convert mode st t.
Proof.
  unfold convert. destruct mode as [|[|m]]; [apply lower_lower|apply upper_upper|].
  destruct st; [reflexivity|apply lower_lower|apply lower_lower].
Qed.

Lemma cword_idem mode st w : cword mode st (cword mode st w) = cword mode st w.
Proof.
  unfold cword. destruct (bs_head w) eqn:E; [rewrite E; reflexivity|].
  rewrite (lower_bs_head _ w (lower_convert mode st w)), E. apply convert_idem.
Qed.

Lemma csc_idem mode st t :
  convert_special_char mode st (convert_special_char mode st t) = convert_special_char mode st t.
Proof.
  rewrite !csc_eq. rewrite !split_on_split1.
  set (W := split1 c_space t []).
  assert (HW : Forall (nosp c_space) (map (cword mode st) W)).
  { apply Forall_map. eapply Forall_impl; [|apply (split1_nosp c_space t []); constructor].
    intros w Hw. apply (nosp_lower c_space eq_refl w); [|exact Hw]. symmetry. apply lower_cword. }
  rewrite split1_join; [| |exact HW].
  - rewrite map_map. f_equal. apply map_ext. intros w. apply cword_idem.
  - intros E. apply map_eq_nil in E. exact (split1_nonempty _ _ _ E).
Qed.

Definition next_state (st : cstate) (t : str) : cstate :=
  match t with
  | [c] => if N.eqb c 58 then St_after_colon
           else if is_space c then match st with St_after_colon => St_start | _ => St_normal end
           else St_normal
  | _ => St_normal
  end.

Lemma next_state_lower st t t' : lower t = lower t' -> next_state st t = next_state st t'.
Proof.
  destruct t as [|a [|a2 t]], t' as [|b [|b2 t']]; cbn [lower map]; intros H; try discriminate; try reflexivity.
  injection H as H. cbn [next_state].
  rewrite (fold_eq_nonalpha 58%N a b eq_refl H), (is_space_fold a b H). reflexivity.
Qed.

Definition is_special_tok (t : str) (l : nat) : bool := Nat.eqb l 1 && bs_head t.

(* the token list of the result: every token replaced by its image *)
Fixpoint timg (ts : list tok) (mode : nat) (st : cstate) : list tok :=
  match ts with
  | [] => []
  | (t, l) :: rest =>
    match l with
    | O => (convert mode st t, 0) :: timg rest mode (next_state st t)
    | _ => ((if is_special_tok t l then convert_special_char mode st t else t), l) :: timg rest mode st
    end
  end.

Lemma cc_go_timg : forall ts mode st, change_case_go ts mode st = concat (map fst (timg ts mode st)).
Proof.
  induction ts as [|[t l] ts IH]; intros mode st; [reflexivity|].
  cbn [change_case_go timg]. destruct l as [|l']; cbn [map fst concat]; rewrite IH; reflexivity.
Qed.

Lemma timg_rel : forall ts mode st, Forall2 tok_rel ts (timg ts mode st).
Proof.
  induction ts as [|[t l] ts IH]; intros mode st; cbn [timg]; [constructor|].
  destruct l as [|l']; (constructor; [|apply IH]); split; cbn [fst snd]; try reflexivity.
  - symmetry. apply lower_convert.
  - destruct (is_special_tok t (S l')); [symmetry; apply lower_csc|reflexivity].
Qed.

Lemma cc_go_timg_idem : forall ts mode st,
  change_case_go (timg ts mode st) mode st = change_case_go ts mode st.
Proof.
  induction ts as [|[t l] ts IH]; intros mode st; [reflexivity|].
  cbn [timg]. destruct l as [|l'].
  - cbn [change_case_go]. rewrite convert_idem. f_equal.
    change (match convert mode st t with
            | [c] => if N.eqb c 58 then St_after_colon
                     else if is_space c then match st with St_after_colon => St_start | _ => St_normal end
                     else St_normal
            | _ => St_normal end) with (next_state st (convert mode st t)).
    change (match t with
            | [c] => if N.eqb c 58 then St_after_colon
                     else if is_space c then match st with St_after_colon => St_start | _ => St_normal end
                     else St_normal
            | _ => St_normal end) with (next_state st t).
    rewrite (next_state_lower st _ t (lower_convert mode st t)). apply IH.
  - cbn [change_case_go]. rewrite IH. f_equal.
    fold (bs_head t). fold (is_special_tok t (S l')).
    destruct (is_special_tok t (S l')) eqn:E.
    + fold (bs_head (convert_special_char mode st t)).
      fold (is_special_tok (convert_special_char mode st t) (S l')).
      unfold is_special_tok in E |- *. rewrite (lower_bs_head _ t (lower_csc mode st t)), E.
      apply csc_idem.
    + fold (bs_head t). fold (is_special_tok t (S l')). rewrite E. reflexivity.
Qed.

(* ------------------------------------------------------------------ idempotence *)
Lemma app_inj_len {X} : forall (a a' b b' : list X), length a = length a' -> a ++ b = a' ++ b' -> a = a' /\ b = b'.
Proof.
  induction a as [|x a IH]; intros [|y a'] b b' Hl H; try discriminate; [auto|].
  cbn [app] in H. injection H as -> H. cbn [length] in Hl.
  destruct (IH a' b b' (eq_add_S _ _ Hl) H) as [-> ->]. auto.
Qed.

Lemma lower_length s s' : lower s = lower s' -> length s = length s'.
Proof. intros H. apply (f_equal (@length _)) in H. unfold lower in H. rewrite !map_length in H. exact H. Qed.

Lemma toks_eq : forall ts ta tb, Forall2 tok_rel ts ta -> Forall2 tok_rel ts tb ->
  concat (map fst ta) = concat (map fst tb) -> ta = tb.
Proof.
  intros ts ta tb Ha. revert tb. induction Ha as [|t x ts ta Hx Ha IH]; intros tb Hb Hc.
  - inversion Hb. reflexivity.
  - inversion Hb as [|? y ? tb' Hy Hb']; subst. cbn [map concat] in Hc.
    destruct Hx as [Hx1 Hx2], Hy as [Hy1 Hy2].
    assert (Hl : length (fst x) = length (fst y)) by (apply lower_length; congruence).
    destruct (app_inj_len _ _ _ _ Hl Hc) as [E1 E2].
    rewrite (IH tb' Hb' E2). f_equal. destruct x, y; cbn [fst snd] in *. congruence.
Qed.

Lemma change_case_idem_lemma s mode out :
  balanced s -> change_case s mode = Ok out -> change_case out mode = Ok out.
Proof.
  intros Hb H. pose proof (change_case_upto_case_lemma s mode out Hb H) as Hlow.
  unfold change_case in H. inv_ok.
  set (out := change_case_go r mode St_start) in *.
  destruct (scan_go_rel s out 0 None None r (eq_sym Hlow) I Hr) as (r' & Hr' & HF).
  fold (scan out) in Hr'.
  assert (Hbo : balanced out).
  { unfold balanced. rewrite (depth_from_lower out s 0 Hlow). exact Hb. }
  pose proof (scan_lossless_lemma out r' Hbo Hr') as Hloss.
  assert (E : r' = timg r mode St_start).
  { apply (toks_eq r); [exact HF|apply timg_rel|]. rewrite Hloss. unfold out. apply cc_go_timg. }
  unfold change_case. rewrite Hr'. cbn [bind]. rewrite E, cc_go_timg_idem. reflexivity.
Qed.

(* ------------------------------------------------------------------ inside braces *)
Lemma change_case_braces_lemma s mode out :
  change_case s mode = Ok out ->
  exists ts outs, scan s = Ok ts /\ out = concat outs /\
    Forall2 (fun (t : tok) (o : str) =>
      (0 < snd t -> is_special_tok (fst t) (snd t) = false -> o = fst t) /\
      (is_special_tok (fst t) (snd t) = true ->
         exists st, o = join [c_space] (map (fun w => if bs_head w then w else convert mode st w)
                                            (split_on [c_space] (fst t))))) ts outs.
Proof.
  unfold change_case. intros H. inv_ok. exists r, (map fst (timg r mode St_start)).
  split; [exact Hr|]. split; [apply cc_go_timg|].
  clear Hr. generalize St_start. induction r as [|[t l] r IH]; intros st; cbn [timg map]; [constructor|].
  destruct l as [|l']; cbn [map fst]; (constructor; [|apply IH]); cbn [fst snd].
  - split; [lia|]. unfold is_special_tok. cbn [Nat.eqb andb]. discriminate.
  - split.
    + intros _ E. rewrite E. reflexivity.
    + intros E. rewrite E. exists st. apply csc_eq.
Qed.

Lemma change_case_unbalanced_example_lemma :
  change_case (s2l "{\") 0 = Ok (s2l "{\}").
Proof. vm_compute. reflexivity. Qed.

(* ------------------------------------------------------------------ unbalanced input: lossless up to one closing brace *)
Lemma scan_go_concat : forall s level sp ts,
  scan_go s level sp = Ok ts ->
  concat (map fst ts) =
  (match sp with Some (_, acc) => rev acc | None => [] end) ++ s ++
  (if ends_in_special_go s level (option_map fst sp) then [c_rbrace] else []).
Proof.
  induction s as [|c t IH]; intros level sp ts H.
  - destruct sp as [[d acc]|]; cbn [scan_go] in H; inv_ok; cbn; rewrite ?app_nil_r; reflexivity.
  - destruct sp as [[d acc]|]; cbn [scan_go] in H; cbn [option_map fst ends_in_special_go];
    unfold is_lbrace, is_rbrace in H.
    + destruct (N.eqb c c_lbrace) eqn:El.
      * destruct (Nat.ltb max_level (2 + d)); [discriminate|].
        apply IH in H. rewrite H. cbn [option_map fst rev]. rewrite <- !app_assoc. reflexivity.
      * destruct (N.eqb c c_rbrace) eqn:Er.
        -- destruct d as [|d'].
           ++ inv_ok. apply IH in Hr. cbn [map fst concat]. rewrite Hr. cbn [option_map app].
              apply N.eqb_eq in Er. subst c. reflexivity.
           ++ apply IH in H. rewrite H. cbn [option_map fst rev]. rewrite <- !app_assoc. reflexivity.
        -- apply IH in H. rewrite H. cbn [option_map fst rev]. rewrite <- !app_assoc. reflexivity.
    + destruct (N.eqb c c_lbrace) eqn:El.
      * apply N.eqb_eq in El. subst c.
        match type of H with context [if ?b then _ else _] => destruct b eqn:Esp end.
        -- inv_ok. apply IH in Hr. cbn [map fst concat]. rewrite Hr. reflexivity.
        -- destruct (Nat.ltb max_level (S level)); [discriminate|]. inv_ok.
           apply IH in Hr. cbn [map fst concat]. rewrite Hr. reflexivity.
      * destruct (N.eqb c c_rbrace) eqn:Er; cbn [andb] in H.
        -- apply N.eqb_eq in Er. subst c.
           destruct level as [|l']; cbn [Nat.ltb Nat.leb pred] in H |- *; inv_ok;
             apply IH in Hr; cbn [map fst concat]; rewrite Hr; reflexivity.
        -- inv_ok. apply IH in Hr. cbn [map fst concat]. rewrite Hr. reflexivity.
Qed.

Lemma scan_lossless_all_lemma s ts : scan s = Ok ts ->
  concat (map fst ts) = s ++ (if ends_in_special s then [c_rbrace] else []).
Proof. intros H. apply scan_go_concat in H. exact H. Qed.

Lemma change_case_upto_case_all_lemma s mode out : change_case s mode = Ok out ->
  lower out = lower (s ++ (if ends_in_special s then [c_rbrace] else [])).
Proof.
  unfold change_case. intros H. inv_ok. rewrite cc_go_lower, (scan_lossless_all_lemma s r Hr). reflexivity.
Qed.

(* ------------------------------------------------------------------ the exact domain of the case-change laws *)
Lemma ends_in_special_lower : forall s s' d sp, lower s = lower s' ->
  ends_in_special_go s d sp = ends_in_special_go s' d sp.
Proof.
  induction s as [|a s IH]; intros [|b s'] d sp H; try discriminate; [reflexivity|].
  cbn [lower map] in H. injection H as Hc H. fold (lower s) in H. fold (lower s') in H.
  cbn [ends_in_special_go].
  pose proof (fold_lb _ _ Hc) as E1. pose proof (fold_rb _ _ Hc) as E2.
  unfold is_lbrace, is_rbrace in E1, E2. rewrite E1, E2.
  fold (bs_head s). fold (bs_head s'). rewrite (lower_bs_head s s' H).
  destruct sp as [k|].
  - destruct (N.eqb b c_lbrace); [apply IH; exact H|].
    destruct (N.eqb b c_rbrace); [|apply IH; exact H]. destruct k; apply IH; exact H.
  - destruct (N.eqb b c_lbrace).
    + destruct (Nat.eqb d 0 && bs_head s'); apply IH; exact H.
    + destruct (N.eqb b c_rbrace); apply IH; exact H.
Qed.

Lemma balanced_not_in_special_go : forall s d sp,
  depth_from (match sp with None => d | Some k => S k end) s = Some 0 ->
  ends_in_special_go s d sp = false.
Proof.
  induction s as [|c t IH]; intros d sp H.
  - destruct sp; [discriminate|reflexivity].
  - cbn [depth_from] in H. cbn [ends_in_special_go]. destruct sp as [k|].
    + destruct (N.eqb c c_lbrace); [apply (IH d (Some (S k))); exact H|].
      destruct (N.eqb c c_rbrace); [|apply (IH d (Some k)); exact H].
      destruct k; [apply (IH 0 None); exact H|apply (IH d (Some k)); exact H].
    + destruct (N.eqb c c_lbrace).
      * destruct (Nat.eqb d 0 && _) eqn:E.
        -- apply andb_prop in E as [E0 _]. apply Nat.eqb_eq in E0. subst d. apply (IH 0 (Some 0)). exact H.
        -- apply (IH (S d) None). exact H.
      * destruct (N.eqb c c_rbrace); [|apply (IH d None); exact H].
        destruct d; [discriminate|]. apply (IH d None). exact H.
Qed.

Lemma balanced_not_in_special_lemma s : balanced s -> ends_in_special s = false.
Proof. intros H. apply (balanced_not_in_special_go s 0 None). exact H. Qed.

Lemma change_case_upto_case_gen s mode out :
  ends_in_special s = false -> change_case s mode = Ok out -> lower out = lower s.
Proof.
  intros He H. rewrite (change_case_upto_case_all_lemma s mode out H), He, app_nil_r. reflexivity.
Qed.

Lemma change_case_length_gen s mode out :
  ends_in_special s = false -> change_case s mode = Ok out -> length out = length s.
Proof. intros He H. apply lower_length. apply (change_case_upto_case_gen s mode out He H). Qed.

Lemma change_case_idem_gen s mode out :
  ends_in_special s = false -> change_case s mode = Ok out -> change_case out mode = Ok out.
Proof.
  intros He H. pose proof (change_case_upto_case_gen s mode out He H) as Hlow.
  unfold change_case in H. inv_ok.
  set (out := change_case_go r mode St_start) in *.
  destruct (scan_go_rel s out 0 None None r (eq_sym Hlow) I Hr) as (r' & Hr' & HF).
  fold (scan out) in Hr'.
  assert (Heo : ends_in_special out = false).
  { unfold ends_in_special. rewrite (ends_in_special_lower out s 0 None Hlow). exact He. }
  pose proof (scan_lossless_all_lemma out r' Hr') as Hloss. rewrite Heo, app_nil_r in Hloss.
  assert (E : r' = timg r mode St_start).
  { apply (toks_eq r); [exact HF|apply timg_rel|]. rewrite Hloss. unfold out. apply cc_go_timg. }
  unfold change_case. rewrite Hr'. cbn [bind]. rewrite E, cc_go_timg_idem. reflexivity.
Qed.

(* ------------------------------------------------------------------ round 3: the boundary as theorems *)
(* exact length for EVERY string: the one closing brace the scanner adds *)
Lemma change_case_length_all_lemma s mode out : change_case s mode = Ok out ->
  length out = length s + (if ends_in_special s then 1 else 0).
Proof.
  intros H. pose proof (change_case_upto_case_all_lemma s mode out H) as E.
  apply lower_length in E. rewrite E, app_length. destruct (ends_in_special s); reflexivity.
Qed.

(* idempotence does fail outside its hypothesis *)
Lemma change_case_idem_refuted_lemma :
  exists s mode out, ends_in_special s = true /\ change_case s mode = Ok out /\ change_case out mode <> Ok out.
Proof.
  exists (s2l "{\{"), 0, (s2l "{\{}"). split; [reflexivity|]. split; [vm_compute; reflexivity|].
  vm_compute. discriminate.
Qed.

