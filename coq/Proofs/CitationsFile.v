(* Proofs/CitationsFile.v -- what the two readings store, in terms of the file *)
From Pybtex Require Import Base.Prelude Base.PyChar Base.PyStr Model.Citations Spec.Citations
  Proofs.CitationsBase Proofs.Citations Proofs.CitationsFiltered.

Lemma found_like_in_file q E db : found_like q E (db_find q db) -> ed_mem q E = existsb (keyb q) (map fst db).
Proof.
  destruct (db_find q db) as [e|] eqn:Hf; cbn.
  - intros (k' & Hg & _). rewrite ed_mem_get, Hg. symmetry. apply existsb_exists.
    unfold db_find in Hf. apply find_some in Hf as [Hin Hk]. exists (fst e). split; [now apply in_map|exact Hk].
  - intros ->. symmetry. now apply db_find_none.
Qed.

(* the entry stored for a key is the FIRST entry of that key in the file (crossref included), under a
   spelling equal to the file's up to case *)
Lemma reading_lemma db :
  (forall q, ed_mem q (bd_entries (read_db None db)) = existsb (keyb q) (map fst db)) /\
  (forall cites q, existsb (keyb q) cites = true ->
     ed_mem q (bd_entries (read_db (Some cites) db)) = existsb (keyb q) (map fst db)) /\
  (forall cites q e, existsb (keyb q) cites = true -> find (fun e => keyb q (fst e)) db = Some e ->
     exists k', ed_get q (bd_entries (read_db (Some cites) db)) = Some (k', snd e) /\ keyb k' (fst e) = true).
Proof.
  split; [|split].
  - intros q. apply found_like_in_file, found_all.
  - intros cites q H. apply found_like_in_file, found_cited, H.
  - intros cites q e H Hf. pose proof (found_cited db cites q H) as G. unfold db_find in G. rewrite Hf in G. exact G.
Qed.

(* "cited keys missing from the database are reported, never silently kept", in terms of the file *)
Lemma missing_file_lemma db cites m :
  let rs := snd (command_read_raw db cites m) in
  (forall c, In c (missing_reports rs) ->
     existsb (keyb c) cites = true /\ existsb (keyb c) (map fst db) = false /\ ~ In c (fst (command_read_raw db cites m))) /\
  (forall c, In c cites -> c <> star -> existsb (keyb c) (map fst db) = false ->
     exists c', keyb c c' = true /\ In c' (missing_reports rs)).
Proof.
  cbn zeta. destruct (command_read_raw db cites m) as [final rs] eqn:Hc. cbn [fst snd].
  destruct (command_read_reports _ _ _ _ _ Hc) as (Hfin & Hmiss & _ & _ & Hkept).
  destruct (reading_lemma db) as (_ & Hmem & _). specialize (Hmem cites).
  set (E := bd_entries (read_db (Some cites) db)) in *.
  set (F := flat_map (fun c => if str_eqb c star then ed_keys E else [c]) cites).
  split.
  - intros c Hin. rewrite Hmiss in Hin. unfold missing_of in Hin. apply filter_In in Hin as [Hex Hm].
    apply negb_true_iff in Hm.
    assert (HcF : In c F) by (apply dedup_ci_in; exact Hex).
    unfold F in HcF. apply in_flat_map in HcF as (c0 & Hc0 & Hx).
    destruct (str_eqb c0 star).
    + exfalso. rewrite ed_mem_keys in Hm.
      assert (existsb (keyb c) (ed_keys E) = true) by (apply existsb_exists; exists c; split; [exact Hx|apply keyb_refl]).
      congruence.
    + destruct Hx as [<-|[]].
      assert (Hcc : existsb (keyb c0) cites = true) by (apply existsb_exists; exists c0; split; [exact Hc0|apply keyb_refl]).
      split; [exact Hcc|]. split; [now rewrite <- (Hmem c0 Hcc)|]. exact (proj2 (Hkept c0 Hex Hm)).
  - intros c Hc' Hns Hab.
    assert (Hcc : existsb (keyb c) cites = true) by (apply existsb_exists; exists c; split; [exact Hc'|apply keyb_refl]).
    assert (HcF : existsb (keyb c) F = true).
    { apply existsb_exists. exists c. split; [|apply keyb_refl]. unfold F. apply in_flat_map. exists c. split; [exact Hc'|].
      destruct (str_eqb_spec c star); [contradiction|now left]. }
    rewrite <- dedup_ci_mem in HcF. apply existsb_exists in HcF as (c' & Hin' & Hk).
    exists c'. split; [exact Hk|]. rewrite Hmiss. unfold missing_of. apply filter_In. split; [exact Hin'|].
    apply negb_true_iff. rewrite <- (ed_mem_congr c c' E Hk), (Hmem c Hcc). exact Hab.
Qed.

(* strict error mode: the first report is raised; capture mode never raises *)
Lemma strict_mode_lemma db cites m :
  (command_read db cites m true = PyErr 0 (-1) <-> snd (command_read_raw db cites m) <> []) /\
  (snd (command_read_raw db cites m) = [] -> command_read db cites m true = Ok (fst (command_read_raw db cites m), [])) /\
  command_read db cites m false = Ok (command_read_raw db cites m).
Proof.
  unfold command_read. destruct (command_read_raw db cites m) as [v rs]. cbn [fst snd strictly].
  split; [|split; [intros ->; reflexivity|reflexivity]].
  destruct rs; split; intros H; try discriminate; try congruence; reflexivity.
Qed.
