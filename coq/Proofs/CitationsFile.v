(* Proofs/CitationsFile.v -- what the two readings store, in terms of the file *)
From Pybtex Require Import Base.Prelude Base.PyChar Base.PyStr Model.Citations Spec.Citations
  Proofs.CitationsBase Proofs.Citations Proofs.CitationsFiltered Proofs.CitationsMore Proofs.CitationsReports.

Lemma found_like_in_file q E db : found_like q E (db_find q db) -> ed_mem q E = existsb (keyb q) (map fst db).
Proof.
  destruct (db_find q db) as [e|] eqn:Hf; cbn.
  - intros (k' & Hg & _). rewrite ed_mem_get, Hg. symmetry. apply existsb_exists.
    unfold db_find in Hf. apply find_some in Hf as [Hin Hk]. exists (fst e). split; [now apply in_map|exact Hk].
  - intros ->. symmetry. now apply db_find_none.
Qed.

(* the entry stored for a key is the FIRST entry of that key in the file (crossref included), under a
   spelling equal to the file's up to case *)
Lemma reading_lemma db :
  (forall q, ed_mem q (bd_entries (read_db None db)) = existsb (keyb q) (map fst db)) /\
  (forall cites q, existsb (keyb q) cites = true ->
     ed_mem q (bd_entries (read_db (Some cites) db)) = existsb (keyb q) (map fst db)) /\
  (forall cites q e, existsb (keyb q) cites = true -> find (fun e => keyb q (fst e)) db = Some e ->
     exists k', ed_get q (bd_entries (read_db (Some cites) db)) = Some (k', snd e) /\ keyb k' (fst e) = true).
Proof.
  split; [|split].
  - intros q. apply found_like_in_file, found_all.
  - intros cites q H. apply found_like_in_file, found_cited, H.
  - intros cites q e H Hf. pose proof (found_cited db cites q H) as G. unfold db_find in G. rewrite Hf in G. exact G.
Qed.

(* "cited keys missing from the database are reported, never silently kept", in terms of the file *)
Lemma missing_file_lemma db cites m :
  let rs := snd (command_read_raw db cites m) in
  (forall c, In c (missing_reports rs) ->
     existsb (keyb c) cites = true /\ existsb (keyb c) (map fst db) = false /\ ~ In c (fst (command_read_raw db cites m))) /\
  (forall c, In c cites -> c <> star -> existsb (keyb c) (map fst db) = false ->
     exists c', keyb c c' = true /\ In c' (missing_reports rs)).
Proof.
  cbn zeta. destruct (command_read_raw db cites m) as [final rs] eqn:Hc. cbn [fst snd].
  destruct (command_read_reports _ _ _ _ _ Hc) as (Hfin & Hmiss & _ & _ & Hkept).
  destruct (reading_lemma db) as (_ & Hmem & _). specialize (Hmem cites).
  set (E := bd_entries (read_db (Some cites) db)) in *.
  set (F := flat_map (fun c => if str_eqb c star then ed_keys E else [c]) cites).
  split.
  - intros c Hin. rewrite Hmiss in Hin. unfold missing_of in Hin. apply filter_In in Hin as [Hex Hm].
    apply negb_true_iff in Hm.
    assert (HcF : In c F) by (apply dedup_ci_in; exact Hex).
    unfold F in HcF. apply in_flat_map in HcF as (c0 & Hc0 & Hx).
    destruct (str_eqb c0 star).
    + exfalso. rewrite ed_mem_keys in Hm.
      assert (existsb (keyb c) (ed_keys E) = true) by (apply existsb_exists; exists c; split; [exact Hx|apply keyb_refl]).
      congruence.
    + destruct Hx as [<-|[]].
      assert (Hcc : existsb (keyb c0) cites = true) by (apply existsb_exists; exists c0; split; [exact Hc0|apply keyb_refl]).
      split; [exact Hcc|]. split; [now rewrite <- (Hmem c0 Hcc)|]. exact (proj2 (Hkept c0 Hex Hm)).
  - intros c Hc' Hns Hab.
    assert (Hcc : existsb (keyb c) cites = true) by (apply existsb_exists; exists c; split; [exact Hc'|apply keyb_refl]).
    assert (HcF : existsb (keyb c) F = true).
    { apply existsb_exists. exists c. split; [|apply keyb_refl]. unfold F. apply in_flat_map. exists c. split; [exact Hc'|].
      destruct (str_eqb_spec c star); [contradiction|now left]. }
    rewrite <- dedup_ci_mem in HcF. apply existsb_exists in HcF as (c' & Hin' & Hk).
    exists c'. split; [exact Hk|]. rewrite Hmiss. unfold missing_of. apply filter_In. split; [exact Hin'|].
    apply negb_true_iff. rewrite <- (ed_mem_congr c c' E Hk), (Hmem c Hcc). exact Hab.
Qed.

(* strict error mode: the first report is raised; capture mode never raises *)
Lemma strict_mode_lemma db cites m :
  (command_read db cites m true = PyErr 0 (-1) <-> snd (command_read_raw db cites m) <> []) /\
  (snd (command_read_raw db cites m) = [] -> command_read db cites m true = Ok (fst (command_read_raw db cites m), [])) /\
  command_read db cites m false = Ok (command_read_raw db cites m).
Proof.
  unfold command_read. destruct (command_read_raw db cites m) as [v rs]. cbn [fst snd strictly].
  split; [|split; [intros ->; reflexivity|reflexivity]].
  destruct rs; split; intros H; try discriminate; try congruence; reflexivity.
Qed.
(* a 'bad cross-reference' reported when the whole file is read is dangling in the file *)
Lemma whole_dangling_file_lemma db cites m c p :
  In (c, p) (badxref_reports (snd (select_unfiltered db cites m))) ->
  (exists e, find (fun e => keyb c (fst e)) db = Some e /\ snd e = Some p) /\
  existsb (keyb p) (map fst db) = false.
Proof.
  destruct (select_unfiltered_reports db cites m) as [_ ->]. cbn zeta.
  set (E := bd_entries (read_db None db)). intros H. unfold dangling_of in H.
  apply in_flat_map in H as (c0 & _ & H).
  destruct (ed_get c0 E) as [[k [p0|]]|] eqn:Eg; try contradiction.
  destruct (ed_mem p0 E) eqn:Em; [contradiction|]. destruct H as [[= <- <-]|[]].
  split.
  - pose proof (found_all db c0) as F. fold E in F. unfold db_find in F.
    destruct (find (fun e => keyb c0 (fst e)) db) as [e|].
    + exists e. split; [reflexivity|]. destruct F as (k' & F & _). rewrite Eg in F. now injection F as _ <-.
    + cbn in F. rewrite ed_mem_get, Eg in F. discriminate.
  - destruct (reading_lemma db) as (Hm & _). fold E in Hm. now rewrite <- Hm.
Qed.

(* the Python engine emits entry.key: a cited key is emitted under the citation list's spelling *)
Lemma py_emitted_spelling_lemma db cites m k c :
  consistent cites -> In k (fst (py_engine_raw db cites m)) -> In c cites -> keyb c k = true -> k = c.
Proof.
  intros Hcons Hk Hc Hck. rewrite py_engine_fst in Hk. apply in_map_iff in Hk as (x & <- & Hx).
  unfold resolve in Hx. apply filter_In in Hx as [_ Hm].
  set (E := bd_entries (read_db (Some cites) db)) in *.
  unfold stored_key in *. rewrite ed_mem_get in Hm. destruct (ed_get x E) as [[k' cr]|] eqn:Eg; [|discriminate].
  apply ed_get_some_key in Eg as [_ Hin]. exact (stored_spelling_consistent db cites k' cr c Hcons Hin Hc Hck).
Qed.
