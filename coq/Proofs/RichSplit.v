(* Proofs/RichSplit.v -- split (property C08): the pieces re-assemble, protected text is never
   touched.  (Where exactly the cuts fall at part boundaries is finding F17s: not claimed.) *)
From Pybtex Require Import Base.Prelude Base.PyChar Base.PyStr Model.RtTypes Model.RichText
  Spec.Flat Spec.FlatOps Proofs.RichText Proofs.RichSlice Proofs.RichOps.

Definition F (l : list rt) : flat_text := concat (map flat_e l).
Lemma F_app a b : F (a ++ b) = F a ++ F b.
Proof. unfold F. now rewrite map_app, concat_app. Qed.
Lemma F_cons x l : F (x :: l) = flat_e x ++ F l.
Proof. reflexivity. Qed.
Lemma F_one x : F [x] = flat_e x.
Proof. unfold F. cbn. apply app_nil_r. Qed.

Lemma rlen0_flat_e t : rlen t = 0 -> flat_e t = [].
Proof. intro H. unfold flat_e. now rewrite (rlen0_flat _ H). Qed.

(* the yielding loop of BaseMultipartText.split loses nothing (what it drops is empty) *)
Lemma split_items_concat keep : forall items tail ys tl, split_items keep items tail = (ys, tl) ->
  concat (map F ys) ++ F tl = F tail ++ F items.
Proof.
  induction items as [|it r IH]; intros tail ys tl H; cbn [split_items] in H.
  - inversion H; subst. cbn. now rewrite app_nil_r.
  - destruct (split_items keep r []) as [ys' tl'] eqn:E. specialize (IH [] ys' tl' E).
    change (F []) with (@nil (atom * list markup)) in IH. cbn [app] in IH.
    rewrite (F_cons it r).
    destruct tail as [|t0 tail'].
    + destruct (negb (rlen it =? 0) || keep) eqn:K; inversion H; subst.
      * cbn [map concat]. rewrite F_one, <- app_assoc, IH. reflexivity.
      * apply orb_false_elim in K as [K _]. apply negb_false_iff, Nat.eqb_eq in K.
        rewrite (rlen0_flat_e _ K), IH. reflexivity.
    + inversion H; subst. cbn [map concat]. change (t0 :: tail' ++ [it]) with ((t0 :: tail') ++ [it]).
      rewrite F_app, F_one, <- !app_assoc, IH. reflexivity.
Qed.

Lemma split_loop_concat keep : forall sps tail ys tl, split_loop keep sps tail = (ys, tl) ->
  concat (map F ys) ++ F tl = F tail ++ concat (map F sps).
Proof.
  induction sps as [|sp r IH]; intros tail ys tl H; cbn [split_loop] in H.
  - inversion H; subst. cbn. now rewrite app_nil_r.
  - destruct sp as [|x sp'].
    + cbn [map concat F]. cbn. now apply IH.
    + remember (x :: sp') as sp eqn:Esp.
      destruct (split_items keep (removelast sp) tail) as [ys1 tl1] eqn:E1.
      destruct (split_loop keep r (tl1 ++ [last sp (RStr [])])) as [ys2 tl2] eqn:E2.
      inversion H; subst ys tl. apply split_items_concat in E1. apply IH in E2.
      rewrite map_app, concat_app, <- app_assoc, E2, F_app, F_one, !app_assoc, E1.
      cbn [map concat]. rewrite <- !app_assoc. f_equal. rewrite app_assoc. f_equal.
      rewrite <- F_one, <- F_app. f_equal. symmetry. apply app_removelast_last. subst sp. discriminate.
Qed.

(* ---- String leaves ---- *)
Lemma re_split_delim_concat s : forall acc, concat (re_split_delim s acc) = rev acc ++ s.
Proof.
  induction s as [|c s IH]; intro acc; cbn [re_split_delim].
  - cbn. now rewrite app_nil_r.
  - destruct (is_space c || (c =? c_hyphen)%N).
    + cbn [concat]. rewrite IH. cbn. reflexivity.
    + rewrite IH. cbn. now rewrite <- app_assoc.
Qed.
Lemma re_split_ws_concat s : forall acc w, (w = true -> acc = []) ->
  concat (re_split_ws s acc w) = rev acc ++ filter (fun c => negb (is_space c)) s.
Proof.
  induction s as [|c s IH]; intros acc w Hw; cbn [re_split_ws filter].
  - destruct w; [rewrite (Hw eq_refl)|]; cbn; now rewrite ?app_nil_r.
  - destruct (is_space c) eqn:Ec; cbn [negb].
    + destruct w.
      * rewrite (Hw eq_refl). apply IH. reflexivity.
      * cbn [concat]. rewrite IH by reflexivity. reflexivity.
    + rewrite IH by discriminate. cbn. now rewrite <- app_assoc.
Qed.
Lemma concat_filter_nonnil (l : list str) keep :
  concat (filter (fun p => negb (length p =? 0) || keep) l) = concat l.
Proof.
  induction l as [|p l IH]; cbn; [reflexivity|].
  destruct (negb (length p =? 0) || keep) eqn:K; cbn; rewrite IH; [reflexivity|].
  apply orb_false_elim in K as [K _]. apply negb_false_iff, Nat.eqb_eq in K.
  destruct p; [reflexivity|discriminate].
Qed.
Lemma F_strs (l : list str) : F (map RStr l) = flat_e (RStr (concat l)).
Proof.
  induction l as [|p l IH]; [reflexivity|]. cbn [map]. rewrite F_cons, IH. unfold flat_e, erase. cbn [flat concat]. now rewrite !map_app.
Qed.

Section Content.
  Variable sep : sepk.
  Variable del : flat_text -> flat_text.
  Hypothesis del_app : forall a b, del (a ++ b) = del a ++ del b.
  Hypothesis del_push : forall m f, is_prot m = false -> del (push_m m f) = push_m m (del f).
  Hypothesis del_prot : forall f, del (push_m MProt f) = push_m MProt f.
  Hypothesis del_sym : forall n, del [(ASym n, [])] = [(ASym n, [])].
  Hypothesis del_leaf : forall s keep ps, str_split s sep keep = Ok ps -> F ps = del (flat_e (RStr s)).

  Lemma del_nil : del [] = [].
  Proof. pose proof (del_app [] []) as H. cbn in H. destruct (del []); [reflexivity|]. apply (f_equal (@length _)) in H. rewrite app_length in H. cbn in H. lia. Qed.
  Lemma del_concat l : del (concat l) = concat (map del l).
  Proof. induction l as [|a l IH]; cbn; [apply del_nil|]. now rewrite del_app, IH. Qed.

  Lemma split_content f : forall t keep ps, split f t sep keep = Ok ps -> F ps = del (flat_e t).
  Proof.
    induction f as [|f IH]; intros t keep ps H; [discriminate|]. cbn [split] in H.
    assert (G : is_multipart t = true -> (forall qs, t <> RProt qs) ->
      forall keepb, (do sps <- mapM (fun p => split f p sep (Some true)) (parts_of t);
         let '(ys, tl) := split_loop keepb sps (if keepb then [RStr []] else []) in
         do out <- mapM (create_similar t) ys;
         match tl with
         | [] => Ok out
         | _ => do tlt <- create_similar t tl;
                if negb (rlen tlt =? 0) || keepb then Ok (out ++ [tlt]) else Ok out
         end) = Ok ps -> F ps = del (flat_e t)).
    { intros Hm Hnp keepb Hs. apply bind_ok in Hs as [sps [Hsps Hs]].
      destruct (split_loop keepb sps _) as [ys tl] eqn:EL. apply split_loop_concat in EL.
      assert (E0 : F (if keepb then [RStr []] else []) = []) by (destruct keepb; reflexivity).
      rewrite E0 in EL. cbn [app] in EL.
      assert (Esps : concat (map F sps) = del (concat (map flat_e (parts_of t)))).
      { rewrite del_concat, map_map. f_equal. clear - Hsps IH. revert sps Hsps.
        induction (parts_of t) as [|p l IHl]; cbn; intros sps Hs.
        - inversion Hs. reflexivity.
        - apply bind_ok in Hs as [sp [Hsp Hs]]. apply bind_ok in Hs as [sps' [Hsps' Hs]]. inversion Hs; subst.
          cbn. f_equal; [eapply IH; exact Hsp|apply IHl, Hsps']. }
      apply bind_ok in Hs as [out [Hout Hs]].
      assert (Eout : F out = pushk_e (kind_of t) (concat (map F ys))).
      { clear - Hout. revert out Hout. induction ys as [|y ys IHy]; cbn; intros out Hout.
        - inversion Hout. unfold pushk_e. destruct (km (kind_of t)); reflexivity.
        - apply bind_ok in Hout as [v [Hv Hout]]. apply bind_ok in Hout as [vs [Hvs Hout]]. inversion Hout; subst.
          rewrite F_cons, (IHy _ Hvs).
          destruct (create_similar_spec t y) as [v' [Hv' [Hf _]]]. rewrite Hv in Hv'. inversion Hv'; subst v'.
          rewrite Hf. unfold pushk_e, push_m. destruct (km (kind_of t)); [now rewrite map_app|reflexivity]. }
      assert (Epush : forall g, del (pushk_e (kind_of t) g) = pushk_e (kind_of t) (del g)).
      { intro g. unfold pushk_e. destruct t; cbn [is_multipart] in Hm; try discriminate; cbn [kind_of km]; try reflexivity.
        - now apply del_push.
        - now apply del_push.
        - exfalso. now apply (Hnp parts). }
      assert (Etail : forall x, create_similar t tl = Ok x -> flat_e x = pushk_e (kind_of t) (F tl)).
      { intros x Hx. destruct (create_similar_spec t tl) as [x' [Hx' [Hf _]]]. rewrite Hx in Hx'. inversion Hx'; subst. exact Hf. }
      assert (Fin : forall P0, P0 = pushk_e (kind_of t) (concat (map F ys) ++ F tl) -> P0 = del (flat_e t)).
      { intros P0 ->. rewrite EL, Esps, (flat_e_kind t Hm), Epush. reflexivity. }
      assert (Epapp : forall a b, pushk_e (kind_of t) (a ++ b) = pushk_e (kind_of t) a ++ pushk_e (kind_of t) b).
      { intros a b. unfold pushk_e, push_m. destruct (km (kind_of t)); [apply map_app|reflexivity]. }
      destruct tl as [|t0 tl'].
      - inversion Hs; subst. apply Fin. change (F []) with (@nil (atom * list markup)). now rewrite app_nil_r.
      - apply bind_ok in Hs as [tlt [Htlt Hs]]. specialize (Etail _ Htlt).
        destruct (negb (rlen tlt =? 0) || keepb) eqn:K; inversion Hs; subst.
        + apply Fin. now rewrite F_app, F_one, Eout, Etail, Epapp.
        + apply Fin. apply orb_false_elim in K as [K _]. apply negb_false_iff, Nat.eqb_eq in K.
          rewrite Epapp, <- Etail, (rlen0_flat_e _ K), app_nil_r. exact Eout. }
    destruct t.
    - eapply del_leaf; exact H.
    - inversion H; subst. rewrite F_one. unfold flat_e, erase; cbn. symmetry. apply del_sym.
    - apply (G eq_refl ltac:(discriminate) _ H).
    - apply (G eq_refl ltac:(discriminate) _ H).
    - apply (G eq_refl ltac:(discriminate) _ H).
    - inversion H; subst. rewrite F_one, flat_e_prot. symmetry. apply del_prot.
  Qed.
End Content.

(* ---- instances ---- *)
Lemma str_split_F s sep keep ps pieces :
  (match sep with SepNone => Ok (re_split_ws s [] false) | SepStr [] => Crash | SepStr p => Ok (split_on p s)
   | SepDelim => Ok (re_split_delim s []) | SepBad => Crash end) = Ok pieces ->
  str_split s sep keep = Ok ps -> F ps = flat_e (RStr (concat pieces)).
Proof.
  intros Hp H. unfold str_split in H. rewrite Hp in H. cbn [bind] in H. inversion H; subst.
  rewrite F_strs. now rewrite concat_filter_nonnil.
Qed.

(* split(delimiter_re): the pieces (delimiters included) concatenate to the text *)
Theorem split_delim_content t keep ps : split_c t SepDelim keep = Ok ps ->
  concat (map (fun p => erase (flat p)) ps) = erase (flat t).
Proof.
  intro H. change (F ps = (fun f : flat_text => f) (flat_e t)).
  apply (split_content SepDelim (fun f => f)) with (f := S (depth t)) (keep := keep); try (intros; reflexivity); [|exact H].
  intros s k qs Hq. rewrite (str_split_F s SepDelim k qs _ eq_refl Hq), re_split_delim_concat. reflexivity.
Qed.

Lemma ws_sep_push m p : is_prot m = false -> ws_sep (fst p, m :: snd p) = ws_sep p.
Proof. intro H. unfold ws_sep, protected. cbn. now rewrite H. Qed.

(* split(): nothing but unprotected whitespace disappears; order and markup are kept *)
Theorem split_ws_content t keep ps : split_c t SepNone keep = Ok ps ->
  concat (map (fun p => erase (flat p)) ps) = drop_ws (erase (flat t)).
Proof.
  intro H. change (F ps = drop_ws (flat_e t)).
  apply (split_content SepNone drop_ws) with (f := S (depth t)) (keep := keep); [| | |reflexivity| |exact H].
  - intros a b. apply filter_app.
  - intros m f Hm. unfold drop_ws, push_m. induction f as [|p f IH]; [reflexivity|]. cbn [map filter].
    rewrite (ws_sep_push m p Hm). destruct (negb (ws_sep p)); cbn [map]; now rewrite IH.
  - intros f. unfold drop_ws, push_m. induction f as [|p f IH]; [reflexivity|]. cbn [map filter].
    unfold ws_sep at 1, protected at 1. cbn. now rewrite IH.
  - intros s k qs Hq. rewrite (str_split_F s SepNone k qs _ eq_refl Hq), re_split_ws_concat by discriminate.
    cbn [rev app]. unfold flat_e, erase, drop_ws. cbn [flat]. clear Hq. induction s as [|c s IH]; [reflexivity|].
    cbn [filter map]. unfold ws_sep at 1, protected at 1. cbn. destruct (is_space c); cbn; now rewrite IH.
Qed.

(* protected text is never split *)
Theorem split_protected ps sep keep : split_c (RProt ps) sep keep = Ok [RProt ps].
Proof. reflexivity. Qed.

(* every piece keeps the top-level markup of the text that was split *)
Theorem split_pieces_top t sep keep ps : is_multipart t = true -> split_c t sep keep = Ok ps ->
  Forall (fun p => top_e p = top_e t) ps.
Proof.
  intros Hm H. unfold split_c in H. cbn [split] in H.
  assert (G : forall ys out, mapM (create_similar t) ys = Ok out -> Forall (fun p => top_e p = top_e t) out).
  { induction ys as [|y ys IH]; cbn; intros out Ho.
    - inversion Ho. constructor.
    - apply bind_ok in Ho as [v [Hv Ho]]. apply bind_ok in Ho as [vs [Hvs Ho]]. inversion Ho; subst.
      constructor; [eapply create_similar_top; eauto|now apply IH]. }
  destruct t; cbn [is_multipart] in Hm; try discriminate.
  4: { inversion H. constructor; [reflexivity|constructor]. }
  all: apply bind_ok in H as [sps [_ H]]; destruct (split_loop _ _ _) as [ys tl];
    apply bind_ok in H as [out [Hout H]]; pose proof (G _ _ Hout) as Go;
    destruct tl; [inversion H; subst; exact Go|];
    apply bind_ok in H as [tlt [Ht H]]; destruct (_ || _); inversion H; subst; try exact Go;
    apply Forall_app; split; [exact Go|]; constructor; [|constructor];
    eapply create_similar_top; [|exact Ht]; reflexivity.
Qed.

(* F17s: a whitespace run that spans a part boundary yields an empty piece although empty pieces
   are to be dropped (str.split() never returns an empty string) *)
Lemma split_no_empty_refuted : exists t ps, split_c t SepNone None = Ok ps /\ exists p, In p ps /\ rlen p = 0.
Proof.
  exists (RText [RStr [97; 32]%N; RTag [101; 109]%N [RStr [32; 98]%N]]).
  eexists. split; [vm_compute; reflexivity|]. exists (RText []). split; [right; left; reflexivity|reflexivity].
Qed.
