(* Proofs/Writers.v -- lemmas about Model/Writers.v (property C02). *)
From Pybtex Require Import Base.Prelude Base.PyChar Base.PyStr Model.BibtexStr Model.Names Model.Scanner Model.BibParser Model.Writers.
Local Open Scope N_scope.

(* the database with one entry  @book{k, title = v} *)
Definition one_field_db (v : str) : wdb := mkWDb [mkWE [107] [98; 111; 111; 107] [([116; 105; 116; 108; 101], v)] []] [].

(* F18: with latexcodec's encoder the five characters # % & _ ~ do not survive the BibTeX round trip *)
Lemma five_chars_refuted_pf :
  Forall (fun c => exists rd, write_read latex_enc FBib (one_field_db [97; c; 98]) = Ok rd /\ rd <> one_field_db [97; c; 98])
         [35; 37; 38; 95; 126].
Proof.
  repeat constructor; (eexists; split; [vm_compute; reflexivity | intro H; discriminate H]).
Qed.

(* FC02a: a role spelled Author does not survive BibTeXML; FC02b: a field called type does not survive YAML *)
Definition knuth : person := mkPerson [[68; 111; 110; 97; 108; 100]] [[69; 46]] [] [[75; 110; 117; 116; 104]] [].
Definition role_db (role : str) : wdb := mkWDb [mkWE [107] [98; 111; 111; 107] [] [(role, [knuth])]] [].
Definition field_db (name v : str) : wdb := mkWDb [mkWE [107] [98; 111; 111; 107] [(name, v)] []] [].

Lemma xml_role_case_refuted_pf :
  exists rd, write_read latex_enc FXml (role_db [65; 117; 116; 104; 111; 114]) = Ok rd /\
             we_persons (hd (mkWE [] [] [] []) (wd_entries rd)) = [] /\ rd <> role_db [65; 117; 116; 104; 111; 114].
Proof. eexists; split; [vm_compute; reflexivity|]. split; [reflexivity|intro H; discriminate H]. Qed.

Lemma yaml_type_field_refuted_pf :
  exists rd, write_read latex_enc FYaml (field_db k_type [84]) = Ok rd /\
             we_otype (hd (mkWE [] [] [] []) (wd_entries rd)) = [84] /\ we_fields (hd (mkWE [] [] [] []) (wd_entries rd)) = [].
Proof. eexists; split; [vm_compute; reflexivity|]. split; reflexivity. Qed.
