(* Proofs/Writers.v -- lemmas about Model/Writers.v (property C02). *)
From Pybtex Require Import Base.Prelude Base.PyChar Base.PyStr Model.BibtexStr Model.Names Model.Scanner Model.BibParser Model.Writers.
Local Open Scope N_scope.

(* the database with one entry  @book{k, title = v} *)
Definition one_field_db (v : str) : wdb := mkWDb [mkWE [107] [98; 111; 111; 107] [([116; 105; 116; 108; 101], v)] []] [].

(* F18: with latexcodec's encoder the five characters # % & _ ~ do not survive the BibTeX round trip *)
Lemma five_chars_refuted_pf :
  Forall (fun c => exists rd, write_read latex_enc FBib (one_field_db [97; c; 98]) = Ok rd /\ rd <> one_field_db [97; c; 98])
         [35; 37; 38; 95; 126].
Proof.
  repeat constructor; (eexists; split; [vm_compute; reflexivity | intro H; discriminate H]).
Qed.
