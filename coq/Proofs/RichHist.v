(* Proofs/RichHist.v -- operations applied on top of one another (the history quantifier of
   C08): every value stays well-formed and normal, and agrees with an independent evaluator on
   plain pair sequences. *)
From Pybtex Require Import Base.Prelude Base.PyChar Base.PyStr Model.RtTypes Model.RichText
  Spec.Flat Spec.FlatOps Proofs.RichText Proofs.RichSlice Proofs.RichOps Proofs.RichWf Proofs.RichObs
  Proofs.RichInj Proofs.RichNormal.

(* ------------------------------------------------------------------------------ *)
(* `good` (normal and well-formed) is preserved by every operation *)
Lemma good_str s : good (RStr s). Proof. split; reflexivity. Qed.
Lemma good_sym n : good (RSym n). Proof. split; reflexivity. Qed.
Lemma good_parts_all t : good t -> Forall good (parts_of t).
Proof.
  intro G. destruct (is_multipart t) eqn:Hm.
  - eapply Forall_impl; [apply goodp_good|apply good_parts; assumption].
  - destruct t; cbn in Hm; try discriminate; cbn; repeat constructor.
Qed.

Lemma mapO_in {X Y} (f : X -> option Y) l ys x : mapO f l = Some ys -> In x l -> exists y, f x = Some y.
Proof.
  revert ys. induction l as [|a l IH]; cbn; intros ys H Hin; [tauto|].
  destruct (f a) as [y|] eqn:Fa; [|discriminate]. destruct (mapO f l) as [ys'|] eqn:M; [|discriminate].
  destruct Hin as [->|Hin]; [eauto|]. eapply IH; eauto.
Qed.


Lemma eval_S f e : eval (S f) e =
    let ev := eval f in
    match e with
    | EStr s => Ok (RStr s)
    | ESym n => Ok (RSym n)
    | EBad => Crash
    | EText ps => do vs <- mapM ev ps; mkc KText vs
    | ETag n ps => do vs <- mapM ev ps; mkc (KTag n) vs
    | EHRef u x ps => do vs <- mapM ev ps; mkc (KHRef u x) vs
    | EProt ps => do vs <- mapM ev ps; mkc KProt vs
    | EUpper a => do v <- ev a; case_c true v
    | ELower a => do v <- ev a; case_c false v
    | ECapitalize a => do v <- ev a; capitalize v
    | ECapfirst a => do v <- ev a; capfirst v
    | EAddPeriod a p => do v <- ev a; add_period v p
    | EAbbrev a => do v <- ev a; abbreviate v
    | ESlice a i j => do v <- ev a; getitem_c v (KSlice i j)
    | EIndex a i => do v <- ev a; getitem_c v (KInt i)
    | EAdd a b => do v <- ev a; do w <- ev b; add v w
    | EAppend a b => do v <- ev a; do w <- ev b; append v w
    | EJoin s es => do v <- ev s; do ws <- mapM ev es; rjoin v ws
    | ESplitNth a sep keep k =>
      do v <- ev a; do l <- split_c v sep keep;
      match nth_error l k with Some x => Ok x | None => Crash end
    end.
Proof. reflexivity. Qed.

Section EvalPres.
  Variable P : rt -> Prop.
  Hypothesis HStr : forall s, P (RStr s).
  Hypothesis HSym : forall n, P (RSym n).
  Hypothesis Hparts : forall t, P t -> Forall P (parts_of t).
  Hypothesis Hmkc : forall k raw v, Forall P raw -> mkc k raw = Ok v -> P v.
Lemma eval_pres n : forall e r, spec e = Some r -> forall v, eval n e = Ok v -> P v.
Proof.
  induction n as [|n IH]; intros e r Hs v Hv; [discriminate|].
  assert (IHl : forall ps rs vs, mapO spec ps = Some rs -> mapM (eval n) ps = Ok vs -> Forall P vs).
  { intros ps rs vs M Hm. eapply (mapM_pres P); [|exact Hm]. intros x y Hin Hy.
    destruct (mapO_in _ _ _ _ M Hin) as [rx Hrx]. eapply IH; eauto. }
  rewrite eval_S in Hv. cbv zeta in Hv.
  destruct e; cbn [spec] in Hs; try discriminate; cbv beta iota in Hv.
  - inversion Hv; subst. apply HStr.
  - inversion Hv; subst. apply HSym.
  - destruct (mapO spec ps) as [rs|] eqn:M; [|discriminate]. apply bind_ok in Hv as [vs [Hvs Hv]].
    eapply Hmkc; [|exact Hv]. eapply IHl; eauto.
  - destruct (mapO spec ps) as [rs|] eqn:M; [|discriminate]. apply bind_ok in Hv as [vs [Hvs Hv]].
    eapply Hmkc; [|exact Hv]. eapply IHl; eauto.
  - destruct (mapO spec ps) as [rs|] eqn:M; [|discriminate]. apply bind_ok in Hv as [vs [Hvs Hv]].
    eapply Hmkc; [|exact Hv]. eapply IHl; eauto.
  - destruct (mapO spec ps) as [rs|] eqn:M; [|discriminate]. apply bind_ok in Hv as [vs [Hvs Hv]].
    eapply Hmkc; [|exact Hv]. eapply IHl; eauto.
  - destruct (spec e) as [ra|] eqn:Sa; [|discriminate]. apply bind_ok in Hv as [a [Ha Hv]].
    eapply (case_conv_pres P HStr Hparts Hmkc); [|exact Hv]. eapply IH; eauto.
  - destruct (spec e) as [ra|] eqn:Sa; [|discriminate]. apply bind_ok in Hv as [a [Ha Hv]].
    eapply (case_conv_pres P HStr Hparts Hmkc); [|exact Hv]. eapply IH; eauto.
  - destruct (spec e) as [ra|] eqn:Sa; [|discriminate]. apply bind_ok in Hv as [a [Ha Hv]].
    eapply (capitalize_pres P HStr Hparts Hmkc); [|exact Hv]. eapply IH; eauto.
  - destruct (spec e) as [ra|] eqn:Sa; [|discriminate]. apply bind_ok in Hv as [a [Ha Hv]].
    eapply (capfirst_pres P HStr Hparts Hmkc); [|exact Hv]. eapply IH; eauto.
  - (* add_period *) destruct (spec e) as [ra|] eqn:Sa; [|discriminate]. apply bind_ok in Hv as [a [Ha Hv]].
    pose proof (IH e ra Sa a Ha) as Pa. unfold add_period in Hv.
    destruct (_ && _); [|inversion Hv; subst; exact Pa].
    exact (append_pres P Hparts Hmkc a (RStr p) v Pa (HStr p) Hv).
  - destruct (spec e) as [ra|] eqn:Sa; [|discriminate]. apply bind_ok in Hv as [a [Ha Hv]].
    eapply (getitem_pres P HStr Hparts Hmkc); [|exact Hv]. eapply IH; eauto.
  - (* int index *) destruct (spec e) as [ra|] eqn:Sa; [|discriminate]. apply bind_ok in Hv as [a [Ha Hv]].
    eapply (getitem_pres P HStr Hparts Hmkc); [|exact Hv]. eapply IH; eauto.
  - destruct (spec e1) as [ra|] eqn:Sa; [|discriminate]. destruct (spec e2) as [rb|] eqn:Sb; [|discriminate].
    apply bind_ok in Hv as [a [Ha Hv]]. apply bind_ok in Hv as [b [Hb Hv]].
    exact (add_pres P Hmkc a b v (IH e1 ra Sa a Ha) (IH e2 rb Sb b Hb) Hv).
  - destruct (spec e1) as [ra|] eqn:Sa; [|discriminate]. destruct (spec e2) as [rb|] eqn:Sb; [|discriminate].
    apply bind_ok in Hv as [a [Ha Hv]]. apply bind_ok in Hv as [b [Hb Hv]].
    exact (append_pres P Hparts Hmkc a b v (IH e1 ra Sa a Ha) (IH e2 rb Sb b Hb) Hv).
  - destruct (spec e) as [rs|] eqn:Ss; [|discriminate]. destruct (mapO spec es) as [rl|] eqn:M; [|discriminate].
    apply bind_ok in Hv as [s [Hs' Hv]]. apply bind_ok in Hv as [ws [Hws Hv]].
    exact (rjoin_pres P Hmkc s ws v (IH e rs Ss s Hs') (IHl es rl ws M Hws) Hv).
Qed.

End EvalPres.

Definition eval_wf := eval_pres wf wf_str (fun n => eq_refl) wf_parts wf_mkc.
Definition eval_good := eval_pres good good_str good_sym good_parts_all mkc_good.

(* ------------------------------------------------------------------------------ *)
(* int index keeps the top-level markup *)
Lemma index_top t i v : getitem_c t (KInt i) = Ok v -> top_e v = top_e t.
Proof.
  unfold getitem_c. cbn [getitem]. destruct t.
  - destruct (_ && _)%bool; intro H; inversion H; reflexivity.
  - destruct (_ || _)%bool; intro H; inversion H; reflexivity.
  - cbv zeta. intro H. apply bind_ok in H as [x [Hx Hv]]. unfold slice_end in Hx. apply bind_ok in Hx as [ps [_ Hx]].
    unfold slice_beginning in Hv. apply bind_ok in Hv as [qs [_ Hv]].
    assert (Hm : is_multipart x = true) by (unfold create_similar in Hx; eapply mkc_multipart; exact Hx).
    rewrite (create_similar_top _ _ _ Hm Hv). match type of Hx with create_similar ?t0 _ = _ => apply (create_similar_top t0 _ _ eq_refl Hx) end.
  - cbv zeta. intro H. apply bind_ok in H as [x [Hx Hv]]. unfold slice_end in Hx. apply bind_ok in Hx as [ps [_ Hx]].
    unfold slice_beginning in Hv. apply bind_ok in Hv as [qs [_ Hv]].
    assert (Hm : is_multipart x = true) by (unfold create_similar in Hx; eapply mkc_multipart; exact Hx).
    rewrite (create_similar_top _ _ _ Hm Hv). match type of Hx with create_similar ?t0 _ = _ => apply (create_similar_top t0 _ _ eq_refl Hx) end.
  - cbv zeta. intro H. apply bind_ok in H as [x [Hx Hv]]. unfold slice_end in Hx. apply bind_ok in Hx as [ps [_ Hx]].
    unfold slice_beginning in Hv. apply bind_ok in Hv as [qs [_ Hv]].
    assert (Hm : is_multipart x = true) by (unfold create_similar in Hx; eapply mkc_multipart; exact Hx).
    rewrite (create_similar_top _ _ _ Hm Hv). match type of Hx with create_similar ?t0 _ = _ => apply (create_similar_top t0 _ _ eq_refl Hx) end.
  - cbv zeta. intro H. apply bind_ok in H as [x [Hx Hv]]. unfold slice_end in Hx. apply bind_ok in Hx as [ps [_ Hx]].
    unfold slice_beginning in Hv. apply bind_ok in Hv as [qs [_ Hv]].
    assert (Hm : is_multipart x = true) by (unfold create_similar in Hx; eapply mkc_multipart; exact Hx).
    rewrite (create_similar_top _ _ _ Hm Hv). match type of Hx with create_similar ?t0 _ = _ => apply (create_similar_top t0 _ _ eq_refl Hx) end.
Qed.

(* ------------------------------------------------------------------------------ *)
(* is_terminated: on a normal text, endswith(('.', '?', '!')) looks at the last pair *)
Lemma last_atom_app a b : b <> [] -> last_atom (a ++ b) = last_atom b.
Proof.
  intro H. unfold last_atom. rewrite rev_app_distr. destruct (rev b) as [|p r] eqn:E; [|reflexivity].
  apply (f_equal (@rev _)) in E. rewrite rev_involutive in E. cbn in E. congruence.
Qed.
Lemma last_atom_map (g : atom * list markup -> atom * list markup) (f : list (atom * list markup)) :
  (forall p, fst (g p) = fst p) -> last_atom (map g f) = last_atom f.
Proof.
  intro H. unfold last_atom. rewrite <- map_rev. destruct (rev f) as [|p r]; [reflexivity|]. cbn. now rewrite H.
Qed.
Lemma last_atom_push m f : last_atom (map (push m) f) = last_atom f.
Proof. apply last_atom_map. reflexivity. Qed.
Lemma last_atom_erase f : last_atom (erase f) = last_atom f.
Proof. apply last_atom_map. reflexivity. Qed.
Lemma terminated_erase f : terminated_flat (erase f) = terminated_flat f.
Proof. unfold terminated_flat. now rewrite last_atom_erase. Qed.

Definition lastc (s : str) : option char := match rev s with c :: _ => Some c | [] => None end.

Lemma last_atom_str s : last_atom (flat (RStr s)) = option_map ACh (lastc s).
Proof. unfold last_atom, lastc. cbn [flat]. rewrite <- map_rev. generalize (rev s). intros [|p r]; reflexivity. Qed.

Lemma goodp_flat_nonnil p : goodp p -> flat p <> [].
Proof.
  intros [H _]. apply part_ok_inv in H as [H _]. destruct (nonempty_flat p H) as [x [r E]]. rewrite E. discriminate.
Qed.

Lemma last_parts ps : Forall goodp ps -> ps <> [] ->
  exists q, last_leaf (RText ps) = last_leaf q /\ In q ps /\ last_atom (concat (map flat ps)) = last_atom (flat q).
Proof.
  induction 1 as [|p ps Hp Hps IH]; intro Hne; [congruence|].
  destruct ps as [|p' ps'].
  - exists p. cbn. rewrite app_nil_r. auto.
  - destruct (IH ltac:(discriminate)) as [q [E1 [E2 E3]]]. exists q. split; [exact E1|]. split; [now right|].
    cbn [map concat]. rewrite last_atom_app; [exact E3|].
    inversion Hps as [|? ? Hp' _]; subst. cbn [map concat]. intro E. apply app_eq_nil in E as [E _].
    now apply (goodp_flat_nonnil p' Hp').
Qed.

Lemma last_leaf_atom t : good t ->
  match last_leaf t with
  | Some s => last_atom (flat t) = option_map ACh (lastc s)
  | None => match last_atom (flat t) with Some (ACh _) => False | _ => True end
  end.
Proof.
  induction t using rt_ind'; intro G.
  - cbn [last_leaf]. apply last_atom_str.
  - cbn. exact I.
  - destruct ps as [|p0 ps0]; [cbn; exact I|].
    pose proof (good_parts _ G eq_refl) as Gp. cbn [parts_of] in Gp.
    destruct (last_parts _ Gp ltac:(discriminate)) as [q [E1 [E2 E3]]].
    change (last_leaf (RText (p0 :: ps0))) with (last_leaf (RText (p0 :: ps0))). rewrite E1.
    cbn [flat]. rewrite E3. rewrite Forall_forall in H, Gp. apply H; [exact E2|apply goodp_good, Gp, E2].
  - destruct ps as [|p0 ps0]; [cbn; exact I|].
    pose proof (good_parts _ G eq_refl) as Gp. cbn [parts_of] in Gp.
    destruct (last_parts _ Gp ltac:(discriminate)) as [q [E1 [E2 E3]]].
    change (last_leaf (RTag n (p0 :: ps0))) with (last_leaf (RText (p0 :: ps0))). rewrite E1.
    cbn [flat]. rewrite last_atom_push, E3. rewrite Forall_forall in H, Gp. apply H; [exact E2|apply goodp_good, Gp, E2].
  - destruct ps as [|p0 ps0]; [cbn; exact I|].
    pose proof (good_parts _ G eq_refl) as Gp. cbn [parts_of] in Gp.
    destruct (last_parts _ Gp ltac:(discriminate)) as [q [E1 [E2 E3]]].
    change (last_leaf (RHRef u e (p0 :: ps0))) with (last_leaf (RText (p0 :: ps0))). rewrite E1.
    cbn [flat]. rewrite last_atom_push, E3. rewrite Forall_forall in H, Gp. apply H; [exact E2|apply goodp_good, Gp, E2].
  - destruct ps as [|p0 ps0]; [cbn; exact I|].
    pose proof (good_parts _ G eq_refl) as Gp. cbn [parts_of] in Gp.
    destruct (last_parts _ Gp ltac:(discriminate)) as [q [E1 [E2 E3]]].
    change (last_leaf (RProt (p0 :: ps0))) with (last_leaf (RText (p0 :: ps0))). rewrite E1.
    cbn [flat]. rewrite last_atom_push, E3. rewrite Forall_forall in H, Gp. apply H; [exact E2|apply goodp_good, Gp, E2].
Qed.

Lemma startswith_nil s : startswith s [] = true.
Proof. destruct s; reflexivity. Qed.

Lemma term_lastc s : existsb (fun p => startswith (rev s) (rev p)) terminators =
  match lastc s with Some c => is_term c | None => false end.
Proof.
  unfold lastc, terminators, is_term. destruct (rev s) as [|c r]; [reflexivity|].
  cbn [existsb rev app startswith]. rewrite !startswith_nil, !andb_true_r, orb_false_r, orb_assoc.
  rewrite (N.eqb_sym 46 c), (N.eqb_sym 63 c), (N.eqb_sym 33 c). reflexivity.
Qed.

Lemma rendswith_term t : good t -> rendswith t terminators = terminated_flat (flat t).
Proof.
  intro G. rewrite endswith_exact_lem. unfold terminated_flat. pose proof (last_leaf_atom t G) as L.
  destruct (last_leaf t) as [s|].
  - rewrite L, term_lastc. destruct (lastc s); reflexivity.
  - destruct (last_atom (flat t)) as [[c|n]|]; [contradiction|reflexivity|reflexivity].
Qed.

(* ------------------------------------------------------------------------------ *)
(* evaluating a list of operands *)
Lemma mapM_agrees n (ps : list expr) rs :
  (forall p r, In p ps -> spec p = Some r -> exists v, eval n p = Ok v /\ agrees v r) ->
  mapO spec ps = Some rs ->
  exists vs, mapM (eval n) ps = Ok vs /\ Forall2 agrees vs rs.
Proof.
  revert rs. induction ps as [|p ps IH]; cbn; intros rs H Hm.
  - inversion Hm. exists []. split; [reflexivity|constructor].
  - destruct (spec p) as [r|] eqn:Sp; [|discriminate].
    destruct (mapO spec ps) as [rs'|] eqn:Sps; [|discriminate]. inversion Hm; subst rs.
    destruct (H p r (or_introl eq_refl) Sp) as [v [Hv Ha]]. rewrite Hv; cbn.
    destruct (IH rs' (fun q r' Hq => H q r' (or_intror Hq)) eq_refl) as [vs [Hvs HF]]. rewrite Hvs; cbn.
    exists (v :: vs). split; [reflexivity|now constructor].
Qed.

Lemma agrees_concat vs rs : Forall2 agrees vs rs -> concat (map flat_e vs) = concat (map snd rs).
Proof. induction 1 as [|v r vs rs [_ Hf] _ IH]; cbn; [reflexivity|]. unfold flat_e at 1. now rewrite Hf, IH. Qed.

Lemma ctor_agrees k vs rs m : Forall2 agrees vs rs -> option_map erase_m (km k) = m ->
  exists v, mkc k vs = Ok v /\ agrees v (sctor m rs).
Proof.
  intros HF Hm. destruct (mkc_total k vs) as [v [Hv _]]. exists v. split; [exact Hv|]. split.
  - cbn. now rewrite (mkc_top _ _ _ Hv).
  - cbn [sctor snd]. change (erase (flat v)) with (flat_e v).
    rewrite (mkc_flat_e _ _ _ Hv), (agrees_concat _ _ HF). subst m. unfold pushk_e, push_opt.
    destruct (km k); reflexivity.
Qed.


Theorem ops_compose_lem n : forall e r, esize e <= n -> spec e = Some r ->
  exists v, eval (S n) e = Ok v /\ agrees v r.
Proof.
  induction n as [|n IH]; intros e r Hs Hsp; [destruct e; cbn in Hs; lia|].
  assert (IHl : forall ps, list_sum (map esize ps) <= n ->
            forall p r, In p ps -> spec p = Some r -> exists v, eval (S n) p = Ok v /\ agrees v r).
  { intros ps Hps p r' Hin. apply IH. pose proof (esize_in p ps Hin). lia. }
  destruct e; cbn [spec] in Hsp; try discriminate; cbn [esize] in Hs; rewrite eval_S; cbv beta iota zeta.
  - inversion Hsp; subst r. eexists. split; [reflexivity|]. split; [reflexivity|]. cbn. unfold erase. now rewrite map_map.
  - inversion Hsp; subst r. eexists. split; [reflexivity|]. split; reflexivity.
  - destruct (mapO spec ps) as [rs|] eqn:M; [|discriminate]. inversion Hsp; subst r.
    destruct (mapM_agrees (S n) ps rs (IHl ps ltac:(lia)) M) as [vs [Hvs HF]]. rewrite Hvs; cbn [bind].
    apply ctor_agrees; [exact HF|reflexivity].
  - destruct (mapO spec ps) as [rs|] eqn:M; [|discriminate]. inversion Hsp; subst r.
    destruct (mapM_agrees (S n) ps rs (IHl ps ltac:(lia)) M) as [vs [Hvs HF]]. rewrite Hvs; cbn [bind].
    apply ctor_agrees; [exact HF|reflexivity].
  - destruct (mapO spec ps) as [rs|] eqn:M; [|discriminate]. inversion Hsp; subst r.
    destruct (mapM_agrees (S n) ps rs (IHl ps ltac:(lia)) M) as [vs [Hvs HF]]. rewrite Hvs; cbn [bind].
    apply ctor_agrees; [exact HF|reflexivity].
  - destruct (mapO spec ps) as [rs|] eqn:M; [|discriminate]. inversion Hsp; subst r.
    destruct (mapM_agrees (S n) ps rs (IHl ps ltac:(lia)) M) as [vs [Hvs HF]]. rewrite Hvs; cbn [bind].
    apply ctor_agrees; [exact HF|reflexivity].
  - (* upper *)
    destruct (spec e) as [ra|] eqn:Sa; [|discriminate]. inversion Hsp; subst r.
    destruct (IH e ra ltac:(lia) Sa) as [a [Ha [Ht Hf]]]. rewrite Ha; cbn [bind].
    destruct (case_flat_e true a) as [v [Hv Hfv]]. exists v. split; [exact Hv|]. split; cbn [fst snd].
    + now rewrite (case_c_top _ _ _ Hv).
    + now rewrite Hfv, conv_erase, Hf.
  - (* lower *)
    destruct (spec e) as [ra|] eqn:Sa; [|discriminate]. inversion Hsp; subst r.
    destruct (IH e ra ltac:(lia) Sa) as [a [Ha [Ht Hf]]]. rewrite Ha; cbn [bind].
    destruct (case_flat_e false a) as [v [Hv Hfv]]. exists v. split; [exact Hv|]. split; cbn [fst snd].
    + now rewrite (case_c_top _ _ _ Hv).
    + now rewrite Hfv, conv_erase, Hf.
  - (* capitalize *)
    destruct (spec e) as [ra|] eqn:Sa; [|discriminate]. inversion Hsp; subst r.
    destruct (IH e ra ltac:(lia) Sa) as [a [Ha [Ht Hf]]]. rewrite Ha; cbn [bind].
    destruct (capitalize_flat_e a) as [v [Hv Hfv]]. exists v. split; [exact Hv|]. split; cbn [fst snd].
    + rewrite <- Ht. destruct a; cbn in Hv |- *;
        try (inversion Hv; reflexivity);
        repeat (apply bind_ok in Hv as [? [_ Hv]]); unfold add in Hv; now rewrite (mkc_top _ _ _ Hv).
    + now rewrite Hfv, Hf.
  - (* capfirst *)
    destruct (spec e) as [ra|] eqn:Sa; [|discriminate]. inversion Hsp; subst r.
    destruct (IH e ra ltac:(lia) Sa) as [a [Ha [Ht Hf]]]. rewrite Ha; cbn [bind].
    destruct (capfirst_flat_e a) as [v [Hv Hfv]]. exists v. split; [exact Hv|]. split; cbn [fst snd].
    + rewrite <- Ht. destruct a; cbn in Hv |- *;
        try (inversion Hv; reflexivity);
        repeat (apply bind_ok in Hv as [? [_ Hv]]); unfold add in Hv; now rewrite (mkc_top _ _ _ Hv).
    + now rewrite Hfv, Hf.
  - (* add_period *)
    destruct (spec e) as [ra|] eqn:Sa; [|discriminate]. inversion Hsp; subst r.
    destruct (IH e ra ltac:(lia) Sa) as [a [Ha [Ht Hf]]]. rewrite Ha; cbn [bind].
    assert (Ga : good a) by (eapply eval_good; eauto).
    unfold add_period, add_period_flat. cbn [fst snd].
    rewrite (rendswith_term a Ga), <- Hf, terminated_erase.
    replace (length (erase (flat a))) with (rlen a) by (unfold erase; now rewrite map_length, flat_length).
    destruct (negb (rlen a =? 0) && negb (terminated_flat (flat a))) eqn:C.
    + destruct (append_flat_e a (RStr p)) as [v [Hv Hfv]]. exists v. split; [exact Hv|]. split; cbn [fst snd].
      * rewrite <- Ht. unfold append in Hv. destruct (is_multipart a) eqn:Hm.
        -- now apply (create_similar_top _ _ _ Hm Hv).
        -- unfold add in Hv. rewrite (mkc_top _ _ _ Hv). destruct a; cbn in Hm; try discriminate; reflexivity.
      * rewrite Hfv, erase_app, erase_push_opt, Ht. f_equal. f_equal. unfold erase. cbn [flat]. now rewrite map_map.
    + exists a. split; [reflexivity|]. split; [exact Ht|reflexivity].
  - (* slice *)
    destruct (spec e) as [ra|] eqn:Sa; [|discriminate]. inversion Hsp; subst r.
    destruct (IH e ra ltac:(lia) Sa) as [a [Ha [Ht Hf]]]. rewrite Ha; cbn [bind].
    destruct (slice_flat_e a i j) as [v [Hv Hfv]]. exists v. split; [exact Hv|]. split; cbn [fst snd].
    + now rewrite (slice_top _ _ _ _ Hv).
    + now rewrite Hfv, Hf.
  - (* int index *)
    destruct (spec e) as [ra|] eqn:Sa; [|discriminate].
    destruct (pyindex (snd ra) i) as [p|] eqn:Pi; [|discriminate]. inversion Hsp; subst r.
    destruct (IH e ra ltac:(lia) Sa) as [a [Ha [Ht Hf]]]. rewrite Ha; cbn [bind].
    rewrite <- Hf in Pi. destruct (index_flat_e a i p Pi) as [v [Hv Hfv]]. exists v. split; [exact Hv|]. split; cbn [fst snd].
    + now rewrite (index_top _ _ _ Hv).
    + exact Hfv.
  - (* + *)
    destruct (spec e1) as [ra|] eqn:Sa; [|discriminate]. destruct (spec e2) as [rb|] eqn:Sb; [|discriminate].
    inversion Hsp; subst r.
    destruct (IH e1 ra ltac:(lia) Sa) as [a [Ha [Hta Hfa]]]. rewrite Ha; cbn [bind].
    destruct (IH e2 rb ltac:(lia) Sb) as [b [Hb [Htb Hfb]]]. rewrite Hb; cbn [bind].
    destruct (add_flat_e a b) as [v [Hv Hfv]]. exists v. split; [exact Hv|]. split; cbn [fst snd].
    + unfold add in Hv. now rewrite (mkc_top _ _ _ Hv).
    + now rewrite Hfv, erase_app, Hfa, Hfb.
  - (* append *)
    destruct (spec e1) as [ra|] eqn:Sa; [|discriminate]. destruct (spec e2) as [rb|] eqn:Sb; [|discriminate].
    inversion Hsp; subst r.
    destruct (IH e1 ra ltac:(lia) Sa) as [a [Ha [Hta Hfa]]]. rewrite Ha; cbn [bind].
    destruct (IH e2 rb ltac:(lia) Sb) as [b [Hb [Htb Hfb]]]. rewrite Hb; cbn [bind].
    destruct (append_flat_e a b) as [v [Hv Hfv]]. exists v. split; [exact Hv|]. split; cbn [fst snd].
    + rewrite <- Hta. unfold append in Hv. destruct (is_multipart a) eqn:Hm.
      * now apply (create_similar_top _ _ _ Hm Hv).
      * unfold add in Hv. rewrite (mkc_top _ _ _ Hv). destruct a; cbn in Hm; try discriminate; reflexivity.
    + now rewrite Hfv, erase_app, erase_push_opt, Hfa, Hfb, Hta.
  - (* join *)
    destruct (spec e) as [rs|] eqn:Ss; [|discriminate]. destruct (mapO spec es) as [rl|] eqn:M; [|discriminate].
    inversion Hsp; subst r.
    destruct (IH e rs ltac:(lia) Ss) as [s [Hs' [Hts Hfs]]]. rewrite Hs'; cbn [bind].
    destruct (mapM_agrees (S n) es rl (IHl es ltac:(lia)) M) as [vs [Hvs HF]]. rewrite Hvs; cbn [bind].
    destruct (join_flat_e s vs) as [v [Hv Hfv]]. exists v. split; [exact Hv|]. split; cbn [fst snd].
    + unfold rjoin in Hv. now rewrite (mkc_top _ _ _ Hv).
    + rewrite Hfv, erase_join, map_map, Hfs. f_equal.
      clear - HF. induction HF as [|x y l l' [_ Hxy] _ IHF]; cbn; [reflexivity|]. now rewrite Hxy, IHF.
Qed.

(* ops_compose: any expression built from constructors, upper, lower, capitalize, capfirst,
   slices, +, append and join, applied on top of one another in any way, evaluates without error
   and renders as the same operations carried out on plain sequences of pairs *)
Theorem ops_compose_e e r : spec e = Some r -> exists v, eval_c e = Ok v /\ agrees v r.
Proof. intro H. unfold eval_c. now apply ops_compose_lem. Qed.

(* exact version: the value is good (normal, well-formed), so nothing is erased *)
Theorem ops_compose_x e r : spec e = Some r ->
  exists v, eval_c e = Ok v /\ good v /\ top_markup v = fst r /\ flat v = snd r.
Proof.
  intro H. destruct (ops_compose_e e r H) as [v [Hv [Ht Hf]]]. exists v. split; [exact Hv|].
  assert (G : good v) by (eapply eval_good; eauto). split; [exact G|]. destruct G as [_ W].
  rewrite <- (wf_top v W), <- (wf_flat v W). split; assumption.
Qed.

(* the observers at the end of a history *)
Lemma flat_str_erase f : flat_str (erase f) = flat_str f.
Proof. unfold flat_str, erase. induction f as [|p f IH]; cbn; [reflexivity|]. now rewrite IH. Qed.

Theorem observe_compose e r : spec e = Some r -> exists v, eval_c e = Ok v /\
  rlen v = length (snd r) /\ rstr v = flat_str (snd r).
Proof.
  intro H. destruct (ops_compose_e e r H) as [v [Hv [_ Hf]]]. exists v. split; [exact Hv|]. split.
  - rewrite <- Hf. unfold erase. now rewrite map_length, flat_length.
  - rewrite <- Hf, flat_str_erase. apply str_flat_lem.
Qed.

(* every operation maps texts in normal form to texts in normal form *)
Theorem good_preserved t : good t ->
  (forall up v, case_c up t = Ok v -> good v) /\
  (forall k v, getitem_c t k = Ok v -> good v) /\
  (forall x v, good x -> add t x = Ok v -> good v) /\
  (forall x v, good x -> append t x = Ok v -> good v) /\
  (forall xs v, Forall good xs -> rjoin t xs = Ok v -> good v) /\
  (forall v, capfirst t = Ok v -> good v) /\
  (forall v, capitalize t = Ok v -> good v) /\
  (forall p v, add_period t p = Ok v -> good v).
Proof.
  intro G. split; [|split; [|split; [|split; [|split; [|split; [|split]]]]]].
  - intros up v. apply (case_conv_pres good good_str good_parts_all mkc_good), G.
  - intros k v. apply (getitem_pres good good_str good_parts_all mkc_good), G.
  - intros x v Gx. now apply (add_pres good mkc_good).
  - intros x v Gx. now apply (append_pres good good_parts_all mkc_good).
  - intros xs v Gx. now apply (rjoin_pres good mkc_good).
  - intros v. apply (capfirst_pres good good_str good_parts_all mkc_good), G.
  - intros v. apply (capitalize_pres good good_str good_parts_all mkc_good), G.
  - intros p v H. unfold add_period in H. destruct (_ && _); [|inversion H; subst; exact G].
    exact (append_pres good good_parts_all mkc_good t (RStr p) v G (good_str p) H).
Qed.

(* ------------------------------------------------------------------------------ *)
(* split: the pieces are again texts in normal form, so histories may continue on them *)
Section SplitPres.
  Variable P : rt -> Prop.
  Hypothesis HStr : forall s, P (RStr s).
  Hypothesis Hparts : forall t, P t -> Forall P (parts_of t).
  Hypothesis Hmkc : forall k raw v, Forall P raw -> mkc k raw = Ok v -> P v.

  Lemma split_items_pres keep : forall items tail ys tl, Forall P items -> Forall P tail ->
    split_items keep items tail = (ys, tl) -> Forall (Forall P) ys /\ Forall P tl.
  Proof.
    induction items as [|it r IH]; intros tail ys tl Hi Ht H; cbn [split_items] in H.
    - inversion H; subst. split; [constructor|exact Ht].
    - inversion Hi as [|? ? Hit Hr]; subst.
      destruct (split_items keep r []) as [ys' tl'] eqn:E.
      destruct (IH [] ys' tl' Hr (Forall_nil _) E) as [Hy Hl].
      destruct tail as [|t0 tail'].
      + destruct (_ || _); inversion H; subst; split; auto.
      + inversion H; subst. split; [|exact Hl]. constructor; [|exact Hy].
        change (t0 :: tail' ++ [it]) with ((t0 :: tail') ++ [it]).
        apply Forall_app; split; [exact Ht|constructor; [exact Hit|constructor]].
  Qed.

  Lemma Forall_removelast (l : list rt) : Forall P l -> Forall P (removelast l).
  Proof. induction 1 as [|x l Hx Hl IH]; cbn; [constructor|]. destruct l; [constructor|]. constructor; assumption. Qed.
  Lemma Forall_last (l : list rt) d : Forall P l -> P d -> P (last l d).
  Proof. induction 1 as [|x l Hx Hl IH]; cbn; intro Hd; [exact Hd|]. destruct l; [exact Hx|now apply IH]. Qed.

  Lemma split_loop_pres keep : forall sps tail ys tl, Forall (Forall P) sps -> Forall P tail ->
    split_loop keep sps tail = (ys, tl) -> Forall (Forall P) ys /\ Forall P tl.
  Proof.
    induction sps as [|sp r IH]; intros tail ys tl Hs Ht H; cbn [split_loop] in H.
    - inversion H; subst. split; [constructor|exact Ht].
    - inversion Hs as [|? ? Hsp Hr]; subst. destruct sp as [|x sp'].
      + now apply (IH tail).
      + remember (x :: sp') as sp eqn:Esp.
        destruct (split_items keep (removelast sp) tail) as [ys1 tl1] eqn:E1.
        destruct (split_loop keep r (tl1 ++ [last sp (RStr [])])) as [ys2 tl2] eqn:E2.
        inversion H; subst ys tl.
        destruct (split_items_pres keep _ _ _ _ (Forall_removelast _ Hsp) Ht E1) as [Hy1 Hl1].
        assert (F1 : Forall P (tl1 ++ [last sp (RStr [])])) by (apply Forall_app; split; [exact Hl1|constructor; [apply Forall_last; [exact Hsp|apply HStr]|constructor]]).
        destruct (IH _ _ _ Hr F1 E2) as [Hy2 Hl2].
        split; [apply Forall_app; split; assumption|exact Hl2].
  Qed.

  Lemma split_pres f : forall t sep keep ps, P t -> split f t sep keep = Ok ps -> Forall P ps.
  Proof.
    induction f as [|f IH]; intros t sep keep ps Ht H; [discriminate|]. cbn [split] in H.
    assert (G : forall keepb, (do sps <- mapM (fun p => split f p sep (Some true)) (parts_of t);
         let '(ys, tl) := split_loop keepb sps (if keepb then [RStr []] else []) in
         do out <- mapM (create_similar t) ys;
         match tl with
         | [] => Ok out
         | _ => do tlt <- create_similar t tl;
                if negb (rlen tlt =? 0) || keepb then Ok (out ++ [tlt]) else Ok out
         end) = Ok ps -> Forall P ps).
    { intros keepb Hs. apply bind_ok in Hs as [sps [Hsps Hs]].
      assert (Fs : Forall (Forall P) sps).
      { pose proof (Hparts _ Ht) as Hp. clear - Hsps IH Hp. revert sps Hsps.
        induction Hp as [|p l Hp _ IHl]; cbn; intros sps Hs.
        - inversion Hs. constructor.
        - apply bind_ok in Hs as [sp [Hsp Hs]]. apply bind_ok in Hs as [sps' [Hsps' Hs]]. inversion Hs; subst.
          constructor; [eapply IH; eauto|now apply IHl]. }
      destruct (split_loop keepb sps _) as [ys tl] eqn:EL.
      assert (F0 : Forall P (if keepb then [RStr []] else [])) by (destruct keepb; [constructor; [apply HStr|constructor]|constructor]).
      destruct (split_loop_pres keepb _ _ _ _ Fs F0 EL) as [Hy Hl].
      apply bind_ok in Hs as [out [Hout Hs]].
      assert (Fo : Forall P out).
      { clear - Hout Hy Hmkc. revert out Hout. induction Hy as [|y ys Hy1 _ IHy]; cbn; intros out Ho.
        - inversion Ho. constructor.
        - apply bind_ok in Ho as [v [Hv Ho]]. apply bind_ok in Ho as [vs [Hvs Ho]]. inversion Ho; subst.
          constructor; [exact (create_similar_pres P Hmkc t y v Hy1 Hv)|now apply IHy]. }
      destruct tl as [|t0 tl']; [inversion Hs; subst; exact Fo|].
      apply bind_ok in Hs as [tlt [Htlt Hs]].
      destruct (_ || _); inversion Hs; subst; [|exact Fo].
      apply Forall_app; split; [exact Fo|]. constructor; [|constructor]. exact (create_similar_pres P Hmkc t _ tlt Hl Htlt). }
    destruct t.
    - unfold str_split in H. apply bind_ok in H as [pieces [_ H]]. inversion H; subst.
      apply Forall_forall. intros x Hx. apply in_map_iff in Hx as [s' [<- _]]. apply HStr.
    - inversion H; subst. constructor; [exact Ht|constructor].
    - eapply G; exact H.
    - eapply G; exact H.
    - eapply G; exact H.
    - inversion H; subst. constructor; [exact Ht|constructor].
  Qed.
End SplitPres.

Theorem split_good t sep keep ps : good t -> split_c t sep keep = Ok ps -> Forall good ps.
Proof. apply (split_pres good good_str good_parts_all mkc_good). Qed.
