(* Proofs/WritersName.v -- a person as the BibTeX writer spells it (Writer._format_name: "von Last, Jr, First")
   is read back by Person(string) as the same person (C02). *)
From Pybtex Require Import Base.Prelude Base.PyChar Base.PyStr Model.BibtexStr Model.Names Model.Scanner Model.BibParser Model.Writers
  Proofs.WritersTree Proofs.WritersPerson.
Local Open Scope N_scope.

(* name tokens of plain characters without commas *)
Definition nplain (c : char) : bool := plain c && negb (c =? c_comma).
Definition nplain_tok (t : str) : Prop := t <> [] /\ forallb nplain t = true.

Lemma nplain_plain_tok t : nplain_tok t -> plain_tok t.
Proof.
  intros [H1 H2]. split; [exact H1|]. clear H1. induction t as [|c t IH]; [reflexivity|].
  cbn in *. apply andb_prop in H2 as [Hc H2]. unfold nplain in Hc. apply andb_prop in Hc as [Hc _]. now rewrite Hc, IH.
Qed.
Lemma nplain_plain_toks ts : Forall nplain_tok ts -> Forall plain_tok ts.
Proof. intros H. eapply Forall_impl; [|exact H]. apply nplain_plain_tok. Qed.

Definition nocomma (s : str) : Prop := forallb (fun c => negb (c =? c_comma)) s = true.
Definition nobrace (s : str) : Prop := forallb (fun c => negb (is_lbrace c)) s = true.

(* ---- re.split(',') on comma-free pieces joined by commas *)
Definition cjoin (ps : list str) : str := flat_map (fun u => c_comma :: u) ps.

Lemma sep_comma_no prev c t : (c =? c_comma) = false -> sep_comma prev (c :: t) = 0%nat.
Proof. intros H. unfold sep_comma. now rewrite H. Qed.

Lemma re_split_comma : forall ps, Forall nocomma ps -> forall t, nocomma t ->
  forall fuel prev acc, (length (t ++ cjoin ps) < fuel)%nat ->
  re_split_go fuel sep_comma prev (t ++ cjoin ps) acc = (rev acc ++ t) :: ps.
Proof.
  induction ps as [|u us IHps]; intros Hps t.
  - induction t as [|c t IHt]; intros Ht fuel prev acc Hf; (destruct fuel as [|f]; [cbn [app length] in Hf; lia|]).
    + cbn. now rewrite app_nil_r.
    + unfold nocomma in Ht. cbn [forallb] in Ht. apply andb_prop in Ht as [Hc Ht]. apply negb_true_iff in Hc.
      cbn [app re_split_go]. rewrite sep_comma_no by exact Hc.
      rewrite IHt; [|exact Ht|cbn [app length] in Hf; lia]. cbn [rev]. now rewrite <- app_assoc.
  - inversion Hps as [|? ? Hu Hus]; subst.
    induction t as [|c t IHt]; intros Ht fuel prev acc Hf; (destruct fuel as [|f]; [cbn [app length] in Hf; lia|]).
    + cbn [app cjoin flat_map re_split_go]. fold (cjoin us).
      change (sep_comma prev (c_comma :: u ++ cjoin us)) with 1%nat. cbn [nth skipn].
      rewrite (IHps Hus u Hu); [|cbn [app length cjoin flat_map] in Hf; fold (cjoin us) in Hf; lia].
      cbn [rev app]. now rewrite app_nil_r.
    + unfold nocomma in Ht. cbn [forallb] in Ht. apply andb_prop in Ht as [Hc Ht]. apply negb_true_iff in Hc.
      cbn [app re_split_go]. rewrite sep_comma_no by exact Hc.
      rewrite IHt; [|exact Ht|cbn [app length] in Hf; lia]. cbn [rev]. now rewrite <- app_assoc.
Qed.

(* ---- split_tex_string on a string without braces is re.split *)
Lemma split_loop_nobrace m (s : str) n : s <> [] -> nobrace s -> re_split m s <> [] ->
  split_loop (S n) m s [] [] = Some (re_split m s).
Proof.
  intros Hne Hb Hr. cbn [split_loop]. rewrite partition_brace_none; [|right; exact Hb|exact Hb].
  destruct s as [|c s']; [congruence|].
  pose proof (app_removelast_last (l:=re_split m (c :: s')) [] Hr) as A.
  destruct (removelast (re_split m (c :: s'))) as [|w ws]; cbn [app] in A |- *; rewrite ?concat1; f_equal; symmetry; exact A.
Qed.

(* ---- the texts of the parts *)
Definition ends_nospace (s : str) : Prop := exists a z, s = a ++ [z] /\ is_space z = false.
Definition starts_nospace (s : str) : Prop := match s with [] => False | c :: _ => is_space c = false end.

Lemma nplain_facts c : nplain c = true -> plain c = true /\ (c =? c_comma) = false.
Proof. unfold nplain. intros H. apply andb_prop in H as [H1 H2]. apply negb_true_iff in H2. auto. Qed.

Lemma tok_ends t : nplain_tok t -> ends_nospace t.
Proof.
  intros [Hne Hp]. exists (removelast t), (last t 0). split; [now apply app_removelast_last|].
  assert (Hin : In (last t 0) t).
  { clear Hp. induction t as [|c t IH]; [congruence|]. destruct t; [now left|]. right. apply IH. discriminate. }
  rewrite forallb_forall in Hp. destruct (nplain_facts _ (Hp _ Hin)) as [H _]. now destruct (plain_facts _ H).
Qed.
Lemma ends_app a s : ends_nospace s -> ends_nospace (a ++ s).
Proof. intros (b & z & -> & H). exists (a ++ b), z. now rewrite app_assoc. Qed.
Lemma sepjoin_ends ts : Forall nplain_tok ts -> ts <> [] -> ends_nospace (sepjoin ts).
Proof.
  induction 1 as [|u us Hu Hus IH]; intros Hne; [congruence|]. cbn [sepjoin flat_map]. fold (sepjoin us).
  destruct us as [|v vs].
  - cbn [sepjoin flat_map]. rewrite app_nil_r. apply (ends_app [c_space]). now apply tok_ends.
  - apply (ends_app (c_space :: u)). apply IH. discriminate.
Qed.
Lemma ptext_ends l : Forall nplain_tok l -> l <> [] -> ends_nospace (part_text l).
Proof.
  intros H Hne. destruct l as [|t ts]; [congruence|]. unfold part_text. rewrite join_sepjoin.
  inversion H; subst. destruct ts as [|u us].
  - cbn. rewrite app_nil_r. now apply tok_ends.
  - apply ends_app. apply sepjoin_ends; [assumption|discriminate].
Qed.
Lemma ptext_starts l : Forall nplain_tok l -> l <> [] -> starts_nospace (part_text l).
Proof.
  intros H Hne. destruct l as [|t ts]; [congruence|]. unfold part_text. rewrite join_sepjoin.
  inversion H as [|? ? [Ht Hp] _]; subst. destruct t as [|c t]; [congruence|]. cbn in *.
  apply andb_prop in Hp as [Hc _]. destruct (nplain_facts _ Hc) as [Hc' _]. now destruct (plain_facts _ Hc').
Qed.

Definition okchar (c : char) : bool := negb (c =? c_comma) && negb (is_lbrace c).
Lemma ptext_ok l : Forall nplain_tok l -> forallb okchar (part_text l) = true.
Proof.
  intros H. destruct l as [|t ts]; [reflexivity|]. unfold part_text. rewrite join_sepjoin.
  assert (T : forall t, nplain_tok t -> forallb okchar t = true).
  { intros x [_ Hp]. induction x as [|c x IHx]; [reflexivity|]. cbn in *. apply andb_prop in Hp as [Hc Hp].
    destruct (nplain_facts _ Hc) as [Hc' Hcc]. destruct (plain_facts _ Hc') as (_ & _ & _ & Hl & _).
    rewrite (IHx Hp). unfold okchar. now rewrite Hcc, Hl. }
  inversion H; subst. rewrite forallb_app', T by assumption. cbn [andb].
  clear -H3 T. induction H3 as [|u us Hu _ IH]; [reflexivity|]. cbn [sepjoin flat_map]. fold (sepjoin us).
  cbn [app forallb]. rewrite forallb_app', (T u Hu), IH. reflexivity.
Qed.
Lemma ok_nocomma s : forallb okchar s = true -> nocomma s.
Proof. unfold nocomma. induction s as [|c s IH]; [reflexivity|]. cbn. intros H. apply andb_prop in H as [Hc H]. unfold okchar in Hc. apply andb_prop in Hc as [Hc _]. now rewrite Hc, IH. Qed.
Lemma ok_nobrace s : forallb okchar s = true -> nobrace s.
Proof. unfold nobrace. induction s as [|c s IH]; [reflexivity|]. cbn. intros H. apply andb_prop in H as [Hc H]. unfold okchar in Hc. apply andb_prop in Hc as [_ Hc]. now rewrite Hc, IH. Qed.

Lemma rstrip_ends s : ends_nospace s -> rstrip s = s.
Proof. intros (a & z & -> & H). unfold rstrip. rewrite rev_app_distr. cbn [rev app]. rewrite lstrip_head by exact H. rewrite <- (rev_involutive a) at 2. change (z :: rev a) with ([z] ++ rev a). rewrite rev_app_distr. cbn. now rewrite rev_involutive. Qed.
Lemma strip_nice s : starts_nospace s -> ends_nospace s -> strip s = s.
Proof. intros Hs He. unfold strip. destruct s as [|c s]; [contradiction|]. rewrite lstrip_head by exact Hs. now apply rstrip_ends. Qed.
Lemma strip_sp_nice s : starts_nospace s -> ends_nospace s -> strip (c_space :: s) = s.
Proof. intros Hs He. unfold strip. cbn [lstrip]. change (is_space c_space) with true. cbv iota. destruct s as [|c s]; [contradiction|]. rewrite lstrip_head by exact Hs. now apply rstrip_ends. Qed.

(* ---- find_pos / process_von_last *)
Definition nonvon (t : str) : Prop := is_von_name t = Ok false.
Definition isvon (t : str) : Prop := is_von_name t = Ok true.

Lemma find_pos_prefix a b : Forall nonvon a -> (b = [] \/ isvon (hd [] b)) -> find_pos (a ++ b) = Ok (length a).
Proof.
  induction 1 as [|x a Hx _ IH]; intros Hb; cbn [app length].
  - destruct Hb as [->|Hb]; [reflexivity|]. destruct b as [|y b]; [reflexivity|]. cbn [find_pos hd] in *. unfold isvon in Hb. now rewrite Hb.
  - cbn [find_pos]. unfold nonvon in Hx. rewrite Hx. cbn [bind]. rewrite IH by exact Hb. reflexivity.
Qed.

Lemma Forall_rev' {X} (P : X -> Prop) l : Forall P l -> Forall P (rev l).
Proof. intros H. apply Forall_forall. intros x Hin. apply in_rev in Hin. rewrite Forall_forall in H. auto. Qed.

Lemma snoc_cases' {X} (l : list X) : l = [] \/ exists l' x, l = l' ++ [x].
Proof. destruct l as [|a l]; [now left|]. right. exists (removelast (a :: l)), (last (a :: l) a). apply app_removelast_last. discriminate. Qed.

Lemma von_last_ok v l : l <> [] -> (v = [] \/ isvon (last v [])) -> Forall nonvon (removelast l) ->
  process_von_last empty_person (v ++ l) = Ok (mkPerson [] [] v l []).
Proof.
  intros Hl Hv Hn. unfold process_von_last. cbv zeta.
  pose proof (app_removelast_last (l:=l) [] Hl) as A. set (l' := removelast l) in *. set (z := last l []) in *.
  assert (R : removelast (v ++ l) = v ++ l').
  { rewrite A, app_assoc. now rewrite removelast_last. }
  assert (L : last (v ++ l) [] = z).
  { rewrite A, app_assoc. apply last_last. }
  assert (NE : v ++ l <> []) by (destruct v; [cbn; exact Hl|discriminate]).
  unfold str, char in *. rewrite R, L. destruct (v ++ l) as [|y yy] eqn:EV; [congruence|]. clear EV.
  match goal with |- bind ?X _ = _ => assert (RS : X = Ok (v, l')) end.
  { destruct (v ++ l') as [|q qq] eqn:E.
    - apply app_eq_nil in E as [-> ->]. reflexivity.
    - rewrite <- E. unfold rsplit_at. rewrite rev_app_distr.
      rewrite find_pos_prefix.
      + cbn [bind]. rewrite rev_length, app_length. replace (length v + length l' - length l')%nat with (length v) by lia.
        rewrite firstn_app, firstn_all, Nat.sub_diag. cbn [firstn]. rewrite app_nil_r.
        rewrite skipn_app, skipn_all, Nat.sub_diag. reflexivity.
      + apply Forall_rev'. exact Hn.
      + destruct Hv as [->|Hv]; [now left|]. right. destruct (snoc_cases' v) as [->|(v0 & y0 & ->)].
        * unfold isvon in Hv. cbn in Hv. discriminate.
        * rewrite rev_app_distr. cbn [rev app hd]. rewrite last_last in Hv. exact Hv. }
  rewrite RS. cbn [bind fst snd empty_person p_first p_middle p_prelast p_last p_lineage app]. rewrite A. reflexivity.
Qed.

(* ---- the shape of the formatted name *)
Lemma ptext_nonnil l : Forall nplain_tok l -> l <> [] -> part_text l <> [].
Proof. intros H Hne E. pose proof (ptext_starts l H Hne) as S. rewrite E in S. exact S. Qed.

Lemma sepjoin_app a b : sepjoin (a ++ b) = sepjoin a ++ sepjoin b.
Proof. unfold sepjoin. apply flat_map_app. Qed.

Lemma ptext_app a b : a <> [] -> b <> [] -> part_text (a ++ b) = part_text a ++ c_space :: part_text b.
Proof.
  intros Ha Hb. destruct a as [|a0 a']; [congruence|]. destruct b as [|b0 b']; [congruence|].
  unfold part_text. cbn [app]. rewrite !join_sepjoin, sepjoin_app. cbn [sepjoin flat_map]. fold (sepjoin b').
  now rewrite <- app_assoc.
Qed.

Lemma jn2 a b : Forall nplain_tok a -> Forall nplain_tok b ->
  join_nonempty [part_text a; part_text b] = part_text (a ++ b).
Proof.
  intros Ha Hb. unfold join_nonempty.
  destruct a as [|a0 a'].
  - change (part_text []) with (@nil char). cbn [filter nonempty app]. destruct b as [|b0 b']; [reflexivity|].
    destruct (part_text (b0 :: b')) eqn:E; [exfalso; eapply ptext_nonnil; [exact Hb|discriminate|exact E]|]. reflexivity.
  - destruct b as [|b0 b'].
    + rewrite app_nil_r. cbn [filter].
      destruct (part_text (a0 :: a')) eqn:E; [exfalso; eapply ptext_nonnil; [exact Ha|discriminate|exact E]|]. reflexivity.
    + rewrite ptext_app by discriminate. cbn [filter].
      destruct (part_text (a0 :: a')) eqn:E; [exfalso; eapply ptext_nonnil; [exact Ha|discriminate|exact E]|].
      destruct (part_text (b0 :: b')) eqn:E2; [exfalso; eapply ptext_nonnil; [exact Hb|discriminate|exact E2]|].
      reflexivity.
Qed.

(* ---- expressible persons (the comma forms "von Last, First" and "von Last, Jr, First"): plain comma-free tokens,
   exactly one first-name token (BibTeX files every further given name under middle), a last name, the von part ends
   with a von token, no last-name token but the final one is a von token *)
Definition expressible (p : person) : Prop :=
  Forall nplain_tok (p_first p) /\ Forall nplain_tok (p_middle p) /\ Forall nplain_tok (p_prelast p) /\
  Forall nplain_tok (p_last p) /\ Forall nplain_tok (p_lineage p) /\
  (exists f, p_first p = [f]) /\ p_last p <> [] /\
  (p_prelast p = [] \/ isvon (last (p_prelast p) [])) /\
  Forall nonvon (removelast (p_last p)).

Definition name_pieces (p : person) : list str :=
  match p_lineage p with
  | [] => [c_space :: part_text (p_first p ++ p_middle p)]
  | _ => [c_space :: part_text (p_lineage p); c_space :: part_text (p_first p ++ p_middle p)]
  end.

Lemma format_name_shape p : expressible p ->
  format_name p = part_text (p_prelast p ++ p_last p) ++ cjoin (name_pieces p).
Proof.
  intros (Hf & Hm & Hv & Hl & Hj & (f & Ef) & Hne & _ & _).
  unfold format_name, name_pieces.
  assert (N1 : nonempty (part_text (p_last p)) = true).
  { destruct (part_text (p_last p)) eqn:E; [exfalso; eapply ptext_nonnil; [exact Hl|exact Hne|exact E]|reflexivity]. }
  assert (N2 : nonempty (part_text (p_first p)) = true).
  { rewrite Ef in *. destruct (part_text [f]) eqn:E; [exfalso; eapply ptext_nonnil; [exact Hf|discriminate|exact E]|reflexivity]. }
  rewrite N1, N2. cbn [orb]. rewrite !jn2 by assumption.
  destruct (p_lineage p) as [|j js] eqn:EJ.
  - cbn [part_text join nonempty cjoin flat_map comma_space app]. now rewrite app_nil_r.
  - assert (N3 : nonempty (part_text (j :: js)) = true).
    { destruct (part_text (j :: js)) eqn:E; [exfalso; eapply ptext_nonnil; [exact Hj|discriminate|exact E]|reflexivity]. }
    rewrite N3. cbn [cjoin flat_map comma_space app]. rewrite <- !app_assoc. cbn [app]. now rewrite app_nil_r.
Qed.

Lemma re_split_go_nonnil m : forall fuel prev s acc, re_split_go fuel m prev s acc <> [].
Proof.
  induction fuel as [|f IH]; intros prev s acc; cbn [re_split_go]; [discriminate|].
  destruct s as [|c t]; [discriminate|]. destruct (m prev (c :: t)); [apply IH|discriminate].
Qed.
Lemma re_split_nonnil m s : re_split m s <> [].
Proof. apply re_split_go_nonnil. Qed.

Lemma okchar_app a b : forallb okchar (a ++ b) = forallb okchar a && forallb okchar b.
Proof. apply forallb_app'. Qed.

(* split_tex_string(name, ',') of the formatted name: the comma parts, stripped *)
Lemma name_comma_parts p : expressible p ->
  split_tex_comma (format_name p) =
  Ok (part_text (p_prelast p ++ p_last p) ::
      match p_lineage p with
      | [] => [part_text (p_first p ++ p_middle p)]
      | _ => [part_text (p_lineage p); part_text (p_first p ++ p_middle p)]
      end).
Proof.
  intros E. pose proof (format_name_shape p E) as Sh.
  destruct E as (Hf & Hm & Hv & Hl & Hj & (f & Ef) & Hne & _ & _).
  assert (Hvl : Forall nplain_tok (p_prelast p ++ p_last p)) by (apply Forall_app; auto).
  assert (Hfm : Forall nplain_tok (p_first p ++ p_middle p)) by (apply Forall_app; auto).
  assert (Nvl : p_prelast p ++ p_last p <> []) by (destruct (p_prelast p); [exact Hne|discriminate]).
  assert (Nfm : p_first p ++ p_middle p <> []) by (rewrite Ef; discriminate).
  set (VL := part_text (p_prelast p ++ p_last p)) in *.
  set (FM := part_text (p_first p ++ p_middle p)) in *.
  assert (Pok : Forall (fun u => forallb okchar u = true) (name_pieces p)).
  { unfold name_pieces. destruct (p_lineage p) eqn:EJ; repeat constructor; cbn [forallb]; rewrite ?ptext_ok; auto. }
  assert (Nb : nobrace (format_name p)).
  { rewrite Sh. unfold nobrace. rewrite forallb_app'. fold (nobrace VL). rewrite (ok_nobrace VL) by (unfold VL; now apply ptext_ok). cbn [andb].
    clear -Pok. induction Pok as [|u us Hu _ IH]; [reflexivity|]. cbn [cjoin flat_map]. fold (cjoin us).
    cbn [app forallb]. change (negb (is_lbrace c_comma)) with true. cbn [andb].
    rewrite forallb_app'. fold (nobrace u). rewrite (ok_nobrace u Hu). exact IH. }
  unfold split_tex_comma, split_tex_string_gen.
  rewrite split_loop_nobrace; [| |exact Nb|apply re_split_nonnil].
  2:{ rewrite Sh. intros E0. apply app_eq_nil in E0 as [E0 _]. eapply ptext_nonnil; [exact Hvl|exact Nvl|exact E0]. }
  unfold re_split. rewrite Sh at 2. rewrite re_split_comma.
  - cbn [rev app map]. f_equal. f_equal.
    + apply strip_nice; [now apply ptext_starts|now apply ptext_ends].
    + unfold name_pieces. destruct (p_lineage p) as [|j js] eqn:EJ; cbn [map].
      * rewrite (strip_sp_nice (part_text (p_first p ++ p_middle p))); [reflexivity|now apply ptext_starts|now apply ptext_ends].
      * rewrite (strip_sp_nice (part_text (j :: js))); [|apply ptext_starts; [exact Hj|discriminate]|apply ptext_ends; [exact Hj|discriminate]].
        rewrite (strip_sp_nice (part_text (p_first p ++ p_middle p))); [reflexivity|now apply ptext_starts|now apply ptext_ends].
  - eapply Forall_impl; [|exact Pok]. intros u. apply ok_nocomma.
  - apply ok_nocomma. unfold VL. now apply ptext_ok.
  - rewrite <- Sh. lia.
Qed.

Lemma split_space_nil' : split_tex_space [] = Ok [].
Proof. vm_compute. reflexivity. Qed.

Lemma cjoin_ends ps : ps <> [] -> Forall ends_nospace ps -> ends_nospace (cjoin ps).
Proof.
  induction ps as [|u us IH]; intros Hne H; [congruence|]. inversion H; subst. cbn [cjoin flat_map]. fold (cjoin us).
  destruct us as [|v vs].
  - cbn [cjoin flat_map]. rewrite app_nil_r. now apply (ends_app [c_comma]).
  - apply (ends_app (c_comma :: u)). apply IH; [discriminate|assumption].
Qed.

Lemma bibtex_name_roundtrip_pf p : expressible p -> person_of_string (format_name p) = Ok (p, false).
Proof.
  intros E. pose proof (name_comma_parts p E) as CP. pose proof (format_name_shape p E) as Sh.
  destruct E as (Hf & Hm & Hv & Hl & Hj & (f & Ef) & Hne & Hvon & Hnv).
  assert (Hvl : Forall nplain_tok (p_prelast p ++ p_last p)) by (apply Forall_app; auto).
  assert (Hfm : Forall nplain_tok (p_first p ++ p_middle p)) by (apply Forall_app; auto).
  assert (Nvl : p_prelast p ++ p_last p <> []) by (destruct (p_prelast p); [exact Hne|discriminate]).
  assert (Nfm : p_first p ++ p_middle p <> []) by (rewrite Ef; discriminate).
  assert (St : strip (format_name p) = format_name p).
  { apply strip_nice; rewrite Sh.
    - pose proof (ptext_starts _ Hvl Nvl) as S. destruct (part_text (p_prelast p ++ p_last p)); [contradiction|exact S].
    - apply ends_app. apply cjoin_ends.
      + unfold name_pieces. destruct (p_lineage p); discriminate.
      + unfold name_pieces. destruct (p_lineage p) as [|j js] eqn:EJ; repeat constructor;
          apply (ends_app [c_space]); apply ptext_ends; auto; discriminate. }
  assert (Nn : format_name p <> []).
  { rewrite Sh. intros E0. apply app_eq_nil in E0 as [E0 _]. eapply ptext_nonnil; [exact Hvl|exact Nvl|exact E0]. }
  unfold person_of_string, person_init. rewrite St.
  destruct (format_name p) as [|c0 r0] eqn:EF; [congruence|]. rewrite <- EF in *. clear EF c0 r0.
  unfold parse_string. rewrite CP. cbn [bind].
  rewrite split_space_nil'. cbn [bind].
  destruct (p_lineage p) as [|j js] eqn:EJ.
  - cbn [length Nat.ltb Nat.leb]. cbv iota.
    rewrite !split_space_plain by (apply nplain_plain_toks; assumption). cbn [bind].
    rewrite von_last_ok by assumption. cbn [bind]. rewrite Ef. cbn [app process_first_middle p_first p_middle p_prelast p_last p_lineage].
    rewrite !app_nil_r. destruct p; cbn in *. subst. reflexivity.
  - cbn [length Nat.ltb Nat.leb]. cbv iota.
    rewrite !split_space_plain by (try (apply nplain_plain_toks; assumption)). cbn [bind].
    rewrite von_last_ok by assumption. cbn [bind]. rewrite Ef. cbn [app process_first_middle p_first p_middle p_prelast p_last p_lineage].
    rewrite !app_nil_r. destruct p; cbn in *. subst. reflexivity.
Qed.
