(* Proofs/BstComment.v -- strip_comment cuts a line at the first percent sign that is preceded by
   an even number of double quotes, and nowhere else. *)
From Pybtex Require Import Base.Prelude Base.PyChar Base.PyStr Model.BstParser.
Local Open Scope N_scope.

(* number of double quotes *)
Fixpoint quotes (s : str) : nat :=
  match s with [] => O | c :: t => Nat.add (if N.eqb c c_quote then 1%nat else O) (quotes t) end.
Definition outside_string (prefix : str) : bool := Nat.even (quotes prefix).

Lemma strip_comment_go_spec : forall l inq,
  exists n, strip_comment_go inq l = firstn n l /\
    (n = length l \/ (nth_error l n = Some c_percent /\ Nat.even (quotes (firstn n l)) = negb inq)) /\
    forall i, (i < n)%nat -> nth_error l i = Some c_percent -> Nat.even (quotes (firstn i l)) = inq.
Proof.
  induction l as [|c t IH]; intros inq.
  - exists 0%nat. cbn. split; [reflexivity|]. split; [left; reflexivity|]. intros i Hi; lia.
  - cbn [strip_comment_go].
    destruct ((c =? c_percent) && negb inq) eqn:E.
    + apply andb_prop in E as [E1 E2]. apply N.eqb_eq in E1. subst c.
      exists 0%nat. split; [reflexivity|]. split.
      * right. cbn. split; [reflexivity|]. destruct inq; [discriminate|reflexivity].
      * intros i Hi; lia.
    + destruct (c =? c_quote) eqn:Q.
      * destruct (IH (negb inq)) as (n & Hn & Hend & Hbefore).
        exists (S n). split; [cbn; now rewrite Hn|]. split.
        -- destruct Hend as [->|[H1 H2]]; [left; reflexivity|right].
           cbn [nth_error firstn quotes]. rewrite Q. split; [exact H1|].
           cbn [Nat.add]. rewrite Nat.even_succ, <- Nat.negb_even, H2. now rewrite negb_involutive.
        -- intros [|i] Hi Hp.
           ++ cbn in Hp. injection Hp as Hp. apply N.eqb_eq in Q. subst c. discriminate.
           ++ cbn [firstn quotes]. rewrite Q. cbn [Nat.add].
              rewrite Nat.even_succ, <- Nat.negb_even, (Hbefore i); [apply negb_involutive|lia|exact Hp].
      * destruct (IH inq) as (n & Hn & Hend & Hbefore).
        exists (S n). split; [cbn; now rewrite Hn|]. split.
        -- destruct Hend as [->|[H1 H2]]; [left; reflexivity|right].
           cbn [nth_error firstn quotes]. rewrite Q. split; [exact H1|exact H2].
        -- intros [|i] Hi Hp.
           ++ cbn in Hp. injection Hp as Hp. subst c. rewrite N.eqb_refl in E. cbn in E.
              cbn. destruct inq; [reflexivity|discriminate].
           ++ cbn [firstn quotes]. rewrite Q. cbn [Nat.add]. apply Hbefore; [lia|exact Hp].
Qed.

Theorem strip_comment_spec : forall l,
  exists n, strip_comment l = firstn n l /\
    (n = length l \/ (nth_error l n = Some c_percent /\ outside_string (firstn n l) = true)) /\
    forall i, (i < n)%nat -> nth_error l i = Some c_percent -> outside_string (firstn i l) = false.
Proof. intros l. exact (strip_comment_go_spec l false). Qed.
