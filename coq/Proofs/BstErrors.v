(* Proofs/BstErrors.v -- where the syntax errors of the .bst parser point: the line number carried
   by PrematureEOF / TokenRequired is 1 + the number of line feeds before the offending position. *)
From Pybtex Require Import Base.Prelude Base.PyChar Base.PyStr Model.BstParser Spec.BstPrint Proofs.BstLex.
Local Open Scope N_scope.

(* line feeds *)
Definition lf (s : str) : Z := count_char 10 s.
(* no carriage return (true of every text parse_string builds: splitlines removes them) *)
Definition no_cr (s : str) : bool := forallb (fun c => negb (c =? 13)) s.
(* every string literal on one line: no line feed between an opening double quote and the next
   double quote (quote parity from the start of the text) *)
Fixpoint ssl (inq : bool) (s : str) : bool :=
  match s with
  | [] => true
  | c :: t => if c =? c_quote then ssl (negb inq) t
              else if inq && (c =? 10) then false else ssl inq t
  end.

Lemma lf_app a b : lf (a ++ b) = (lf a + lf b)%Z.
Proof. unfold lf. induction a as [|c a IH]; cbn [app count_char]; [reflexivity|]. rewrite IH. lia. Qed.

Lemma no_cr_app a b : no_cr (a ++ b) = true -> no_cr a = true /\ no_cr b = true.
Proof. unfold no_cr. rewrite forallb_app. intros H. now apply andb_prop in H. Qed.

Lemma count_zero x s : forallb (fun c => negb (c =? x)) s = true -> count_char x s = 0%Z.
Proof.
  induction s as [|c s IH]; cbn; [reflexivity|]. intros H. apply andb_prop in H as [H1 H2].
  apply negb_true_iff in H1. rewrite H1, (IH H2). reflexivity.
Qed.
Lemma count_crlf_zero s : no_cr s = true -> count_crlf s = 0%Z.
Proof.
  unfold no_cr. induction s as [|c s IH]; cbn [count_crlf forallb]; [reflexivity|]. intros H.
  apply andb_prop in H as [H1 H2]. apply negb_true_iff in H1. rewrite H1, (IH H2). reflexivity.
Qed.
Lemma nl_count_nocr g : no_cr g = true -> nl_count g = lf g.
Proof. intros H. unfold nl_count, lf. rewrite (count_zero 13 g H), (count_crlf_zero g H). lia. Qed.

(* plain characters: neither a double quote nor a line feed *)
Definition plain (c : char) : bool := not_quote c && negb (c =? 10).
Lemma plain_facts v : forallb plain v = true ->
  lf v = 0%Z /\ forall inq r, ssl inq (v ++ r) = ssl inq r.
Proof.
  induction v as [|c v IH]; cbn [forallb]; intros H; [split; reflexivity|].
  apply andb_prop in H as [Hc Hv]. destruct (IH Hv) as [IH1 IH2].
  unfold plain, not_quote in Hc. apply andb_prop in Hc as [Hq Hl].
  apply negb_true_iff in Hq, Hl. split.
  - unfold lf in *. cbn [count_char]. rewrite Hl, IH1. reflexivity.
  - intros inq r. cbn [app ssl]. rewrite Hq, Hl, andb_false_r. apply IH2.
Qed.

Lemma name_char_plain c : is_name_char c = true -> plain c = true.
Proof.
  intros H. unfold plain, not_quote. pose proof (name_char_not_space c H) as Hs.
  unfold is_name_char in H. apply negb_true_iff in H.
  repeat (apply orb_false_iff in H; destruct H as [H ?]).
  apply andb_true_intro; split; apply negb_true_iff; [assumption|].
  destruct (c =? 10) eqn:E; [|reflexivity]. apply N.eqb_eq in E. subst c. discriminate.
Qed.
Lemma digit_plain c : is_digit c = true -> plain c = true.
Proof. intros H. apply name_char_plain. now apply digit_is_name_char. Qed.
Lemma forallb_impl {X} (p q : X -> bool) l : (forall x, p x = true -> q x = true) -> forallb p l = true -> forallb q l = true.
Proof. intros Hpq. induction l as [|x l IH]; cbn; [auto|]. intros H. apply andb_prop in H as [H1 H2]. rewrite (Hpq _ H1), (IH H2). reflexivity. Qed.

(* string bodies *)
Lemma ssl_body body r : forallb not_quote body = true -> ssl true (body ++ c_quote :: r) = true ->
  lf body = 0%Z /\ ssl false r = true.
Proof.
  induction body as [|c b IH]; cbn [forallb app]; intros Hb H.
  - cbn [ssl] in H. rewrite N.eqb_refl in H. cbn in H. split; [reflexivity|exact H].
  - apply andb_prop in Hb as [Hc Hb]. unfold not_quote in Hc. apply negb_true_iff in Hc.
    cbn [ssl] in H. rewrite Hc in H. cbn [andb] in H.
    destruct (c =? 10) eqn:E; [discriminate|].
    destruct (IH Hb H) as [H1 H2]. split; [|exact H2].
    unfold lf in *. cbn [count_char]. rewrite E, H1. reflexivity.
Qed.

(* ---- what a successful pattern match consumes *)
Lemma match_pat_inv p s v s' : match_pat p s = Some (v, s') ->
  s = v ++ s' /\ v <> [] /\ (ssl false s = true -> lf v = 0%Z /\ ssl false s' = true).
Proof.
  destruct p; cbn [match_pat]; intros H.
  - destruct (span is_name_char s) as [a r] eqn:E. destruct a as [|c a]; [discriminate|].
    injection H as <- <-. destruct (span_decomp _ _ _ _ E) as (-> & Ha & _).
    split; [reflexivity|]. split; [discriminate|]. intros Hs.
    destruct (plain_facts (c :: a) (forallb_impl _ _ _ name_char_plain Ha)) as [H1 H2].
    split; [exact H1|]. now rewrite H2 in Hs.
  - destruct s as [|c t]; [discriminate|]. destruct (c =? c_quote) eqn:Ec; [|discriminate].
    apply N.eqb_eq in Ec. subst c.
    destruct (span not_quote t) as [body r] eqn:E. destruct r as [|q r']; [discriminate|].
    injection H as <- <-. destruct (span_decomp _ _ _ _ E) as (-> & Hb & Hq).
    cbn [stops] in Hq. unfold not_quote in Hq. apply negb_false_iff, N.eqb_eq in Hq. subst q.
    split; [cbn [app]; rewrite <- app_assoc; reflexivity|]. split; [discriminate|].
    intros Hs. cbn [ssl] in Hs. rewrite N.eqb_refl in Hs. cbn [negb] in Hs.
    destruct (ssl_body body r' Hb Hs) as [H1 H2]. split; [|exact H2].
    change (c_quote :: body ++ [c_quote]) with ([c_quote] ++ body ++ [c_quote]).
    rewrite !lf_app, H1. reflexivity.
  - destruct s as [|c t]; [discriminate|]. destruct (c =? c_hash) eqn:Ec; [|discriminate].
    apply N.eqb_eq in Ec. subst c.
    set (st := match t with m :: u => if m =? c_hyphen then ([m], u) else ([], t) | [] => ([], t) end) in *.
    assert (Hst : t = fst st ++ snd st /\ forallb plain (fst st) = true).
    { unfold st. destruct t as [|m u]; [split; reflexivity|]. destruct (m =? c_hyphen) eqn:Em; [|split; reflexivity].
      apply N.eqb_eq in Em. subst m. split; reflexivity. }
    destruct st as [sign t']. cbn [fst snd] in Hst. destruct Hst as [-> Hsign].
    destruct (span is_digit t') as [ds r] eqn:E. destruct ds as [|d ds]; [discriminate|].
    injection H as <- <-. destruct (span_decomp _ _ _ _ E) as (-> & Hd & _).
    split; [cbn [app]; rewrite <- !app_assoc; reflexivity|]. split; [discriminate|].
    intros Hs.
    assert (Hpl : forallb plain (c_hash :: sign ++ d :: ds) = true).
    { cbn [forallb]. rewrite forallb_app, Hsign. cbn [andb]. apply (forallb_impl _ _ _ digit_plain Hd). }
    destruct (plain_facts _ Hpl) as [H1 H2]. split; [exact H1|].
    replace (c_hash :: (sign ++ (d :: ds) ++ r)) with ((c_hash :: sign ++ d :: ds) ++ r) in Hs
      by (cbn [app]; rewrite <- !app_assoc; reflexivity).
    now rewrite H2 in Hs.
  - destruct s as [|c t]; [discriminate|]. destruct (c =? c_lbrace) eqn:Ec; [|discriminate].
    apply N.eqb_eq in Ec. subst c. injection H as <- <-. split; [reflexivity|]. split; [discriminate|].
    intros Hs. split; [reflexivity|exact Hs].
  - destruct s as [|c t]; [discriminate|]. destruct (c =? c_rbrace) eqn:Ec; [|discriminate].
    apply N.eqb_eq in Ec. subst c. injection H as <- <-. split; [reflexivity|]. split; [discriminate|].
    intros Hs. split; [reflexivity|exact Hs].
Qed.

Lemma first_match_inv ps s p v s' : first_match ps s = Some (p, v, s') -> match_pat p s = Some (v, s').
Proof.
  induction ps as [|q ps IH]; cbn [first_match]; [discriminate|].
  destruct (match_pat q s) as [[v0 r0]|] eqn:E; [|exact IH].
  intros H. injection H as <- <- <-. exact E.
Qed.
Lemma first_match_in ps s p v s' : first_match ps s = Some (p, v, s') -> In p ps.
Proof.
  induction ps as [|q ps IH]; cbn [first_match In]; [discriminate|].
  destruct (match_pat q s) as [[v0 r0]|] eqn:E; [|intros H; right; now apply IH].
  intros H. injection H as <- <- <-. now left.
Qed.
Lemma first_match_none_in ps s q0 : In q0 ps -> first_match ps s = None -> match_pat q0 s = None.
Proof.
  induction ps as [|q ps IH]; cbn [first_match In]; [tauto|].
  intros [->|Hin] H.
  - destruct (match_pat q0 s) as [[v0 r0]|]; [discriminate|reflexivity].
  - destruct (match_pat q s) as [[v0 r0]|]; [discriminate|]. now apply IH.
Qed.

(* whitespace is plain apart from line feeds: it contains no double quote *)
Lemma space_not_quote c : is_space c = true -> not_quote c = true.
Proof. intros H. unfold not_quote. destruct (c =? c_quote) eqn:E; [|reflexivity]. apply N.eqb_eq in E. subst. discriminate. Qed.
Lemma ssl_noquote v : forallb not_quote v = true -> forall r, ssl false (v ++ r) = ssl false r.
Proof.
  induction v as [|c v IH]; cbn [forallb app]; intros H r; [reflexivity|].
  apply andb_prop in H as [Hc Hv]. unfold not_quote in Hc. apply negb_true_iff in Hc.
  cbn [ssl]. rewrite Hc. cbn [andb]. now apply IH.
Qed.

(* ---- steps of the scanner: what was consumed, and the line (after fix 6970deb the line breaks of
        tokens are counted like those of whitespace, so the invariant needs no side condition) *)
Definition step_ok (s : str) (ln : Z) (s' : str) (ln' : Z) : Prop :=
  exists k, s = k ++ s' /\ k <> [] /\ ln' = (ln + lf k)%Z.

(* where an error points: [k] is what was consumed before it, [r] what remains *)
Definition err_site (c : N) (k r : str) : Prop :=
  c = cls_eof \/
  (c = cls_premature /\ r = []) \/
  (c = cls_token_required /\
     ((exists x r', r = x :: r' /\ is_space x = false /\ (match_pat P_NAME r = None \/ match_pat P_LBRACE r = None)) \/
      (exists k' name, k = k' ++ name /\ wf_name name /\ arity name = None /\ stops is_name_char r))).
Definition step_err (s : str) (ln : Z) (c : N) (l : Z) : Prop :=
  exists k r, s = k ++ r /\ l = (ln + lf k)%Z /\ err_site c k r.

Lemma step_ok_trans s ln s1 ln1 s2 ln2 : step_ok s ln s1 ln1 -> step_ok s1 ln1 s2 ln2 -> step_ok s ln s2 ln2.
Proof.
  intros (k1 & -> & Hk1 & ->) (k2 & -> & Hk2 & ->).
  exists (k1 ++ k2). split; [now rewrite app_assoc|]. split; [destruct k1; [congruence|discriminate]|].
  rewrite lf_app; lia.
Qed.
Lemma step_ok_err s ln s1 ln1 c l : step_ok s ln s1 ln1 -> step_err s1 ln1 c l -> step_err s ln c l.
Proof.
  intros (k1 & -> & _ & ->) (k2 & r & -> & -> & Hsite).
  exists (k1 ++ k2), r. split; [now rewrite app_assoc|]. split; [rewrite lf_app; lia|].
  destruct Hsite as [H|[H|(Hc & [H|(k' & name & -> & H)])]]; [left; exact H|right; left; exact H| |].
  - right; right. split; [exact Hc|left; exact H].
  - right; right. split; [exact Hc|right]. exists (k1 ++ k'), name. split; [now rewrite app_assoc|exact H].
Qed.
Lemma step_ok_suffix s ln s' ln' : step_ok s ln s' ln' -> no_cr s = true -> no_cr s' = true /\ (length s' < length s)%nat.
Proof.
  intros (k & -> & Hk & _) H. split; [now apply no_cr_app in H|].
  rewrite app_length. destruct k; [congruence|cbn; lia].
Qed.

Lemma required_inv ps ae s ln : In P_NAME ps \/ In P_LBRACE ps -> no_cr s = true ->
  match required ps ae s ln with
  | Ok ((p, v), (s', ln')) => step_ok s ln s' ln' /\ exists g, s = g ++ v ++ s' /\ all_space g /\ match_pat p (v ++ s') = Some (v, s') /\ ln' = (ln + lf g + lf v)%Z /\ In p ps
  | PyErr c l => step_err s ln c l /\ (c = cls_eof -> ae = true)
  | _ => False
  end.
Proof.
  intros Hin Hcr. unfold required, get_token, eat_whitespace.
  destruct (span is_space s) as [g r] eqn:E. destruct (span_decomp _ _ _ _ E) as (-> & Hg & Hr).
  destruct (no_cr_app _ _ Hcr) as [Hcrg Hcrr].
  rewrite (nl_count_nocr g Hcrg).
  destruct r as [|x r'].
  - destruct ae; cbn [bind].
    + split; [|reflexivity]. exists g, []. split; [reflexivity|]. split; [reflexivity|]. left; reflexivity.
    + split; [|discriminate]. exists g, []. split; [reflexivity|]. split; [reflexivity|]. right; left. split; reflexivity.
  - destruct (first_match ps (x :: r')) as [[[p v] r'']|] eqn:Ef; cbn [bind fst snd].
    + pose proof (first_match_in _ _ _ _ _ Ef) as Hinp.
      apply first_match_inv in Ef. destruct (match_pat_inv _ _ _ _ Ef) as (Heq & Hv & _).
      assert (Hcrv : no_cr v = true) by (rewrite Heq in Hcrr; now apply no_cr_app in Hcrr).
      rewrite (nl_count_nocr v Hcrv).
      split.
      * exists (g ++ v). split; [rewrite Heq, app_assoc; reflexivity|].
        split; [destruct v; [congruence|destruct g; discriminate]|].
        rewrite lf_app; lia.
      * exists g. split; [rewrite Heq; reflexivity|]. split; [exact Hg|]. split; [rewrite <- Heq; exact Ef|split; [reflexivity|exact Hinp]].
    + split; [|discriminate]. exists g, (x :: r'). split; [reflexivity|]. split; [reflexivity|].
      right; right. split; [reflexivity|left]. exists x, r'. split; [reflexivity|].
      split; [exact Hr|]. destruct Hin as [Hin|Hin]; [left|right]; now apply (first_match_none_in ps).
Qed.

Lemma literal_no_pyerr p v c l : literal p v <> PyErr c l.
Proof.
  destruct p; cbn [literal]; try discriminate.
  - unfold process_identifier. destruct v as [|x t]; [discriminate|]. destruct (x =? 39); discriminate.
  - unfold process_string_literal. destruct v as [|x t]; [discriminate|].
    destruct ((x =? c_quote) && (last (x :: t) 0 =? c_quote)); discriminate.
  - unfold process_int_literal, py_int.
    destruct (match strip_hash v with
              | [] => (false, strip_hash v)
              | m :: u => if m =? c_hyphen then (true, u) else (false, strip_hash v)
              end) as [neg ds].
    destruct ds as [|d ds]; [discriminate|].
    destruct (negb (forallb is_digit (d :: ds))); [discriminate|].
    destruct (max_str_digits <? Z.of_nat (length (d :: ds)))%Z; discriminate.
Qed.

Definition inv_result {X} (s : str) (ln : Z) (r : res (X * state)) : Prop :=
  match r with
  | Ok (_, (s', ln')) => step_ok s ln s' ln'
  | PyErr c l => step_err s ln c l /\ c <> cls_eof
  | _ => True
  end.

Lemma In_name_group : In P_NAME group_pats. Proof. left; reflexivity. Qed.

Lemma parse_group_inv : forall fuel s ln, no_cr s = true ->
  inv_result s ln (parse_group fuel s ln).
Proof.
  induction fuel as [|f IH]; intros s ln Hcr; [exact I|].
  cbn [parse_group].
  pose proof (required_inv group_pats false s ln (or_introl In_name_group) Hcr) as Hreq.
  destruct (required group_pats false s ln) as [[[p v] [s1 ln1]]|c l| |]; cbn [bind]; try exact I.
  2:{ destruct Hreq as [Herr Hc]. split; [exact Herr|]. intros ->. specialize (Hc eq_refl). discriminate. }
  destruct Hreq as [Hstep _].
  destruct (step_ok_suffix _ _ _ _ Hstep Hcr) as [Hcr1 _].
  assert (Hrest : forall (hd : tok),
     inv_result s ln (do r <- parse_group f s1 ln1; Ok (hd :: fst r, snd r))).
  { intros hd. pose proof (IH s1 ln1 Hcr1) as H1.
    destruct (parse_group f s1 ln1) as [[items [s2 ln2]]|c l| |]; cbn [bind inv_result fst snd] in *; try exact I.
    - eapply step_ok_trans; eassumption.
    - destruct H1 as [H1 H2]. split; [eapply step_ok_err; eassumption|exact H2]. }
  destruct p.
  - pose proof (literal_no_pyerr P_NAME v) as Hl.
    destruct (literal P_NAME v) as [t|c l| |]; cbn [bind]; try exact I; [apply Hrest|exfalso; eapply Hl; reflexivity].
  - pose proof (literal_no_pyerr P_STRING v) as Hl.
    destruct (literal P_STRING v) as [t|c l| |]; cbn [bind]; try exact I; [apply Hrest|exfalso; eapply Hl; reflexivity].
  - pose proof (literal_no_pyerr P_INTEGER v) as Hl.
    destruct (literal P_INTEGER v) as [t|c l| |]; cbn [bind]; try exact I; [apply Hrest|exfalso; eapply Hl; reflexivity].
  - pose proof (IH s1 ln1 Hcr1) as H1.
    destruct (parse_group f s1 ln1) as [[body [s2 ln2]]|c l| |]; cbn [bind inv_result] in *; try exact I.
    2:{ destruct H1 as [H1 H2]. split; [eapply step_ok_err; eassumption|exact H2]. }
    destruct (step_ok_suffix _ _ _ _ H1 Hcr1) as [Hcr2 _].
    pose proof (IH s2 ln2 Hcr2) as H2.
    pose proof (step_ok_trans _ _ _ _ _ _ Hstep H1) as H12.
    destruct (parse_group f s2 ln2) as [[items [s3 ln3]]|c l| |]; cbn [bind inv_result fst snd] in *; try exact I.
    + eapply step_ok_trans; eassumption.
    + destruct H2 as [H2 H3]. split; [eapply step_ok_err; eassumption|exact H3].
  - exact Hstep.
Qed.

(* ---- the argument groups of a command *)
Definition step_ok0 (s : str) (ln : Z) (s' : str) (ln' : Z) : Prop :=
  (s' = s /\ ln' = ln) \/ step_ok s ln s' ln'.
Definition inv_result0 {X} (s : str) (ln : Z) (r : res (X * state)) : Prop :=
  match r with
  | Ok (_, (s', ln')) => step_ok0 s ln s' ln'
  | PyErr c l => step_err s ln c l /\ c <> cls_eof
  | _ => True
  end.
Lemma step_ok_ok0 s ln s1 ln1 s2 ln2 : step_ok s ln s1 ln1 -> step_ok0 s1 ln1 s2 ln2 -> step_ok s ln s2 ln2.
Proof. intros H [(-> & ->)|H2]; [exact H|eapply step_ok_trans; eassumption]. Qed.

Lemma In_lbrace_single : In P_LBRACE [P_LBRACE]. Proof. left; reflexivity. Qed.

Lemma parse_args_inv fuel : forall n s ln, no_cr s = true ->
  inv_result0 s ln (parse_args fuel n s ln).
Proof.
  induction n as [|k IH]; intros s ln Hcr.
  - cbn. left. auto.
  - cbn [parse_args].
    pose proof (required_inv [P_LBRACE] false s ln (or_intror In_lbrace_single) Hcr) as Hreq.
    destruct (required [P_LBRACE] false s ln) as [[[p v] [s1 ln1]]|c l| |]; cbn [bind inv_result0]; try exact I.
    2:{ destruct Hreq as [Herr Hc]. split; [exact Herr|]. intros ->. specialize (Hc eq_refl). discriminate. }
    destruct Hreq as [Hopt _].
    destruct (step_ok_suffix _ _ _ _ Hopt Hcr) as [Hcr1 _].
    pose proof (parse_group_inv fuel s1 ln1 Hcr1) as Hg.
    destruct (parse_group fuel s1 ln1) as [[grp [s2 ln2]]|c l| |]; cbn [bind inv_result inv_result0] in *; try exact I.
    2:{ destruct Hg as [H1 H2]. split; [eapply step_ok_err; eassumption|exact H2]. }
    destruct (step_ok_suffix _ _ _ _ Hg Hcr1) as [Hcr2 _].
    pose proof (IH s2 ln2 Hcr2) as Ha.
    pose proof (step_ok_trans _ _ _ _ _ _ Hopt Hg) as H12.
    destruct (parse_args fuel k s2 ln2) as [[gs [s3 ln3]]|c l| |]; cbn [bind inv_result0 fst snd] in *; try exact I.
    + right. eapply step_ok_ok0; eassumption.
    + destruct Ha as [H1 H2]. split; [eapply step_ok_err; eassumption|exact H2].
Qed.

Lemma In_name_single : In P_NAME [P_NAME]. Proof. left; reflexivity. Qed.

Lemma match_name_inv v s' : match_pat P_NAME (v ++ s') = Some (v, s') -> wf_name v /\ stops is_name_char s'.
Proof.
  cbn [match_pat]. destruct (span is_name_char (v ++ s')) as [a r] eqn:E.
  destruct a as [|c a]; [discriminate|]. intros H. injection H as <- <-.
  destruct (span_decomp _ _ _ _ E) as (_ & Ha & Hr). split; [split; [discriminate|exact Ha]|exact Hr].
Qed.

(* a command: PyErr with class 0 is the EOFError that ends BstParser.parse *)
Lemma parse_command_inv fuel s ln : no_cr s = true ->
  match parse_command fuel s ln with
  | Ok (_, (s', ln')) => step_ok s ln s' ln'
  | PyErr c l => step_err s ln c l
  | _ => True
  end.
Proof.
  intros Hcr. unfold parse_command.
  pose proof (required_inv [P_NAME] true s ln (or_introl In_name_single) Hcr) as Hreq.
  destruct (required [P_NAME] true s ln) as [[[p name] [s1 ln1]]|c l| |]; cbn [bind]; try exact I.
  2:{ exact (proj1 Hreq). }
  destruct Hreq as [Hstep (g & Heq & Hg & Hm & Hln & Hin)].
  assert (p = P_NAME) by (destruct Hin as [<-|[]]; reflexivity). subst p.
  destruct (match_name_inv _ _ Hm) as [Hname Hstop].
  destruct (step_ok_suffix _ _ _ _ Hstep Hcr) as [Hcr1 _].
  destruct (arity name) as [n|] eqn:Ear.
  - pose proof (parse_args_inv fuel n s1 ln1 Hcr1) as Ha.
    destruct (parse_args fuel n s1 ln1) as [[gs [s2 ln2]]|c l| |]; cbn [bind inv_result0 fst snd] in *; try exact I.
    + eapply step_ok_ok0; eassumption.
    + eapply step_ok_err; [eassumption|exact (proj1 Ha)].
  - (* not a command name: TokenRequired on the line of the name *)
    exists (g ++ name), s1. split; [rewrite Heq, app_assoc; reflexivity|].
    split; [rewrite lf_app; lia|].
    right; right. split; [reflexivity|right]. exists g, name. auto.
Qed.

(* BstParser.parse: the loop over commands *)
Lemma parse_loop_inv : forall fuel s ln, no_cr s = true ->
  match parse_loop fuel s ln with
  | PyErr c l => step_err s ln c l /\ c <> cls_eof
  | _ => True
  end.
Proof.
  induction fuel as [|f IH]; intros s ln Hcr; [exact I|].
  cbn [parse_loop].
  pose proof (parse_command_inv (S (length s)) s ln Hcr) as Hc.
  destruct (parse_command (S (length s)) s ln) as [[cmd [s1 ln1]]|c l| |]; try exact I.
  - destruct (step_ok_suffix _ _ _ _ Hc Hcr) as [Hcr1 _].
    pose proof (IH s1 ln1 Hcr1) as Hl.
    destruct (parse_loop f s1 ln1) as [rest|c l| |]; cbn [bind]; try exact I.
    destruct Hl as [H1 H2]. split; [eapply step_ok_err; eassumption|exact H2].
  - destruct (c =? cls_eof) eqn:E; [exact I|]. apply N.eqb_neq in E. split; assumption.
Qed.

(* the statement about BstParser(text).parse() *)
Definition error_site (c : N) (pre post : str) : Prop :=
  (c = cls_premature /\ post = []) \/
  (c = cls_token_required /\
     ((exists x r', post = x :: r' /\ is_space x = false /\ (match_pat P_NAME post = None \/ match_pat P_LBRACE post = None)) \/
      (exists pre' name, pre = pre' ++ name /\ wf_name name /\ arity name = None /\ stops is_name_char post))).

Theorem error_names_line_text : forall text c l,
  no_cr text = true -> parse_text text = PyErr c l ->
  exists pre post, text = pre ++ post /\ l = (1 + lf pre)%Z /\ error_site c pre post.
Proof.
  intros text c l Hcr H. unfold parse_text in H.
  pose proof (parse_loop_inv (S (length text)) text 1%Z Hcr) as Hinv.
  rewrite H in Hinv. destruct Hinv as [(k & r & Heq & Hl & Hsite) Hne].
  exists k, r. split; [exact Heq|]. split; [exact Hl|].
  destruct Hsite as [Hs|[Hs|Hs]]; [contradiction|left; exact Hs|right; exact Hs].
Qed.

(* ---- parse_string: the text it builds has no carriage return, and its lines are the stripped
        lines of the source *)
Definition no_break (l : str) : bool := forallb (fun c => negb (is_linebreak c)) l.

Lemma splitlines_pieces_n : forall n s, (length s <= n)%nat -> Forall (fun l => no_break l = true) (splitlines s).
Proof.
  induction n as [|n IH]; intros s Hn.
  - destruct s; [constructor|cbn in Hn; lia].
  - destruct s as [|c t]; [constructor|]. cbn [length] in Hn. cbn [splitlines].
    destruct (is_linebreak c) eqn:Eb.
    + constructor; [reflexivity|].
      destruct (c =? 13); [|apply IH; lia].
      destruct t as [|d t']; [apply IH; cbn; lia|].
      destruct (d =? 10); apply IH; cbn [length] in *; lia.
    + pose proof (IH t ltac:(lia)) as Ht.
      destruct (splitlines t) as [|l ls]; constructor.
      * unfold no_break. cbn [forallb]. now rewrite Eb.
      * constructor.
      * inversion Ht; subst. unfold no_break in *. cbn [forallb]. rewrite Eb. cbn [negb andb]. assumption.
      * inversion Ht; assumption.
Qed.
Lemma splitlines_pieces s : Forall (fun l => no_break l = true) (splitlines s).
Proof. apply (splitlines_pieces_n (length s)). lia. Qed.

Lemma strip_comment_go_forallb p inq l : forallb p l = true -> forallb p (strip_comment_go inq l) = true.
Proof.
  revert inq. induction l as [|c t IH]; intros inq; cbn [strip_comment_go forallb]; [auto|].
  intros H. apply andb_prop in H as [Hc Ht].
  destruct ((c =? c_percent) && negb inq); [reflexivity|].
  destruct (c =? c_quote); cbn [forallb]; rewrite Hc; cbn [andb]; now apply IH.
Qed.

Lemma no_break_facts l : no_break l = true -> no_cr l = true /\ lf l = 0%Z.
Proof.
  unfold no_break, no_cr. intros H. split.
  - revert H. apply forallb_impl. intros c Hc. apply negb_true_iff in Hc. apply negb_true_iff.
    destruct (c =? 13) eqn:E; [|reflexivity]. apply N.eqb_eq in E. subst c. discriminate.
  - apply count_zero. revert H. apply forallb_impl. intros c Hc. apply negb_true_iff in Hc. apply negb_true_iff.
    destruct (c =? 10) eqn:E; [|reflexivity]. apply N.eqb_eq in E. subst c. discriminate.
Qed.

Lemma no_cr_app_intro a b : no_cr a = true -> no_cr b = true -> no_cr (a ++ b) = true.
Proof. unfold no_cr. intros Ha Hb. rewrite forallb_app. apply andb_true_intro. split; assumption. Qed.

Lemma join_cons2 (sep a b : str) r : join sep (a :: b :: r) = a ++ sep ++ join sep (b :: r).
Proof. reflexivity. Qed.

Lemma join_lines_facts ls : Forall (fun l => no_break l = true) ls ->
  no_cr (join [c_nl] ls) = true /\ lf (join [c_nl] ls) = Z.of_nat (pred (length ls)).
Proof.
  induction ls as [|l ls IH]; intros H; [split; reflexivity|].
  inversion H as [|? ? Hl Hls]; subst. destruct (no_break_facts l Hl) as [Hcr Hlf].
  destruct ls as [|l2 ls2].
  - cbn [join length pred]. split; [exact Hcr|exact Hlf].
  - destruct (IH Hls) as [IH1 IH2]. rewrite join_cons2. split.
    + apply no_cr_app_intro; [exact Hcr|]. apply no_cr_app_intro; [reflexivity|exact IH1].
    + rewrite !lf_app, Hlf, IH2. cbn [length pred]. unfold lf. cbn [count_char]. change (c_nl =? 10) with true. cbn iota. lia.
Qed.

Lemma text_of_string_facts src :
  no_cr (text_of_string src) = true /\
  lf (text_of_string src) = Z.of_nat (pred (length (splitlines src))).
Proof.
  unfold text_of_string.
  assert (H : Forall (fun l => no_break l = true) (map strip_comment (splitlines src))).
  { pose proof (splitlines_pieces src) as Hp. induction Hp; cbn [map]; constructor; [|assumption].
    unfold strip_comment, no_break. now apply strip_comment_go_forallb. }
  destruct (join_lines_facts _ H) as [H1 H2]. rewrite map_length in H2. auto.
Qed.

Lemma lf_nonneg s : (0 <= lf s)%Z.
Proof. unfold lf. induction s as [|c s IH]; cbn [count_char]; [lia|]. destruct (c =? 10); lia. Qed.

(* the statement about list(parse_string(src)), for EVERY source *)
Theorem error_names_line : forall src c l,
  parse_string src = PyErr c l ->
  (1 <= l <= Z.of_nat (Nat.max 1 (length (splitlines src))))%Z /\
  exists pre post, text_of_string src = pre ++ post /\ l = (1 + lf pre)%Z /\ error_site c pre post.
Proof.
  intros src c l H. destruct (text_of_string_facts src) as [Hcr Hlines].
  destruct (error_names_line_text _ c l Hcr H) as (pre & post & Heq & Hl & Hsite).
  split; [|exists pre, post; auto].
  pose proof (lf_nonneg pre). pose proof (lf_nonneg post).
  rewrite Heq, lf_app in Hlines. lia.
Qed.
