(* Proofs/BstErrors.v -- where the syntax errors of the .bst parser point: the line number carried
   by PrematureEOF / TokenRequired is 1 + the number of line feeds before the offending position. *)
From Pybtex Require Import Base.Prelude Base.PyChar Base.PyStr Model.BstParser Spec.BstPrint Proofs.BstLex.
Local Open Scope N_scope.

(* line feeds *)
Definition lf (s : str) : Z := count_char 10 s.
(* no carriage return (true of every text parse_string builds: splitlines removes them) *)
Definition no_cr (s : str) : bool := forallb (fun c => negb (c =? 13)) s.
(* every string literal on one line: no line feed between an opening double quote and the next
   double quote (quote parity from the start of the text) *)
Fixpoint ssl (inq : bool) (s : str) : bool :=
  match s with
  | [] => true
  | c :: t => if c =? c_quote then ssl (negb inq) t
              else if inq && (c =? 10) then false else ssl inq t
  end.

Lemma lf_app a b : lf (a ++ b) = (lf a + lf b)%Z.
Proof. unfold lf. induction a as [|c a IH]; cbn [app count_char]; [reflexivity|]. rewrite IH. lia. Qed.

Lemma no_cr_app a b : no_cr (a ++ b) = true -> no_cr a = true /\ no_cr b = true.
Proof. unfold no_cr. rewrite forallb_app. intros H. now apply andb_prop in H. Qed.

Lemma count_zero x s : forallb (fun c => negb (c =? x)) s = true -> count_char x s = 0%Z.
Proof.
  induction s as [|c s IH]; cbn; [reflexivity|]. intros H. apply andb_prop in H as [H1 H2].
  apply negb_true_iff in H1. rewrite H1, (IH H2). reflexivity.
Qed.
Lemma count_crlf_zero s : no_cr s = true -> count_crlf s = 0%Z.
Proof.
  unfold no_cr. induction s as [|c s IH]; cbn [count_crlf forallb]; [reflexivity|]. intros H.
  apply andb_prop in H as [H1 H2]. apply negb_true_iff in H1. rewrite H1, (IH H2). reflexivity.
Qed.
Lemma nl_count_nocr g : no_cr g = true -> nl_count g = lf g.
Proof. intros H. unfold nl_count, lf. rewrite (count_zero 13 g H), (count_crlf_zero g H). lia. Qed.

(* plain characters: neither a double quote nor a line feed *)
Definition plain (c : char) : bool := not_quote c && negb (c =? 10).
Lemma plain_facts v : forallb plain v = true ->
  lf v = 0%Z /\ forall inq r, ssl inq (v ++ r) = ssl inq r.
Proof.
  induction v as [|c v IH]; cbn [forallb]; intros H; [split; reflexivity|].
  apply andb_prop in H as [Hc Hv]. destruct (IH Hv) as [IH1 IH2].
  unfold plain, not_quote in Hc. apply andb_prop in Hc as [Hq Hl].
  apply negb_true_iff in Hq, Hl. split.
  - unfold lf in *. cbn [count_char]. rewrite Hl, IH1. reflexivity.
  - intros inq r. cbn [app ssl]. rewrite Hq, Hl, andb_false_r. apply IH2.
Qed.

Lemma name_char_plain c : is_name_char c = true -> plain c = true.
Proof.
  intros H. unfold plain, not_quote. pose proof (name_char_not_space c H) as Hs.
  unfold is_name_char in H. apply negb_true_iff in H.
  repeat (apply orb_false_iff in H; destruct H as [H ?]).
  apply andb_true_intro; split; apply negb_true_iff; [assumption|].
  destruct (c =? 10) eqn:E; [|reflexivity]. apply N.eqb_eq in E. subst c. discriminate.
Qed.
Lemma digit_plain c : is_digit c = true -> plain c = true.
Proof. intros H. apply name_char_plain. now apply digit_is_name_char. Qed.
Lemma forallb_impl {X} (p q : X -> bool) l : (forall x, p x = true -> q x = true) -> forallb p l = true -> forallb q l = true.
Proof. intros Hpq. induction l as [|x l IH]; cbn; [auto|]. intros H. apply andb_prop in H as [H1 H2]. rewrite (Hpq _ H1), (IH H2). reflexivity. Qed.

(* string bodies *)
Lemma ssl_body body r : forallb not_quote body = true -> ssl true (body ++ c_quote :: r) = true ->
  lf body = 0%Z /\ ssl false r = true.
Proof.
  induction body as [|c b IH]; cbn [forallb app]; intros Hb H.
  - cbn [ssl] in H. rewrite N.eqb_refl in H. cbn in H. split; [reflexivity|exact H].
  - apply andb_prop in Hb as [Hc Hb]. unfold not_quote in Hc. apply negb_true_iff in Hc.
    cbn [ssl] in H. rewrite Hc in H. cbn [andb] in H.
    destruct (c =? 10) eqn:E; [discriminate|].
    destruct (IH Hb H) as [H1 H2]. split; [|exact H2].
    unfold lf in *. cbn [count_char]. rewrite E, H1. reflexivity.
Qed.

(* ---- what a successful pattern match consumes *)
Lemma match_pat_inv p s v s' : match_pat p s = Some (v, s') ->
  s = v ++ s' /\ v <> [] /\ (ssl false s = true -> lf v = 0%Z /\ ssl false s' = true).
Proof.
  destruct p; cbn [match_pat]; intros H.
  - destruct (span is_name_char s) as [a r] eqn:E. destruct a as [|c a]; [discriminate|].
    injection H as <- <-. destruct (span_decomp _ _ _ _ E) as (-> & Ha & _).
    split; [reflexivity|]. split; [discriminate|]. intros Hs.
    destruct (plain_facts (c :: a) (forallb_impl _ _ _ name_char_plain Ha)) as [H1 H2].
    split; [exact H1|]. now rewrite H2 in Hs.
  - destruct s as [|c t]; [discriminate|]. destruct (c =? c_quote) eqn:Ec; [|discriminate].
    apply N.eqb_eq in Ec. subst c.
    destruct (span not_quote t) as [body r] eqn:E. destruct r as [|q r']; [discriminate|].
    injection H as <- <-. destruct (span_decomp _ _ _ _ E) as (-> & Hb & Hq).
    cbn [stops] in Hq. unfold not_quote in Hq. apply negb_false_iff, N.eqb_eq in Hq. subst q.
    split; [cbn [app]; rewrite <- app_assoc; reflexivity|]. split; [discriminate|].
    intros Hs. cbn [ssl] in Hs. rewrite N.eqb_refl in Hs. cbn [negb] in Hs.
    destruct (ssl_body body r' Hb Hs) as [H1 H2]. split; [|exact H2].
    change (c_quote :: body ++ [c_quote]) with ([c_quote] ++ body ++ [c_quote]).
    rewrite !lf_app, H1. reflexivity.
  - destruct s as [|c t]; [discriminate|]. destruct (c =? c_hash) eqn:Ec; [|discriminate].
    apply N.eqb_eq in Ec. subst c.
    set (st := match t with m :: u => if m =? c_hyphen then ([m], u) else ([], t) | [] => ([], t) end) in *.
    assert (Hst : t = fst st ++ snd st /\ forallb plain (fst st) = true).
    { unfold st. destruct t as [|m u]; [split; reflexivity|]. destruct (m =? c_hyphen) eqn:Em; [|split; reflexivity].
      apply N.eqb_eq in Em. subst m. split; reflexivity. }
    destruct st as [sign t']. cbn [fst snd] in Hst. destruct Hst as [-> Hsign].
    destruct (span is_digit t') as [ds r] eqn:E. destruct ds as [|d ds]; [discriminate|].
    injection H as <- <-. destruct (span_decomp _ _ _ _ E) as (-> & Hd & _).
    split; [cbn [app]; rewrite <- !app_assoc; reflexivity|]. split; [discriminate|].
    intros Hs.
    assert (Hpl : forallb plain (c_hash :: sign ++ d :: ds) = true).
    { cbn [forallb]. rewrite forallb_app, Hsign. cbn [andb]. apply (forallb_impl _ _ _ digit_plain Hd). }
    destruct (plain_facts _ Hpl) as [H1 H2]. split; [exact H1|].
    replace (c_hash :: (sign ++ (d :: ds) ++ r)) with ((c_hash :: sign ++ d :: ds) ++ r) in Hs
      by (cbn [app]; rewrite <- !app_assoc; reflexivity).
    now rewrite H2 in Hs.
  - destruct s as [|c t]; [discriminate|]. destruct (c =? c_lbrace) eqn:Ec; [|discriminate].
    apply N.eqb_eq in Ec. subst c. injection H as <- <-. split; [reflexivity|]. split; [discriminate|].
    intros Hs. split; [reflexivity|exact Hs].
  - destruct s as [|c t]; [discriminate|]. destruct (c =? c_rbrace) eqn:Ec; [|discriminate].
    apply N.eqb_eq in Ec. subst c. injection H as <- <-. split; [reflexivity|]. split; [discriminate|].
    intros Hs. split; [reflexivity|exact Hs].
Qed.

Lemma first_match_inv ps s p v s' : first_match ps s = Some (p, v, s') -> match_pat p s = Some (v, s').
Proof.
  induction ps as [|q ps IH]; cbn [first_match]; [discriminate|].
  destruct (match_pat q s) as [[v0 r0]|] eqn:E; [|exact IH].
  intros H. injection H as <- <- <-. exact E.
Qed.
Lemma first_match_none_name ps s : In P_NAME ps -> first_match ps s = None -> match_pat P_NAME s = None.
Proof.
  induction ps as [|q ps IH]; cbn [first_match In]; [tauto|].
  intros [->|Hin] H.
  - destruct (match_pat P_NAME s) as [[v0 r0]|]; [discriminate|reflexivity].
  - destruct (match_pat q s) as [[v0 r0]|]; [discriminate|]. now apply IH.
Qed.

(* whitespace is plain apart from line feeds: it contains no double quote *)
Lemma space_not_quote c : is_space c = true -> not_quote c = true.
Proof. intros H. unfold not_quote. destruct (c =? c_quote) eqn:E; [|reflexivity]. apply N.eqb_eq in E. subst. discriminate. Qed.
Lemma ssl_noquote v : forallb not_quote v = true -> forall r, ssl false (v ++ r) = ssl false r.
Proof.
  induction v as [|c v IH]; cbn [forallb app]; intros H r; [reflexivity|].
  apply andb_prop in H as [Hc Hv]. unfold not_quote in Hc. apply negb_true_iff in Hc.
  cbn [ssl]. rewrite Hc. cbn [andb]. now apply IH.
Qed.

(* ---- steps of the scanner: what was consumed, and the line *)
Definition step_ok (s : str) (ln : Z) (s' : str) (ln' : Z) : Prop :=
  exists k, s = k ++ s' /\ k <> [] /\ ln' = (ln + lf k)%Z /\ ssl false s' = true.

(* where an error points: [k] is what was consumed before it, [r] what remains *)
Definition err_site (c : N) (k r : str) : Prop :=
  c = cls_eof \/
  (c = cls_premature /\ r = []) \/
  (c = cls_token_required /\
     ((exists x r', r = x :: r' /\ is_space x = false /\ match_pat P_NAME r = None) \/
      (exists k' name, k = k' ++ name /\ wf_name name /\ arity name = None /\ stops is_name_char r))).
Definition step_err (s : str) (ln : Z) (c : N) (l : Z) : Prop :=
  exists k r, s = k ++ r /\ l = (ln + lf k)%Z /\ err_site c k r.

Lemma step_ok_trans s ln s1 ln1 s2 ln2 : step_ok s ln s1 ln1 -> step_ok s1 ln1 s2 ln2 -> step_ok s ln s2 ln2.
Proof.
  intros (k1 & -> & Hk1 & -> & _) (k2 & -> & Hk2 & -> & H2).
  exists (k1 ++ k2). split; [now rewrite app_assoc|]. split; [destruct k1; [congruence|discriminate]|].
  split; [rewrite lf_app; lia|exact H2].
Qed.
Lemma step_ok_err s ln s1 ln1 c l : step_ok s ln s1 ln1 -> step_err s1 ln1 c l -> step_err s ln c l.
Proof.
  intros (k1 & -> & _ & -> & _) (k2 & r & -> & -> & Hsite).
  exists (k1 ++ k2), r. split; [now rewrite app_assoc|]. split; [rewrite lf_app; lia|].
  destruct Hsite as [H|[H|(Hc & [H|(k' & name & -> & H)])]]; [left; exact H|right; left; exact H| |].
  - right; right. split; [exact Hc|left; exact H].
  - right; right. split; [exact Hc|right]. exists (k1 ++ k'), name. split; [now rewrite app_assoc|exact H].
Qed.
Lemma step_ok_suffix s ln s' ln' : step_ok s ln s' ln' -> no_cr s = true -> no_cr s' = true /\ (length s' < length s)%nat.
Proof.
  intros (k & -> & Hk & _ & _) H. split; [now apply no_cr_app in H|].
  rewrite app_length. destruct k; [congruence|cbn; lia].
Qed.

Lemma required_inv ps ae s ln : In P_NAME ps -> no_cr s = true -> ssl false s = true ->
  match required ps ae s ln with
  | Ok ((p, v), (s', ln')) => step_ok s ln s' ln' /\ exists g, s = g ++ v ++ s' /\ all_space g /\ match_pat p (v ++ s') = Some (v, s') /\ ln' = (ln + lf g)%Z
  | PyErr c l => step_err s ln c l /\ (c = cls_eof -> ae = true)
  | _ => False
  end.
Proof.
  intros Hin Hcr Hssl. unfold required, get_token, eat_whitespace.
  destruct (span is_space s) as [g r] eqn:E. destruct (span_decomp _ _ _ _ E) as (-> & Hg & Hr).
  destruct (no_cr_app _ _ Hcr) as [Hcrg Hcrr].
  rewrite (nl_count_nocr g Hcrg).
  assert (Hsr : ssl false r = true).
  { rewrite ssl_noquote in Hssl; [exact Hssl|]. apply (forallb_impl _ _ _ space_not_quote Hg). }
  destruct r as [|x r'].
  - destruct ae; cbn [bind].
    + split; [|reflexivity]. exists g, []. split; [reflexivity|]. split; [reflexivity|]. left; reflexivity.
    + split; [|discriminate]. exists g, []. split; [reflexivity|]. split; [reflexivity|]. right; left. split; reflexivity.
  - destruct (first_match ps (x :: r')) as [[[p v] r'']|] eqn:Ef; cbn [bind fst snd].
    + apply first_match_inv in Ef. destruct (match_pat_inv _ _ _ _ Ef) as (Heq & Hv & Hs).
      destruct (Hs Hsr) as [Hlf Hs'].
      split.
      * exists (g ++ v). split; [rewrite Heq, app_assoc; reflexivity|].
        split; [destruct v; [congruence|destruct g; discriminate]|].
        split; [rewrite lf_app, Hlf; lia|exact Hs'].
      * exists g. split; [rewrite Heq; reflexivity|]. split; [exact Hg|]. split; [rewrite <- Heq; exact Ef|reflexivity].
    + split; [|discriminate]. exists g, (x :: r'). split; [reflexivity|]. split; [reflexivity|].
      right; right. split; [reflexivity|left]. exists x, r'. split; [reflexivity|].
      split; [exact Hr|]. now apply (first_match_none_name ps).
Qed.
