(* Proofs/BstLex.v -- lexical lemmas: span, the token patterns on a printed token followed by
   anything that does not extend it, the literal constructors on printed tokens. *)
From Pybtex Require Import Base.Prelude Base.PyChar Base.PyStr Model.BstParser Spec.BstPrint.
Local Open Scope N_scope.

(* ---- span *)
Definition stops (p : char -> bool) (r : str) : Prop :=
  match r with [] => True | c :: _ => p c = false end.

Lemma span_app p a r : forallb p a = true -> stops p r -> span p (a ++ r) = (a, r).
Proof.
  induction a as [|c a IH]; cbn; intros Ha Hr.
  - destruct r as [|d r]; [reflexivity|]. cbn in Hr. cbn. now rewrite Hr.
  - apply andb_prop in Ha as [Hc Ha]. rewrite Hc, (IH Ha Hr). reflexivity.
Qed.

Lemma span_decomp p s : forall a r, span p s = (a, r) -> s = a ++ r /\ forallb p a = true /\ stops p r.
Proof.
  induction s as [|c s IH]; cbn; intros a r H.
  - injection H as <- <-. cbn. auto.
  - destruct (p c) eqn:E.
    + destruct (span p s) as [a' r'] eqn:E'. injection H as <- <-.
      destruct (IH _ _ eq_refl) as (-> & Ha & Hr). cbn. rewrite E. auto.
    + injection H as <- <-. cbn. auto.
Qed.

Lemma span_nil_head p c t : p c = false -> span p (c :: t) = ([], c :: t).
Proof. intros H. cbn. now rewrite H. Qed.

(* ---- well-formed tokens *)
Definition wf_name (s : str) : Prop := s <> [] /\ forallb is_name_char s = true.
Definition digits_ok (z : Z) : Prop := (Z.of_nat (length (N_digits (Z.abs_N z))) <= max_str_digits)%Z.
Definition wf_ltok (t : ltok) : Prop :=
  match t with
  | LName s => wf_name s
  | LStr s => forallb not_quote s = true
  | LInt z => digits_ok z
  | LL | LR => True
  end.

(* what may follow the text of a token without changing how far its pattern matches *)
Definition boundary_ok (t : ltok) (r : str) : Prop :=
  match t with
  | LName _ => stops is_name_char r
  | LInt _ => stops is_digit r
  | _ => True
  end.

Definition pat_of (t : ltok) : pat :=
  match t with LName _ => P_NAME | LStr _ => P_STRING | LInt _ => P_INTEGER | LL => P_LBRACE | LR => P_RBRACE end.

(* ---- decimal digits *)
Lemma digits_value_snoc a d : digits_value (a ++ [d]) = (digits_value a * 10 + Z.of_N (d - 48))%Z.
Proof. unfold digits_value. rewrite fold_left_app. reflexivity. Qed.

Lemma digits_fuel_spec : forall fuel n acc,
  (N.to_nat (N.log2 n) < fuel)%nat ->
  exists ds, digits_fuel fuel n acc = ds ++ acc /\ ds <> [] /\ forallb is_digit ds = true /\
             digits_value ds = Z.of_N n.
Proof.
  induction fuel as [|f IH]; intros n acc Hf; [lia|].
  cbn [digits_fuel].
  pose proof (N.div_mod n 10 ltac:(discriminate)) as Hqm.
  pose proof (N.mod_lt n 10 ltac:(discriminate)) as Hm.
  set (q := n / 10) in *. set (m := n mod 10) in *.
  assert (Hd : is_digit (48 + m) = true).
  { unfold is_digit. clearbody m. apply andb_true_intro; split; apply N.leb_le; lia. }
  assert (Hsub : 48 + m - 48 = m) by (clearbody m; lia).
  destruct (q =? 0) eqn:E.
  - apply N.eqb_eq in E. exists [48 + m]. split; [reflexivity|]. split; [discriminate|].
    split; [cbn [forallb]; now rewrite Hd|].
    unfold digits_value. cbn [fold_left]. rewrite Hsub. clearbody q m. lia.
  - apply N.eqb_neq in E.
    assert (Hlt : (N.to_nat (N.log2 q) < f)%nat).
    { assert (Hq : 0 < q) by (apply N.neq_0_lt_0; exact E).
      assert (H2 : 2 * q <= n) by (clearbody q m; lia).
      pose proof (N.log2_le_mono _ _ H2) as H3. rewrite (N.log2_double q Hq) in H3.
      clearbody q m. lia. }
    destruct (IH q ((48 + m) :: acc) Hlt) as (ds & Heq & Hne & Hall & Hval).
    exists (ds ++ [48 + m]). split; [rewrite Heq, <- app_assoc; reflexivity|].
    split; [destruct ds; discriminate|].
    split; [rewrite forallb_app, Hall; cbn [forallb]; now rewrite Hd|].
    rewrite digits_value_snoc, Hval, Hsub.
    clearbody q m. lia.
Qed.

Lemma N_digits_spec n :
  N_digits n <> [] /\ forallb is_digit (N_digits n) = true /\ digits_value (N_digits n) = Z.of_N n.
Proof.
  unfold N_digits.
  destruct (digits_fuel_spec (S (N.to_nat (N.log2 n))) n [] ltac:(lia)) as (ds & Heq & Hne & Hall & Hval).
  rewrite Heq, app_nil_r. auto.
Qed.

(* ---- character class facts *)
Lemma name_char_not_space c : is_name_char c = true -> is_space c = false.
Proof.
  unfold is_name_char. intros H. apply negb_true_iff in H.
  repeat (apply orb_false_iff in H; destruct H as [H ?]). assumption.
Qed.
Lemma space_not_name_char c : is_space c = true -> is_name_char c = false.
Proof.
  intros H. destruct (is_name_char c) eqn:E; [|reflexivity].
  apply name_char_not_space in E. congruence.
Qed.
Lemma digit_cases c : is_digit c = true ->
  c = 48 \/ c = 49 \/ c = 50 \/ c = 51 \/ c = 52 \/ c = 53 \/ c = 54 \/ c = 55 \/ c = 56 \/ c = 57.
Proof. unfold is_digit. intros H. apply andb_prop in H as [H1 H2]. apply N.leb_le in H1, H2. lia. Qed.
Lemma digit_not_space c : is_digit c = true -> is_space c = false.
Proof. intros H. apply digit_cases in H. repeat (destruct H as [->|H]; [reflexivity|]). subst; reflexivity. Qed.
Lemma space_not_digit c : is_space c = true -> is_digit c = false.
Proof. intros H. destruct (is_digit c) eqn:E; [|reflexivity]. apply digit_not_space in E. congruence. Qed.
Lemma digit_is_name_char c : is_digit c = true -> is_name_char c = true.
Proof. intros H. apply digit_cases in H. repeat (destruct H as [->|H]; [reflexivity|]). subst; reflexivity. Qed.
Lemma digit_not_hyphen c : is_digit c = true -> (c =? c_hyphen) = false.
Proof. intros H. apply digit_cases in H. repeat (destruct H as [->|H]; [reflexivity|]). subst; reflexivity. Qed.
Lemma digit_not_hash c : is_digit c = true -> (c =? c_hash) = false.
Proof. intros H. apply digit_cases in H. repeat (destruct H as [->|H]; [reflexivity|]). subst; reflexivity. Qed.

Definition all_space (g : str) : Prop := forallb is_space g = true.

Lemma stops_space_name g : all_space g -> stops is_name_char g.
Proof. destruct g as [|c g]; cbn; [auto|]. unfold all_space. cbn. intros H. apply andb_prop in H as [H _]. now apply space_not_name_char. Qed.
Lemma stops_space_digit g : all_space g -> stops is_digit g.
Proof. destruct g as [|c g]; cbn; [auto|]. unfold all_space. cbn. intros H. apply andb_prop in H as [H _]. now apply space_not_digit. Qed.

(* ---- every printed token starts with a character that is not whitespace *)
Lemma ltok_text_head t : wf_ltok t -> exists c r, ltok_text t = c :: r /\ is_space c = false.
Proof.
  destruct t as [s|s|z| |]; cbn; intros H.
  - destruct H as [Hne Hall]. destruct s as [|c s]; [congruence|]. exists c, s. split; [reflexivity|].
    cbn in Hall. apply andb_prop in Hall as [Hc _]. now apply name_char_not_space.
  - eexists _, _. split; reflexivity.
  - unfold int_text. eexists _, _. split; reflexivity.
  - eexists _, _. split; reflexivity.
  - eexists _, _. split; reflexivity.
Qed.

(* the line counter after a token: the breaks of the gap before it and those inside it *)
Definition tline (ln : Z) (g : str) (t : ltok) : Z := (ln + nl_count g + nl_count (ltok_text t))%Z.

Lemma nl_count_cons_plain c s : (c =? 10) = false -> (c =? 13) = false -> nl_count (c :: s) = nl_count s.
Proof. intros H1 H2. unfold nl_count. cbn [count_char count_crlf]. rewrite H1, H2. cbn [andb]. lia. Qed.
Lemma nl_count_name s : forallb is_name_char s = true -> nl_count s = 0%Z.
Proof.
  induction s as [|c s IH]; cbn [forallb]; intros H; [reflexivity|]. apply andb_prop in H as [Hc Hs].
  apply name_char_not_space in Hc.
  rewrite nl_count_cons_plain; [now apply IH| |].
  - destruct (c =? 10) eqn:E; [|reflexivity]. apply N.eqb_eq in E. subst c. discriminate.
  - destruct (c =? 13) eqn:E; [|reflexivity]. apply N.eqb_eq in E. subst c. discriminate.
Qed.

Lemma eat_whitespace_gap g s ln :
  all_space g -> stops is_space s -> eat_whitespace (g ++ s) ln = (s, (ln + nl_count g)%Z).
Proof. intros Hg Hs. unfold eat_whitespace. rewrite (span_app _ _ _ Hg Hs). reflexivity. Qed.

(* ---- the patterns on printed tokens *)
Lemma match_name s r : wf_name s -> stops is_name_char r -> match_pat P_NAME (s ++ r) = Some (s, r).
Proof.
  intros [Hne Hall] Hr. cbn [match_pat]. rewrite (span_app _ _ _ Hall Hr).
  destruct s; [congruence|reflexivity].
Qed.
Lemma match_name_fail c t : is_name_char c = false -> match_pat P_NAME (c :: t) = None.
Proof. intros H. cbn [match_pat]. rewrite (span_nil_head _ _ _ H). reflexivity. Qed.

Lemma match_string s r : forallb not_quote s = true ->
  match_pat P_STRING (ltok_text (LStr s) ++ r) = Some (ltok_text (LStr s), r).
Proof.
  intros Hs. cbn [ltok_text match_pat app]. rewrite N.eqb_refl.
  rewrite <- app_assoc. cbn [app].
  rewrite (span_app not_quote s (c_quote :: r) Hs); [reflexivity|reflexivity].
Qed.

Lemma match_int z r : stops is_digit r ->
  match_pat P_INTEGER (ltok_text (LInt z) ++ r) = Some (ltok_text (LInt z), r).
Proof.
  intros Hr. destruct (N_digits_spec (Z.abs_N z)) as (Hne & Hall & _).
  cbn [ltok_text]. unfold int_text. cbn [match_pat app]. rewrite N.eqb_refl.
  destruct (Z.ltb z 0).
  - cbn [app]. rewrite N.eqb_refl. rewrite (span_app _ _ _ Hall Hr).
    destruct (N_digits (Z.abs_N z)); [congruence|reflexivity].
  - cbn [app]. destruct (N_digits (Z.abs_N z)) as [|d ds] eqn:E; [congruence|].
    cbn [app]. cbn [forallb] in Hall. apply andb_prop in Hall as [Hd Hds].
    rewrite (digit_not_hyphen _ Hd).
    change (d :: ds ++ r) with ((d :: ds) ++ r).
    rewrite (span_app is_digit (d :: ds) r); [reflexivity| cbn; now rewrite Hd, Hds | exact Hr].
Qed.

Lemma first_match_tok t r : wf_ltok t -> boundary_ok t r ->
  first_match group_pats (ltok_text t ++ r) = Some (pat_of t, ltok_text t, r).
Proof.
  intros Hwf Hb. unfold group_pats. destruct t as [s|s|z| |].
  - cbn [first_match ltok_text]. rewrite (match_name s r Hwf Hb). reflexivity.
  - cbn [first_match]. rewrite (match_string s r Hwf). reflexivity.
  - cbn [first_match]. rewrite (match_int z r Hb). reflexivity.
  - reflexivity.
  - reflexivity.
Qed.

Lemma get_token_tok g t r ae ln : all_space g -> wf_ltok t -> boundary_ok t r ->
  get_token group_pats ae (g ++ ltok_text t ++ r) ln
  = Ok (Some (pat_of t, ltok_text t), (r, tline ln g t)).
Proof.
  intros Hg Hwf Hb. unfold get_token.
  destruct (ltok_text_head t Hwf) as (c & tl & Htxt & Hc).
  rewrite eat_whitespace_gap; [|exact Hg|rewrite Htxt; cbn; exact Hc].
  rewrite (first_match_tok t r Hwf Hb). unfold tline. rewrite Htxt. reflexivity.
Qed.

Lemma required_tok g t r ae ln : all_space g -> wf_ltok t -> boundary_ok t r ->
  required group_pats ae (g ++ ltok_text t ++ r) ln
  = Ok ((pat_of t, ltok_text t), (r, tline ln g t)).
Proof. intros. unfold required. rewrite get_token_tok by assumption. reflexivity. Qed.

(* a command name *)
Lemma required_name g s r ln : all_space g -> wf_name s -> stops is_name_char r ->
  required [P_NAME] true (g ++ s ++ r) ln = Ok ((P_NAME, s), (r, tline ln g (LName s))).
Proof.
  intros Hg Hwf Hr. unfold required, get_token.
  destruct (ltok_text_head (LName s) Hwf) as (c & tl & Htxt & Hc). cbn [ltok_text] in Htxt.
  rewrite eat_whitespace_gap; [|exact Hg|rewrite Htxt; cbn; exact Hc].
  cbn [first_match]. rewrite (match_name s r Hwf Hr). unfold tline. cbn [ltok_text]. rewrite Htxt. reflexivity.
Qed.

(* the end of the text after a final gap *)
Lemma required_eof g ps ln : all_space g ->
  required ps true g ln = PyErr cls_eof (ln + nl_count g)%Z.
Proof.
  intros Hg. unfold required, get_token.
  replace g with (g ++ []) at 1 by apply app_nil_r.
  rewrite eat_whitespace_gap; [reflexivity|exact Hg|exact I].
Qed.

(* an opening brace is found / something else is left alone *)
Lemma optional_lbrace g r ln : all_space g ->
  optional [P_LBRACE] (g ++ ltok_text LL ++ r) ln = Ok (Some (P_LBRACE, ltok_text LL), (r, tline ln g LL)).
Proof.
  intros Hg. unfold optional, get_token.
  rewrite eat_whitespace_gap; [reflexivity|exact Hg|reflexivity].
Qed.

Lemma required_lbrace g r ln : all_space g ->
  required [P_LBRACE] false (g ++ ltok_text LL ++ r) ln = Ok ((P_LBRACE, ltok_text LL), (r, tline ln g LL)).
Proof. intros Hg. unfold required. fold (optional [P_LBRACE] (g ++ ltok_text LL ++ r) ln). rewrite (optional_lbrace g r ln Hg). reflexivity. Qed.

(* ---- the literal constructors on printed tokens *)
Lemma strip_hash_l_id s : (match s with c :: _ => (c =? c_hash) = false | [] => True end) -> strip_hash_l s = s.
Proof. destruct s as [|c s]; cbn; [reflexivity|]. intros ->. reflexivity. Qed.

Lemma literal_int z : digits_ok z -> literal P_INTEGER (ltok_text (LInt z)) = Ok (TInt z).
Proof.
  intros Hlen. destruct (N_digits_spec (Z.abs_N z)) as (Hne & Hall & Hval).
  cbn [literal ltok_text]. unfold process_int_literal, int_text.
  set (ds := N_digits (Z.abs_N z)) in *.
  assert (Hlast : exists ds' d, ds = ds' ++ [d]) by (destruct (exists_last Hne) as (a & b & ->); eauto).
  destruct Hlast as (ds' & dl & Hds).
  assert (Hdl : is_digit dl = true).
  { rewrite Hds, forallb_app in Hall. apply andb_prop in Hall as [_ H]. cbn in H. now rewrite andb_true_r in H. }
  assert (Hstrip : strip_hash (c_hash :: (if Z.ltb z 0 then [c_hyphen] else []) ++ ds)
                   = (if Z.ltb z 0 then [c_hyphen] else []) ++ ds).
  { unfold strip_hash. cbn [strip_hash_l]. rewrite N.eqb_refl.
    set (body := (if Z.ltb z 0 then [c_hyphen] else []) ++ ds).
    assert (H1 : strip_hash_l body = body).
    { apply strip_hash_l_id. unfold body. destruct (Z.ltb z 0); cbn [app]; [reflexivity|].
      destruct ds as [|d ds0]; [exact I|]. cbn in Hall. apply andb_prop in Hall as [Hd _]. now apply digit_not_hash. }
    rewrite H1.
    assert (H2 : strip_hash_l (rev body) = rev body).
    { apply strip_hash_l_id. unfold body. rewrite Hds, app_assoc, rev_app_distr. cbn [rev app].
      now apply digit_not_hash. }
    rewrite H2. apply rev_involutive. }
  rewrite Hstrip. unfold py_int.
  destruct (Z.ltb z 0) eqn:Ez.
  - cbn [app]. rewrite N.eqb_refl.
    destruct ds as [|d ds0] eqn:Eds; [congruence|].
    rewrite Hall. cbn [negb].
    unfold digits_ok in Hlen. fold ds in Hlen. rewrite Eds in Hlen.
    assert (Hl : (max_str_digits <? Z.of_nat (length (d :: ds0)))%Z = false) by (apply Z.ltb_ge; exact Hlen).
    rewrite Hl. cbn [bind]. rewrite Hval. apply Z.ltb_lt in Ez. f_equal. f_equal. rewrite N2Z.inj_abs_N. lia.
  - cbn [app].
    destruct ds as [|d ds0] eqn:Eds; [congruence|].
    assert (Hd : is_digit d = true) by (cbn in Hall; apply andb_prop in Hall as [H _]; exact H).
    rewrite (digit_not_hyphen _ Hd). rewrite Hall. cbn [negb].
    unfold digits_ok in Hlen. fold ds in Hlen. rewrite Eds in Hlen.
    assert (Hl : (max_str_digits <? Z.of_nat (length (d :: ds0)))%Z = false) by (apply Z.ltb_ge; exact Hlen).
    rewrite Hl. cbn [bind]. rewrite Hval. apply Z.ltb_ge in Ez. f_equal. f_equal. rewrite N2Z.inj_abs_N. lia.
Qed.

Lemma literal_string s : literal P_STRING (ltok_text (LStr s)) = Ok (TStr s).
Proof.
  cbn [literal ltok_text]. unfold process_string_literal. rewrite N.eqb_refl.
  change (c_quote :: s ++ [c_quote]) with ((c_quote :: s) ++ [c_quote]).
  rewrite last_last, N.eqb_refl. cbn [andb]. rewrite removelast_last. reflexivity.
Qed.

Lemma literal_id s : wf_name s -> (hd 0 s =? 39) = false -> literal P_NAME s = Ok (TId s).
Proof.
  intros [Hne _] Hq. cbn [literal]. unfold process_identifier.
  destruct s as [|c s]; [congruence|]. cbn [hd] in Hq. rewrite Hq. reflexivity.
Qed.
Lemma literal_quote s : literal P_NAME (39 :: s) = Ok (TQuote s).
Proof. reflexivity. Qed.
