(* Proofs/CitationsFiltered.v -- reading filtered by the citations vs reading the whole file (C05, F13) *)
From Pybtex Require Import Base.Prelude Base.PyChar Base.PyStr Model.Citations Spec.Citations
  Proofs.CitationsBase Proofs.Citations.

Definition run (bd : bibdata) (l : list entry) : bibdata := fold_left add_entry l bd.
Definition kb (a b : key) : Prop := keyb a b = true.
Definition ent_eq (e1 e2 : entry) : Prop := keyb (fst e1) (fst e2) = true /\ snd e1 = snd e2.

Lemma run_app bd a b : run bd (a ++ b) = run (run bd a) b.
Proof. apply fold_left_app. Qed.
Lemma read_db_run w db : read_db w db = run (bd_init w) db.
Proof. reflexivity. Qed.

(* ---- one step *)
Lemma want_entry_congr bd a b : keyb a b = true -> want_entry bd a = want_entry bd b.
Proof. intros H. unfold want_entry. destruct (bd_wanted bd); [|reflexivity]. now rewrite (cis_mem_congr _ _ _ H). Qed.

Lemma canonical_keyb bd k : keyb (get_canonical_key bd k) k = true.
Proof.
  unfold get_canonical_key, cis_canon. destruct (find (keyb k) (bd_cites bd)) eqn:Ef; [|apply keyb_refl].
  apply find_some in Ef as [_ Ef]. now rewrite keyb_sym.
Qed.

Definition wanted_after (bd : bibdata) (cr : option key) : option cis :=
  match cr, bd_wanted bd with Some c, Some w => Some (cis_add c w) | _, w => w end.

Lemma add_entry_skip bd k cr :
  want_entry bd k = false \/ ed_mem k (bd_entries bd) = true ->
  bd_entries (add_entry bd (k, cr)) = bd_entries bd /\ bd_wanted (add_entry bd (k, cr)) = bd_wanted bd /\
  bd_cites (add_entry bd (k, cr)) = bd_cites bd.
Proof.
  intros H. unfold add_entry. destruct (want_entry bd k); cbn [negb].
  - destruct H as [H|H]; [discriminate|]. rewrite H. cbn. auto.
  - auto.
Qed.
Lemma add_entry_take bd k cr :
  want_entry bd k = true -> ed_mem k (bd_entries bd) = false ->
  bd_entries (add_entry bd (k, cr)) = bd_entries bd ++ [(get_canonical_key bd k, cr)] /\
  bd_wanted (add_entry bd (k, cr)) = wanted_after bd cr /\
  bd_cites (add_entry bd (k, cr)) = bd_cites bd.
Proof. intros H1 H2. unfold add_entry. rewrite H1, H2. cbn. auto. Qed.

Lemma want_entry_step bd e q : want_entry bd q = true -> want_entry (add_entry bd e) q = true.
Proof.
  destruct e as [k cr]. intros H.
  destruct (want_entry bd k) eqn:Hw; [destruct (ed_mem k (bd_entries bd)) eqn:Hm|].
  - destruct (add_entry_skip bd k cr (or_intror Hm)) as (_ & Hwd & _). unfold want_entry in *. now rewrite Hwd.
  - destruct (add_entry_take bd k cr Hw Hm) as (_ & Hwd & _). unfold want_entry in *. rewrite Hwd. unfold wanted_after.
    destruct cr as [c|], (bd_wanted bd) as [w|]; auto.
    rewrite !cis_mem_add. apply orb_prop in H as [H|H]; rewrite H; now rewrite ?orb_true_r.
  - destruct (add_entry_skip bd k cr (or_introl Hw)) as (_ & Hwd & _). unfold want_entry in *. now rewrite Hwd.
Qed.
Lemma want_entry_run l : forall bd q, want_entry bd q = true -> want_entry (run bd l) q = true.
Proof. induction l as [|e l IH]; intros bd q H; cbn; [exact H|]. apply IH, want_entry_step, H. Qed.

(* after an entry with a cross-reference has been stored, its target is wanted *)
Lemma want_crossref bd k p :
  want_entry bd k = true -> ed_mem k (bd_entries bd) = false -> want_entry (add_entry bd (k, Some p)) p = true.
Proof.
  intros Hw Hm. destruct (add_entry_take bd k (Some p) Hw Hm) as (_ & Hwd & _).
  unfold want_entry. rewrite Hwd. unfold wanted_after. destruct (bd_wanted bd); [|reflexivity].
  now rewrite cis_mem_add, keyb_refl.
Qed.

Lemma ed_get_app_l q E E' e : ed_get q E = Some e -> ed_get q (E ++ E') = Some e.
Proof. unfold ed_get. induction E as [|x E IH]; cbn; [discriminate|]. destruct (keyb q (fst x)); auto. Qed.
Lemma ed_get_app_r q E E' : ed_mem q E = false -> ed_get q (E ++ E') = ed_get q E'.
Proof.
  unfold ed_get, ed_mem. induction E as [|x E IH]; cbn; [reflexivity|].
  destruct (keyb q (fst x)); cbn; [discriminate|exact IH].
Qed.
Lemma ed_mem_app q E E' : ed_mem q (E ++ E') = ed_mem q E || ed_mem q E'.
Proof. apply existsb_app. Qed.

Lemma entries_step bd e : exists E', bd_entries (add_entry bd e) = bd_entries bd ++ E' /\
  (E' = [] \/ exists k', E' = [(k', snd e)] /\ keyb k' (fst e) = true).
Proof.
  destruct e as [k cr]. destruct (want_entry bd k) eqn:Hw; [destruct (ed_mem k (bd_entries bd)) eqn:Hm|].
  - exists []. destruct (add_entry_skip bd k cr (or_intror Hm)) as (-> & _). rewrite app_nil_r. auto.
  - exists [(get_canonical_key bd k, cr)]. destruct (add_entry_take bd k cr Hw Hm) as (-> & _).
    split; [reflexivity|]. right. eexists. split; [reflexivity|]. apply canonical_keyb.
  - exists []. destruct (add_entry_skip bd k cr (or_introl Hw)) as (-> & _). rewrite app_nil_r. auto.
Qed.

Lemma ed_get_step bd e q x : ed_get q (bd_entries bd) = Some x -> ed_get q (bd_entries (add_entry bd e)) = Some x.
Proof. intros H. destruct (entries_step bd e) as (E' & -> & _). now apply ed_get_app_l. Qed.
Lemma ed_get_run l : forall bd q x, ed_get q (bd_entries bd) = Some x -> ed_get q (bd_entries (run bd l)) = Some x.
Proof. induction l as [|e l IH]; intros bd q x H; cbn; [exact H|]. apply IH, ed_get_step, H. Qed.

Lemma ed_mem_step_other bd e q :
  ed_mem q (bd_entries bd) = false -> keyb q (fst e) = false -> ed_mem q (bd_entries (add_entry bd e)) = false.
Proof.
  intros Hm Hk. destruct (entries_step bd e) as (E' & -> & [->|(k' & -> & Hk')]).
  - now rewrite app_nil_r.
  - rewrite ed_mem_app, Hm. cbn. rewrite (keyb_congr_r _ _ q Hk'), Hk. reflexivity.
Qed.
Lemma run_absent l : forall bd q, ed_mem q (bd_entries bd) = false -> existsb (keyb q) (map fst l) = false ->
  ed_mem q (bd_entries (run bd l)) = false.
Proof.
  induction l as [|e l IH]; intros bd q Hm Hl; cbn in *; [exact Hm|].
  apply orb_false_elim in Hl as [H1 H2]. apply IH; [|exact H2]. now apply ed_mem_step_other.
Qed.

(* ---- the next occurrence of a wanted, not yet stored key is the one that gets stored *)
Definition found_like (q : key) (E : edict) (o : option entry) : Prop :=
  match o with
  | Some e => exists k', ed_get q E = Some (k', snd e) /\ keyb k' (fst e) = true
  | None => ed_mem q E = false
  end.
Definition db_find (q : key) (l : list entry) : option entry := find (fun e => keyb q (fst e)) l.

Lemma run_next q : forall post bd, want_entry bd q = true -> ed_mem q (bd_entries bd) = false ->
  found_like q (bd_entries (run bd post)) (db_find q post).
Proof.
  induction post as [|[k cr] post IH]; intros bd Hw Hm; cbn [db_find find run fold_left fst]; [exact Hm|].
  destruct (keyb q k) eqn:Hqk.
  - assert (Hwk : want_entry bd k = true) by now rewrite <- (want_entry_congr bd q k Hqk).
    assert (Hmk : ed_mem k (bd_entries bd) = false) by now rewrite <- (ed_mem_congr q k _ Hqk).
    destruct (add_entry_take bd k cr Hwk Hmk) as (He & _).
    exists (get_canonical_key bd k). split; [|apply canonical_keyb].
    apply ed_get_run. rewrite He, ed_get_app_r by exact Hm. cbn.
    pose proof (canonical_keyb bd k) as Hc. rewrite keyb_sym in Hc.
    now rewrite <- (keyb_congr_r _ _ q Hc), Hqk.
  - apply IH; [now apply want_entry_step|]. now apply ed_mem_step_other.
Qed.

Lemma db_find_split q l e : db_find q l = Some e ->
  exists pre post, l = pre ++ e :: post /\ existsb (keyb q) (map fst pre) = false /\ keyb q (fst e) = true.
Proof.
  unfold db_find. induction l as [|x l IH]; cbn; [discriminate|]. destruct (keyb q (fst x)) eqn:Hx.
  - intros [= <-]. exists [], l. auto.
  - intros H. destruct (IH H) as (pre & post & -> & H1 & H2). exists (x :: pre), post. cbn. rewrite Hx. auto.
Qed.
Lemma db_find_none q l : db_find q l = None -> existsb (keyb q) (map fst l) = false.
Proof. unfold db_find. induction l as [|x l IH]; cbn; [reflexivity|]. destruct (keyb q (fst x)); [discriminate|exact IH]. Qed.
Lemma db_find_skip q pre l : existsb (keyb q) (map fst pre) = false -> db_find q (pre ++ l) = db_find q l.
Proof.
  unfold db_find. induction pre as [|x pre IH]; cbn; [reflexivity|]. destruct (keyb q (fst x)); cbn; [discriminate|exact IH].
Qed.

(* ---- two dictionaries that answer the relevant look-ups alike (up to letter case) select alike *)
Definition orel (o1 o2 : option key) : Prop :=
  match o1, o2 with
  | Some a, Some b => keyb a b = true
  | None, None => True
  | _, _ => False
  end.
(* related citations: equal up to case, parents related *)
Definition crel (E1 E2 : edict) (a b : key) : Prop :=
  keyb a b = true /\ orel (parent_of E1 a) (parent_of E2 b).

Lemma refs_hit_congr E1 E2 x y a b : keyb x y = true -> crel E1 E2 a b -> refs_hit E1 x a = refs_hit E2 y b.
Proof.
  intros Hxy [_ Hp]. unfold refs_hit. unfold orel in Hp.
  destruct (parent_of E1 a) as [p1|], (parent_of E2 b) as [p2|]; try contradiction; [|reflexivity].
  rewrite (keyb_congr_l _ _ p1 Hxy). apply keyb_congr_r. exact Hp.
Qed.
Lemma refs_congr2 E1 E2 x y l1 l2 : keyb x y = true -> Forall2 (crel E1 E2) l1 l2 -> refs E1 x l1 = refs E2 y l2.
Proof.
  intros Hxy H. rewrite !refs_unfold. induction H as [|a b l1 l2 Hab _ IH]; cbn; [reflexivity|].
  rewrite (refs_hit_congr E1 E2 x y a b Hxy Hab). destruct (refs_hit E2 y b); cbn; now rewrite IH.
Qed.

Lemma Forall2_snoc {X Y} (R : X -> Y -> Prop) l1 l2 a b : Forall2 R l1 l2 -> R a b -> Forall2 R (l1 ++ [a]) (l2 ++ [b]).
Proof. intros H1 H2. apply Forall2_app; [exact H1|]. constructor; [exact H2|constructor]. Qed.

Lemma threshold_hits_congr E1 E2 t cited1 cited2 :
  (forall x y, keyb x y = true -> existsb (keyb x) cited1 = existsb (keyb y) cited2) ->
  forall rest1 rest2, Forall2 (crel E1 E2) rest1 rest2 ->
  forall pre1 pre2, Forall2 (crel E1 E2) pre1 pre2 ->
  Forall2 kb (threshold_hits E1 t cited1 pre1 rest1) (threshold_hits E2 t cited2 pre2 rest2).
Proof.
  intros Hcited rest1 rest2 Hrest. induction Hrest as [|a b r1 r2 Hab _ IH]; intros pre1 pre2 Hpre; cbn [threshold_hits]; [constructor|].
  pose proof (Forall2_snoc _ _ _ _ _ Hpre Hab) as Hpre'.
  apply Forall2_app; [|apply IH; exact Hpre'].
  destruct Hab as [Hk Hp]. unfold orel in Hp.
  destruct (parent_of E1 a) as [p1|], (parent_of E2 b) as [p2|]; try contradiction; [|constructor].
  rewrite (refs_congr2 E1 E2 p1 p2 _ _ Hp Hpre'), (Hcited p1 p2 Hp).
  destruct (Nat.eqb (refs E2 p2 (pre2 ++ [b])) t && negb (existsb (keyb p2) cited2)); constructor; [exact Hp|constructor].
Qed.

Lemma Forall2_kb_lower l1 l2 : Forall2 kb l1 l2 -> map lower l1 = map lower l2.
Proof. induction 1 as [|a b l1 l2 H _ IH]; cbn; [reflexivity|]. apply keyb_true in H. now rewrite H, IH. Qed.
Lemma Forall2_filter {X Y} (R : X -> Y -> Prop) p q l1 l2 :
  (forall a b, R a b -> p a = q b) -> Forall2 R l1 l2 -> Forall2 R (filter p l1) (filter q l2).
Proof.
  intros H. induction 1 as [|a b l1 l2 Hab _ IH]; cbn; [constructor|].
  rewrite (H a b Hab). destruct (q b); [constructor; assumption|assumption].
Qed.
Lemma Forall2_imp {X Y} (R S : X -> Y -> Prop) l1 l2 : (forall a b, R a b -> S a b) -> Forall2 R l1 l2 -> Forall2 S l1 l2.
Proof. intros H. induction 1; constructor; auto. Qed.
Lemma Forall2_diag {X} (R : X -> X -> Prop) l : (forall x, In x l -> R x x) -> Forall2 R l l.
Proof. induction l as [|x l IH]; intros H; constructor; [apply H; now left|apply IH; intros; apply H; now right]. Qed.

Lemma existsb_kb_congr l1 l2 : Forall2 kb l1 l2 -> forall x y, keyb x y = true -> existsb (keyb x) l1 = existsb (keyb y) l2.
Proof.
  induction 1 as [|a b l1 l2 H _ IH]; intros x y Hxy; cbn; [reflexivity|].
  rewrite (IH x y Hxy), (keyb_congr_l _ _ a Hxy), (keyb_congr_r _ _ y H). reflexivity.
Qed.

Lemma filter_all {X} (p : X -> bool) l : (forall x, In x l -> p x = true) -> filter p l = l.
Proof. induction l as [|x l IH]; cbn; intros H; [reflexivity|]. rewrite (H x (or_introl eq_refl)), IH; auto. Qed.

(* the selected keys that are in the dictionary: resolve *)
Definition resolve (E : edict) (cites : list key) (m : Z) : list key :=
  filter (fun c => ed_mem c E) (fst (add_extra E cites m)).

Lemma resolve_spec E cites m :
  resolve E cites m = filter (fun c => ed_mem c E) (explicit_spec E cites) ++ Spec.Citations.crossrefs_spec E (explicit_spec E cites) m.
Proof.
  unfold resolve. rewrite add_extra_partition, crossrefs_is_spec, expand_is_explicit_spec, filter_app.
  f_equal. apply filter_all. intros x. apply crossrefs_in_db.
Qed.

(* the general congruence: if the explicit lists are related, so are the results *)
Lemma resolve_congr E1 E2 ex1 ex2 m :
  Forall2 (crel E1 E2) ex1 ex2 ->
  (forall a b, crel E1 E2 a b -> In a ex1 -> ed_mem a E1 = ed_mem b E2) ->
  map lower (filter (fun c => ed_mem c E1) ex1 ++ Spec.Citations.crossrefs_spec E1 ex1 m) =
  map lower (filter (fun c => ed_mem c E2) ex2 ++ Spec.Citations.crossrefs_spec E2 ex2 m).
Proof.
  intros Hex Hmem. apply Forall2_kb_lower. apply Forall2_app.
  - clear m. induction Hex as [|a b l1 l2 Hab _ IH]; cbn; [constructor|].
    rewrite (Hmem a b Hab (or_introl eq_refl)).
    assert (IH' : Forall2 kb (filter (fun c => ed_mem c E1) l1) (filter (fun c => ed_mem c E2) l2)).
    { apply IH. intros a' b' H' Hin. apply Hmem; [exact H'|now right]. }
    destruct (ed_mem b E2); [constructor; [exact (proj1 Hab)|exact IH']|exact IH'].
  - unfold Spec.Citations.crossrefs_spec. apply threshold_hits_congr; [|exact Hex|constructor].
    apply existsb_kb_congr. clear Hmem. induction Hex as [|a b l1 l2 Hab _ IH]; constructor; [exact (proj1 Hab)|exact IH].
Qed.

(* ---- first_index / the ordering hypothesis, in split form *)
Lemma first_index_here k pre e post :
  existsb (keyb k) (map fst pre) = false -> keyb k (fst e) = true -> first_index k (pre ++ e :: post) = Some (length pre).
Proof.
  induction pre as [|x pre IH]; cbn; intros H1 H2; [now rewrite H2|].
  apply orb_false_elim in H1 as [Hx H1]. rewrite Hx, (IH H1 H2). reflexivity.
Qed.
Lemma first_index_none k l : first_index k l = None -> existsb (keyb k) (map fst l) = false.
Proof.
  induction l as [|x l IH]; cbn; [reflexivity|]. destruct (keyb k (fst x)); [discriminate|].
  destruct (first_index k l); [discriminate|]. intros _. now apply IH.
Qed.
Lemma first_index_after k a b j : first_index k (a ++ b) = Some j -> length a <= j -> existsb (keyb k) (map fst a) = false.
Proof.
  revert j. induction a as [|x a IH]; cbn; intros j H Hl; [reflexivity|].
  destruct (keyb k (fst x)); [injection H as <-; lia|].
  destruct (first_index k (a ++ b)) as [j'|] eqn:E; [|discriminate]. injection H as <-. cbn.
  apply (IH j' eq_refl). lia.
Qed.

Lemma pfc_split db cites pre ck p post :
  parents_follow_children db cites -> db = pre ++ (ck, Some p) :: post ->
  existsb (keyb ck) (map fst pre) = false -> cited_by cites ck = true ->
  cited_by cites p = true \/ existsb (keyb p) (map fst (pre ++ [(ck, Some p)])) = false.
Proof.
  intros Hpfc -> Hpre Hc.
  assert (Hn : nth_error (pre ++ (ck, Some p) :: post) (length pre) = Some (ck, Some p)).
  { rewrite nth_error_app2 by lia. now rewrite Nat.sub_diag. }
  pose proof (first_index_here ck pre (ck, Some p) post Hpre (keyb_refl ck)) as Hfi.
  destruct (first_index p (pre ++ (ck, Some p) :: post)) as [j|] eqn:Hj.
  - destruct (Hpfc _ _ _ _ Hn Hfi Hc Hj) as [H|H]; [now left|right].
    assert (Heq : forall x : entry, pre ++ x :: post = (pre ++ [x]) ++ post) by (intros; rewrite <- app_assoc; reflexivity).
    rewrite Heq in Hj. apply (first_index_after _ _ _ _ Hj). rewrite app_length. cbn. lia.
  - right. apply first_index_none in Hj. rewrite map_app, existsb_app in Hj |- *. cbn in *.
    apply orb_false_elim in Hj as [H1 H2]. apply orb_false_elim in H2 as [H2 _]. now rewrite H1, H2.
Qed.

(* ---- look-ups in the filtered and in the whole reading *)
Lemma found_all db q : found_like q (bd_entries (read_db None db)) (db_find q db).
Proof. rewrite read_db_run. apply run_next; reflexivity. Qed.

Lemma want_init_cited cites q : existsb (keyb q) cites = true -> want_entry (bd_init (Some cites)) q = true.
Proof. intros H. unfold want_entry. cbn. now rewrite cis_mem_of_list, H. Qed.

Lemma found_cited db cites q : existsb (keyb q) cites = true ->
  found_like q (bd_entries (read_db (Some cites) db)) (db_find q db).
Proof. intros H. rewrite read_db_run. apply run_next; [now apply want_init_cited|reflexivity]. Qed.

Lemma found_parent db cites c ck p :
  existsb (keyb c) cites = true -> db_find c db = Some (ck, Some p) ->
  (forall pre post, db = pre ++ (ck, Some p) :: post -> existsb (keyb ck) (map fst pre) = false ->
     existsb (keyb p) (map fst (pre ++ [(ck, Some p)])) = false) ->
  found_like p (bd_entries (read_db (Some cites) db)) (db_find p db).
Proof.
  intros Hc Hf Hord. destruct (db_find_split _ _ _ Hf) as (pre & post & -> & Hpre & Hk). cbn [fst] in Hk.
  assert (Hpre' : existsb (keyb ck) (map fst pre) = false).
  { rewrite keyb_sym in Hk. now rewrite (existsb_keyb_congr _ _ _ Hk). }
  specialize (Hord pre post eq_refl Hpre').
  rewrite read_db_run.
  assert (Heq : forall x : entry, pre ++ x :: post = (pre ++ [x]) ++ post) by (intros; rewrite <- app_assoc; reflexivity).
  rewrite Heq, db_find_skip by exact Hord. rewrite run_app.
  apply run_next.
  - rewrite run_app. cbn [run fold_left]. fold (run (bd_init (Some cites)) pre).
    apply want_crossref.
    + apply want_entry_run. rewrite <- (want_entry_congr _ c ck Hk). now apply want_init_cited.
    + apply run_absent; [reflexivity|exact Hpre'].
  - apply run_absent; [reflexivity|exact Hord].
Qed.

Lemma found_like_mem q E1 E2 o : found_like q E1 o -> found_like q E2 o -> ed_mem q E1 = ed_mem q E2.
Proof.
  destruct o as [e|]; cbn; [|congruence].
  intros (k1 & H1 & _) (k2 & H2 & _). now rewrite !ed_mem_get, H1, H2.
Qed.
Lemma found_like_none q E : found_like q E None -> ed_get q E = None.
Proof. cbn. rewrite ed_mem_get. destruct (ed_get q E); [discriminate|reflexivity]. Qed.

(* a cited key and its parent are looked up alike in both readings *)
Lemma crel_cited db cites c :
  (forall ck p, db_find c db = Some (ck, Some p) ->
     found_like p (bd_entries (read_db (Some cites) db)) (db_find p db)) ->
  existsb (keyb c) cites = true ->
  crel (bd_entries (read_db (Some cites) db)) (bd_entries (read_db None db)) c c /\
  ed_mem c (bd_entries (read_db (Some cites) db)) = ed_mem c (bd_entries (read_db None db)).
Proof.
  intros Hpar Hc.
  pose proof (found_cited db cites c Hc) as Hf. pose proof (found_all db c) as Ha.
  split; [|exact (found_like_mem _ _ _ _ Hf Ha)].
  split; [apply keyb_refl|].
  unfold parent_of. destruct (db_find c db) as [[ck cr]|] eqn:Hdb.
  - destruct Hf as (k1 & -> & _), Ha as (k2 & -> & _). cbn [snd].
    destruct cr as [p|]; [|exact I].
    pose proof (Hpar ck p eq_refl) as Hpf. pose proof (found_all db p) as Hpa.
    destruct (db_find p db) as [e'|].
    + destruct Hpf as (k1' & -> & Hk1), Hpa as (k2' & -> & Hk2). cbn.
      rewrite keyb_sym in Hk2. exact (keyb_trans _ _ _ Hk1 Hk2).
    + rewrite (found_like_none _ _ Hpf), (found_like_none _ _ Hpa). exact I.
  - rewrite (found_like_none _ _ Hf), (found_like_none _ _ Ha). exact I.
Qed.

(* ---- '*' among the citations: filtered reading keeps everything, under the cited spellings *)
Lemma ed_mem_ent_eq E1 E2 a b : Forall2 ent_eq E1 E2 -> keyb a b = true -> ed_mem a E1 = ed_mem b E2.
Proof.
  intros H Hab. unfold ed_mem. induction H as [|e1 e2 E1 E2 [Hk _] _ IH]; cbn; [reflexivity|].
  rewrite IH, (keyb_congr_l _ _ (fst e1) Hab), (keyb_congr_r _ _ b Hk). reflexivity.
Qed.
Lemma ed_get_ent_eq E1 E2 a b : Forall2 ent_eq E1 E2 -> keyb a b = true ->
  match ed_get a E1, ed_get b E2 with
  | Some e1, Some e2 => ent_eq e1 e2
  | None, None => True
  | _, _ => False
  end.
Proof.
  intros H Hab. unfold ed_get. induction H as [|e1 e2 E1 E2 He _ IH]; cbn; [exact I|].
  destruct He as [Hk Hs].
  rewrite (keyb_congr_l _ _ (fst e1) Hab), (keyb_congr_r _ _ b Hk).
  destruct (keyb b (fst e2)); [split; assumption|exact IH].
Qed.
Lemma parent_of_ent_eq E1 E2 a b : Forall2 ent_eq E1 E2 -> keyb a b = true -> orel (parent_of E1 a) (parent_of E2 b).
Proof.
  intros H Hab. unfold parent_of. pose proof (ed_get_ent_eq E1 E2 a b H Hab) as G.
  destruct (ed_get a E1) as [[k1 cr1]|], (ed_get b E2) as [[k2 cr2]|]; try contradiction; [|exact I].
  destruct G as [_ G]. cbn in G. subst cr2. destruct cr1 as [p|]; [|exact I].
  pose proof (ed_get_ent_eq E1 E2 p p H (keyb_refl p)) as G.
  destruct (ed_get p E1) as [[k1' c1]|], (ed_get p E2) as [[k2' c2]|]; try contradiction; [|exact I].
  exact (proj1 G).
Qed.

Lemma star_reading : forall db bdF bdA,
  bd_wanted bdA = None -> (exists w, bd_wanted bdF = Some w /\ cis_mem star w = true) ->
  Forall2 ent_eq (bd_entries bdF) (bd_entries bdA) ->
  Forall2 ent_eq (bd_entries (run bdF db)) (bd_entries (run bdA db)).
Proof.
  induction db as [|[k cr] db IH]; intros bdF bdA HA (w & HF & Hstar) HE; cbn [run fold_left]; [exact HE|].
  assert (HwF : want_entry bdF k = true) by (unfold want_entry; rewrite HF, Hstar; apply orb_true_r).
  assert (HwA : want_entry bdA k = true) by (unfold want_entry; now rewrite HA).
  pose proof (ed_mem_ent_eq _ _ k k HE (keyb_refl k)) as Hm.
  destruct (ed_mem k (bd_entries bdA)) eqn:HmA.
  - destruct (add_entry_skip bdF k cr (or_intror Hm)) as (E1 & W1 & _).
    destruct (add_entry_skip bdA k cr (or_intror HmA)) as (E2 & W2 & _).
    apply IH; [now rewrite W2|exists w; now rewrite W1|now rewrite E1, E2].
  - destruct (add_entry_take bdF k cr HwF Hm) as (E1 & W1 & _).
    destruct (add_entry_take bdA k cr HwA HmA) as (E2 & W2 & _).
    apply IH.
    + rewrite W2. unfold wanted_after. rewrite HA. now destruct cr.
    + rewrite W1. unfold wanted_after. rewrite HF. destruct cr as [c|]; [|now exists w].
      exists (cis_add c w). split; [reflexivity|]. rewrite cis_mem_add, Hstar. apply orb_true_r.
    + rewrite E1, E2. apply Forall2_app; [exact HE|]. constructor; [|constructor]. split; [|reflexivity]. cbn.
      pose proof (canonical_keyb bdA k) as H2. rewrite keyb_sym in H2.
      exact (keyb_trans _ _ _ (canonical_keyb bdF k) H2).
Qed.

Lemma star_entries db cites : existsb (keyb star) cites = true ->
  Forall2 ent_eq (bd_entries (read_db (Some cites) db)) (bd_entries (read_db None db)).
Proof.
  intros H. rewrite !read_db_run. apply star_reading; [reflexivity| |constructor].
  exists (cis_of_list cites). split; [reflexivity|]. now rewrite cis_mem_of_list.
Qed.

Lemma dedup_ci_congr l1 l2 : Forall2 kb l1 l2 -> Forall2 kb (dedup_ci l1) (dedup_ci l2).
Proof.
  induction 1 as [|a b l1 l2 Hab _ IH]; cbn; [constructor|]. constructor; [exact Hab|].
  apply Forall2_filter; [|exact IH]. intros x y Hxy. f_equal.
  rewrite (keyb_congr_l _ _ x Hab). apply keyb_congr_r. exact Hxy.
Qed.
Lemma dedup_ci_in x l : In x (dedup_ci l) -> In x l.
Proof.
  revert x. induction l as [|k l IH]; cbn; intros x H; [exact H|]. destruct H as [H|H]; [now left|].
  right. apply IH. apply filter_In in H. tauto.
Qed.
Lemma ed_keys_ent_eq E1 E2 : Forall2 ent_eq E1 E2 -> Forall2 kb (ed_keys E1) (ed_keys E2).
Proof. induction 1 as [|e1 e2 E1 E2 [H _] _ IH]; cbn; constructor; assumption. Qed.
Lemma Forall2_kb_refl l : Forall2 kb l l.
Proof. induction l; constructor; [apply keyb_refl|assumption]. Qed.

Lemma explicit_congr E1 E2 cites : Forall2 ent_eq E1 E2 -> Forall2 kb (explicit_spec E1 cites) (explicit_spec E2 cites).
Proof.
  intros H. unfold explicit_spec. apply dedup_ci_congr. induction cites as [|c r IH]; cbn; [constructor|].
  apply Forall2_app; [|exact IH]. destruct (str_eqb c star); [now apply ed_keys_ent_eq|apply Forall2_kb_refl].
Qed.

Lemma no_star_flat E cites : existsb (keyb star) cites = false ->
  flat_map (fun c => if str_eqb c star then ed_keys E else [c]) cites = cites.
Proof.
  induction cites as [|c r IH]; cbn [existsb flat_map]; intros H; [reflexivity|]. apply orb_false_elim in H as [H1 H2].
  destruct (str_eqb_spec c star) as [->|_]; [now rewrite keyb_refl in H1|]. cbn [app]. now rewrite IH.
Qed.

Lemma command_read_fst db cites m :
  fst (command_read_raw db cites m) = resolve (bd_entries (read_db (Some cites) db)) cites m.
Proof.
  unfold command_read_raw, resolve. destruct (add_extra _ cites m) as [cs rs]. cbn. apply remove_missing_yields.
Qed.
Lemma select_unfiltered_fst db cites m :
  fst (select_unfiltered db cites m) = resolve (bd_entries (read_db None db)) cites m.
Proof.
  unfold select_unfiltered, resolve. destruct (add_extra _ cites m) as [cs rs]. cbn. apply remove_missing_yields.
Qed.

Theorem filtered_unfiltered db cites m : parents_follow_children db cites ->
  map lower (fst (command_read_raw db cites m)) = map lower (fst (select_unfiltered db cites m)).
Proof.
  intros Hpfc. rewrite command_read_fst, select_unfiltered_fst, !resolve_spec.
  set (Ef := bd_entries (read_db (Some cites) db)). set (Ea := bd_entries (read_db None db)).
  destruct (existsb (keyb star) cites) eqn:Hstar.
  - (* wildcard: everything is read in both modes *)
    pose proof (star_entries db cites Hstar) as HE. fold Ef Ea in HE.
    apply resolve_congr.
    + eapply Forall2_imp; [|exact (explicit_congr Ef Ea cites HE)].
      intros a b Hab. split; [exact Hab|]. now apply parent_of_ent_eq.
    + intros a b [Hab _] _. now apply ed_mem_ent_eq.
  - (* no wildcard: the explicit citations do not depend on the database *)
    unfold explicit_spec. rewrite !no_star_flat by exact Hstar.
    assert (Hrel : forall x, In x (dedup_ci cites) -> crel Ef Ea x x /\ ed_mem x Ef = ed_mem x Ea).
    { intros x Hx. apply dedup_ci_in in Hx.
      assert (Hc : existsb (keyb x) cites = true) by (apply existsb_exists; exists x; split; [exact Hx|apply keyb_refl]).
      apply crel_cited; [|exact Hc]. intros ck p Hf.
      destruct (existsb (keyb p) cites) eqn:Hp; [now apply found_cited|].
      apply (found_parent db cites x ck p Hc Hf). intros pre post Hdb Hpre.
      destruct (db_find_split _ _ _ Hf) as (_ & _ & _ & _ & Hk). cbn [fst] in Hk.
      assert (Hck : cited_by cites ck = true).
      { unfold cited_by. rewrite keyb_sym in Hk. now rewrite (existsb_keyb_congr _ _ _ Hk), Hc. }
      destruct (pfc_split db cites pre ck p post Hpfc Hdb Hpre Hck) as [H|H]; [|exact H].
      unfold cited_by in H. rewrite Hp, Hstar in H. discriminate. }
    apply resolve_congr.
    + apply Forall2_diag. intros x Hx. exact (proj1 (Hrel x Hx)).
    + intros a b [Hab _] Hin. rewrite (proj2 (Hrel a Hin)). now apply ed_mem_congr.
Qed.
