(* Proofs/ErrorsReaders.v -- property C16 connected to the validated reader models of C10 (.bib)
   and C20 (.aux): (1) every error those models report is one of the `constructed` error objects
   of Model/Errors.v, so it renders (no checked premise); (2) the readers ARE computations in the
   sense of Model/Errors.v: their behaviour in the three modes is that of `run_comp` on the
   computation that reports their problems in order -- mode_independence instantiated.
   The reader models and their theorems (Props/C10.v, Props/C20.v) are used as they are. *)
From Pybtex Require Import Base.Prelude Base.PyChar Base.PyStr Model.Errors Proofs.Errors.
From Pybtex Require Model.Scanner Model.BibParser Model.Aux Spec.Aux Props.C10 Props.C20 Model.BstParser Proofs.ErrorsBst.

(* ---------------------------------------------------------------------------------- *)
(* generalities *)

Lemma mode_independence_agree c g ss :
  g_cap g = None ->
  Forall2 (fun e s => format_error e k_warning = Ok s) (reports c) ss ->
  modes_agree g c ss.
Proof. exact (mode_independence c g ss). Qed.

Lemma constructed_renderable p l :
  Forall constructed l -> exists ss, Forall2 (fun e s => format_error e p = Ok s) l ss.
Proof.
  induction 1 as [|e l He _ [ss IH]].
  - exists []. constructor.
  - destruct (format_error_total_by_class e p He) as (s & _ & Hs & _).
    exists (s :: ss). now constructor.
Qed.

(* problems that are constructed errors need no renderability hypothesis *)
Lemma modes_agree_constructed c g :
  g_cap g = None -> Forall constructed (reports c) ->
  exists ss, Forall2 (fun e s => format_error e k_warning = Ok s) (reports c) ss /\ modes_agree g c ss.
Proof.
  intros Hc Hall. destruct (constructed_renderable k_warning _ Hall) as [ss Hss].
  exists ss. split; [exact Hss|]. now apply mode_independence_agree.
Qed.

Lemma reports_comp_of ps last : reports (comp_of ps last) = ps ++ reports last.
Proof. unfold comp_of. induction ps as [|e ps IH]; cbn [fold_right reports app]; [reflexivity|now rewrite IH]. Qed.

Lemma ending_comp_of ps last : ending (comp_of ps last) = ending last.
Proof. unfold comp_of. induction ps as [|e ps IH]; cbn [fold_right ending]; auto. Qed.

(* ---------------------------------------------------------------------------------- *)
(* the .bib reader (Model/BibParser.v, C10) *)
Module Bib.
Import Model.Scanner Model.BibParser.

(* the error object behind a reported .bib problem: class by class, as the raise sites build it
   (bibtex.py): PrematureEOF(self) / TokenRequired(description, self) /
   PybtexSyntaxError(message, self) / UndefinedMacro(name, self) with the parser's file name, line
   and position; DuplicateField, BibliographyDataError, InvalidNameString without file name.
   The message text is not part of the C10 model: [msg] is arbitrary. *)
Definition to_err (text : str) (fn : pfname) (msg : BibParser.err -> str) (e : BibParser.err) : Errors.err :=
  let p := mkScanner text fn (BibParser.e_line e) (Z.of_nat (BibParser.e_pos e)) in
  if (BibParser.e_cls e =? E_EOF)%N then new_premature_eof 0 p
  else if (BibParser.e_cls e =? E_TOKEN)%N
       then new_token_required_bib 0 (msg e) p (Some (Z.of_nat (BibParser.e_start e)))
  else if (BibParser.e_cls e =? E_UNDEF)%N then new_syntax_error 0 (s2l "undefined string") (msg e) p
  else if (BibParser.e_cls e <=? 5)%N then new_syntax_error 0 k_syntax_error (msg e) p
  else new_pybtex_error 0 (msg e) FnNone.

(* (1) every problem the .bib reader reports, in any mode, is a constructed error: the state a
   TokenRequired carries satisfies bib_state_ok (C10's errors_located) *)
Lemma errors_constructed m text d s fn msg e :
  parse_bib m text = Ret d s -> In e (p_errs s) -> constructed (to_err text fn msg e).
Proof.
  intros Hp Hin. pose proof (Props.C10.errors_located m text d s Hp e Hin) as Hl.
  unfold to_err.
  destruct (BibParser.e_cls e =? E_EOF)%N eqn:E1; [apply C_syntax|].
  destruct (BibParser.e_cls e =? E_TOKEN)%N eqn:E2.
  - apply N.eqb_eq in E2. rewrite E2 in Hl. cbn in Hl. destruct Hl as (_ & [H1 H2] & _).
    apply C_token_bib. exists (Z.of_nat (BibParser.e_start e)).
    cbn [Errors.sc_pos Errors.sc_text]. repeat split; lia.
  - destruct (BibParser.e_cls e =? E_UNDEF)%N; [apply C_syntax|].
    destruct (BibParser.e_cls e <=? 5)%N; [apply C_syntax|].
    apply C_plain. discriminate.
Qed.

Lemma all_constructed m text d s fn msg :
  parse_bib m text = Ret d s -> Forall constructed (map (to_err text fn msg) (p_errs s)).
Proof.
  intros Hp. apply Forall_forall. intros x Hx. apply in_map_iff in Hx as (e & <- & He).
  eapply errors_constructed; eauto.
Qed.

(* (2) the reader is a computation: with (d, s) the result of capture mode and
   c = "report the problems of s in order, then return",
   - non-strict reading returns the same database and reports the same problems (C10),
   - strict reading returns the same if there is no problem and otherwise raises the first one (C10),
   - and these are exactly the behaviours of c under the channel model: modes_agree *)
Lemma reader_modes text d s fn msg g :
  g_cap g = None -> parse_bib Capture text = Ret d s ->
  let ps := map (to_err text fn msg) (p_errs s) in
  let c := comp_of ps Done in
  reports c = ps /\ ending c = Returned /\
  parse_bib NonStrict text = Ret d s /\
  (p_errs s = [] -> parse_bib Strict text = Ret d s) /\
  (forall e rest, p_errs s = e :: rest ->
     parse_bib Strict text = Fatal (FErr (BibParser.e_cls e) (BibParser.e_line e))) /\
  exists ss, Forall2 (fun e s => format_error e k_warning = Ok s) ps ss /\ modes_agree g c ss.
Proof.
  intros Hg Hp ps c.
  assert (Hr : reports c = ps) by (unfold c; rewrite reports_comp_of; cbn; now rewrite app_nil_r).
  split; [exact Hr|]. split; [unfold c; now rewrite ending_comp_of|].
  split; [now rewrite Props.C10.capture_equals_nonstrict|].
  destruct (Props.C10.strict_raises_first text) as (H1 & H2 & _ & H4).
  split; [intros He; now apply (H1 d s)|]. split.
  - intros e rest He.
    destruct (H4 d s Hp) as (cl & l & Hs); [rewrite He; discriminate|].
    destruct (H2 cl l d s Hs Hp) as (e' & rest' & He' & Hc & Hl).
    rewrite He in He'. injection He' as <- <-. now rewrite Hs, Hc, Hl.
  - assert (Hall : Forall constructed (reports c)) by (rewrite Hr; now apply (all_constructed Capture text d s)).
    destruct (modes_agree_constructed c g Hg Hall) as (ss & Hss & Hm).
    exists ss. split; [now rewrite <- Hr|exact Hm].
Qed.
End Bib.

(* ---------------------------------------------------------------------------------- *)
(* the .aux reader (Model/Aux.v, C20) *)
Module AuxR.
Import Model.Aux Spec.Aux.

(* AuxDataError(message, context) with a copy of the context; EOpen is the plain PybtexError of
   io.py (no file name).  The message text is [msg] of the kind (arbitrary: C20 keeps the kind
   and its arguments, not the wording). *)
Definition to_err (msg : ekind -> str) (e : Aux.err) : Errors.err :=
  match Aux.e_kind e, Aux.e_ctx e with
  | EOpen _, _ | _, None => new_pybtex_error 0 (msg (Aux.e_kind e)) FnNone
  | _, Some c => new_aux_error 0 (msg (Aux.e_kind e))
                   (mkAuxctx (PStr (c_file c)) (option_map Z.of_nat (c_lineno c)) (c_line c))
  end.

(* (1) every .aux problem -- reported or raised -- is a constructed error; nothing to check *)
Lemma err_constructed msg e : constructed (to_err msg e).
Proof.
  unfold to_err. destruct (Aux.e_kind e); destruct (Aux.e_ctx e);
    first [apply C_aux | apply C_plain; discriminate].
Qed.

Definition last_of (r : outcome aux) (msg : ekind -> str) : comp :=
  match r with
  | Ret _ => Done
  | Raise e _ => Fatal (to_err msg e)
  | _ => Foreign
  end.
Definition errs_of (r : outcome aux) : list Aux.err :=
  match r with Ret a | Raise _ a => a_errs a | _ => [] end.

Lemma reports_last_of r msg : Errors.reports (last_of r msg) = [].
Proof. destruct r; reflexivity. Qed.

(* (2) the reader is a computation: with r the outcome of capture mode and
   c = "report the problems of r in order, then return / raise the fatal error",
   non-strict reading is the same reading (C20 lenient_is_capture), strict reading raises the
   first problem or, if there is none, reads the same (C20 strict_raises_first, strict_agrees),
   and c behaves accordingly under the channel model *)
Lemma reader_modes fuel fs top msg g :
  g_cap g = None ->
  let r := parse_aux fuel fs Capture top in
  let ps := map (to_err msg) (errs_of r) in
  let c := comp_of ps (last_of r msg) in
  Errors.reports c = ps /\
  parse_aux fuel fs Lenient top = r /\
  (forall e rest, errs_of r = e :: rest -> r <> CrashO -> r <> NoFuel ->
     exists a, parse_aux fuel fs Strict top = Raise e a) /\
  (errs_of r = [] -> r <> CrashO -> r <> NoFuel -> same_reading (parse_aux fuel fs Strict top) r) /\
  exists ss, Forall2 (fun e s => format_error e k_warning = Ok s) ps ss /\ modes_agree g c ss.
Proof.
  intros Hg r ps c.
  assert (Hr : Errors.reports c = ps).
  { unfold c. rewrite reports_comp_of, reports_last_of. apply app_nil_r. }
  split; [exact Hr|]. split; [apply Props.C20.lenient_is_capture|].
  assert (Hspec : r <> CrashO -> r <> NoFuel -> errs_of r = Spec.Aux.reports false false [] (doc_visits fuel fs top)).
  { intros H1 H2. pose proof (Props.C20.reported_errors_spec fuel fs Capture top ltac:(discriminate)) as H.
    fold r in H. revert H H1 H2. generalize r. intros r0 H H1 H2. destruct r0; cbn; congruence. }
  split; [|split].
  - intros e rest He H1 H2. apply (Props.C20.strict_raises_first fuel fs top e rest).
    now rewrite <- Hspec.
  - intros He H1 H2. apply (Props.C20.strict_agrees fuel fs Capture top). now rewrite <- Hspec.
  - assert (Hall : Forall constructed (Errors.reports c)).
    { rewrite Hr. apply Forall_forall. intros x Hx. apply in_map_iff in Hx as (e & <- & _). apply err_constructed. }
    destruct (modes_agree_constructed c g Hg Hall) as (ss & Hss & Hm).
    exists ss. split; [now rewrite <- Hr|exact Hm].
Qed.

(* the fatal error that ends a reading (no \bibdata / \bibstyle, unopenable file) renders too *)
Lemma fatal_renders msg e p : exists s, format_error (to_err msg e) p = Ok s.
Proof.
  destruct (format_error_total_by_class _ p (err_constructed msg e)) as (s & _ & H & _). eauto.
Qed.
End AuxR.

(* ---------------------------------------------------------------------------------- *)
(* the .bst parser (Model/BstParser.v, C15): it raises PrematureEOF(self) or
   TokenRequired(description, self) directly (fatal in every mode: no report_error) *)
Module BstR.
Import Model.BstParser.

(* the error object behind PyErr c l of the parser run on [text]; description and position are not
   part of the C15 model: arbitrary *)
Definition to_err (text : str) (fn : pfname) (desc : str) (pos : Z) (c : N) (l : Z) : Errors.err :=
  let p := mkScanner text fn l pos in
  if (c =? cls_token_required)%N then new_token_required 0 desc p else new_premature_eof 0 p.

(* (1) every error the .bst parser raises, on any text, is a constructed error: the line of a
   TokenRequired names a line of the text (Proofs/ErrorsBst.v), PrematureEOF has no context *)
Lemma error_constructed text fn desc pos c l :
  parse_text text = PyErr c l -> constructed (to_err text fn desc pos c l).
Proof.
  intros H. unfold to_err. destruct (N.eqb_spec c cls_token_required) as [->|_]; [|apply C_syntax].
  apply C_token_line. cbn [Errors.sc_lineno Errors.sc_text]. now apply ErrorsBst.bst_token_required_line.
Qed.

Lemma error_renders text fn desc pos c l p :
  parse_text text = PyErr c l ->
  exists s, format_error (to_err text fn desc pos c l) p = Ok s
            /\ infix (e_msg (to_err text fn desc pos c l)) s.
Proof.
  intros H. destruct (format_error_total_by_class _ p (error_constructed text fn desc pos c l H)) as (s & _ & H1 & _ & _ & H4).
  eauto.
Qed.
End BstR.
