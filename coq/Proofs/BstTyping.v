(* Proofs/BstTyping.v -- programs accepted by the type checker never raise a foreign Python exception *)
From Pybtex Require Import Base.Prelude Base.PyChar Base.PyStr Model.BibtexStr Model.Wrap Model.Bst Proofs.Bst.
From Pybtex Require Import Spec.BstTyping.
Local Open Scope Z_scope.

(* ---- the string primitives never crash (they return a value, a BibTeX error, or run out of fuel) *)
Lemma bind_no_crash {A B} (r : res A) (k : A -> res B) :
  r <> Crash -> (forall a, k a <> Crash) -> bind r k <> Crash.
Proof. destruct r; cbn; auto; discriminate. Qed.

Lemma scan_go_no_crash s : forall l sp, scan_go s l sp <> Crash.
Proof.
  induction s as [|c s IH]; intros l sp; cbn [scan_go].
  - destruct sp as [[? ?]|]; discriminate.
  - repeat match goal with
    | |- (match ?x with Some _ => _ | None => _ end) <> _ => destruct x as [[? ?]|]
    | |- (if ?b then _ else _) <> _ => destruct b
    | |- (match ?d with O => _ | S _ => _ end) <> _ => destruct d
    | |- bind _ _ <> _ => apply bind_no_crash; [apply IH|intros; discriminate]
    | |- scan_go _ _ _ <> _ => apply IH
    | |- _ => discriminate
    end.
Qed.
Lemma scan_no_crash s : scan s <> Crash.
Proof. apply scan_go_no_crash. Qed.

Ltac via_scan s := unfold bibtex_len, bibtex_purify, change_case, bibtex_width;
  let E := fresh in pose proof (scan_no_crash s) as E; destruct (scan s); cbn; congruence.
Lemma bibtex_len_no_crash s : bibtex_len s <> Crash. Proof. via_scan s. Qed.
Lemma bibtex_purify_no_crash s : bibtex_purify s <> Crash. Proof. via_scan s. Qed.
Lemma change_case_no_crash s m : change_case s m <> Crash. Proof. via_scan s. Qed.
Lemma bibtex_width_no_crash cw s : bibtex_width cw s <> Crash. Proof. via_scan s. Qed.
Lemma bibtex_prefix_no_crash s n : bibtex_prefix s n <> Crash.
Proof.
  unfold bibtex_prefix. destruct (0 <? n); [|discriminate].
  pose proof (scan_no_crash s). destruct (scan s); cbn; congruence.
Qed.
Lemma split_name_list_no_crash s : split_name_list s <> Crash.
Proof. unfold split_name_list, split_tex_string_gen. destruct (split_loop _ _ _ _ _); discriminate. Qed.
Lemma wrap_no_crash s w i : wrap s w i <> Crash.
Proof. unfold wrap. destruct (wrap_lines s w i); discriminate. Qed.

(* ---- equality tests are sound *)
Fixpoint isize (i : instr) : nat :=
  match i with
  | IFun b => S ((fix go (l : list instr) : nat := match l with [] => O | x :: r => (isize x + go r)%nat end) b)
  | _ => 1%nat
  end.
Fixpoint lsize (l : list instr) : nat := match l with [] => O | x :: r => (isize x + lsize r)%nat end.
Lemma isize_fun b : isize (IFun b) = S (lsize b).
Proof. reflexivity. Qed.
Lemma isize_pos i : (1 <= isize i)%nat.
Proof. destruct i; cbn; lia. Qed.

Lemma instr_eqb_fun p q : instr_eqb (IFun p) (IFun q) = instrs_eqb p q.
Proof. reflexivity. Qed.

Lemma instr_eqb_eq_n n : forall a, (isize a <= n)%nat -> forall b, instr_eqb a b = true -> a = b.
Proof.
  induction n as [|n IH]; intros a Ha b H.
  - pose proof (isize_pos a). lia.
  - destruct a, b; try discriminate H.
    + cbn in H. apply Z.eqb_eq in H. congruence.
    + cbn in H. destruct (str_eqb_spec s s0); congruence.
    + cbn in H. destruct (str_eqb_spec name name0); congruence.
    + cbn in H. destruct (str_eqb_spec name name0); congruence.
    + rewrite instr_eqb_fun in H. rewrite isize_fun in Ha. f_equal.
      assert (L : (lsize body <= n)%nat) by lia. clear Ha.
      revert body0 H L. induction body as [|x p IHp]; intros [|y q] H L; try discriminate H; [reflexivity|].
      cbn in H, L. apply andb_prop in H as [H1 H2].
      f_equal; [apply IH; [lia|exact H1]|apply IHp; [exact H2|lia]].
Qed.
Lemma instrs_eqb_eq p : forall q, instrs_eqb p q = true -> p = q.
Proof.
  induction p as [|x p IH]; intros [|y q] H; try discriminate H; [reflexivity|].
  cbn in H. apply andb_prop in H as [H1 H2]. f_equal; [|apply IH; exact H2].
  eapply instr_eqb_eq_n; [apply Nat.le_refl|exact H1].
Qed.
Lemma aval_eqb_eq a b : aval_eqb a b = true -> a = b.
Proof.
  destruct a, b; cbn; try discriminate; intros H; try reflexivity.
  - apply Z.eqb_eq in H. congruence.
  - f_equal. apply instrs_eqb_eq. exact H.
  - destruct (str_eqb_spec name name0); congruence.
Qed.
Lemma stack_eqb_eq s : forall t, stack_eqb s t = true -> map weaken s = map weaken t.
Proof.
  induction s as [|a s IH]; intros [|b t] H; try discriminate H; [reflexivity|].
  cbn in H. apply andb_prop in H as [H1 H2]. cbn. f_equal; [apply aval_eqb_eq; exact H1|apply IH; exact H2].
Qed.

(* ---------------------------------------------------------------------------------- *)
Definition strlike (v : value) : bool := match v with VStr _ | VMissing _ => true | _ => false end.
Lemma strlike_as_str v : strlike v = true -> exists s, as_str v = Some s.
Proof. destruct v; cbn; try discriminate; eauto. Qed.

Inductive vabs : value -> aval -> Prop :=
| va_int z : vabs (VInt z) AInt
| va_intk z : vabs (VInt z) (AIntK z)
| va_str v : strlike v = true -> vabs v AStr
| va_fn b : vabs (VFun b) (AFn b)
| va_ref n : vabs (VRef n) (ARef n).
Definition sabs (l : list value) (s : list aval) : Prop := Forall2 vabs l s.

Lemma vabs_weaken v a : vabs v a -> vabs v (weaken a).
Proof. destruct 1; cbn; constructor; assumption. Qed.
Lemma sabs_weaken l s : sabs l s -> sabs l (map weaken s).
Proof. induction 1; cbn; constructor; [apply vabs_weaken|]; assumption. Qed.
Lemma weaken_idem a : weaken (weaken a) = weaken a.
Proof. destruct a; reflexivity. Qed.
Lemma sabs_eqb l s t : sabs l s -> stack_eqb s t = true -> sabs l (map weaken t).
Proof. intros H E. rewrite <- (stack_eqb_eq _ _ E). apply sabs_weaken. exact H. Qed.
Lemma vabs_int v a : vabs v a -> is_aint a = true -> exists z, v = VInt z.
Proof. destruct 1; cbn; try discriminate; eauto. Qed.
Lemma vabs_str v a : vabs v a -> is_astr a = true -> strlike v = true.
Proof. destruct 1; cbn; try discriminate; auto. Qed.

Lemma sabs_cons_inv l a s : sabs l (a :: s) -> exists v l', l = v :: l' /\ vabs v a /\ sabs l' s.
Proof. intros H. inversion H; subst. eauto. Qed.

Definition safe (r : res state) (Q : state -> Prop) : Prop :=
  match r with Ok s => Q s | Crash => False | _ => True end.
Lemma safe_bind r k Q1 Q2 : safe r Q1 -> (forall s, Q1 s -> safe (k s) Q2) -> safe (bind r k) Q2.
Proof. destruct r; cbn; auto. Qed.
Lemma safe_weaken r (Q1 Q2 : state -> Prop) : safe r Q1 -> (forall s, Q1 s -> Q2 s) -> safe r Q2.
Proof. destruct r; cbn; auto. Qed.
Lemma safe_res {A} (r : res A) (k : A -> res state) Q :
  r <> Crash -> (forall a, r = Ok a -> safe (k a) Q) -> safe (bind r k) Q.
Proof. destruct r; cbn; auto. Qed.

Section Soundness.
  Variable fmt_name : str -> str -> res str.
  Variable cw : char -> Z.
  Hypothesis fmt_no_crash : forall n f, fmt_name n f <> Crash.
  Variable G : list (str * obj).
  Variable ent : bool.
  Variable tys : list str.
  Hypothesis HG : ctx_ok G = true.

  Notation exec := (exec fmt_name cw).
  Notation while_loop := (while_loop fmt_name cw).
  Notation step := (step fmt_name cw).
  Notation exec_obj := (exec_obj fmt_name cw).
  Notation builtin_step := (builtin_step fmt_name cw).
  Notation check := (check G ent tys).

  Definition same_kind (o o' : obj) : Prop :=
    match o with
    | OInt _ => exists z, o' = OInt (VInt z)
    | OStr _ => exists v, o' = OStr v /\ strlike v = true
    | _ => o' = o
    end.

  Record state_ok (st : state) : Prop := {
    ok_vars : forall n, match alookup str_eqb n G with
                        | Some o => exists o', alookup str_eqb n (st_vars st) = Some o' /\ same_kind o o'
                        | None => alookup str_eqb n (st_vars st) = None
                        end;
    ok_frames : forall key name v, alookup str_eqb name (frame st key) = Some v ->
                  (forall n, alookup str_eqb n G = Some (OEInt name) -> exists z, v = VInt z) /\
                  (forall n, alookup str_eqb n G = Some (OEStr name) -> strlike v = true);
    ok_buf : Forall (fun v => strlike v = true) (st_buf st);
    ok_ent : ent = true -> (exists key e, st_cur st = Some (key, e) /\ In (e_type e) tys) /\ (exists d, st_db st = Some d)
  }.

  Definition post (s : list aval) (st : state) : Prop := state_ok st /\ sabs (st_stack st) s.

  Lemma ok_set_stack st l : state_ok st -> state_ok (set_stack st l).
  Proof. intros [A B C D]. constructor; assumption. Qed.
  Lemma ok_add_print st t : state_ok st -> state_ok (add_print st t).
  Proof. intros [A B C D]. constructor; assumption. Qed.
  Lemma ok_add_warn st w : state_ok st -> state_ok (add_warn st w).
  Proof. intros [A B C D]. constructor; assumption. Qed.
  Lemma post_push st s v a : state_ok st -> sabs (st_stack st) s -> vabs v a -> post (a :: s) (push v st).
  Proof. intros H1 H2 H3. split; [apply ok_set_stack; exact H1|]. constructor; assumption. Qed.
  Lemma post_set st s l : state_ok st -> sabs l s -> post s (set_stack st l).
  Proof. intros H1 H2. split; [apply ok_set_stack; exact H1|exact H2]. Qed.

  (* no entry-variable name is both an integer and a string *)
  Lemma alookup_in {V} n (l : list (str * V)) v : alookup str_eqb n l = Some v -> exists k, In (k, v) l.
  Proof.
    induction l as [|[k w] l IH]; cbn; [discriminate|].
    destruct (str_eqb n k); intros H.
    - inversion H; subst. eauto.
    - destruct (IH H) as [k' Hk]. eauto.
  Qed.
  Lemma no_clash n1 n2 name : alookup str_eqb n1 G = Some (OEInt name) ->
    alookup str_eqb n2 G = Some (OEStr name) -> False.
  Proof.
    intros H1 H2. apply alookup_in in H1 as [k1 I1]. apply alookup_in in H2 as [k2 I2].
    unfold ctx_ok in HG. apply andb_prop in HG as [_ C]. apply negb_true_iff in C.
    assert (X : evar_clash G = true); [|congruence].
    unfold evar_clash. apply existsb_exists. exists (k1, OEInt name). split; [exact I1|]. cbn.
    apply existsb_exists. exists (k2, OEStr name). split; [exact I2|]. cbn. apply str_eqb_refl.
  Qed.

  Lemma G_lookup st n o : state_ok st -> alookup str_eqb n G = Some o ->
    exists o', alookup str_eqb n (st_vars st) = Some o' /\ same_kind o o'.
  Proof. intros H E. pose proof (ok_vars st H n) as X. rewrite E in X. exact X. Qed.

  (* assignments keep the state well-formed *)
  Lemma ok_assign_global st n o o' : state_ok st -> alookup str_eqb n G = Some o -> same_kind o o' ->
    state_ok (set_vars st (aset str_eqb n o' (st_vars st))).
  Proof.
    intros [A B C D] HGn K. constructor; try assumption. intros n'. cbn.
    destruct (str_eqb_spec n' n) as [->|N].
    - rewrite HGn. exists o'. split; [apply alookup_aset_same|exact K].
    - rewrite alookup_aset_other by exact N. apply A.
  Qed.

  Lemma ok_assign_entry st key name v n0 :
    state_ok st ->
    ((alookup str_eqb n0 G = Some (OEInt name) /\ exists z, v = VInt z) \/
     (alookup str_eqb n0 G = Some (OEStr name) /\ strlike v = true)) ->
    state_ok (set_evars st (aset str_eqb key (aset str_eqb name v (frame st key)) (st_evars st))).
  Proof.
    intros [A B C D] K. constructor; try assumption. intros key2 name2 v2.
    destruct (str_eqb_spec key2 key) as [->|N].
    - rewrite frame_aset_same.
      destruct (str_eqb_spec name2 name) as [->|N2].
      + rewrite alookup_aset_same. intros E. inversion E; subst v2. split; intros n Hn.
        * destruct K as [[_ K]|[K _]]; [exact K|]. exfalso. eapply no_clash; eauto.
        * destruct K as [[K _]|[_ K]]; [|exact K]. exfalso. eapply no_clash; eauto.
      + rewrite alookup_aset_other by exact N2. apply B.
    - rewrite frame_aset_other by exact N. apply B.
  Qed.

  (* how the checker treats code popped from the stack *)
  Definition callc (f : nat) (s : list aval) (a : aval) : option (list aval) :=
    match a with
    | AFn body => check f s body
    | ARef n => check f s [IId n]
    | _ => None
    end.

  Definition cidc (f : nat) (s : list aval) (n : str) : option (list aval) := check f s [IId n].

  Definition IHf (f : nat) : Prop :=
    forall s p s', check f s p = Some s' ->
    forall n st, state_ok st -> sabs (st_stack st) s -> safe (exec n st p) (post s').

  Lemma call_sound f m s a s' v st : IHf f -> callc f s a = Some s' -> vabs v a ->
    state_ok st -> sabs (st_stack st) s -> safe (exec_value (exec m) st v) (post s').
  Proof.
    intros IH C V Hok Hs. destruct V; cbn in C; try discriminate; cbn.
    - eapply IH; eauto.
    - eapply IH; eauto.
  Qed.

  Lemma while_typed f pa fa c s1 s2 r' p fv : IHf f ->
    map weaken r' = r' ->
    callc f r' pa = Some (c :: s1) -> is_aint c = true -> stack_eqb s1 r' = true ->
    callc f r' fa = Some s2 -> stack_eqb s2 r' = true -> vabs p pa -> vabs fv fa ->
    forall m st, state_ok st -> sabs (st_stack st) r' -> safe (while_loop m st p fv) (post r').
  Proof.
    intros IH W Cp Ic E1 Cf E2 Vp Vf. induction m as [|m IHm]; intros st Hok Hs; [exact I|].
    rewrite while_unfold.
    eapply safe_bind; [exact (call_sound f m r' pa (c :: s1) p st IH Cp Vp Hok Hs)|].
    intros st1 [Hok1 Hs1]. destruct (sabs_cons_inv _ _ _ Hs1) as (v & l & Es & Hv & Hl).
    rewrite (pop_cons _ _ _ Es). cbn [bind].
    destruct (vabs_int _ _ Hv Ic) as [z ->].
    assert (Hl' : sabs l r') by (rewrite <- W; eapply sabs_eqb; eauto).
    destruct (z <=? 0).
    - cbn. apply post_set; assumption.
    - eapply safe_bind.
      + exact (call_sound f m r' fa s2 fv _ IH Cf Vf (ok_set_stack _ _ Hok1) Hl').
      + intros st3 [Hok3 Hs3]. apply IHm; [exact Hok3|]. rewrite <- W. eapply sabs_eqb; eauto.
  Qed.

  Ltac pop1 Hs v l E V Hs' := destruct (sabs_cons_inv _ _ _ Hs) as (v & l & E & V & Hs').
  Ltac as_int V H := let z := fresh "z" in destruct (vabs_int _ _ V H) as [z ->].
  Ltac as_str V H v := let S := fresh "S" in pose proof (vabs_str _ _ V H) as S; destruct v; try discriminate S.
  Ltac bools := repeat match goal with
    | H : (_ && _)%bool = true |- _ => apply andb_prop in H; destruct H
    end.
  Ltac vfin := unfold of_bool; first [assumption | constructor; first [reflexivity | assumption]].
  Ltac fin := first
    [ exact I
    | apply post_push; [first [assumption | apply ok_set_stack; assumption] | cbn; assumption | vfin]
    | apply post_set; [assumption|]; repeat (first [assumption | constructor; [vfin|]]) ].
  Opaque bibtex_purify bibtex_len change_case bibtex_width bibtex_prefix split_name_list wrap bibtex_substring.

  Ltac cond C := match type of C with (if ?b then _ else _) = Some _ =>
    let B := fresh "B" in destruct b eqn:B; [|discriminate C]; cbn [orb] in B; bools; inversion C; subst; clear C end.
  Ltac viares L := apply safe_res; [apply L|intros; cbn; fin].

  Lemma format_name_call_typed vars names z f :
    strlike names = true -> strlike f = true ->
    format_name_call fmt_name vars names (VInt z) f <> Crash /\
    forall v, format_name_call fmt_name vars names (VInt z) f = Ok v -> exists t, v = VStr t.
  Proof.
    intros Sn Sf. unfold format_name_call.
    assert (Hh : hashable vars names && hashable vars (VInt z) && hashable vars f = true)
      by (destruct names, f; try discriminate; reflexivity).
    rewrite Hh. cbn [negb].
    destruct (strlike_as_str _ Sn) as [ns ->]. destruct (strlike_as_str _ Sf) as [fs ->].
    pose proof (split_name_list_no_crash ns) as N.
    destruct (split_name_list ns) as [parts| | |]; cbn [bind];
      [|split; [discriminate|intros v E; discriminate E]|exfalso; apply N; reflexivity
       |split; [discriminate|intros v E; discriminate E]].
    destruct ((1 <=? z) && (z <=? Z.of_nat (length parts)))%bool; [|unfold err; split; [discriminate|intros v E; discriminate E]].
    pose proof (fmt_no_crash (nth (Z.to_nat (z - 1)) parts []) fs) as F.
    destruct (fmt_name _ fs); cbn [bind];
      [|split; [discriminate|intros v E; discriminate E]|exfalso; apply F; reflexivity
       |split; [discriminate|intros v E; discriminate E]].
    split; [discriminate|]. intros v E. inversion E. eauto.
  Qed.

  Lemma builtin_typed f m b s s1 st : IHf f ->
    check_builtin G ent tys (callc f) (cidc f) b s = Some s1 ->
    state_ok st -> sabs (st_stack st) s ->
    safe (builtin_step (exec m) (while_loop m) b st) (post s1).
  Proof.
    intros IH C Hok Hs.
    destruct b.
    - (* > *) destruct s as [|x [|y r]]; cbn in C; try discriminate C;
    pop1 Hs v1 l1 E1 V1 Hs1; pop1 Hs1 v2 l2 E2 V2 Hs2; subst l1;
    cbn [Bst.builtin_step]; rewrite (pop_cons _ _ _ E1); cbn [bind]; rewrite pop_set_stack; cbn [bind].
      cond C. as_int V1 H. as_int V2 H0. cbn. fin.
    - (* < *) destruct s as [|x [|y r]]; cbn in C; try discriminate C;
    pop1 Hs v1 l1 E1 V1 Hs1; pop1 Hs1 v2 l2 E2 V2 Hs2; subst l1;
    cbn [Bst.builtin_step]; rewrite (pop_cons _ _ _ E1); cbn [bind]; rewrite pop_set_stack; cbn [bind].
      cond C. as_int V1 H. as_int V2 H0. cbn. fin.
    - (* = *) destruct s as [|x [|y r]]; cbn in C; try discriminate C;
    pop1 Hs v1 l1 E1 V1 Hs1; pop1 Hs1 v2 l2 E2 V2 Hs2; subst l1;
    cbn [Bst.builtin_step]; rewrite (pop_cons _ _ _ E1); cbn [bind]; rewrite pop_set_stack; cbn [bind].
      destruct (is_aint x && is_aint y)%bool eqn:B1.
      + bools. as_int V1 H. as_int V2 H0. inversion C; subst. cbn. fin.
      + cond C. as_str V1 H v1; as_str V2 H0 v2; cbn; fin.
    - (* * *) destruct s as [|x [|y r]]; cbn in C; try discriminate C;
    pop1 Hs v1 l1 E1 V1 Hs1; pop1 Hs1 v2 l2 E2 V2 Hs2; subst l1;
    cbn [Bst.builtin_step]; rewrite (pop_cons _ _ _ E1); cbn [bind]; rewrite pop_set_stack; cbn [bind]. cond C. as_str V1 H v1; as_str V2 H0 v2; cbn; fin.
    - (* := *)
      destruct s as [|x [|y r]]; cbn in C; try discriminate C; destruct x as [| | | |nm]; cbn in C; try discriminate C.
      pop1 Hs v1 l1 E1 V1 Hs1. pop1 Hs1 v2 l2 E2 V2 Hs2. subst l1.
      assert (v1 = VRef nm) by (inversion V1; reflexivity). subst v1.
      cbn [Bst.builtin_step]. rewrite (pop_cons _ _ _ E1). cbn [bind]. rewrite pop_set_stack. cbn [bind].
      unfold assign. change (st_vars (set_stack st l2)) with (st_vars st).
      destruct (alookup str_eqb nm G) as [o|] eqn:EG; [|discriminate C].
      destruct (G_lookup st nm o Hok EG) as (o' & Eo & K). rewrite Eo.
      destruct o as [bb|vv|vv|en|en|fn| |fb]; try discriminate C; cbn in K.
      + destruct K as [z0 ->]. cond C. as_int V2 B. cbn.
        split; [|cbn; assumption].
        apply (ok_assign_global (set_stack st l2) nm (OInt vv) (OInt (VInt z)));
          [apply ok_set_stack; exact Hok|exact EG|cbn; eauto].
      + destruct K as (v0 & -> & Sv0). cond C. pose proof (vabs_str _ _ V2 B) as S2.
        destruct (strlike_as_str _ S2) as [t Et]. rewrite Et. cbn.
        split; [|cbn; assumption].
        apply (ok_assign_global (set_stack st l2) nm (OStr vv) (OStr v2));
          [apply ok_set_stack; exact Hok|exact EG|cbn; eauto].
      + subst o'. cond C. as_int V2 H0. destruct (ok_ent st Hok H) as [(key & e & Ec & Ety) _].
        change (st_cur (set_stack st l2)) with (st_cur st). rewrite Ec. cbn.
        split; [|cbn; assumption].
        apply (ok_assign_entry (set_stack st l2) key en (VInt z) nm);
          [apply ok_set_stack; exact Hok|left; eauto].
      + subst o'. cond C. pose proof (vabs_str _ _ V2 H0) as S2.
        destruct (strlike_as_str _ S2) as [t Et]. rewrite Et.
        destruct (ok_ent st Hok H) as [(key & e & Ec & Ety) _].
        change (st_cur (set_stack st l2)) with (st_cur st). rewrite Ec. cbn.
        split; [|cbn; assumption].
        apply (ok_assign_entry (set_stack st l2) key en v2 nm);
          [apply ok_set_stack; exact Hok|right; eauto].
    - (* + *) destruct s as [|x [|y r]]; cbn in C; try discriminate C;
    pop1 Hs v1 l1 E1 V1 Hs1; pop1 Hs1 v2 l2 E2 V2 Hs2; subst l1;
    cbn [Bst.builtin_step]; rewrite (pop_cons _ _ _ E1); cbn [bind]; rewrite pop_set_stack; cbn [bind]. cond C. as_int V1 H. as_int V2 H0. cbn. fin.
    - (* - *) destruct s as [|x [|y r]]; cbn in C; try discriminate C;
    pop1 Hs v1 l1 E1 V1 Hs1; pop1 Hs1 v2 l2 E2 V2 Hs2; subst l1;
    cbn [Bst.builtin_step]; rewrite (pop_cons _ _ _ E1); cbn [bind]; rewrite pop_set_stack; cbn [bind]. cond C. as_int V1 H. as_int V2 H0. cbn. fin.
    - (* add.period$ *) destruct s as [|x r]; cbn in C; try discriminate C;
    pop1 Hs v1 l1 E1 V1 Hs1;
    cbn [Bst.builtin_step]; rewrite (pop_cons _ _ _ E1); cbn [bind]. cond C. as_str V1 B v1; cbn.
      + destruct s; [fin|]. destruct (ends_with_terminator _); fin.
      + fin.
    - (* call.type$ *) cbn in C. cond C. destruct (ok_ent st Hok H) as [(key & e & Ec & Ety) _].
      rewrite forallb_forall in H0. specialize (H0 _ Ety).
      assert (W : map weaken (map weaken s) = map weaken s) by (rewrite map_map; apply map_ext; apply weaken_idem).
      assert (Hs' : sabs (st_stack st) (map weaken s)) by (apply sabs_weaken; exact Hs).
      cbn [Bst.builtin_step]. rewrite Ec. unfold vlookup in *.
      pose proof (ok_vars st Hok (lower (e_type e))) as V1.
      destruct (alookup str_eqb (lower (e_type e)) G) as [o|] eqn:EG.
      + destruct V1 as (o' & Eo & _). rewrite Eo.
        unfold branch_ok, cidc in H0. destruct (check f (map weaken s) [IId (e_type e)]) as [s2|] eqn:Ck; [|discriminate H0].
        eapply safe_weaken; [exact (IH _ _ _ Ck m st Hok Hs')|].
        intros st' [P1 P2]. split; [exact P1|]. rewrite <- W. eapply sabs_eqb; eauto.
      + rewrite V1. change (st_vars (add_warn st [WType])) with (st_vars st).
        pose proof (ok_vars st Hok (lower nm_default_type)) as V2.
        destruct (alookup str_eqb (lower nm_default_type) G) as [o|] eqn:ED.
        * destruct V2 as (o' & Eo & _). rewrite Eo.
          unfold branch_ok, cidc in H0. destruct (check f (map weaken s) [IId nm_default_type]) as [s2|] eqn:Ck; [|discriminate H0].
          eapply safe_weaken; [exact (IH _ _ _ Ck m (add_warn st [WType]) (ok_add_warn _ _ Hok) Hs')|].
          intros st' [P1 P2]. split; [exact P1|]. rewrite <- W. eapply sabs_eqb; eauto.
        * rewrite V2. split; [apply ok_add_warn; exact Hok|exact Hs'].
    - (* change.case$ *) destruct s as [|x [|y r]]; cbn in C; try discriminate C;
    pop1 Hs v1 l1 E1 V1 Hs1; pop1 Hs1 v2 l2 E2 V2 Hs2; subst l1;
    cbn [Bst.builtin_step]; rewrite (pop_cons _ _ _ E1); cbn [bind]; rewrite pop_set_stack; cbn [bind]. cond C. as_str V1 H v1; cbn.
      + destruct s as [|c s]; [exact I|].
        destruct (_ || _)%bool; [|exact I].
        as_str V2 H0 v2; cbn; viares change_case_no_crash.
      + exact I.
    - (* chr.to.int$ *) destruct s as [|x r]; cbn in C; try discriminate C;
    pop1 Hs v1 l1 E1 V1 Hs1;
    cbn [Bst.builtin_step]; rewrite (pop_cons _ _ _ E1); cbn [bind]. cond C. as_str V1 B v1; cbn.
      + destruct s as [|c [|c2 s]]; cbn; fin.
      + exact I.
    - (* cite$ *) cbn in C. cond C. destruct (ok_ent st Hok B) as [(key & e & Ec & Ety) _].
      cbn. rewrite Ec. fin.
    - (* duplicate$ *) destruct s as [|x r]; cbn in C; try discriminate C;
    pop1 Hs v1 l1 E1 V1 Hs1;
    cbn [Bst.builtin_step]; rewrite (pop_cons _ _ _ E1); cbn [bind]. inversion C; subst. cbn.
      unfold push. split; [repeat apply ok_set_stack; exact Hok|]. cbn. repeat (constructor; try assumption).
    - (* empty$ *) destruct s as [|x r]; cbn in C; try discriminate C;
    pop1 Hs v1 l1 E1 V1 Hs1;
    cbn [Bst.builtin_step]; rewrite (pop_cons _ _ _ E1); cbn [bind]. cond C. as_str V1 B v1; cbn; fin.
    - (* format.name$ *) destruct s as [|x [|y [|w r]]]; cbn in C; try discriminate C;
    pop1 Hs v1 l1 E1 V1 Hs1; pop1 Hs1 v2 l2 E2 V2 Hs2; subst l1; pop1 Hs2 v3 l3 E3 V3 Hs3; subst l2;
    cbn [Bst.builtin_step]; rewrite (pop_cons _ _ _ E1); cbn [bind]; rewrite pop_set_stack; cbn [bind];
    rewrite pop_set_stack; cbn [bind]. cond C. as_int V2 H1.
      destruct (format_name_call_typed (st_vars st) v3 z v1 (vabs_str _ _ V3 H0) (vabs_str _ _ V1 H)) as [N1 N2].
      change (st_vars (set_stack (set_stack (set_stack st (VInt z :: v3 :: l3)) (v3 :: l3)) l3)) with (st_vars st).
      apply safe_res; [exact N1|]. intros a Ea. destruct (N2 a Ea) as [t ->]. cbn. fin.
    - (* if$ *)
      destruct s as [|x [|y [|w r]]]; cbn in C; try discriminate C.
      pop1 Hs v1 l1 E1 V1 Hs1. pop1 Hs1 v2 l2 E2 V2 Hs2. subst l1. pop1 Hs2 v3 l3 E3 V3 Hs3. subst l2.
      cbn [Bst.builtin_step]. rewrite (pop_cons _ _ _ E1). cbn [bind]. rewrite pop_set_stack. cbn [bind].
      rewrite pop_set_stack. cbn [bind].
      destruct (is_aint w) eqn:Iw; [|discriminate C]. as_int V3 Iw.
      destruct (callc f r x) as [sa|] eqn:Ca; [|discriminate C].
      destruct (callc f r y) as [sb|] eqn:Cb; [|discriminate C].
      destruct (stack_eqb sa sb) eqn:Eab; [|discriminate C]. inversion C; subst; clear C.
      assert (Hok3 : state_ok (set_stack (set_stack (set_stack st (v2 :: VInt z :: l3)) (VInt z :: l3)) l3))
        by (repeat apply ok_set_stack; exact Hok).
      destruct (0 <? z).
      + eapply safe_weaken; [exact (call_sound f m r y sb v2 _ IH Cb V2 Hok3 Hs3)|].
        intros s' [P1 P2]. split; [exact P1|].
        rewrite (stack_eqb_eq _ _ Eab). apply sabs_weaken. exact P2.
      + eapply safe_weaken; [exact (call_sound f m r x sa v1 _ IH Ca V1 Hok3 Hs3)|].
        intros s' [P1 P2]. split; [exact P1|]. apply sabs_weaken. exact P2.
    - (* int.to.chr$ *) destruct s as [|x r]; cbn in C; try discriminate C;
    pop1 Hs v1 l1 E1 V1 Hs1;
    cbn [Bst.builtin_step]; rewrite (pop_cons _ _ _ E1); cbn [bind]. cond C. as_int V1 B. cbn.
      destruct ((z <? 0) || (1114111 <? z))%bool; cbn; fin.
    - (* int.to.str$ *) destruct s as [|x r]; cbn in C; try discriminate C;
    pop1 Hs v1 l1 E1 V1 Hs1;
    cbn [Bst.builtin_step]; rewrite (pop_cons _ _ _ E1); cbn [bind]. cond C. as_int V1 B. cbn. fin.
    - (* missing$ *) destruct s as [|x r]; cbn in C; try discriminate C;
    pop1 Hs v1 l1 E1 V1 Hs1;
    cbn [Bst.builtin_step]; rewrite (pop_cons _ _ _ E1); cbn [bind]. cond C. cbn. fin.
    - (* newline$ *) cbn in C. inversion C; subst. cbn [Bst.builtin_step]. unfold do_newline.
      assert (J : exists t, join_buffer (st_buf st) = Ok t).
      { pose proof (ok_buf st Hok) as Bf. induction Bf as [|v b Sv _ IHb]; cbn; [eauto|].
        destruct (strlike_as_str _ Sv) as [t ->]. destruct IHb as [t' ->]. cbn. eauto. }
      destruct J as [t ->]. cbn [bind]. apply safe_res; [apply wrap_no_crash|].
      intros w _. cbn. split; [|exact Hs]. destruct Hok as [A B C' D]. constructor; try assumption. constructor.
    - (* num.names$ *) destruct s as [|x r]; cbn in C; try discriminate C;
    pop1 Hs v1 l1 E1 V1 Hs1;
    cbn [Bst.builtin_step]; rewrite (pop_cons _ _ _ E1); cbn [bind]. cond C. as_str V1 B v1; cbn; viares split_name_list_no_crash.
    - (* pop$ *) destruct s as [|x r]; cbn in C; try discriminate C;
    pop1 Hs v1 l1 E1 V1 Hs1;
    cbn [Bst.builtin_step]; rewrite (pop_cons _ _ _ E1); cbn [bind]. inversion C; subst. cbn. fin.
    - (* preamble$ *) cbn in C. cond C. destruct (ok_ent st Hok B) as [_ [d Ed]].
      cbn. rewrite Ed. fin.
    - (* purify$ *) destruct s as [|x r]; cbn in C; try discriminate C;
    pop1 Hs v1 l1 E1 V1 Hs1;
    cbn [Bst.builtin_step]; rewrite (pop_cons _ _ _ E1); cbn [bind]. cond C. as_str V1 B v1; cbn; viares bibtex_purify_no_crash.
    - (* quote$ *) cbn in C. inversion C; subst. cbn. fin.
    - (* skip$ *) cbn in C. inversion C; subst. cbn. split; assumption.
    - (* substring$ *) destruct s as [|x [|y [|w r]]]; cbn in C; try discriminate C;
    pop1 Hs v1 l1 E1 V1 Hs1; pop1 Hs1 v2 l2 E2 V2 Hs2; subst l1; pop1 Hs2 v3 l3 E3 V3 Hs3; subst l2;
    cbn [Bst.builtin_step]; rewrite (pop_cons _ _ _ E1); cbn [bind]; rewrite pop_set_stack; cbn [bind];
    rewrite pop_set_stack; cbn [bind]. cond C. as_int V1 H. as_int V2 H1.
      destruct z0; [cbn; fin| |]; as_str V3 H0 v3; cbn; fin.
    - (* stack$ *) cbn in C. cond C. cbn [Bst.builtin_step].
      assert (J : exists t, print_all (st_stack st) = Ok t).
      { clear Hok. revert B. generalize (st_stack st) Hs. clear Hs. intros l Hl. induction Hl as [|v a l s' Hv _ IHl]; cbn; intros B; [eauto|].
        apply andb_prop in B as [B1 B2]. destruct (IHl B2) as [t Et]. rewrite Et.
        apply orb_prop in B1 as [B1|B1].
        - destruct (vabs_int _ _ Hv B1) as [z ->]. cbn. eauto.
        - pose proof (vabs_str _ _ Hv B1) as Sv. destruct v; try discriminate Sv; cbn; eauto. }
      destruct J as [t ->]. cbn. split; [apply ok_add_print; apply ok_set_stack; exact Hok|constructor].
    - (* swap$ *) destruct s as [|x [|y r]]; cbn in C; try discriminate C;
    pop1 Hs v1 l1 E1 V1 Hs1; pop1 Hs1 v2 l2 E2 V2 Hs2; subst l1;
    cbn [Bst.builtin_step]; rewrite (pop_cons _ _ _ E1); cbn [bind]; rewrite pop_set_stack; cbn [bind]. inversion C; subst. cbn.
      unfold push. split; [repeat apply ok_set_stack; exact Hok|]. cbn. repeat (constructor; try assumption).
    - (* text.length$ *) destruct s as [|x r]; cbn in C; try discriminate C;
    pop1 Hs v1 l1 E1 V1 Hs1;
    cbn [Bst.builtin_step]; rewrite (pop_cons _ _ _ E1); cbn [bind]. cond C. as_str V1 B v1; cbn; viares bibtex_len_no_crash.
    - (* text.prefix$ *) destruct s as [|x [|y r]]; cbn in C; try discriminate C;
    pop1 Hs v1 l1 E1 V1 Hs1; pop1 Hs1 v2 l2 E2 V2 Hs2; subst l1;
    cbn [Bst.builtin_step]; rewrite (pop_cons _ _ _ E1); cbn [bind]; rewrite pop_set_stack; cbn [bind]. cond C. as_int V1 H. destruct (0 <? z); [|cbn; fin].
      as_str V2 H0 v2; cbn; viares bibtex_prefix_no_crash.
    - (* top$ *) destruct s as [|x r]; cbn in C; try discriminate C;
    pop1 Hs v1 l1 E1 V1 Hs1;
    cbn [Bst.builtin_step]; rewrite (pop_cons _ _ _ E1); cbn [bind]. cond C. apply orb_prop in B as [B|B].
      + as_int V1 B. cbn. split; [apply ok_add_print; apply ok_set_stack; exact Hok|cbn; assumption].
      + as_str V1 B v1; cbn; (split; [apply ok_add_print; apply ok_set_stack; exact Hok|cbn; assumption]).
    - (* type$ *) cbn in C. cond C. destruct (ok_ent st Hok B) as [(key & e & Ec & Ety) _].
      cbn. rewrite Ec. fin.
    - (* warning$ *) destruct s as [|x r]; cbn in C; try discriminate C;
    pop1 Hs v1 l1 E1 V1 Hs1;
    cbn [Bst.builtin_step]; rewrite (pop_cons _ _ _ E1); cbn [bind]. cond C. cbn. split; [apply ok_add_warn; apply ok_set_stack; exact Hok|cbn; assumption].
    - (* while$ *)
      destruct s as [|x [|y r]]; cbn in C; try discriminate C.
      pop1 Hs v1 l1 E1 V1 Hs1. pop1 Hs1 v2 l2 E2 V2 Hs2. subst l1.
      cbn [Bst.builtin_step]. rewrite (pop_cons _ _ _ E1). cbn [bind]. rewrite pop_set_stack. cbn [bind].
      destruct (callc f (map weaken r) y) as [[|c sa]|] eqn:Cp; try discriminate C.
      destruct (is_aint c && stack_eqb sa (map weaken r))%bool eqn:B1; [|discriminate C]. bools.
      destruct (callc f (map weaken r) x) as [sb|] eqn:Cf; [|discriminate C].
      destruct (stack_eqb sb (map weaken r)) eqn:B2; [|discriminate C]. inversion C; subst; clear C.
      eapply (while_typed f y x c sa sb (map weaken r) v2 v1 IH); eauto.
      + rewrite map_map. apply map_ext. apply weaken_idem.
      + repeat apply ok_set_stack. exact Hok.
      + cbn. apply sabs_weaken. exact Hs2.
    - (* width$ *) destruct s as [|x r]; cbn in C; try discriminate C;
    pop1 Hs v1 l1 E1 V1 Hs1;
    cbn [Bst.builtin_step]; rewrite (pop_cons _ _ _ E1); cbn [bind]. cond C. as_str V1 B v1; cbn; viares bibtex_width_no_crash.
    - (* write$ *) destruct s as [|x r]; cbn in C; try discriminate C;
    pop1 Hs v1 l1 E1 V1 Hs1;
    cbn [Bst.builtin_step]; rewrite (pop_cons _ _ _ E1); cbn [bind]. cond C. pose proof (vabs_str _ _ V1 B) as S1. cbn.
      split; [|cbn; assumption]. destruct Hok as [A Bf C' D]. constructor; try assumption.
      cbn. apply Forall_app. split; [assumption|]. constructor; [exact S1|constructor].
  Qed.

  Definition step_check (f : nat) (s : list aval) (i : instr) : option (list aval) :=
    match i with
    | IInt z => Some (AIntK z :: s)
    | IStr _ => Some (AStr :: s)
    | IFun body => Some (AFn body :: s)
    | IQuote name =>
      match vlookup name G with
      | Some (OFun body) => Some (AFn body :: s)
      | Some _ => Some (ARef (lower name) :: s)
      | None => None
      end
    | IId name =>
      match vlookup name G with
      | Some (OFun body) => check f s body
      | Some (OInt _) => Some (AInt :: s)
      | Some (OStr _) => Some (AStr :: s)
      | Some (OEInt _) => if ent then Some (AInt :: s) else None
      | Some (OEStr _) | Some (OField _) | Some OCrossref => if ent then Some (AStr :: s) else None
      | Some (OBuiltin b) => check_builtin G ent tys (callc f) (cidc f) b s
      | None => None
      end
    end.
  Lemma check_S f s i rest :
    check (S f) s (i :: rest) = match step_check f s i with Some s' => check f s' rest | None => None end.
  Proof. reflexivity. Qed.

  Lemma step_typed f m s i s1 st : IHf f -> step_check f s i = Some s1 ->
    state_ok st -> sabs (st_stack st) s ->
    safe (step (exec m) (while_loop m) st i) (post s1).
  Proof.
    intros IH C Hok Hs. destruct i as [z|t|name|name|body]; cbn [step_check] in C.
    - inversion C; subst. cbn. apply post_push; [assumption|assumption|constructor].
    - inversion C; subst. cbn. apply post_push; [assumption|assumption|constructor; reflexivity].
    - (* identifier *)
      cbn [Bst.step]. unfold vlookup in *.
      destruct (alookup str_eqb (lower name) G) as [o|] eqn:EG; [|discriminate C].
      destruct (G_lookup st _ o Hok EG) as (o' & Eo & K). rewrite Eo.
      destruct o as [b|v|v|en|en|fn| |fb]; cbn in K.
      + subst o'. cbn [Bst.exec_obj]. eapply builtin_typed; eauto.
      + destruct K as [z ->]. inversion C; subst. cbn. apply post_push; [assumption|assumption|constructor].
      + destruct K as (v0 & -> & Sv). inversion C; subst. cbn. apply post_push; [assumption|assumption|constructor; exact Sv].
      + subst o'. destruct ent eqn:Ee; [|discriminate C]. inversion C; subst.
        destruct (ok_ent st Hok Ee) as [(key & e & Ec & Ety) _]. cbn. rewrite Ec.
        apply post_push; [assumption|assumption|].
        destruct (alookup str_eqb en (frame st key)) as [v|] eqn:Ef; [|constructor].
        destruct (proj1 (ok_frames st Hok key en v Ef) _ EG) as [z ->]. constructor.
      + subst o'. destruct ent eqn:Ee; [|discriminate C]. inversion C; subst.
        destruct (ok_ent st Hok Ee) as [(key & e & Ec & Ety) _]. cbn. rewrite Ec.
        apply post_push; [assumption|assumption|].
        destruct (alookup str_eqb en (frame st key)) as [v|] eqn:Ef; [|constructor; reflexivity].
        constructor. exact (proj2 (ok_frames st Hok key en v Ef) _ EG).
      + subst o'. destruct ent eqn:Ee; [|discriminate C]. inversion C; subst.
        destruct (ok_ent st Hok Ee) as [(key & e & Ec & Ety) (d & Ed)]. cbn. rewrite Ec, Ed.
        apply post_push; [assumption|assumption|].
        destruct (alookup str_eqb (lower fn) (e_fields e)); constructor; reflexivity.
      + subst o'. destruct ent eqn:Ee; [|discriminate C]. inversion C; subst.
        destruct (ok_ent st Hok Ee) as [(key & e & Ec & Ety) _]. cbn. rewrite Ec.
        apply post_push; [assumption|assumption|].
        destruct (e_crossref e); constructor; reflexivity.
      + subst o'. cbn [Bst.exec_obj]. eapply IH; eauto.
    - (* quoted *)
      cbn [Bst.step]. unfold vlookup in *.
      destruct (alookup str_eqb (lower name) G) as [o|] eqn:EG; [|discriminate C].
      destruct (G_lookup st _ o Hok EG) as (o' & Eo & K). rewrite Eo.
      destruct o as [b|v|v|en|en|fn| |fb]; cbn in K;
        try (subst o'; inversion C; subst; apply post_push; [assumption|assumption|constructor]).
      + destruct K as [z ->]. inversion C; subst. apply post_push; [assumption|assumption|constructor].
      + destruct K as (v0 & -> & Sv). inversion C; subst. apply post_push; [assumption|assumption|constructor].
    - inversion C; subst. cbn. apply post_push; [assumption|assumption|constructor].
  Qed.

  Theorem check_sound : forall cf, IHf cf.
  Proof.
    induction cf as [|f IH]; intros s p s' C n st Hok Hs.
    - destruct p; cbn in C; [|discriminate C]. inversion C; subst. rewrite exec_nil. split; assumption.
    - destruct p as [|i rest]; [cbn in C; inversion C; subst; rewrite exec_nil; split; assumption|].
      destruct n as [|m]; [exact I|].
      change (exec (S m) st (i :: rest)) with (bind (step (exec m) (while_loop m) st i) (fun s0 => exec m s0 rest)).
      rewrite check_S in C. destruct (step_check f s i) as [s_mid|] eqn:Es; [|discriminate C].
      eapply safe_bind; [eapply step_typed; eauto|].
      intros st1 [Hok1 Hs1]. eapply IH; eauto.
  Qed.
End Soundness.

(* the theorem, closed: a checked program run from a well-formed state never raises a foreign exception,
   and when it ends normally the stack has the computed shape and the state is still well-formed *)
Theorem welltyped_no_crash fmt_name cw G ent tys cf s p s' :
  (forall n f, fmt_name n f <> Crash) -> ctx_ok G = true ->
  check G ent tys cf s p = Some s' ->
  forall n st, state_ok G ent tys st -> sabs (st_stack st) s ->
  exec fmt_name cw n st p <> Crash /\
  (forall st', exec fmt_name cw n st p = Ok st' -> state_ok G ent tys st' /\ sabs (st_stack st') s').
Proof.
  intros Hf HG C n st Hok Hs.
  pose proof (check_sound fmt_name cw Hf G ent tys HG cf s p s' C n st Hok Hs) as H.
  unfold safe in H. destruct (exec fmt_name cw n st p); split; try discriminate; try contradiction.
  - intros st' E. inversion E; subst. exact H.
Qed.

(* a state whose variable table is the (sane) context itself, with no entry frames and an empty
   buffer, is well-formed: this is the state in which EXECUTE runs a function before READ *)
Lemma state_ok_start G tys st : ctx_ok G = true -> st_vars st = G -> st_evars st = [] -> st_buf st = [] ->
  state_ok G false tys st.
Proof.
  intros HG Hv He Hb. constructor.
  - intros n. rewrite Hv. destruct (alookup str_eqb n G) as [o|] eqn:E; [|reflexivity].
    exists o. split; [reflexivity|].
    unfold ctx_ok in HG. apply andb_prop in HG as [F _]. rewrite forallb_forall in F.
    assert (Ho : obj_ok o = true).
    { clear -E F. induction G as [|[k w] G' IH]; cbn in E; [discriminate|].
      destruct (str_eqb n k).
      - inversion E; subst. apply (F (k, o)). left. reflexivity.
      - apply IH; [|exact E]. intros x Hx. apply F. right. exact Hx. }
    destruct o; cbn in *; try reflexivity.
    + destruct v; try discriminate. eauto.
    + exists v. split; [reflexivity|]. destruct v; try discriminate; reflexivity.
  - intros key name v. unfold frame. rewrite He. cbn. discriminate.
  - rewrite Hb. constructor.
  - discriminate.
Qed.
