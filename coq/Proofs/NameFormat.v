(* Proofs/NameFormat.v -- lemmas about Model/NameFormat.v (C11). *)
From Pybtex Require Import Base.Prelude Base.PyChar Base.PyStr Model.BibtexStr Model.Names Model.NameFormat.

Lemma parse_empty_format : parse_format [] = Ok [].
Proof. reflexivity. Qed.
