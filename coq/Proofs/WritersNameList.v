(* Proofs/WritersNameList.v -- a list of names joined by " and " (Writer._write_persons) is cut back into the names
   by split_name_list, when no word of a name is "and" in any letter case (C02). *)
From Pybtex Require Import Base.Prelude Base.PyChar Base.PyStr Model.BibtexStr Model.Names Model.Scanner Model.BibParser Model.Writers
  Proofs.WritersTree Proofs.WritersPerson Proofs.WritersName.
Local Open Scope N_scope.

(* a word: non-empty, without whitespace; is_and: the word "and" in any letter case *)
Definition wordp (w : str) : Prop := w <> [] /\ forallb (fun c => negb (is_space c)) w = true.
Definition is_and (w : str) : bool :=
  match w with
  | [b; c; d] => (to_lower b =? 97) && (to_lower c =? 110) && (to_lower d =? 100)
  | _ => false
  end.
Definition nameword (w : str) : Prop := wordp w /\ is_and w = false.

Definition wjoin (ws : list str) : str := join [c_space] ws.

(* after a space, a word that is not "and" never starts a separator, whatever follows the word (nothing or a space) *)
Lemma sep_and_word prev w r : nameword w -> (r = [] \/ exists r', r = c_space :: r') ->
  sep_and prev (c_space :: w ++ r) = 0%nat.
Proof.
  intros [[Hne Hsp] Hand] Hr. unfold sep_and.
  destruct w as [|b [|c [|d [|e w']]]]; [congruence| | | |].
  - destruct Hr as [->|(r' & ->)]; cbn [app]; [reflexivity|].
    destruct r' as [|x [|y r'']]; try reflexivity.
    change (to_lower c_space =? 110) with false. now rewrite !andb_false_r.
  - destruct Hr as [->|(r' & ->)]; cbn [app]; [reflexivity|].
    destruct r' as [|x r'']; try reflexivity.
    change (to_lower c_space =? 100) with false. now rewrite !andb_false_r.
  - destruct Hr as [->|(r' & ->)]; cbn [app]; [reflexivity|].
    cbn [is_and] in Hand. change (c_space =? c_space) with true. rewrite andb_true_l, andb_true_r. now rewrite Hand.
  - cbn [app]. cbn [forallb] in Hsp. repeat (apply andb_prop in Hsp as [? Hsp]).
    assert (E : (e =? c_space) = false).
    { destruct (e =? c_space) eqn:EE; [|reflexivity]. apply N.eqb_eq in EE. subst e. discriminate. }
    rewrite E. now rewrite !andb_false_r.
Qed.

Lemma sep_and_nospace prev c t : is_space c = false -> sep_and prev (c :: t) = 0%nat.
Proof.
  intros H. unfold sep_and. destruct t as [|b [|c' [|d [|e t']]]]; try reflexivity.
  assert (E : (c =? c_space) = false).
  { destruct (c =? c_space) eqn:EE; [|reflexivity]. apply N.eqb_eq in EE. subst c. discriminate. }
  now rewrite E.
Qed.

Definition s_and' : str := [32; 97; 110; 100; 32].
Lemma s_and_eq : s_and = s_and'. Proof. reflexivity. Qed.

(* the text of the names still to come: " and " name " and " name ... *)
Definition andjoin (ns : list (list str)) : str := flat_map (fun ws => s_and' ++ wjoin ws) ns.

Lemma wjoin_cons w ws : wjoin (w :: ws) = w ++ sepjoin ws.
Proof. apply join_sepjoin. Qed.

Lemma sep_and_sep prev x r : sep_and prev (s_and' ++ x :: r) = 5%nat.
Proof. reflexivity. Qed.

(* what follows a word inside the text: nothing, or a space *)
Lemma tail_shape (ws : list str) (ns : list (list str)) :
  Forall (fun n => n <> []) ns -> Forall (Forall nameword) ns ->
  sepjoin ws ++ andjoin ns = [] \/ exists r', sepjoin ws ++ andjoin ns = c_space :: r'.
Proof.
  intros _ _. destruct ws as [|w ws']; cbn [sepjoin flat_map app].
  - destruct ns as [|n ns']; [now left|right]. cbn [andjoin flat_map s_and' app]. eauto.
  - right. eauto.
Qed.

Lemma re_split_words (tailtext : str) (result : list str) :
  (tailtext = [] \/ exists r', tailtext = c_space :: r') ->
  (forall fuel prev acc, (length tailtext < fuel)%nat -> re_split_go fuel sep_and prev tailtext acc = rev acc :: result) ->
  forall ws, Forall nameword ws -> forall t, forallb (fun c => negb (is_space c)) t = true ->
  forall fuel prev acc, (length (t ++ sepjoin ws ++ tailtext) < fuel)%nat ->
  re_split_go fuel sep_and prev (t ++ sepjoin ws ++ tailtext) acc = (rev acc ++ t ++ sepjoin ws) :: result.
Proof.
  intros Hshape Hbase.
  assert (Hchar : forall X, (forall fuel prev acc, (length X < fuel)%nat -> exists R, re_split_go fuel sep_and prev X acc = (rev acc ++ R) :: result /\ True) -> True) by auto.
  induction ws as [|w ws IHws]; intros Hws t.
  - induction t as [|c t IHt]; intros Ht fuel prev acc Hf.
    + cbn [app sepjoin flat_map] in *. rewrite Hbase by exact Hf. now rewrite app_nil_r.
    + destruct fuel as [|f]; [cbn [app length] in Hf; lia|].
      cbn [forallb] in Ht. apply andb_prop in Ht as [Hc Ht]. apply negb_true_iff in Hc.
      cbn [app re_split_go]. rewrite (sep_and_nospace prev c _ Hc).
      rewrite IHt; [|exact Ht|cbn [app length] in Hf; lia]. cbn [rev]. now rewrite <- !app_assoc.
  - inversion Hws as [|? ? Hw Hws']; subst.
    induction t as [|c t IHt]; intros Ht fuel prev acc Hf; (destruct fuel as [|f]; [cbn [app length] in Hf; lia|]).
    + cbn [app sepjoin flat_map]. fold (sepjoin ws). cbn [re_split_go]. rewrite <- app_assoc.
      assert (Sh : sepjoin ws ++ tailtext = [] \/ exists r', sepjoin ws ++ tailtext = c_space :: r').
      { destruct ws as [|w2 ws2]; [exact Hshape|right; cbn [sepjoin flat_map app]; eauto]. }
      rewrite (sep_and_word prev w _ Hw Sh).
      destruct Hw as [[Hwne Hwsp] Hwa].
      rewrite (IHws Hws' w Hwsp); [|cbn [app length sepjoin flat_map] in Hf; fold (sepjoin ws) in Hf; rewrite <- app_assoc in Hf; cbn [app length] in Hf; lia].
      cbn [rev app]. rewrite <- !app_assoc. reflexivity.
    + cbn [forallb] in Ht. apply andb_prop in Ht as [Hc Ht]. apply negb_true_iff in Hc.
      cbn [app re_split_go]. rewrite (sep_and_nospace prev c _ Hc).
      rewrite IHt; [|exact Ht|cbn [app length] in Hf; lia]. cbn [rev]. now rewrite <- !app_assoc.
Qed.

Lemma re_split_andjoin : forall ns, Forall (fun n => n <> []) ns -> Forall (Forall nameword) ns ->
  forall fuel prev acc, (length (andjoin ns) < fuel)%nat ->
  re_split_go fuel sep_and prev (andjoin ns) acc = rev acc :: map wjoin ns.
Proof.
  induction ns as [|n ns IH]; intros Hne Hns fuel prev acc Hf; (destruct fuel as [|f]; [cbn in Hf; lia|]).
  - reflexivity.
  - inversion Hne as [|? ? Hn Hne']; subst. inversion Hns as [|? ? Hnw Hns']; subst.
    destruct n as [|w0 n']; [congruence|]. inversion Hnw as [|? ? Hw0 Hn']; subst.
    cbn [andjoin flat_map]. fold (andjoin ns). rewrite wjoin_cons.
    destruct Hw0 as [[Hw0ne Hw0sp] Hw0a]. destruct w0 as [|x w0']; [congruence|].
    rewrite <- !app_assoc. cbn [s_and' app re_split_go].
    change (sep_and prev (32 :: 97 :: 110 :: 100 :: 32 :: x :: w0' ++ sepjoin n' ++ andjoin ns)) with 5%nat.
    cbn [nth skipn]. f_equal.
    change (x :: w0' ++ sepjoin n' ++ andjoin ns) with ((x :: w0') ++ sepjoin n' ++ andjoin ns).
    rewrite (re_split_words (andjoin ns) (map wjoin ns)).
    + cbn [rev app map]. now rewrite wjoin_cons.
    + destruct ns as [|n2 ns2]; [now left|right]. cbn [andjoin flat_map s_and' app]. eauto.
    + intros fu pr ac Hfu. apply IH; assumption.
    + exact Hn'.
    + exact Hw0sp.
    + change (andjoin (((x :: w0') :: n') :: ns)) with ((s_and' ++ wjoin ((x :: w0') :: n')) ++ andjoin ns) in Hf.
      rewrite wjoin_cons in Hf. rewrite !app_length in Hf. rewrite !app_length. change (length s_and') with 5%nat in Hf. lia.
Qed.

(* re.split(' and ') of the joined names *)
Lemma re_split_names n ns : n <> [] -> Forall nameword n -> Forall (fun n => n <> []) ns -> Forall (Forall nameword) ns ->
  re_split sep_and (wjoin n ++ andjoin ns) = wjoin n :: map wjoin ns.
Proof.
  intros Hn Hnw Hne Hns. destruct n as [|w0 n']; [congruence|]. inversion Hnw as [|? ? [[_ Hsp] _] Hn']; subst.
  unfold re_split. rewrite wjoin_cons, <- app_assoc.
  rewrite (re_split_words (andjoin ns) (map wjoin ns)); auto.
  - destruct ns as [|n2 ns2]; [now left|right]. cbn [andjoin flat_map s_and' app]. eauto.
  - intros fu pr ac Hfu. apply re_split_andjoin; assumption.
Qed.

(* ---- a formatted name as a list of words *)
Definition addcomma (l : list str) : list str := removelast l ++ [last l [] ++ [c_comma]].
Definition name_words (p : person) : list str :=
  addcomma (p_prelast p ++ p_last p) ++
  match p_lineage p with [] => [] | j => addcomma j end ++ (p_first p ++ p_middle p).

Definition noand_tok (t : str) : Prop := is_and t = false.
(* the domain of one name: expressible (Proofs/WritersName.v) and no token is the word "and" in any letter case *)
Definition name_ok (p : person) : Prop :=
  expressible p /\ Forall noand_tok (p_first p ++ p_middle p ++ p_prelast p ++ p_last p ++ p_lineage p).

Lemma ptext_addcomma l : l <> [] -> part_text (addcomma l) = part_text l ++ [c_comma].
Proof.
  intros Hne. unfold addcomma. pose proof (app_removelast_last (l:=l) [] Hne) as A.
  set (a := removelast l) in *. set (z := last l []) in *. rewrite A. clearbody a z. clear A Hne l.
  induction a as [|x a IH]; [cbn; now rewrite ?app_nil_r|].
  destruct a as [|y a'].
  - cbn [app]. unfold part_text. cbn [join]. now rewrite <- ?app_assoc.
  - unfold part_text in *. change ((x :: y :: a') ++ [z ++ [c_comma]]) with (x :: (y :: a') ++ [z ++ [c_comma]]).
    change ((x :: y :: a') ++ [z]) with (x :: (y :: a') ++ [z]).
    cbn [join app] in *. rewrite IH. now rewrite <- !app_assoc.
Qed.

Lemma addcomma_nonnil l : addcomma l <> [].
Proof. unfold addcomma. destruct (removelast l); discriminate. Qed.

Lemma format_name_words p : expressible p -> format_name p = wjoin (name_words p).
Proof.
  intros E. rewrite (format_name_shape p E).
  destruct E as (Hf & Hm & Hv & Hl & Hj & (f & Ef) & Hne & _ & _).
  assert (Nvl : p_prelast p ++ p_last p <> []) by (destruct (p_prelast p); [exact Hne|discriminate]).
  assert (Nfm : p_first p ++ p_middle p <> []) by (rewrite Ef; discriminate).
  change (wjoin (name_words p)) with (part_text (name_words p)). unfold name_words, name_pieces.
  destruct (p_lineage p) as [|j js] eqn:EJ.
  - cbn [cjoin flat_map]. change ([] ++ p_first p ++ p_middle p) with (p_first p ++ p_middle p).
    rewrite (ptext_app _ (p_first p ++ p_middle p) (addcomma_nonnil _) Nfm). rewrite ptext_addcomma by exact Nvl.
    rewrite <- !app_assoc. cbn [app]. now rewrite app_nil_r.
  - assert (N2 : addcomma (j :: js) ++ p_first p ++ p_middle p <> []).
    { destruct (addcomma (j :: js)) eqn:EA; [exfalso; eapply addcomma_nonnil; exact EA|discriminate]. }
    rewrite (ptext_app _ _ (addcomma_nonnil _) N2).
    rewrite (ptext_app _ (p_first p ++ p_middle p) (addcomma_nonnil _) Nfm).
    rewrite ptext_addcomma by exact Nvl. rewrite ptext_addcomma by discriminate.
    cbn [cjoin flat_map]. rewrite <- !app_assoc. cbn [app]. now rewrite app_nil_r.
Qed.

Definition gw (w : str) : Prop := nameword w /\ nobrace w.

Lemma tok_gw t : nplain_tok t -> noand_tok t -> gw t.
Proof.
  intros [Hne Hp] Ha. split; [split; [split; [exact Hne|]|exact Ha]|].
  - clear -Hp. induction t as [|c t IH]; [reflexivity|]. cbn in *. apply andb_prop in Hp as [Hc Hp].
    destruct (nplain_facts _ Hc) as [Hc' _]. destruct (plain_facts _ Hc') as (H1 & _). now rewrite H1, IH.
  - apply ok_nobrace. clear -Hp. induction t as [|c t IH]; [reflexivity|]. cbn in *. apply andb_prop in Hp as [Hc Hp].
    destruct (nplain_facts _ Hc) as [Hc' Hcc]. destruct (plain_facts _ Hc') as (_ & _ & _ & Hl & _).
    rewrite (IH Hp). unfold okchar. now rewrite Hcc, Hl.
Qed.

Lemma tok_comma_gw t : nplain_tok t -> gw (t ++ [c_comma]).
Proof.
  intros Ht. assert (G : forall a, is_and (a ++ [c_comma]) = false).
  { intros a. destruct a as [|x [|y [|z [|u a']]]]; try reflexivity.
    cbn [app is_and]. change (to_lower c_comma =? 100) with false. now rewrite andb_false_r. }
  destruct Ht as [Hne Hp].
  assert (S1 : forallb (fun c => negb (is_space c)) t = true).
  { clear -Hp. induction t as [|c t IH]; [reflexivity|]. cbn in *. apply andb_prop in Hp as [Hc Hp].
    destruct (nplain_facts _ Hc) as [Hc' _]. destruct (plain_facts _ Hc') as (H1 & _). now rewrite H1, IH. }
  assert (S2 : nobrace t).
  { apply ok_nobrace. clear -Hp. induction t as [|c t IH]; [reflexivity|]. cbn in *. apply andb_prop in Hp as [Hc Hp].
    destruct (nplain_facts _ Hc) as [Hc' Hcc]. destruct (plain_facts _ Hc') as (_ & _ & _ & Hl & _).
    rewrite (IH Hp). unfold okchar. now rewrite Hcc, Hl. }
  split; [split; [split|apply G]|].
  - destruct t; discriminate.
  - rewrite forallb_app', S1. reflexivity.
  - unfold nobrace in *. rewrite forallb_app', S2. reflexivity.
Qed.

Lemma addcomma_gw l : l <> [] -> Forall nplain_tok l -> Forall noand_tok l -> Forall gw (addcomma l).
Proof.
  intros Hne Hp Ha. unfold addcomma. pose proof (app_removelast_last (l:=l) [] Hne) as A.
  rewrite A in Hp, Ha. apply Forall_app in Hp as [Hp1 Hp2]. apply Forall_app in Ha as [Ha1 Ha2].
  apply Forall_app. split.
  - clear -Hp1 Ha1. induction (removelast l) as [|x r IH]; [constructor|].
    inversion Hp1; inversion Ha1; subst. constructor; [now apply tok_gw|auto].
  - inversion Hp2; subst. constructor; [now apply tok_comma_gw|constructor].
Qed.

Lemma name_words_gw p : name_ok p -> Forall gw (name_words p) /\ name_words p <> [].
Proof.
  intros [(Hf & Hm & Hv & Hl & Hj & (f & Ef) & Hne & _ & _) Ha].
  apply Forall_app in Ha as [Ha1 Ha]. apply Forall_app in Ha as [Ha2 Ha]. apply Forall_app in Ha as [Ha3 Ha].
  apply Forall_app in Ha as [Ha4 Ha5].
  assert (Nvl : p_prelast p ++ p_last p <> []) by (destruct (p_prelast p); [exact Hne|discriminate]).
  split.
  - unfold name_words. apply Forall_app. split; [apply addcomma_gw; auto; apply Forall_app; auto|].
    apply Forall_app. split.
    + destruct (p_lineage p) eqn:EJ; [constructor|]. apply addcomma_gw; auto; discriminate.
    + apply Forall_app. split.
      * clear -Hf Ha1. induction (p_first p); [constructor|]. inversion Hf; inversion Ha1; subst. constructor; [now apply tok_gw|auto].
      * clear -Hm Ha2. induction (p_middle p); [constructor|]. inversion Hm; inversion Ha2; subst. constructor; [now apply tok_gw|auto].
  - unfold name_words. intros E0. apply app_eq_nil in E0 as [E0 _]. eapply addcomma_nonnil; exact E0.
Qed.

(* ---- the joined names and split_name_list *)
Definition names_text (ps : list person) : str := join s_and (map format_name ps).

Lemma join_flat (sep : str) x xs : join sep (x :: xs) = x ++ flat_map (fun y => sep ++ y) xs.
Proof.
  revert x; induction xs as [|y ys IH]; intros x; [cbn; now rewrite app_nil_r|].
  change (join sep (x :: y :: ys)) with (x ++ sep ++ join sep (y :: ys)). rewrite IH. cbn [flat_map]. now rewrite <- !app_assoc.
Qed.

Lemma sepjoin_nobrace ws : Forall gw ws -> nobrace (sepjoin ws).
Proof.
  induction 1 as [|w ws [_ Hw] _ IH]; [reflexivity|]. cbn [sepjoin flat_map]. fold (sepjoin ws).
  unfold nobrace in *. cbn [app forallb]. change (negb (is_lbrace c_space)) with true. cbn [andb]. now rewrite forallb_app', Hw, IH.
Qed.
Lemma wjoin_nobrace ws : Forall gw ws -> nobrace (wjoin ws).
Proof.
  intros H. destruct ws as [|w ws]; [reflexivity|]. rewrite wjoin_cons. inversion H as [|? ? [_ Hw] Hr]; subst.
  unfold nobrace in *. rewrite forallb_app', Hw. apply (sepjoin_nobrace ws Hr).
Qed.
Lemma andjoin_nobrace ns : Forall (Forall gw) ns -> nobrace (andjoin ns).
Proof.
  induction 1 as [|n ns Hn _ IH]; [reflexivity|]. cbn [andjoin flat_map]. fold (andjoin ns).
  unfold nobrace in *. rewrite !forallb_app'. fold (nobrace (wjoin n)). rewrite (wjoin_nobrace n Hn), IH. reflexivity.
Qed.

Lemma word_starts w : wordp w -> starts_nospace w.
Proof. intros [Hne Hs]. destruct w as [|c w]; [congruence|]. cbn in *. apply andb_prop in Hs as [Hc _]. now apply negb_true_iff in Hc. Qed.
Lemma word_ends w : wordp w -> ends_nospace w.
Proof.
  intros [Hne Hs]. exists (removelast w), (last w 0). split; [now apply app_removelast_last|].
  assert (Hin : In (last w 0) w).
  { clear Hs. induction w as [|c t IH]; [congruence|]. destruct t; [now left|]. right. apply IH. discriminate. }
  rewrite forallb_forall in Hs. specialize (Hs _ Hin). now apply negb_true_iff in Hs.
Qed.
Lemma wjoin_strip ws : ws <> [] -> Forall gw ws -> strip (wjoin ws) = wjoin ws.
Proof.
  intros Hne H. destruct ws as [|w ws]; [congruence|]. rewrite wjoin_cons. inversion H as [|? ? [[Hw _] _] Hr]; subst.
  apply strip_nice.
  - pose proof (word_starts w Hw) as S. destruct w; [contradiction|exact S].
  - destruct ws as [|w2 ws2]; [cbn; rewrite app_nil_r; now apply word_ends|]. apply ends_app.
    assert (G : forall l, l <> [] -> Forall gw l -> ends_nospace (sepjoin l)).
    { clear. induction l as [|u us IH]; intros Hne H; [congruence|]. inversion H as [|? ? [[Hu _] _] Hus]; subst.
      cbn [sepjoin flat_map]. fold (sepjoin us). destruct us as [|v vs].
      - cbn. rewrite app_nil_r. apply (ends_app [c_space]). now apply word_ends.
      - apply (ends_app (c_space :: u)). apply IH; [discriminate|exact Hus]. }
    apply (G (w2 :: ws2)); [discriminate|exact Hr].
Qed.

Lemma split_name_list_names ps : ps <> [] -> Forall name_ok ps ->
  split_name_list (names_text ps) = Ok (map format_name ps).
Proof.
  intros Hne H. destruct ps as [|p ps]; [congruence|]. inversion H as [|? ? Hp Hps]; subst.
  assert (W : forall q, name_ok q -> format_name q = wjoin (name_words q)) by (intros q [E _]; now apply format_name_words).
  assert (Hgs : Forall (Forall gw) (map name_words ps)).
  { rewrite Forall_map. eapply Forall_impl; [|exact Hps]. intros q Hq. now destruct (name_words_gw q Hq). }
  assert (Hnes : Forall (fun n => n <> []) (map name_words ps)).
  { rewrite Forall_map. eapply Forall_impl; [|exact Hps]. intros q Hq. now destruct (name_words_gw q Hq). }
  destruct (name_words_gw p Hp) as [Hg Hn].
  assert (T : names_text (p :: ps) = wjoin (name_words p) ++ andjoin (map name_words ps)).
  { unfold names_text. cbn [map]. rewrite join_flat, (W p Hp). f_equal.
    clear -Hps W. induction Hps as [|q qs Hq _ IH]; [reflexivity|]. cbn [map flat_map andjoin]. fold (andjoin (map name_words qs)).
    rewrite IH, (W q Hq), s_and_eq. now rewrite <- app_assoc. }
  rewrite T. unfold split_name_list, split_tex_string_gen.
  rewrite split_loop_nobrace.
  - rewrite re_split_names; auto.
    + cbn [map]. rewrite (W p Hp). f_equal. f_equal; [now apply wjoin_strip|].
      rewrite map_map.
      clear -Hps W. induction Hps as [|q qs Hq _ IH]; [reflexivity|]. cbn [map]. rewrite IH. f_equal.
      destruct (name_words_gw q Hq) as [G1 G2]. rewrite (W q Hq). now apply wjoin_strip.
    + eapply Forall_impl; [|exact Hg]. now intros w [Hw _].
    + eapply Forall_impl; [|exact Hgs]. intros n Hn'. eapply Forall_impl; [|exact Hn']. now intros w [Hw _].
  - intros E0. apply app_eq_nil in E0 as [E0 _]. destruct (name_words p) as [|w ws]; [congruence|].
    rewrite wjoin_cons in E0. apply app_eq_nil in E0 as [E0 _]. inversion Hg as [|? ? [[[Hw _] _] _] _]; subst. congruence.
  - unfold nobrace. rewrite forallb_app'. fold (nobrace (wjoin (name_words p))). rewrite (wjoin_nobrace _ Hg).
    apply (andjoin_nobrace _ Hgs).
  - apply re_split_nonnil.
Qed.

(* ---- the general (semantic) domain of one name in a list: its formatted text is a list of name words, and the name
   parser reads it back.  name_ok (comma forms) and the no-first-name form (Proofs/WritersName0.v) are instances. *)
Definition name_okx (p : person) : Prop :=
  (exists ws, format_name p = wjoin ws /\ Forall gw ws /\ ws <> []) /\
  person_of_string (format_name p) = Ok (p, false).

Lemma name_ok_x p : name_ok p -> name_okx p.
Proof.
  intros H. split.
  - exists (name_words p). destruct (name_words_gw p H) as [G N]. destruct H as [E _].
    split; [now apply format_name_words|]. split; assumption.
  - destruct H as [E _]. now apply bibtex_name_roundtrip_pf.
Qed.

Lemma okx_words ps : Forall name_okx ps ->
  exists wss, map format_name ps = map wjoin wss /\ Forall (Forall gw) wss /\ Forall (fun n => n <> []) wss.
Proof.
  induction 1 as [|p ps [(ws & E & G & N) _] _ (wss & E2 & G2 & N2)]; [exists []; auto|].
  exists (ws :: wss). cbn [map]. rewrite E, E2. auto.
Qed.

Lemma split_name_list_namesx ps : ps <> [] -> Forall name_okx ps ->
  split_name_list (names_text ps) = Ok (map format_name ps).
Proof.
  intros Hne H. destruct (okx_words ps H) as (wss & E & G & N).
  destruct wss as [|ws wss]; [destruct ps; [congruence|discriminate]|].
  inversion G as [|? ? Hg Hgs]; subst. inversion N as [|? ? Hn Hnes]; subst.
  assert (T : names_text ps = wjoin ws ++ andjoin wss).
  { unfold names_text. rewrite E. cbn [map]. rewrite join_flat. f_equal.
    clear. induction wss as [|w r IH]; [reflexivity|]. cbn [map flat_map andjoin]. fold (andjoin r).
    rewrite IH, s_and_eq. now rewrite <- app_assoc. }
  rewrite T, E. unfold split_name_list, split_tex_string_gen.
  rewrite split_loop_nobrace.
  - rewrite re_split_names; auto.
    + cbn [map]. f_equal. f_equal; [now apply wjoin_strip|].
      rewrite map_map. clear -Hgs Hnes. induction wss as [|w r IH]; [reflexivity|].
      inversion Hgs; inversion Hnes; subst. cbn [map]. rewrite IH by assumption. f_equal. now apply wjoin_strip.
    + eapply Forall_impl; [|exact Hg]. now intros w [Hw _].
    + eapply Forall_impl; [|exact Hgs]. intros n Hn'. eapply Forall_impl; [|exact Hn']. now intros w [Hw _].
  - intros E0. apply app_eq_nil in E0 as [E0 _]. destruct ws as [|w ws']; [congruence|].
    rewrite wjoin_cons in E0. apply app_eq_nil in E0 as [E0 _]. inversion Hg as [|? ? [[[Hw _] _] _] _]; subst. congruence.
  - unfold nobrace. rewrite forallb_app'. fold (nobrace (wjoin ws)). rewrite (wjoin_nobrace _ Hg).
    apply (andjoin_nobrace _ Hgs).
  - apply re_split_nonnil.
Qed.
