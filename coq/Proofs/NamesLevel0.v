(* Proofs/NamesLevel0.v -- every brace-level-0 whitespace character splits: no token that
   split_tex_string(s) (separator BIBTEX_SPACE_RE) returns for a closed string contains a whitespace
   character at brace level 0. *)
From Pybtex Require Import Base.Prelude Base.PyChar Base.PyStr Model.BibtexStr Spec.Names
  Proofs.NamesSplit Proofs.Names Proofs.NamesAtomic.

Lemma l0ok_app a b d : l0ok (a ++ b) d = l0ok a d && l0ok b (lvl a d).
Proof.
  revert d; induction a as [|c a IH]; intros d; [reflexivity|].
  cbn [app l0ok]. rewrite IH, lvl_cons. now rewrite andb_assoc.
Qed.

Definition G (x : str) : Prop := closed x /\ l0ok x 0 = true.

Lemma G_nil : G []. Proof. split; reflexivity. Qed.

Lemma G_app a b : G a -> G b -> G (a ++ b).
Proof.
  intros [Ca La] [Cb Lb]. split; [now apply closed_app|].
  rewrite l0ok_app, La. change (lvl a 0) with (brace_level_after a). rewrite Ca. exact Lb.
Qed.

Lemma G_concat (l : list str) : Forall G l -> G (concat l).
Proof. induction 1; [exact G_nil|]. cbn [concat]. now apply G_app. Qed.

(* a brace-free, whitespace-free piece *)
Lemma plain_G p : forallb nolb p = true -> forallb nospace p = true -> G p.
Proof.
  intros H1 H2. split; [now apply nolb_closed|].
  assert (Hl : forall q, forallb nolb q = true -> forallb nospace q = true -> l0ok q 0 = true).
  { induction q as [|c q IH]; [reflexivity|]. cbn [forallb l0ok]. intros A B.
    apply andb_prop in A as [Ac Aq]. apply andb_prop in B as [Bc Bq]. rewrite Bc. cbn [andb].
    unfold nolb, is_lbrace in Ac. apply negb_true_iff in Ac. unfold bl_step. rewrite Ac.
    destruct (N.eqb c c_rbrace); cbn [pred]; now apply IH. }
  now apply Hl.
Qed.

(* the pieces BIBTEX_SPACE_RE leaves contain no whitespace *)
Lemma space_run_zero prev c t : space_run prev (c :: t) = 0 -> nospace c = true.
Proof. cbn [space_run]. unfold nospace. destruct (is_space c); [discriminate|reflexivity]. Qed.

Lemma re_split_go_nospace : forall fuel prev s acc, length s < fuel -> forallb nospace (rev acc) = true ->
  Forall (fun p => forallb nospace p = true) (re_split_go fuel sep_space prev s acc).
Proof.
  induction fuel as [|f IH]; intros prev s acc Hl Ha; [lia|]. cbn [re_split_go].
  destruct s as [|c t]; [constructor; [exact Ha|constructor]|].
  destruct (sep_space prev (c :: t)) as [|k] eqn:E.
  - apply IH; [cbn in Hl; lia|]. cbn [rev]. rewrite forallb_app, Ha. cbn [forallb andb].
    unfold sep_space in E. now rewrite (space_run_zero _ _ _ E).
  - constructor; [exact Ha|]. apply IH; [|reflexivity].
    cbn [skipn]. cbn [length] in Hl. assert (H := skipn_length k t). lia.
Qed.

Lemma re_split_G h : forallb nolb h = true -> Forall G (re_split sep_space h).
Proof.
  intros H. unfold re_split.
  assert (A := re_split_go_forall nolb sep_space (S (length h)) None h [] eq_refl H).
  assert (B := re_split_go_nospace (S (length h)) None h [] (Nat.lt_succ_diag_r _) eq_refl).
  rewrite Forall_forall in *. intros p Hp. apply plain_G; auto.
Qed.

(* inside a group nothing is at level 0 before the closing brace *)
Lemma fcb_first_zero_l0 : forall s l i lst, lvl s (S l) = 0 ->
  exists k, fcb_pos s (S l) i lst = i + S k /\ lvl (firstn (S k) s) (S l) = 0 /\ l0ok (firstn (S k) s) (S l) = true.
Proof.
  induction s as [|c t IH]; intros l i lst H; [discriminate|].
  rewrite lvl_cons in H. cbn [fcb_pos]. unfold is_lbrace, is_rbrace. unfold bl_step in H.
  destruct (N.eqb c c_lbrace) eqn:El.
  - destruct (IH (S l) (S i) (S i) H) as (k & Hp & H1 & H2).
    exists (S k). split; [rewrite Hp; lia|]. cbn [firstn l0ok]. rewrite lvl_cons. unfold bl_step. rewrite El. auto.
  - destruct (N.eqb c c_rbrace) eqn:Er.
    + destruct l as [|l'].
      * exists 0. split; [lia|]. cbn [firstn l0ok]. rewrite lvl_cons. unfold bl_step. rewrite El, Er. auto.
      * cbn [pred] in H. destruct (IH l' (S i) (S i) H) as (k & Hp & H1 & H2).
        exists (S k). split; [rewrite Hp; lia|]. cbn [firstn l0ok]. rewrite lvl_cons. unfold bl_step. rewrite El, Er. auto.
    + destruct (IH l (S i) lst H) as (k & Hp & H1 & H2).
      exists (S k). split; [rewrite Hp; lia|]. cbn [firstn l0ok]. rewrite lvl_cons. unfold bl_step. rewrite El, Er. auto.
Qed.

Lemma find_closing_brace_G rest u r' : closed (c_lbrace :: rest) -> find_closing_brace rest = (u, r') ->
  G (c_lbrace :: u).
Proof.
  intros H F. destruct (find_closing_brace_closed _ _ _ H F) as [Hu _]. split; [exact Hu|].
  change (lvl (c_lbrace :: rest) 0 = 0) in H. rewrite lvl_cons in H. change (bl_step 0 c_lbrace) with 1 in H.
  destruct (fcb_first_zero_l0 rest 0 0 0 H) as (k & Hp & H1 & H2).
  unfold find_closing_brace in F. rewrite Hp in F.
  change ((firstn (S k) rest, skipn (S k) rest) = (u, r')) in F.
  assert (Eu : u = firstn (S k) rest) by congruence. rewrite Eu.
  cbn [l0ok]. change (bl_step 0 c_lbrace) with 1. rewrite H2. reflexivity.
Qed.

Lemma split_loop_G : forall fuel s result wp r,
  split_loop fuel sep_space s result wp = Some r ->
  closed s -> Forall G result -> G (concat wp) -> Forall G r.
Proof.
  induction fuel as [|f IH]; intros s result wp r; cbn [split_loop]; [discriminate|].
  destruct (partition_brace s) as [[h b] rest] eqn:P.
  intros H Hs Hr Hw.
  assert (Hh : forallb nolb h = true).
  { destruct b; [apply partition_brace_true in P|apply partition_brace_false in P]; apply P. }
  assert (Hhead : forall result1 wp1,
    match h with
    | [] => (result, wp)
    | _ :: _ => match removelast (re_split sep_space h) with
                | [] => (result, wp ++ [last (re_split sep_space h) []])
                | w :: ws => (result ++ [concat (wp ++ [w])] ++ ws, [last (re_split sep_space h) []])
                end
    end = (result1, wp1) -> Forall G result1 /\ G (concat wp1)).
  { intros result1 wp1. destruct h as [|c h'].
    - intros [= <- <-]. auto.
    - assert (Hne : re_split sep_space (c :: h') <> []) by apply re_split_go_nonempty.
      assert (Hc := re_split_G (c :: h') Hh).
      destruct (exists_last Hne) as (firsts & lastp & Ehp). rewrite Ehp in *. clear Ehp.
      rewrite removelast_app by discriminate. cbn [removelast]. rewrite app_nil_r, last_last.
      apply Forall_app in Hc as [Hf Hl]. inversion Hl as [|? ? Hlp _]; subst.
      destruct firsts as [|w ws].
      + intros [= <- <-]. split; [exact Hr|]. rewrite concat_snoc_str. now apply G_app.
      + intros [= <- <-]. inversion Hf as [|? ? Hw0 Hws]; subst. split.
        * apply Forall_app. split; [exact Hr|]. constructor; [|exact Hws].
          rewrite concat_snoc_str. now apply G_app.
        * cbn [concat]. now rewrite app_nil_r. }
  match type of H with context [let '(_, _) := ?e in _] => destruct e as [result1 wp1] eqn:Eh end.
  destruct (Hhead result1 wp1 eq_refl) as [Hr1 Hw1].
  destruct b.
  - apply partition_brace_true in P as [-> _].
    destruct (find_closing_brace rest) as [u r'] eqn:F.
    assert (Hg : closed (c_lbrace :: rest)).
    { change (lvl (h ++ c_lbrace :: rest) 0 = 0) in Hs. rewrite lvl_app in Hs. apply nolb_closed in Hh.
      change (lvl h 0 = 0) in Hh. rewrite Hh in Hs. exact Hs. }
    destruct (find_closing_brace_closed _ _ _ Hg F) as [_ Hr'].
    assert (Hu := find_closing_brace_G _ _ _ Hg F).
    eapply IH; [exact H|exact Hr'|exact Hr1|].
    rewrite concat_app. cbn [concat]. rewrite app_nil_r. apply G_app; [exact Hw1|exact Hu].
  - destruct wp1 as [|x wp1']; injection H as <-; [exact Hr1|].
    apply Forall_app. split; [exact Hr1|]. constructor; [exact Hw1|constructor].
Qed.

(* strip leaves such tokens alone *)
Lemma l0ok_lstrip x : l0ok x 0 = true -> lstrip x = x.
Proof.
  destruct x as [|c t]; [reflexivity|]. cbn [l0ok lstrip]. intros H. apply andb_prop in H as [H _].
  unfold nospace in H. apply negb_true_iff in H. now rewrite H.
Qed.

Lemma G_last_nospace y c : G (y ++ [c]) -> is_space c = false.
Proof.
  intros [Cl L]. rewrite l0ok_app in L. apply andb_prop in L as [_ L]. cbn [l0ok] in L.
  change (lvl (y ++ [c]) 0 = 0) in Cl. rewrite lvl_app, lvl_cons in Cl. change (lvl [] ?d) with d in Cl.
  destruct (lvl y 0) as [|d].
  - rewrite andb_true_r in L. unfold nospace in L. now apply negb_true_iff in L.
  - destruct (is_space c) eqn:E; [|reflexivity]. exfalso.
    destruct (space_not_brace c E) as [E1 E2]. unfold bl_step in Cl. rewrite E1, E2 in Cl. discriminate.
Qed.

Lemma G_strip x : G x -> strip x = x.
Proof.
  intros H. unfold strip. rewrite (l0ok_lstrip x (proj2 H)). unfold rstrip.
  destruct (snoc_cases x) as [->|(y & c & ->)]; [reflexivity|].
  rewrite rev_app_distr. cbn [rev app lstrip]. rewrite (G_last_nospace y c H).
  cbn [rev]. now rewrite rev_involutive.
Qed.

Lemma level0_whitespace_splits_pf s ts : closed s -> split_tex_space s = Ok ts ->
  Forall (fun t => closed t /\ l0ok t 0 = true) ts.
Proof.
  intros Hs. unfold split_tex_space, split_tex_string_gen.
  destruct (split_loop _ _ _ _ _) as [r0|] eqn:E; [|discriminate].
  apply split_loop_G in E; [|exact Hs|constructor|exact G_nil].
  intros [= <-]. apply Forall_forall. intros x Hx. apply filter_In in Hx as [Hx _].
  apply in_map_iff in Hx as (y & <- & Hy). rewrite Forall_forall in E. specialize (E y Hy).
  rewrite (G_strip y E). exact E.
Qed.
