(* Proofs/BibParserOpt.v -- C10 lifted to the reader with options (Model/BibParserOpt.v):
   for EVERY option set (wanted_entries, keyless_entries, macros, person_fields) the reader is
   total, its syntax errors are located, and non-strict mode reads as capture mode does.
   Same invariants and proof structure as Proofs/BibParser.v. *)
From Pybtex Require Import Base.Prelude Base.PyChar Base.PyStr Model.BibtexStr Model.Names
  Model.Scanner Model.BibParser Model.BibParserOpt Proofs.Scanner Proofs.BibParser.
Local Open Scope N_scope.

Lemma substitute_macro_o_safe text m w name s : inv text s -> safe text s (substitute_macro_o m w name s).
Proof.
  intros Hi. unfold substitute_macro_o. destruct (assoc_get (lower name) (p_macros s)).
  - cbn. split; [exact Hi|apply ext_refl].
  - destruct (want_current w s); [|cbn; split; [exact Hi|apply ext_refl]].
    apply safe_bind.
    + apply handle_error_safe; auto. apply (mk_err_ok text E_UNDEF s Hi eq_refl).
    + intros a s1 _ Hi1 _. cbn. split; [exact Hi1|apply ext_refl].
Qed.

Lemma parse_value_part_o_safe text m w s : inv text s ->
  safe text s (parse_value_part_o m w s) /\ progress s (parse_value_part_o m w s).
Proof.
  intros Hi. unfold parse_value_part_o.
  destruct (required_safe text _ s Hi value_pats_ok) as [Hr Hp].
  destruct (required [P_LIT c_quote; P_LIT c_lbrace; P_NUMBER; P_NAME] s) as [tk s1|e s1|f] eqn:Er;
    [|split; [exact Hr|intros ? ? H; discriminate]|split; [exact Hr|intros ? ? H; discriminate]].
  destruct (Hp tk s1 eq_refl) as [Hlt _]. destruct Hr as [Hi1 He1]. cbn [obind].
  match goal with |- safe _ _ ?k /\ _ => assert (Hk : safe text s1 k) end.
  { destruct (fst tk) as [| | | |c]; try (apply substitute_macro_o_safe; exact Hi1).
    - cbn. split; [exact Hi1|apply ext_refl].
    - apply safe_bind.
      + apply pstring_safe; [exact Hi1|unfold len; lia].
      + intros a s2 _ Hi2 _. cbn. split; [exact Hi2|apply ext_refl]. }
  split; [eapply safe_ext; eauto|].
  intros a s' H. pose proof (safe_len _ _ _ _ _ Hk H). lia.
Qed.

Lemma parse_value_loop_o_safe text m w fuel : forall parts s, inv text s -> (len s < fuel)%nat ->
  safe text s (parse_value_loop_o fuel m w parts s).
Proof.
  induction fuel as [|f IH]; intros parts s Hi Hf; [lia|]. cbn [parse_value_loop_o].
  destruct (parse_value_part_o_safe text m w s Hi) as [Hs Hp].
  apply safe_bind; [exact Hs|]. intros part s1 E1 Hi1 He1. specialize (Hp part s1 E1).
  destruct (optional_safe text _ s1 Hi1 hash_ok) as [Ho Hop].
  apply safe_bind; [exact Ho|]. intros h s2 E2 Hi2 He2.
  destruct h as [tk|].
  - destruct (Hop tk s2 E2) as [Hlt _]. apply IH; [exact Hi2|lia].
  - cbn. split; [exact Hi2|apply ext_refl].
Qed.

Lemma parse_value_o_safe text m w s : inv text s -> safe text s (parse_value_o m w s).
Proof.
  intros Hi. unfold parse_value_o. apply safe_bind.
  - apply parse_value_loop_o_safe; [exact Hi|unfold len; lia].
  - intros parts s1 _ Hi1 _. apply safe_ret_same; [same|exact Hi1].
Qed.

Lemma parse_field_o_safe text m w s : inv text s -> safe text s (parse_field_o m w s).
Proof.
  intros Hi. unfold parse_field_o.
  destruct (optional_safe text _ s Hi name_ok) as [Ho _].
  apply safe_bind; [exact Ho|]. intros name s1 _ Hi1 _.
  destruct name as [tk|]; [|cbn; split; [exact Hi1|apply ext_refl]].
  destruct (same_core_inv text s1 (set_fname s1 (Some (snd tk))) ltac:(same) Hi1) as [Hi2 He2].
  eapply safe_ext; [exact He2|].
  destruct (required_safe text _ _ Hi2 equals_ok) as [Hr _].
  apply safe_bind; [exact Hr|]. intros x s3 _ Hi3 _. apply parse_value_o_safe. exact Hi3.
Qed.

Lemma parse_entry_fields_o_safe text m w fuel : forall s, inv text s -> (len s < fuel)%nat ->
  safe text s (parse_entry_fields_o fuel m w s).
Proof.
  induction fuel as [|f IH]; intros s Hi Hf; [lia|]. cbn [parse_entry_fields_o].
  destruct (same_core_inv text s (set_value (set_fname s None) []) ltac:(same) Hi) as [Hi0 He0].
  eapply safe_ext; [exact He0|].
  apply safe_bind; [apply parse_field_o_safe; exact Hi0|]. intros u s1 _ Hi1 He1.
  set (s2 := match p_fname s1, p_value s1 with
             | Some n, _ :: _ => set_fields s1 (p_fields s1 ++ [(n, p_value s1)])
             | _, _ => s1 end).
  assert (Hc : same_core s1 s2) by (unfold s2; destruct (p_fname s1); [destruct (p_value s1)|]; same).
  destruct (same_core_inv text s1 s2 Hc Hi1) as [Hi2 He2].
  eapply safe_ext; [exact He2|].
  destruct (optional_safe text _ s2 Hi2 comma_ok) as [Ho Hop].
  apply safe_bind; [exact Ho|]. intros comma s3 E3 Hi3 He3.
  destruct comma as [tk|]; [|cbn; split; [exact Hi3|apply ext_refl]].
  destruct (Hop tk s3 E3) as [Hlt _]. apply IH; [exact Hi3|].
  apply ext_len in He0, He1, He2. lia.
Qed.

Lemma parse_string_body_o_safe text m w s : inv text s -> safe text s (parse_string_body_o m w s).
Proof.
  intros Hi. unfold parse_string_body_o.
  destruct (required_safe text _ s Hi name_ok) as [Hr _].
  apply safe_bind; [exact Hr|]. intros tk s1 _ Hi1 _.
  destruct (same_core_inv text s1 (set_fname s1 (Some (snd tk))) ltac:(same) Hi1) as [Hi2 He2].
  eapply safe_ext; [exact He2|].
  destruct (required_safe text _ _ Hi2 equals_ok) as [Hr2 _].
  apply safe_bind; [exact Hr2|]. intros x s3 _ Hi3 _.
  apply safe_bind; [apply parse_value_o_safe; exact Hi3|]. intros y s4 _ Hi4 _.
  apply safe_ret_same; [same|exact Hi4].
Qed.


Lemma parse_entry_body_o_safe text m w keyless b s : inv text s -> safe text s (parse_entry_body_o m w keyless b s).
Proof.
  intros Hi. unfold parse_entry_body_o. apply safe_bind.
  - destruct keyless; [cbn; split; [exact Hi|apply ext_refl]|].
    apply safe_bind; [apply required_safe; [exact Hi|apply key_ok]|].
    intros tk s1 _ Hi1 _. apply safe_ret_same; [same|exact Hi1].
  - intros u s1 _ Hi1 _. apply safe_bind; [apply parse_entry_fields_o_safe; [exact Hi1|unfold len; lia]|].
    intros u2 s2 _ Hi2 _. cbn. split; [exact Hi2|apply ext_refl].
Qed.

Lemma parse_command_o_safe text m w keyless s : inv text s -> safe text s (parse_command_o m w keyless s).
Proof.
  intros Hi. unfold parse_command_o.
  set (s0 := set_value (set_fname (set_fields (set_key s None) []) None) []).
  destruct (same_core_inv text s s0 ltac:(same) Hi) as [Hi0 He0].
  eapply safe_ext; [exact He0|].
  destruct (required_safe text _ s0 Hi0 name_ok) as [Hr _].
  apply safe_bind; [exact Hr|]. intros name s1 _ Hi1 _.
  destruct (required_safe text _ s1 Hi1 open_ok) as [Hr2 _].
  apply safe_bind; [exact Hr2|]. intros bs s2 _ Hi2 _.
  destruct (str_eqb (lower (snd name)) kw_comment); [cbn; split; [exact Hi2|apply ext_refl]|].
  set (brace := match fst bs with P_LIT c => c =? c_lbrace | _ => false end).
  set (k := if str_eqb (lower (snd name)) kw_string then KString
            else if str_eqb (lower (snd name)) kw_preamble then KPreamble else KEntry).
  set (body := match k with
               | KString => parse_string_body_o m w s2 >>= fun _ s3 => Ret false s3
               | KPreamble => parse_value_o m w s2 >>= fun _ s3 => Ret false s3
               | KEntry => parse_entry_body_o m w keyless brace s2 end).
  assert (Hb : safe text s2 body).
  { unfold body. destruct k.
    - apply safe_bind; [apply parse_string_body_o_safe; exact Hi2|]. intros u s3 _ Hi3 _. cbn. split; [exact Hi3|apply ext_refl].
    - apply safe_bind; [apply parse_value_o_safe; exact Hi2|]. intros u s3 _ Hi3 _. cbn. split; [exact Hi3|apply ext_refl].
    - apply parse_entry_body_o_safe; exact Hi2. }
  assert (Hbe : safe text s2 (body >>= (fun skip s3 => if skip then Ret true s3 else required [P_LIT (if brace then c_rbrace else 41)] s3 >>= fun _ s4 => Ret false s4))).
  { apply safe_bind; [exact Hb|]. intros skip s3 _ Hi3 _. destruct skip; [cbn; split; [exact Hi3|apply ext_refl]|].
    apply safe_bind; [apply required_safe; [exact Hi3|destruct brace; apply lit_ok; discriminate]|].
    intros u s4 _ Hi4 _. cbn. split; [exact Hi4|apply ext_refl]. }
  destruct (body >>= _) as [[|] s4|e s4|f].
  - cbn in Hbe |- *. exact Hbe.
  - cbn in Hbe |- *. exact Hbe.
  - cbn in Hbe. destruct Hbe as (Hi4 & He4 & Hok & _).
    eapply safe_ext; [exact He4|]. apply safe_bind; [apply handle_error_safe; auto|].
    intros x s5 _ Hi5 _. cbn. split; [exact Hi5|apply ext_refl].
  - exact Hbe.
Qed.

(* ---- process side with options *)
Lemma process_fields_o_safe text m pf : names_total -> forall fields seen fs ps s, inv text s ->
  safe text s (process_fields_o m pf fields seen fs ps s) /\ (forall e s', process_fields_o m pf fields seen fs ps s <> Exc e s').
Proof.
  intros Hn. induction fields as [|[fname parts] rest IH]; intros seen fs ps s Hi; cbn [process_fields_o].
  - split; [cbn; split; [exact Hi|apply ext_refl]|discriminate].
  - destruct (existsb (str_eqb (lower fname)) seen).
    + pose proof (handle_error_safe text m (data_err E_DUPFIELD) s Hi (data_err_ok text E_DUPFIELD eq_refl ltac:(discriminate))) as Hh.
      pose proof (handle_no_exc m (data_err E_DUPFIELD) s) as Hne.
      destruct (handle_error m (data_err E_DUPFIELD) s) as [u s1|e1 s1|x1]; cbn [obind].
      * destruct Hh as [Hi1 He1]. destruct (IH seen fs ps s1 Hi1) as [H1 H2]. split; [eapply safe_ext; eauto|exact H2].
      * exfalso. eapply Hne; reflexivity.
      * split; [exact Hh|discriminate].
    + destruct (existsb (str_eqb (lower fname)) pf).
      * destruct (proj2 Hn (normalize_whitespace (concat parts))) as [Hc Hf].
        destruct (split_name_list (normalize_whitespace (concat parts))) as [names|cls l| |]; try congruence.
        -- destruct (persons_of_safe text m Hn names [] s Hi) as [Hp Hpe].
           destruct (persons_of m names [] s) as [pl s1|e1 s1|x1]; cbn [obind].
           ++ destruct Hp as [Hi1 He1].
              destruct (IH (seen ++ [lower fname]) fs (match pl with [] => ps | _ => ps ++ [(fname, pl)] end) s1 Hi1) as [H1 H2].
              split; [eapply safe_ext; eauto|exact H2].
           ++ exfalso. eapply Hpe; reflexivity.
           ++ split; [exact Hp|discriminate].
        -- split; [exact I|discriminate].
      * apply IH. exact Hi.
Qed.

Lemma add_entry_o_safe text m key typ fs ps d s : inv text s ->
  safe text s (add_entry_o m key typ fs ps d s) /\ (forall e s', add_entry_o m key typ fs ps d s <> Exc e s').
Proof.
  intros Hi. unfold add_entry_o.
  destruct (negb (want_entry (d_wanted d) key)); [split; [cbn; split; [exact Hi|apply ext_refl]|discriminate]|].
  destruct (existsb _ (db_entries (d_db d))).
  - pose proof (handle_error_safe text m (data_err E_REPEATED) s Hi (data_err_ok text E_REPEATED eq_refl ltac:(discriminate))) as Hh.
    pose proof (handle_no_exc m (data_err E_REPEATED) s) as Hne.
    destruct (handle_error m (data_err E_REPEATED) s) as [u s2|e2 s2|x2]; cbn [obind].
    + split; [|discriminate]. cbn. exact Hh.
    + exfalso. eapply Hne; reflexivity.
    + split; [exact Hh|discriminate].
  - split; [|discriminate]. cbn. split; [exact Hi|apply ext_refl].
Qed.

Lemma process_o_safe text m pf c d s : names_total -> inv text s ->
  safe text s (process_o m pf c d s) /\ (forall e s', process_o m pf c d s <> Exc e s').
Proof.
  intros Hn Hi. destruct c as [n f v|n v|typ key fields]; cbn [process_o].
  - split; [cbn; split; [exact Hi|apply ext_refl]|discriminate].
  - unfold process_preamble. cbn. split; [split; [exact Hi|apply ext_refl]|discriminate].
  - destruct (match key with Some k => (k, d_db d) | None => _ end) as [k db1].
    destruct (process_fields_o_safe text m pf Hn fields [] [] [] s Hi) as [Hp Hpe].
    destruct (process_fields_o m pf fields [] [] [] s) as [r s1|e1 s1|x1]; cbn [obind].
    + destruct Hp as [Hi1 He1]. destruct (add_entry_o_safe text m k typ (fst r) (snd r) (mkDbo db1 (d_wanted d) (d_citations d)) s1 Hi1) as [Ha Hae].
      split; [eapply safe_ext; eauto|exact Hae].
    + exfalso. eapply Hpe; reflexivity.
    + split; [exact Hp|discriminate].
Qed.

Lemma bib_loop_o_safe text m keyless pf : names_total ->
  forall fuel d s, inv0 text s -> (len s < fuel)%nat -> final0 text (bib_loop_o fuel m keyless pf d s).
Proof.
  intros Hn. induction fuel as [|f IH]; intros d s Hi Hf; [lia|]. cbn [bib_loop_o].
  destruct (skip_to (fun c => c =? c_at) (p_sc s)) as [[[v c] c']|] eqn:Es; [|exact Hi].
  destruct Hi as [Ha Hb].
  destruct (skip_to_spec text _ _ _ _ _ at_not_cr Ha Es) as (H1 & H2 & H3 & H4 & _).
  destruct (skip_to_last text _ _ _ _ _ Ha Es) as [H5 H6].
  apply N.eqb_eq in H4. subst c.
  set (s1 := set_cstart (set_sc s c') (sc_pos c' - 1)).
  assert (Hi1 : inv text s1).
  { unfold inv, inv0, s1. cbn. repeat split; auto. lia. }
  assert (Hl1 : (len s1 < len s)%nat) by exact H3.
  pose proof (parse_command_o_safe text m (d_wanted d) keyless s1 Hi1) as Hc.
  destruct (parse_command_o m (d_wanted d) keyless s1) as [[c|] s2|e s2|x].
  - destruct Hc as [Hi2 He2]. destruct (process_o_safe text m pf c d s2 Hn Hi2) as [Hp Hne].
    destruct (process_o m pf c d s2) as [d' s3|e3 s3|x3] eqn:Ep; cbn [obind].
    + destruct Hp as [Hi3 He3]. apply IH; [exact (proj1 Hi3)|]. apply ext_len in He2, He3. lia.
    + exfalso. eapply Hne; reflexivity.
    + exact Hp.
  - destruct Hc as [Hi2 He2]. apply IH; [exact (proj1 Hi2)|]. apply ext_len in He2. lia.
  - destruct Hc as (Hi2 & He2 & Hok & _).
    pose proof (handle_error_safe text m e s2 Hi2 Hok) as Hh.
    destruct (handle_error m e s2) as [u s3|e3 s3|x3] eqn:Eh; cbn [obind].
    + destruct Hh as [Hi3 He3]. apply IH; [exact (proj1 Hi3)|]. apply ext_len in He2, He3. lia.
    + exfalso. eapply handle_no_exc; exact Eh.
    + exact Hh.
  - exact Hc.
Qed.

Lemma parse_bib_o_safe o m text : final0 text (parse_bib_o o m text).
Proof.
  unfold parse_bib_o. apply bib_loop_o_safe.
  - exact names_total_holds.
  - apply inv0_init.
  - unfold len. cbn. lia.
Qed.

Lemma parse_bib_o_total o m text : no_internal_failure (parse_bib_o o m text).
Proof. apply (final0_no_failure text). apply parse_bib_o_safe. Qed.

Lemma parse_bib_o_located o m text d s : parse_bib_o o m text = Ret d s -> forall e, In e (p_errs s) -> located text e.
Proof.
  intros H e He. pose proof (parse_bib_o_safe o m text) as Hs. rewrite H in Hs. cbn in Hs.
  destruct Hs as [_ Hf]. rewrite Forall_forall in Hf. apply err_ok_located. auto.
Qed.

(* ---- non-strict = capture, with options *)
Lemma substitute_macro_o_ns text w name s : inv text s -> substitute_macro_o NonStrict w name s = substitute_macro_o Capture w name s.
Proof.
  intros Hi. unfold substitute_macro_o. destruct (assoc_get (lower name) (p_macros s)); [reflexivity|].
  destruct (want_current w s); [|reflexivity].
  rewrite (handle_error_ns text); [reflexivity|]. apply (mk_err_ok text E_UNDEF s Hi eq_refl).
Qed.

Lemma parse_value_part_o_ns text w s : inv text s -> parse_value_part_o NonStrict w s = parse_value_part_o Capture w s.
Proof.
  intros Hi. unfold parse_value_part_o. eapply eq_bind.
  - apply required_safe; [exact Hi|exact value_pats_ok].
  - intros tk s1 _ Hi1. destruct (fst tk); try reflexivity; apply (substitute_macro_o_ns text w); exact Hi1.
Qed.

Lemma parse_value_loop_o_ns text w fuel : forall parts s, inv text s ->
  parse_value_loop_o fuel NonStrict w parts s = parse_value_loop_o fuel Capture w parts s.
Proof.
  induction fuel as [|f IH]; intros parts s Hi; [reflexivity|]. cbn [parse_value_loop_o].
  rewrite (parse_value_part_o_ns text w s Hi). eapply eq_bind.
  - apply parse_value_part_o_safe. exact Hi.
  - intros part s1 _ Hi1. eapply eq_bind.
    + apply optional_safe; [exact Hi1|exact hash_ok].
    + intros h s2 _ Hi2. destruct h; [apply IH; exact Hi2|reflexivity].
Qed.

Lemma parse_value_o_ns text w s : inv text s -> parse_value_o NonStrict w s = parse_value_o Capture w s.
Proof. intros Hi. unfold parse_value_o. rewrite (parse_value_loop_o_ns text w); [reflexivity|exact Hi]. Qed.

Lemma parse_field_o_ns text w s : inv text s -> parse_field_o NonStrict w s = parse_field_o Capture w s.
Proof.
  intros Hi. unfold parse_field_o. eapply eq_bind.
  - apply optional_safe; [exact Hi|exact name_ok].
  - intros name s1 _ Hi1. destruct name as [tk|]; [|reflexivity].
    destruct (same_core_inv text s1 (set_fname s1 (Some (snd tk))) ltac:(same) Hi1) as [Hi2 _].
    eapply eq_bind.
    + apply required_safe; [exact Hi2|exact equals_ok].
    + intros x s3 _ Hi3. apply (parse_value_o_ns text w). exact Hi3.
Qed.

Lemma parse_entry_fields_o_ns text w fuel : forall s, inv text s ->
  parse_entry_fields_o fuel NonStrict w s = parse_entry_fields_o fuel Capture w s.
Proof.
  induction fuel as [|f IH]; intros s Hi; [reflexivity|]. cbn [parse_entry_fields_o].
  destruct (same_core_inv text s (set_value (set_fname s None) []) ltac:(same) Hi) as [Hi0 _].
  rewrite (parse_field_o_ns text w _ Hi0). eapply eq_bind.
  - apply parse_field_o_safe. exact Hi0.
  - intros u s1 _ Hi1.
    set (s2 := match p_fname s1, p_value s1 with
               | Some n, _ :: _ => set_fields s1 (p_fields s1 ++ [(n, p_value s1)])
               | _, _ => s1 end).
    assert (Hc : same_core s1 s2) by (unfold s2; destruct (p_fname s1); [destruct (p_value s1)|]; same).
    destruct (same_core_inv text s1 s2 Hc Hi1) as [Hi2 _].
    eapply eq_bind.
    + apply optional_safe; [exact Hi2|exact comma_ok].
    + intros comma s3 _ Hi3. destruct comma; [apply IH; exact Hi3|reflexivity].
Qed.

Lemma parse_string_body_o_ns text w s : inv text s -> parse_string_body_o NonStrict w s = parse_string_body_o Capture w s.
Proof.
  intros Hi. unfold parse_string_body_o. eapply eq_bind.
  - apply required_safe; [exact Hi|exact name_ok].
  - intros tk s1 _ Hi1.
    destruct (same_core_inv text s1 (set_fname s1 (Some (snd tk))) ltac:(same) Hi1) as [Hi2 _].
    eapply eq_bind.
    + apply required_safe; [exact Hi2|exact equals_ok].
    + intros x s3 _ Hi3. rewrite (parse_value_o_ns text w s3 Hi3). reflexivity.
Qed.
Lemma parse_entry_body_o_ns text w keyless b s : inv text s ->
  parse_entry_body_o NonStrict w keyless b s = parse_entry_body_o Capture w keyless b s.
Proof.
  intros Hi. unfold parse_entry_body_o. eapply eq_bind.
  - destruct keyless; [cbn; split; [exact Hi|apply ext_refl]|].
    apply safe_bind; [apply required_safe; [exact Hi|apply key_ok]|].
    intros tk s1 _ Hi1 _. apply safe_ret_same; [same|exact Hi1].
  - intros u s1 _ Hi1. rewrite (parse_entry_fields_o_ns text w _ s1 Hi1). reflexivity.
Qed.

Lemma parse_command_o_ns text w keyless s : inv text s ->
  parse_command_o NonStrict w keyless s = parse_command_o Capture w keyless s.
Proof.
  intros Hi. unfold parse_command_o.
  set (s0 := set_value (set_fname (set_fields (set_key s None) []) None) []).
  destruct (same_core_inv text s s0 ltac:(same) Hi) as [Hi0 _].
  eapply eq_bind.
  - apply required_safe; [exact Hi0|exact name_ok].
  - intros name s1 _ Hi1. eapply eq_bind.
    + apply required_safe; [exact Hi1|exact open_ok].
    + intros bs s2 _ Hi2.
      destruct (str_eqb (lower (snd name)) kw_comment); [reflexivity|].
      set (brace := match fst bs with P_LIT c => c =? c_lbrace | _ => false end).
      set (k := if str_eqb (lower (snd name)) kw_string then KString
                else if str_eqb (lower (snd name)) kw_preamble then KPreamble else KEntry).
      assert (Hb : match k with
                   | KString => parse_string_body_o NonStrict w s2 >>= fun _ s3 => Ret false s3
                   | KPreamble => parse_value_o NonStrict w s2 >>= fun _ s3 => Ret false s3
                   | KEntry => parse_entry_body_o NonStrict w keyless brace s2 end =
                   match k with
                   | KString => parse_string_body_o Capture w s2 >>= fun _ s3 => Ret false s3
                   | KPreamble => parse_value_o Capture w s2 >>= fun _ s3 => Ret false s3
                   | KEntry => parse_entry_body_o Capture w keyless brace s2 end).
      { destruct k; [rewrite (parse_string_body_o_ns text w s2 Hi2)|rewrite (parse_value_o_ns text w s2 Hi2)|apply (parse_entry_body_o_ns text)]; auto. }
      rewrite Hb.
      set (body := match k with
                   | KString => parse_string_body_o Capture w s2 >>= fun _ s3 => Ret false s3
                   | KPreamble => parse_value_o Capture w s2 >>= fun _ s3 => Ret false s3
                   | KEntry => parse_entry_body_o Capture w keyless brace s2 end).
      assert (Hs : safe text s2 (body >>= (fun skip s3 => if skip then Ret true s3 else required [P_LIT (if brace then c_rbrace else 41)] s3 >>= fun _ s4 => Ret false s4))).
      { apply safe_bind.
        - unfold body. destruct k.
          + apply safe_bind; [apply parse_string_body_o_safe; exact Hi2|]. intros u s3 _ Hi3 _. cbn. split; [exact Hi3|apply ext_refl].
          + apply safe_bind; [apply parse_value_o_safe; exact Hi2|]. intros u s3 _ Hi3 _. cbn. split; [exact Hi3|apply ext_refl].
          + apply parse_entry_body_o_safe; exact Hi2.
        - intros skip s3 _ Hi3 _. destruct skip; [cbn; split; [exact Hi3|apply ext_refl]|].
          apply safe_bind; [apply required_safe; [exact Hi3|destruct brace; apply lit_ok; discriminate]|].
          intros u s4 _ Hi4 _. cbn. split; [exact Hi4|apply ext_refl]. }
      destruct (body >>= _) as [[|] s4|e s4|f]; try reflexivity.
      cbn in Hs. destruct Hs as (_ & _ & Hok & _). rewrite (handle_error_ns text e s4 Hok). reflexivity.
Qed.

Lemma process_fields_o_ns pf : forall fields seen fs ps s,
  process_fields_o NonStrict pf fields seen fs ps s = process_fields_o Capture pf fields seen fs ps s.
Proof.
  induction fields as [|[fname parts] rest IH]; intros seen fs ps s; cbn [process_fields_o]; [reflexivity|].
  destruct (existsb (str_eqb (lower fname)) seen).
  - rewrite (data_handle_ns E_DUPFIELD s eq_refl ltac:(discriminate)).
    destruct (handle_error Capture (data_err E_DUPFIELD) s); cbn [obind]; auto.
  - destruct (existsb (str_eqb (lower fname)) pf); [|apply IH].
    destruct (split_name_list (normalize_whitespace (concat parts))); try reflexivity.
    rewrite persons_of_ns. destruct (persons_of Capture a [] s); cbn [obind]; auto.
Qed.

Lemma process_o_ns pf c d s : process_o NonStrict pf c d s = process_o Capture pf c d s.
Proof.
  destruct c as [n f v|n v|typ key fields]; cbn [process_o]; try reflexivity.
  destruct (match key with Some k => (k, d_db d) | None => _ end) as [k db1].
  rewrite process_fields_o_ns. destruct (process_fields_o Capture pf fields [] [] [] s) as [r s1|e1 s1|x1]; cbn [obind]; reflexivity.
Qed.

Lemma bib_loop_o_ns text keyless pf :
  forall fuel d s, inv0 text s -> bib_loop_o fuel NonStrict keyless pf d s = bib_loop_o fuel Capture keyless pf d s.
Proof.
  induction fuel as [|f IH]; intros d s Hi; [reflexivity|]. cbn [bib_loop_o].
  destruct (skip_to (fun c => c =? c_at) (p_sc s)) as [[[v c] c']|] eqn:Es; [|reflexivity].
  destruct Hi as [Ha Hb].
  destruct (skip_to_spec text _ _ _ _ _ at_not_cr Ha Es) as (H1 & H2 & H3 & H4 & _).
  destruct (skip_to_last text _ _ _ _ _ Ha Es) as [H5 H6].
  apply N.eqb_eq in H4. subst c.
  set (s1 := set_cstart (set_sc s c') (sc_pos c' - 1)).
  assert (Hi1 : inv text s1).
  { unfold inv, inv0, s1. cbn. repeat split; auto. lia. }
  rewrite (parse_command_o_ns text (d_wanted d) keyless s1 Hi1).
  pose proof (parse_command_o_safe text Capture (d_wanted d) keyless s1 Hi1) as Hc.
  destruct (parse_command_o Capture (d_wanted d) keyless s1) as [[c|] s2|e s2|x]; try reflexivity.
  - destruct Hc as [Hi2 _]. rewrite (process_o_ns pf c d s2).
    destruct (process_o_safe text Capture pf c d s2 names_total_holds Hi2) as [Hp _].
    destruct (process_o Capture pf c d s2) as [d' s3|e3 s3|x3]; cbn [obind]; try reflexivity.
    apply IH. exact (proj1 (proj1 Hp)).
  - apply IH. exact (proj1 (proj1 Hc)).
  - destruct Hc as (Hi2 & _ & Hok & _). rewrite (handle_error_ns text e s2 Hok).
    pose proof (handle_error_safe text Capture e s2 Hi2 Hok) as Hh.
    destruct (handle_error Capture e s2) as [u s3|e3 s3|x3]; cbn [obind]; try reflexivity.
    apply IH. exact (proj1 (proj1 Hh)).
Qed.

Lemma parse_bib_o_ns o text : parse_bib_o o NonStrict text = parse_bib_o o Capture text.
Proof. unfold parse_bib_o. apply (bib_loop_o_ns text). apply inv0_init. Qed.
