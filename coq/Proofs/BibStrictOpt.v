(* Proofs/BibStrictOpt.v -- C10: strict mode raises exactly the first error capture mode records,
   for the reader with options (Model/BibParserOpt.v).  Same structure as Proofs/BibStrictFirst.v. *)
From Pybtex Require Import Base.Prelude Base.PyChar Base.PyStr Model.BibtexStr Model.Names
  Model.Scanner Model.BibParser Model.BibParserOpt Proofs.BibStrict Proofs.BibStrictFirst.
Local Open Scope N_scope.

Lemma mono_substitute_o w name s : mono s (substitute_macro_o Capture w name s).
Proof.
  unfold substitute_macro_o. destruct (assoc_get (lower name) (p_macros s)); [apply mono_refl_ret; reflexivity|].
  destruct (want_current w s); [|apply mono_refl_ret; reflexivity].
  apply mono_bind; [apply mono_handle|]. intros a s1. apply mono_refl_ret. reflexivity.
Qed.
Lemma first_substitute_o w name s : first s (substitute_macro_o Strict w name s) (substitute_macro_o Capture w name s).
Proof.
  unfold substitute_macro_o. destruct (assoc_get (lower name) (p_macros s)); [cbn; auto|].
  destruct (want_current w s); [|cbn; auto].
  apply first_handle. intros a s1. apply mono_refl_ret. reflexivity.
Qed.

Lemma mono_value_part_o w s : mono s (parse_value_part_o Capture w s).
Proof.
  unfold parse_value_part_o. apply mono_bind; [apply mono_required|]. intros tk s1.
  destruct (fst tk); try apply mono_substitute_o.
  - apply mono_refl_ret. reflexivity.
  - apply mono_bind; [apply mono_pstring|]. intros a s2. apply mono_refl_ret. reflexivity.
Qed.

Lemma mono_value_loop_o w fuel : forall parts s, mono s (parse_value_loop_o fuel Capture w parts s).
Proof.
  induction fuel as [|f IH]; intros parts s; cbn [parse_value_loop_o]; [exact I|].
  apply mono_bind; [apply mono_value_part_o|]. intros part s1.
  apply mono_bind; [apply mono_optional|]. intros h s2. destruct h; [apply IH|apply mono_refl_ret; reflexivity].
Qed.

Lemma mono_value_o w s : mono s (parse_value_o Capture w s).
Proof. unfold parse_value_o. apply mono_bind; [apply mono_value_loop_o|]. intros p s1. apply mono_refl_ret. reflexivity. Qed.

Lemma mono_field_o w s : mono s (parse_field_o Capture w s).
Proof.
  unfold parse_field_o. apply mono_bind; [apply mono_optional|]. intros name s1.
  destruct name as [tk|]; [|apply mono_refl_ret; reflexivity].
  eapply (mono_core _ (set_fname s1 (Some (snd tk)))); [reflexivity|].
  apply mono_bind; [apply mono_required|]. intros x s3. apply mono_value_o.
Qed.

Lemma mono_entry_fields_o w fuel : forall s, mono s (parse_entry_fields_o fuel Capture w s).
Proof.
  induction fuel as [|f IH]; intros s; cbn [parse_entry_fields_o]; [exact I|].
  eapply (mono_core _ (set_value (set_fname s None) [])); [reflexivity|].
  apply mono_bind; [apply mono_field_o|]. intros u s1.
  set (s2 := match p_fname s1, p_value s1 with
             | Some n, _ :: _ => set_fields s1 (p_fields s1 ++ [(n, p_value s1)])
             | _, _ => s1 end).
  assert (He : p_errs s2 = p_errs s1) by (unfold s2; destruct (p_fname s1); [destruct (p_value s1)|]; reflexivity).
  eapply (mono_core _ s2); [exact He|].
  apply mono_bind; [apply mono_optional|]. intros comma s3. destruct comma; [apply IH|apply mono_refl_ret; reflexivity].
Qed.

Lemma mono_string_body_o w s : mono s (parse_string_body_o Capture w s).
Proof.
  unfold parse_string_body_o. apply mono_bind; [apply mono_required|]. intros tk s1.
  eapply (mono_core _ (set_fname s1 (Some (snd tk)))); [reflexivity|].
  apply mono_bind; [apply mono_required|]. intros x s3.
  apply mono_bind; [apply mono_value_o|]. intros y s4. apply mono_refl_ret. reflexivity.
Qed.


Lemma first_value_part_o w s : first s (parse_value_part_o Strict w s) (parse_value_part_o Capture w s).
Proof.
  unfold parse_value_part_o. apply first_bind; [apply first_required| |].
  - intros tk s1 _. destruct (fst tk); try apply first_substitute_o.
    + cbn. auto.
    + apply first_bind; [apply first_pstring| |]; intros; [cbn; auto|apply mono_refl_ret; reflexivity].
  - intros tk s1. destruct (fst tk); try apply mono_substitute_o.
    + apply mono_refl_ret. reflexivity.
    + apply mono_bind; [apply mono_pstring|]. intros. apply mono_refl_ret. reflexivity.
Qed.

Lemma first_value_loop_o w fuel : forall parts s, first s (parse_value_loop_o fuel Strict w parts s) (parse_value_loop_o fuel Capture w parts s).
Proof.
  induction fuel as [|f IH]; intros parts s; cbn [parse_value_loop_o]; [exact I|].
  apply first_bind; [apply first_value_part_o| |].
  - intros part s1 _. apply first_bind; [apply first_optional| |].
    + intros h s2 _. destruct h; [apply IH|cbn; auto].
    + intros h s2. destruct h; [apply mono_value_loop_o|apply mono_refl_ret; reflexivity].
  - intros part s1. apply mono_bind; [apply mono_optional|]. intros h s2. destruct h; [apply mono_value_loop_o|apply mono_refl_ret; reflexivity].
Qed.

Lemma first_value_o w s : first s (parse_value_o Strict w s) (parse_value_o Capture w s).
Proof.
  unfold parse_value_o. apply first_bind; [apply first_value_loop_o| |]; intros; [cbn; auto|apply mono_refl_ret; reflexivity].
Qed.

Lemma first_field_o w s : first s (parse_field_o Strict w s) (parse_field_o Capture w s).
Proof.
  unfold parse_field_o. apply first_bind; [apply first_optional| |].
  - intros name s1 _. destruct name as [tk|]; [|cbn; auto].
    eapply (first_core _ (set_fname s1 (Some (snd tk)))); [reflexivity|].
    apply first_bind; [apply first_required| |]; intros; [apply first_value_o|apply mono_value_o].
  - intros name s1. destruct name as [tk|]; [|apply mono_refl_ret; reflexivity].
    eapply (mono_core _ (set_fname s1 (Some (snd tk)))); [reflexivity|].
    apply mono_bind; [apply mono_required|]. intros. apply mono_value_o.
Qed.

Lemma mono_fields_tail_o w fuel s1 :
  mono s1 (let s2 := match p_fname s1, p_value s1 with
                     | Some n, _ :: _ => set_fields s1 (p_fields s1 ++ [(n, p_value s1)])
                     | _, _ => s1 end in
           optional [P_LIT c_comma] s2 >>= fun comma s3 =>
           match comma with None => Ret tt s3 | Some _ => parse_entry_fields_o fuel Capture w s3 end).
Proof.
  cbv zeta.
  set (s2 := match p_fname s1, p_value s1 with
             | Some n, _ :: _ => set_fields s1 (p_fields s1 ++ [(n, p_value s1)])
             | _, _ => s1 end).
  assert (He : p_errs s2 = p_errs s1) by (unfold s2; destruct (p_fname s1); [destruct (p_value s1)|]; reflexivity).
  eapply (mono_core _ s2); [exact He|].
  apply mono_bind; [apply mono_optional|]. intros comma s3. destruct comma; [apply mono_entry_fields_o|apply mono_refl_ret; reflexivity].
Qed.

Lemma first_entry_fields_o w fuel : forall s, first s (parse_entry_fields_o fuel Strict w s) (parse_entry_fields_o fuel Capture w s).
Proof.
  induction fuel as [|f IH]; intros s; cbn [parse_entry_fields_o]; [exact I|].
  eapply (first_core _ (set_value (set_fname s None) [])); [reflexivity|].
  apply first_bind; [apply first_field_o| |].
  - intros u s1 _.
    set (s2 := match p_fname s1, p_value s1 with
               | Some n, _ :: _ => set_fields s1 (p_fields s1 ++ [(n, p_value s1)])
               | _, _ => s1 end).
    assert (He : p_errs s2 = p_errs s1) by (unfold s2; destruct (p_fname s1); [destruct (p_value s1)|]; reflexivity).
    eapply (first_core _ s2); [exact He|].
    apply first_bind; [apply first_optional| |].
    + intros comma s3 _. destruct comma; [apply IH|cbn; auto].
    + intros comma s3. destruct comma; [apply mono_entry_fields_o|apply mono_refl_ret; reflexivity].
  - intros u s1. apply (mono_fields_tail_o w f s1).
Qed.

Lemma first_string_body_o w s : first s (parse_string_body_o Strict w s) (parse_string_body_o Capture w s).
Proof.
  unfold parse_string_body_o. apply first_bind; [apply first_required| |].
  - intros tk s1 _. eapply (first_core _ (set_fname s1 (Some (snd tk)))); [reflexivity|].
    apply first_bind; [apply first_required| |].
    + intros x s3 _. apply first_bind; [apply first_value_o| |]; intros; [cbn; auto|apply mono_refl_ret; reflexivity].
    + intros x s3. apply mono_bind; [apply mono_value_o|]. intros. apply mono_refl_ret. reflexivity.
  - intros tk s1. eapply (mono_core _ (set_fname s1 (Some (snd tk)))); [reflexivity|].
    apply mono_bind; [apply mono_required|]. intros x s3. apply mono_bind; [apply mono_value_o|]. intros. apply mono_refl_ret. reflexivity.
Qed.

Lemma mono_entry_body_o w keyless b s : mono s (parse_entry_body_o Capture w keyless b s).
Proof.
  unfold parse_entry_body_o. apply mono_bind.
  - destruct keyless; [apply mono_refl_ret; reflexivity|]. apply mono_bind; [apply mono_required|]. intros. apply mono_refl_ret. reflexivity.
  - intros u s1. apply mono_bind; [apply mono_entry_fields_o|]. intros. apply mono_refl_ret. reflexivity.
Qed.

Lemma first_entry_body_o w keyless b s : first s (parse_entry_body_o Strict w keyless b s) (parse_entry_body_o Capture w keyless b s).
Proof.
  unfold parse_entry_body_o. apply first_bind.
  - destruct keyless; [cbn; auto|]. apply first_bind; [apply first_required| |]; intros; [cbn; auto|apply mono_refl_ret; reflexivity].
  - intros u s1 _. apply first_bind; [apply first_entry_fields_o| |]; intros; [cbn; auto|apply mono_refl_ret; reflexivity].
  - intros u s1. apply mono_bind; [apply mono_entry_fields_o|]. intros. apply mono_refl_ret. reflexivity.
Qed.

Definition command_rest_o (m : mode) (w : option (list str)) (keyless : bool) (name bs : pat * str) (s2 : pst) : out (option cmd) :=
  let command := snd name in
  let brace := match fst bs with P_LIT c => c =? c_lbrace | _ => false end in
  let body_end := if brace then c_rbrace else 41 in
  let cl := lower command in
  if str_eqb cl kw_comment then Ret None s2
  else
    let k := if str_eqb cl kw_string then KString else if str_eqb cl kw_preamble then KPreamble else KEntry in
    let body := match k with
                | KString => parse_string_body_o m w s2 >>= fun _ s3 => Ret false s3
                | KPreamble => parse_value_o m w s2 >>= fun _ s3 => Ret false s3
                | KEntry => parse_entry_body_o m w keyless brace s2
                end in
    match body >>= (fun skip s3 => if skip then Ret true s3 else required [P_LIT body_end] s3 >>= fun _ s4 => Ret false s4) with
    | Ret true s4 => Ret None s4
    | Ret false s4 => Ret (Some (make_result k command s4)) s4
    | Exc e s4 => handle_error m e s4 >>= fun _ s5 => Ret (Some (make_result k command s5)) s5
    | Fatal f => Fatal f
    end.

Lemma parse_command_o_unfold m w keyless s0 :
  parse_command_o m w keyless s0 =
  required [P_NAME] (set_value (set_fname (set_fields (set_key s0 None) []) None) []) >>= fun name s1 =>
  required [P_LIT 40; P_LIT c_lbrace] s1 >>= fun bs s2 => command_rest_o m w keyless name bs s2.
Proof. reflexivity. Qed.

Definition body_o (m : mode) (w : option (list str)) (keyless brace : bool) (k : ckind) (s2 : pst) : out bool :=
  (match k with
   | KString => parse_string_body_o m w s2 >>= fun _ s3 => Ret false s3
   | KPreamble => parse_value_o m w s2 >>= fun _ s3 => Ret false s3
   | KEntry => parse_entry_body_o m w keyless brace s2
   end) >>= (fun skip s3 => if skip then Ret true s3 else required [P_LIT (if brace then c_rbrace else 41)] s3 >>= fun _ s4 => Ret false s4).

Lemma mono_body_o w keyless brace k s2 : mono s2 (body_o Capture w keyless brace k s2).
Proof.
  unfold body_o. apply mono_bind.
  - destruct k; [apply mono_bind; [apply mono_string_body_o|]|apply mono_bind; [apply mono_value_o|]|apply mono_entry_body_o];
      intros; apply mono_refl_ret; reflexivity.
  - intros skip s3. destruct skip; [apply mono_refl_ret; reflexivity|]. apply mono_bind; [apply mono_required|]. intros. apply mono_refl_ret. reflexivity.
Qed.

Lemma first_body_o w keyless brace k s2 : first s2 (body_o Strict w keyless brace k s2) (body_o Capture w keyless brace k s2).
Proof.
  unfold body_o. apply first_bind.
  - destruct k.
    + apply first_bind; [apply first_string_body_o| |]; intros; [cbn; auto|apply mono_refl_ret; reflexivity].
    + apply first_bind; [apply first_value_o| |]; intros; [cbn; auto|apply mono_refl_ret; reflexivity].
    + apply first_entry_body_o.
  - intros skip s3 _. destruct skip; [cbn; auto|].
    apply first_bind; [apply first_required| |]; intros; [cbn; auto|apply mono_refl_ret; reflexivity].
  - intros skip s3. destruct skip; [apply mono_refl_ret; reflexivity|]. apply mono_bind; [apply mono_required|]. intros. apply mono_refl_ret. reflexivity.
Qed.

Lemma mono_command_rest_o w keyless name bs s2 : mono s2 (command_rest_o Capture w keyless name bs s2).
Proof.
  unfold command_rest_o. cbv zeta. destruct (str_eqb (lower (snd name)) kw_comment); [apply mono_refl_ret; reflexivity|].
  set (brace := match fst bs with P_LIT c => c =? c_lbrace | _ => false end).
  set (k := if str_eqb (lower (snd name)) kw_string then KString else if str_eqb (lower (snd name)) kw_preamble then KPreamble else KEntry).
  pose proof (mono_body_o w keyless brace k s2) as Hb. unfold body_o in Hb.
  destruct (_ >>= _) as [[|] s4|e s4|f] in Hb |- *; cbn in Hb |- *; auto.
  destruct Hb as [l Hl]. exists (l ++ [e]). rewrite Hl, app_assoc. reflexivity.
Qed.

Lemma first_command_rest_o w keyless name bs s2 :
  first s2 (command_rest_o Strict w keyless name bs s2) (command_rest_o Capture w keyless name bs s2).
Proof.
  unfold command_rest_o. cbv zeta. destruct (str_eqb (lower (snd name)) kw_comment); [cbn; auto|].
  set (brace := match fst bs with P_LIT c => c =? c_lbrace | _ => false end).
  set (k := if str_eqb (lower (snd name)) kw_string then KString else if str_eqb (lower (snd name)) kw_preamble then KPreamble else KEntry).
  pose proof (first_body_o w keyless brace k s2) as Hb. unfold body_o in Hb.
  match type of Hb with first _ ?rs ?rc => destruct rs as [[|] s4|e s4|[c l| |]]; cbn in Hb end.
  - destruct Hb as [-> He]. cbn. auto.
  - destruct Hb as [-> He]. cbn. auto.
  - destruct Hb as [-> He]. cbn. exists e. rewrite <- He. rewrite nth_error_app2 by lia. rewrite Nat.sub_diag. auto.
  - match goal with |- context [match ?rc with _ => _ end] => destruct rc as [[|] s4|e s4|f] end; cbn; auto.
    destruct Hb as (e0 & Hn & Hc & Hl). exists e0. split; [|auto].
    rewrite nth_error_app1; [exact Hn|]. apply nth_error_Some. congruence.
  - exact I.
  - exact I.
Qed.

Lemma mono_command_o w keyless s : mono s (parse_command_o Capture w keyless s).
Proof.
  rewrite parse_command_o_unfold.
  eapply (mono_core _ (set_value (set_fname (set_fields (set_key s None) []) None) [])); [reflexivity|].
  apply mono_bind; [apply mono_required|]. intros name s1.
  apply mono_bind; [apply mono_required|]. intros bs s2. apply mono_command_rest_o.
Qed.

Lemma first_command_o w keyless s : first s (parse_command_o Strict w keyless s) (parse_command_o Capture w keyless s).
Proof.
  rewrite !parse_command_o_unfold.
  eapply (first_core _ (set_value (set_fname (set_fields (set_key s None) []) None) [])); [reflexivity|].
  apply first_bind; [apply first_required| |].
  - intros name s1 _. apply first_bind; [apply first_required| |].
    + intros bs s2 _. apply first_command_rest_o.
    + intros bs s2. apply mono_command_rest_o.
  - intros name s1. apply mono_bind; [apply mono_required|]. intros bs s2. apply mono_command_rest_o.
Qed.

Lemma mono_process_fields_o pf : forall fields seen fs ps s, mono s (process_fields_o Capture pf fields seen fs ps s).
Proof.
  induction fields as [|[fname parts] rest IH]; intros seen fs ps s; cbn [process_fields_o]; [apply mono_refl_ret; reflexivity|].
  destruct (existsb (str_eqb (lower fname)) seen).
  - apply mono_bind; [apply mono_handle|]. intros. apply IH.
  - destruct (existsb (str_eqb (lower fname)) pf); [|apply IH].
    destruct (split_name_list (normalize_whitespace (concat parts))); try exact I.
    apply mono_bind; [apply mono_persons|]. intros. apply IH.
Qed.

Lemma first_process_fields_o pf : forall fields seen fs ps s,
  first s (process_fields_o Strict pf fields seen fs ps s) (process_fields_o Capture pf fields seen fs ps s).
Proof.
  induction fields as [|[fname parts] rest IH]; intros seen fs ps s; cbn [process_fields_o]; [cbn; auto|].
  destruct (existsb (str_eqb (lower fname)) seen).
  - apply first_handle. intros. apply mono_process_fields_o.
  - destruct (existsb (str_eqb (lower fname)) pf); [|apply IH].
    destruct (split_name_list (normalize_whitespace (concat parts))); try exact I.
    apply first_bind; [apply first_persons| |]; intros; [apply IH|apply mono_process_fields_o].
Qed.

Lemma mono_add_entry_o key typ fs ps d s : mono s (add_entry_o Capture key typ fs ps d s).
Proof.
  unfold add_entry_o. destruct (negb _); [apply mono_refl_ret; reflexivity|].
  destruct (existsb _ (db_entries (d_db d))); [|apply mono_refl_ret; reflexivity].
  apply mono_bind; [apply mono_handle|]. intros. apply mono_refl_ret. reflexivity.
Qed.

Lemma mono_process_o pf c d s : mono s (process_o Capture pf c d s).
Proof.
  destruct c as [n f v|n v|typ key fields]; cbn [process_o]; try (apply mono_refl_ret; reflexivity).
  destruct (match key with Some k => (k, d_db d) | None => _ end) as [k db1].
  apply mono_bind; [apply mono_process_fields_o|]. intros. apply mono_add_entry_o.
Qed.

Lemma first_process_o pf c d s : first s (process_o Strict pf c d s) (process_o Capture pf c d s).
Proof.
  destruct c as [n f v|n v|typ key fields]; cbn [process_o]; try (cbn; auto; fail).
  destruct (match key with Some k => (k, d_db d) | None => _ end) as [k db1].
  apply first_bind; [apply first_process_fields_o| |].
  - intros r s1 _. unfold add_entry_o. cbn [d_db d_wanted d_citations]. destruct (negb _); [cbn; auto|].
    match goal with |- context [existsb ?g (db_entries db1)] => destruct (existsb g (db_entries db1)) end; [|cbn; auto].
    apply first_handle. intros. apply mono_refl_ret. reflexivity.
  - intros. apply mono_add_entry_o.
Qed.

Lemma mono_bib_loop_o keyless pf : forall fuel d s, mono s (bib_loop_o fuel Capture keyless pf d s).
Proof.
  induction fuel as [|f IH]; intros d s; cbn [bib_loop_o]; [exact I|].
  destruct (skip_to _ (p_sc s)) as [[[v c] c']|]; [|apply mono_refl_ret; reflexivity].
  set (s1 := set_cstart (set_sc s c') (sc_pos c' - 1)).
  eapply (mono_core _ s1); [reflexivity|].
  pose proof (mono_command_o (d_wanted d) keyless s1) as Hc.
  destruct (parse_command_o Capture (d_wanted d) keyless s1) as [[c0|] s2|e s2|x]; cbn in Hc; auto.
  - eapply mono_trans; [exact Hc|]. apply mono_bind; [apply mono_process_o|]. intros. apply IH.
  - eapply mono_trans; [exact Hc|]. apply IH.
  - eapply mono_trans; [exact Hc|]. apply mono_bind; [apply mono_handle|]. intros. apply IH.
Qed.

Lemma first_bib_loop_o keyless pf : forall fuel d s,
  first s (bib_loop_o fuel Strict keyless pf d s) (bib_loop_o fuel Capture keyless pf d s).
Proof.
  induction fuel as [|f IH]; intros d s; cbn [bib_loop_o]; [exact I|].
  destruct (skip_to _ (p_sc s)) as [[[v c] c']|]; [|cbn; auto].
  set (s1 := set_cstart (set_sc s c') (sc_pos c' - 1)).
  eapply (first_core _ s1); [reflexivity|].
  pose proof (first_command_o (d_wanted d) keyless s1) as Hc.
  destruct (parse_command_o Strict (d_wanted d) keyless s1) as [[c0|] s2|e s2|[cc ll| |]]; cbn in Hc.
  - destruct Hc as [-> He]. eapply (first_core _ s2); [exact He|].
    apply first_bind; [apply first_process_o| |]; intros; [apply IH|apply mono_bib_loop_o].
  - destruct Hc as [-> He]. eapply (first_core _ s2); [exact He|]. apply IH.
  - destruct Hc as [-> He]. eapply (first_core _ s2); [exact He|].
    apply first_handle. intros. apply mono_bib_loop_o.
  - destruct (parse_command_o Capture (d_wanted d) keyless s1) as [[c0|] s2|e s2|x]; auto.
    + apply (first_keep s1 s2 _ cc ll Hc). apply mono_bind; [apply mono_process_o|]. intros. apply mono_bib_loop_o.
    + apply (first_keep s1 s2 _ cc ll Hc). apply mono_bib_loop_o.
    + apply (first_keep s1 s2 _ cc ll Hc). apply mono_bind; [apply mono_handle|]. intros. apply mono_bib_loop_o.
  - exact I.
  - exact I.
Qed.

From Pybtex Require Proofs.BibParser Proofs.BibParserOpt.
Lemma strict_first_o o text :
  (forall d s, parse_bib_o o Capture text = Ret d s -> p_errs s = [] -> parse_bib_o o Strict text = Ret d s) /\
  (forall c l d s, parse_bib_o o Strict text = Fatal (FErr c l) -> parse_bib_o o Capture text = Ret d s ->
     exists e rest, p_errs s = e :: rest /\ e_cls e = c /\ e_line e = l) /\
  (forall d s, parse_bib_o o Strict text = Ret d s -> parse_bib_o o Capture text = Ret d s /\ p_errs s = []) /\
  (forall d s, parse_bib_o o Capture text = Ret d s -> p_errs s <> [] -> exists c l, parse_bib_o o Strict text = Fatal (FErr c l)).
Proof.
  pose proof (first_bib_loop_o (o_keyless o) (map lower (o_person_fields o)) (S (length text))
                (mkDbo db_init (option_map (map lower) (o_wanted o)) (match o_wanted o with Some l => l | None => [] end))
                (pst_init text (lower_table (o_macros o) []))) as H.
  fold (parse_bib_o o Strict text) in H. fold (parse_bib_o o Capture text) in H.
  destruct (Proofs.BibParserOpt.parse_bib_o_total o Strict text) as (T1 & T2 & T3).
  assert (P2 : forall c l d s, parse_bib_o o Strict text = Fatal (FErr c l) -> parse_bib_o o Capture text = Ret d s ->
     exists e rest, p_errs s = e :: rest /\ e_cls e = c /\ e_line e = l).
  { intros c l d s Hs Hc. rewrite Hs, Hc in H. cbn in H. destruct H as (e & Hn & H1 & H2).
    destruct (p_errs s) as [|e0 rest]; [discriminate|]. cbn in Hn. injection Hn as ->. eauto. }
  assert (P3 : forall d s, parse_bib_o o Strict text = Ret d s -> parse_bib_o o Capture text = Ret d s /\ p_errs s = []).
  { intros d s Hs. rewrite Hs in H. cbn in H. exact H. }
  split; [|split; [exact P2|split; [exact P3|]]].
  - intros d s Hc He. destruct (parse_bib_o o Strict text) as [d' s'|e s'|[c l| |]] eqn:E; try congruence.
    + destruct (P3 d' s' eq_refl) as [Hc' _]. congruence.
    + destruct (P2 c l d s eq_refl Hc) as (e & rest & Hx & _). congruence.
  - intros d s Hc Hne. destruct (parse_bib_o o Strict text) as [d' s'|e s'|[c l| |]] eqn:E; try congruence.
    + destruct (P3 d' s' eq_refl) as [Hc' He]. rewrite Hc in Hc'. injection Hc' as <- <-. congruence.
    + eauto.
Qed.
