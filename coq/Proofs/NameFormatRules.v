(* Proofs/NameFormatRules.v -- C11 round 2: the tie / separator / discretionary-tie rules stated
   over BibTeX's text length of Spec/BibtexStrSpec.v (through C12's len_spec), and the built-in
   without the "Person() does not crash" premise (through C04's person_of_string_total). *)
From Pybtex Require Import Base.Prelude Base.PyChar Base.PyStr Model.BibtexStr Model.Names Model.NameFormat.
From Pybtex Require Spec.BibtexStrSpec Proofs.BibtexStr Proofs.Names.
From Pybtex Require Import Spec.NameFormat Proofs.NameFormatParse Proofs.NameFormatFmt Proofs.NameFormatGrammar.

Definition text_len := Spec.BibtexStrSpec.text_len.

(* the two independent notions of brace balance (C11's and C12's Spec) agree *)
Lemma walk_depth_from s : forall d, walk s d = Spec.BibtexStrSpec.depth_from d s.
Proof.
  induction s as [|c s IH]; intros d; cbn [walk Spec.BibtexStrSpec.depth_from]; [reflexivity|].
  change (lbrace c) with (N.eqb c c_lbrace). change (rbrace c) with (N.eqb c c_rbrace).
  destruct (N.eqb c c_lbrace); [apply IH|]. destruct (N.eqb c c_rbrace); [|apply IH]. destruct d; [reflexivity|apply IH].
Qed.
Lemma balanced_agree s : Spec.NameFormat.balanced s <-> Spec.BibtexStrSpec.balanced s.
Proof. unfold Spec.NameFormat.balanced, Spec.BibtexStrSpec.balanced. rewrite walk_depth_from. reflexivity. Qed.

(* ---- (1) the built-in never raises a foreign exception ---- *)
Theorem format_name_n_no_crash_thm (f names : str) n :
  (exists out, format_name_n names n f = Ok out) \/ (exists c l, format_name_n names n f = PyErr c l).
Proof. apply (format_name_no_crash f Proofs.Names.person_of_string_total). Qed.

Theorem format_name_no_crash_thm (name f : str) :
  (exists out, format_name name f = Ok out) \/ (exists c l, format_name name f = PyErr c l).
Proof.
  apply okerr_cases, format_name_okerr. destruct (Proofs.Names.person_of_string_total name) as [A B].
  destruct (person_of_string name); try exact I; congruence.
Qed.

(* ---- (3) the tie rule over BibTeX's text length ---- *)
Lemma tie_or_space_text_len w tie sp out : tie_or_space w tie sp = Ok out ->
  out = if Nat.ltb (text_len w) 3 then tie else sp.
Proof.
  unfold tie_or_space. destruct (bibtex_len w) as [n| | |] eqn:B; cbn [bind]; try discriminate.
  apply Proofs.BibtexStr.len_spec_lemma in B. subst n. intros H; inversion H. reflexivity.
Qed.

Theorem join_ties_text_len (ws : list str) tie sp out : join_words ws tie sp = Ok out ->
  out = interleave ws (seps_rule (length ws) (Nat.ltb (text_len (hd [] ws)) 3) tie sp).
Proof.
  rewrite join_ties_eq. destruct (Nat.leb 3 (length ws)) eqn:L.
  - destruct (bibtex_len (hd [] ws)) as [n| | |] eqn:B; cbn [bind]; try discriminate.
    apply Proofs.BibtexStr.len_spec_lemma in B. subst n. intros H; inversion H. reflexivity.
  - apply Nat.leb_gt in L. intros H; inversion H.
    destruct ws as [|a [|b [|c r]]]; cbn [length] in L; try lia; reflexivity.
Qed.

(* what the Spec rule says, in words: tie iff before the last token or after a short first token *)
Theorem sep_rule_meaning_thm n b (tie sp : str) i : tie <> sp ->
  (sep_rule n b tie sp i = tie <-> (S (S i) = n \/ (i = 0 /\ b = true))).
Proof.
  intros NE. unfold sep_rule. destruct (Nat.eqb_spec (S (S i)) n) as [E|E]; cbn [orb].
  - split; auto.
  - destruct (Nat.eqb_spec i 0) as [Z|Z]; cbn [andb].
    + destruct b.
      * split; auto.
      * split; [intros H; exfalso; apply NE; symmetry; exact H|].
        intros [H|[_ H]]; [contradiction|discriminate].
    + split; [intros H; exfalso; apply NE; symmetry; exact H|intros [H|[H _]]; contradiction].
Qed.

(* ---- (4) the discretionary tie over BibTeX's text length ---- *)
Definition disc_spec (tie : nat) (formatted disc : str) : Prop :=
  match tie with
  | 1 => disc = if Nat.ltb (text_len formatted) 3 then [c_tilde] else [c_space]
  | 2 => disc = [c_tilde]
  | _ => disc = []
  end.

Lemma disc_rule_spec tie formatted disc : disc_rule tie formatted disc -> disc_spec tie formatted disc.
Proof.
  unfold disc_rule, disc_spec. destruct tie as [|[|[|k]]]; auto.
  intros (n & B & ->). apply Proofs.BibtexStr.len_spec_lemma in B. subst n. reflexivity.
Qed.

Lemma join_nil_concat (l : list str) : join [] l = concat l.
Proof.
  induction l as [|a [|b l] IH]; [reflexivity|cbn; rewrite app_nil_r; reflexivity|].
  change (join [] (a :: b :: l)) with (a ++ [] ++ join [] (b :: l)). rewrite IH. reflexivity.
Qed.

(* the complete rule for one {...} part with a letter, over the Spec notions *)
Definition joined_spec (np : name_part) (toks : list str) : str :=
  match np_delim np with
  | Some d => join d toks
  | None => interleave toks (seps_rule (length toks) (Nat.ltb (text_len (hd [] toks)) 3)
                                       (dots (np_abbr np) ++ [c_tilde]) (dots (np_abbr np) ++ [c_space]))
  end.

Theorem part_format_spec_thm np p c names out : np_char np = Some c -> get_names c p = Ok names ->
  names <> [] -> format_name_part np p = Ok out ->
  exists toks disc,
    (if np_abbr np then map_res (fun n => bibtex_abbreviate n (np_delim np)) names = Ok toks else toks = names) /\
    length toks = length names /\
    disc_spec (np_tie np) (np_pre np ++ joined_spec np toks ++ np_post np) disc /\
    out = np_pre np ++ joined_spec np toks ++ np_post np ++ disc.
Proof.
  intros C G NE H. destruct (part_rule np p c names C G) as [_ R].
  destruct (R NE out H) as (toks & joined & disc & T & L & J & D & E).
  exists toks, disc. split; [exact T|]. split; [exact L|].
  assert (JS : joined = joined_spec np toks).
  { unfold joined_spec. destruct (np_delim np); [exact J|]. apply join_ties_text_len. exact J. }
  subst joined. split; [apply disc_rule_spec; exact D|exact E].
Qed.

(* (3) end to end: no explicit separator -> tokens interleaved by the tie-or-space rule *)
Theorem tie_rule_end_to_end_thm np p c names out : np_char np = Some c -> get_names c p = Ok names ->
  np_delim np = None -> names <> [] -> format_name_part np p = Ok out ->
  exists toks disc,
    (if np_abbr np then map_res (fun n => bibtex_abbreviate n None) names = Ok toks else toks = names) /\
    length toks = length names /\
    out = np_pre np
          ++ interleave toks (seps_rule (length toks) (Nat.ltb (text_len (hd [] toks)) 3)
                                        (dots (np_abbr np) ++ [c_tilde]) (dots (np_abbr np) ++ [c_space]))
          ++ np_post np ++ disc.
Proof.
  intros C G DL NE H. destruct (part_format_spec_thm np p c names out C G NE H) as (toks & disc & T & L & _ & E).
  exists toks, disc. unfold joined_spec in E. rewrite DL in *. auto.
Qed.

(* (4) an explicit separator -- the EMPTY one included -- is used between all tokens (and between
   the hyphen-separated letters of an abbreviated token): no tie, space or period is inserted *)
Theorem explicit_separator_used_thm np p c names d out : np_char np = Some c -> get_names c p = Ok names ->
  np_delim np = Some d -> names <> [] -> format_name_part np p = Ok out ->
  exists toks disc,
    (if np_abbr np then map_res (fun n => bibtex_abbreviate n (Some d)) names = Ok toks else toks = names) /\
    out = np_pre np ++ join d toks ++ np_post np ++ disc /\
    (d = [] -> out = np_pre np ++ concat toks ++ np_post np ++ disc).
Proof.
  intros C G DL NE H. destruct (part_format_spec_thm np p c names out C G NE H) as (toks & disc & T & L & _ & E).
  exists toks, disc. unfold joined_spec in E. rewrite DL in *. split; [exact T|]. split; [exact E|].
  intros ->. rewrite join_nil_concat in E. exact E.
Qed.

(* ... and the parser keeps "{}" (Some "") apart from no separator (None) *)
Theorem empty_separator_distinct_thm (pre ls post r : str) :
  verb pre -> legal_letters ls = true -> verb post -> is_lbrace (hd 0%N post) = false ->
  parse_name_part (pre ++ ls ++ c_lbrace :: c_rbrace :: post ++ c_rbrace :: r) = Ok ((pre, Some (lower ls), Some [], post), r) /\
  parse_name_part (pre ++ ls ++ post ++ c_rbrace :: r) = Ok ((pre, Some (lower ls), None, post), r).
Proof.
  intros VP LG VQ NB. split.
  - apply (group_with_separator pre ls [] post r VP LG eq_refl VQ).
  - apply group_default_separator; assumption.
Qed.

Theorem discretionary_tie_rule_thm np p c names out : np_char np = Some c -> get_names c p = Ok names ->
  names <> [] -> format_name_part np p = Ok out ->
  exists body disc, out = body ++ disc /\
    match np_tie np with
    | 1 => disc = if Nat.ltb (text_len body) 3 then [c_tilde] else [c_space]
    | 2 => disc = [c_tilde]
    | _ => disc = []
    end.
Proof.
  intros C G NE H. destruct (part_format_spec_thm np p c names out C G NE H) as (toks & disc & _ & _ & D & E).
  exists (np_pre np ++ joined_spec np toks ++ np_post np), disc. split; [rewrite E, <- !app_assoc; reflexivity|exact D].
Qed.
