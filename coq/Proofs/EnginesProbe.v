(* Proofs/EnginesProbe.v -- end to end for one concrete (non-sorting) style: from the files to the
   output, exactly one item per resolved citation, in citation order.
     ENTRY {title} {} {}   FUNCTION {f} { cite$ write$ newline$ }   READ   ITERATE {f}  *)
From Pybtex Require Import Base.Prelude Base.PyChar Base.PyStr Model.BibtexStr Model.Wrap Model.Bst Model.Engines.
From Pybtex Require Import Model.Citations Proofs.CitationsBase Proofs.Citations Proofs.Wrap Proofs.EnginesSort Proofs.Engines.

Definition n_title : str := Eval vm_compute in s2l "title".
Definition n_f : str := Eval vm_compute in s2l "f".
Definition n_cite : str := Eval vm_compute in s2l "cite$".
Definition n_write : str := Eval vm_compute in s2l "write$".
Definition n_newline : str := Eval vm_compute in s2l "newline$".
Definition probe_body : list instr := [IId n_cite; IId n_write; IId n_newline].
Definition probe_pre : list command :=
  [Cmd nm_entry [[IId n_title]; []; []]; Cmd nm_function [[IId n_f]; probe_body]].
Definition probe_style : list command := probe_pre ++ [Cmd nm_read []; Cmd nm_iterate [[IId n_f]]].

(* interpreter.vars after the declarations *)
Definition probe_vars : list (str * obj) := Eval vm_compute in
  vset n_f (OFun probe_body) (vset nm_crossref OCrossref (vset n_title (OField n_title) initial_vars)).

(* the text of one item *)
Definition item_text (k : str) : str :=
  match wrap k default_width default_indent with Ok w => w | _ => [] end.

Section Probe.
  Variable fmt_name : str -> str -> res str.
  Variable cw : char -> Z.

  Lemma probe_split : split_at_read probe_style = (probe_pre, [Cmd nm_read []; Cmd nm_iterate [[IId n_f]]]).
  Proof. reflexivity. Qed.

  Lemma probe_pre_run fuel cites :
    run fmt_name cw fuel (initial_state cites []) probe_pre =
    Ok (mkSt [] probe_vars [] [] [] [] None cites None [] [] []).
  Proof. reflexivity. Qed.

  (* one execution of f on an interpreter in "between items" condition *)
  Lemma probe_visit fuel ev mac lines cur cites rr warn pr reads k e :
    alookup str_eqb k (r_entries rr) = Some e ->
    visit fmt_name cw (S (S (S (S (S fuel))))) n_f
          (mkSt [] probe_vars ev mac [] lines cur cites (Some rr) warn pr reads) k =
    Ok (mkSt [] probe_vars ev mac [] (lines ++ [item_text k; [c_nl]]) (Some (k, e)) cites (Some rr) warn pr reads).
  Proof.
    intros He. unfold visit. cbn [st_db]. rewrite He.
    unfold item_text. destruct (wrap_total k default_width default_indent) as (w & Hw). rewrite Hw.
    cbn. rewrite app_nil_r, Hw. reflexivity.
  Qed.

  Lemma probe_visit_all fuel ev mac cites rr warn pr reads :
    forall keys lines cur,
    (forall k, In k keys -> exists e, alookup str_eqb k (r_entries rr) = Some e) ->
    exists cur',
    visit_all fmt_name cw (S (S (S (S (S fuel))))) n_f keys
              (mkSt [] probe_vars ev mac [] lines cur cites (Some rr) warn pr reads) =
    Ok (mkSt [] probe_vars ev mac [] (lines ++ flat_map (fun k => [item_text k; [c_nl]]) keys) cur' cites (Some rr) warn pr reads).
  Proof.
    induction keys as [|k r IH]; intros lines cur Hk.
    - exists cur. cbn. now rewrite app_nil_r.
    - destruct (Hk k (or_introl eq_refl)) as (e & He).
      cbn [visit_all]. rewrite (probe_visit fuel ev mac lines cur cites rr warn pr reads k e He). cbn [bind].
      destruct (IH (lines ++ [item_text k; [c_nl]]) (Some (k, e))) as (cur' & H); [intros x Hx; apply Hk; now right|].
      exists cur'. rewrite H. cbn [flat_map]. now rewrite <- app_assoc.
  Qed.
End Probe.

(* ---- every citation READ keeps has its entry *)
Lemma read_full_keys : forall db bd acc, map fst acc = map fst (bd_entries bd) ->
  map fst (snd (read_full db bd acc)) = map fst (bd_entries (fst (read_full db bd acc))).
Proof.
  induction db as [|e r IH]; intros bd acc H; [exact H|]. cbn [read_full]. apply IH.
  unfold add_entry, proj.
  destruct (want_entry bd (b_key e)); cbn [negb andb]; [|exact H].
  destruct (ed_mem (b_key e) (bd_entries bd)); cbn [negb]; [exact H|].
  cbn [bd_entries]. rewrite !map_app. f_equal. exact H.
Qed.

Lemma sget_of_ed_mem c (S : list (str * bentry)) (E : edict) : map fst S = map fst E ->
  ed_mem c E = true -> exists p, sget c S = Some p.
Proof.
  unfold ed_mem, sget. revert E. induction S as [|[k e] S IH]; intros [|[k' x] E] H Hm; cbn in *; try discriminate.
  inversion H; subst. destruct (keyb c k'); [eauto|]. cbn in Hm. eapply IH; eauto.
Qed.

Lemma alookup_flat_map (g : str -> option Bst.entry) : forall l c v, In c l -> g c = Some v ->
  alookup str_eqb c (flat_map (fun x => match g x with Some y => [(x, y)] | None => [] end) l) = Some v.
Proof.
  induction l as [|x l IH]; intros c v Hin Hg; [contradiction|]. cbn [flat_map].
  destruct (str_eqb_spec c x) as [->|Hne].
  - rewrite Hg. cbn. now rewrite str_eqb_refl.
  - destruct Hin as [->|Hin]; [congruence|].
    destruct (g x); cbn; [|now apply IH].
    destruct (str_eqb_spec c x); [congruence|]. now apply IH.
Qed.

Lemma engine_read_has_entries db cites m k : In k (r_cites (engine_read db cites m)) ->
  exists e, alookup str_eqb k (r_entries (engine_read db cites m)) = Some e.
Proof.
  unfold engine_read. cbn [r_cites r_entries]. intros Hin.
  set (S := stored_entries db cites) in *.
  assert (Hmem : ed_mem k (bd_entries (read_db (Some cites) (map proj db))) = true).
  { unfold command_read_raw in Hin. destruct (add_extra _ cites m) as [cs rs]. cbn in Hin.
    rewrite remove_missing_yields in Hin. apply filter_In in Hin. tauto. }
  assert (Hk : map fst S = map fst (bd_entries (read_db (Some cites) (map proj db)))).
  { unfold S, stored_entries, read_db. rewrite <- read_full_fst with (acc := []). now apply read_full_keys. }
  destruct (sget_of_ed_mem k S _ Hk Hmem) as ([k' e] & Hs).
  exists (to_entry S k' e).
  apply (alookup_flat_map (fun c => match sget c S with Some (k0, e0) => Some (to_entry S k0 e0) | None => None end)) with (v := to_entry S k' e) in Hin.
  - rewrite <- Hin. f_equal. apply flat_map_ext. intros c. destruct (sget c S) as [[? ?]|]; reflexivity.
  - now rewrite Hs.
Qed.

(* ---- the whole run *)
Section Whole.
  Variable fmt_name : str -> str -> res str.
  Variable cw : char -> Z.

  Lemma probe_style_run fuel fs cites srcs fmt m db :
    parse_files fs fmt srcs = Ok db ->
    exists st, engine_run fmt_name cw (S (S (S (S (S fuel))))) fs probe_style cites srcs fmt m = Ok st /\
      st_lines st = flat_map (fun k => [item_text k; [c_nl]]) (r_cites (engine_read db cites m)) /\
      st_cites st = r_cites (engine_read db cites m).
  Proof.
    intros Hp. unfold engine_run. rewrite probe_split, probe_pre_run. cbn [bind st_cites st_db]. rewrite Hp. cbn [bind].
    set (rr := engine_read db cites m).
    unfold set_db. cbn [st_stack st_vars st_evars st_macros st_buf st_lines st_cur st_cites st_warn st_print].
    cbn [run]. rewrite (run_read_lemma fmt_name cw). cbn [st_reads bind].
    unfold add_warn, set_cites, set_db. cbn [st_stack st_vars st_evars st_macros st_buf st_lines st_cur st_cites st_db st_warn st_print st_reads app].
    rewrite (run_iterate fmt_name cw _ _ n_f (OFun probe_body)); [|reflexivity].
    rewrite iterate_is_visit_all. cbn [st_cites].
    destruct (probe_visit_all fmt_name cw fuel [] [] (r_cites rr) rr (repeat WRead (r_warnings rr)) [] []
                (r_cites rr) [] None) as (cur' & H).
    { intros k Hk. now apply engine_read_has_entries. }
    rewrite H. cbn [bind]. eexists. split; [reflexivity|]. cbn. auto.
  Qed.
End Whole.

Lemma concat_items (f : str -> str) l :
  concat (flat_map (fun k => [f k; [c_nl]]) l) = concat (map (fun k => f k ++ [c_nl]) l).
Proof. induction l as [|k l IH]; cbn; [reflexivity|]. rewrite IH. now rewrite <- app_assoc. Qed.

Lemma probe_style_output fmt_name cw fuel fs cites srcs fmt m db :
  5 <= fuel -> parse_files fs fmt srcs = Ok db ->
  exists st, engine_run fmt_name cw fuel fs probe_style cites srcs fmt m = Ok st /\
    output_of st = concat (map (fun k => item_text k ++ [c_nl]) (r_cites (engine_read db cites m))).
Proof.
  intros Hf Hp. do 5 (destruct fuel as [|fuel]; [lia|]).
  destruct (probe_style_run fmt_name cw fuel fs cites srcs fmt m db Hp) as (st & H1 & H2 & _).
  exists st. split; [exact H1|]. unfold output_of. rewrite H2. apply concat_items.
Qed.

(* ---------------------------------------------------------------------------------- *)
(* the same for a concrete SORTING style:
     ENTRY {title} {} {}   FUNCTION {f} { cite$ write$ newline$ }   FUNCTION {presort} { title 'sort.key$ := }
     READ   ITERATE {presort}   SORT   ITERATE {f}
   the items come in the order of their titles (code-point order; a missing title counts as empty),
   entries with equal titles in citation order *)
From Coq Require Import Permutation.
Definition n_presort : str := Eval vm_compute in s2l "presort".
Definition presort_body : list instr := [IId n_title; IQuote nm_sort_key_; IId (s2l ":=")].
Definition sorted_pre : list command :=
  [Cmd nm_entry [[IId n_title]; []; []]; Cmd nm_function [[IId n_f]; probe_body];
   Cmd nm_function [[IId n_presort]; presort_body]].
Definition sorted_style : list command :=
  sorted_pre ++ [Cmd nm_read []; Cmd nm_iterate [[IId n_presort]]; Cmd nm_sort []; Cmd nm_iterate [[IId n_f]]].
Definition sorted_vars : list (str * obj) := Eval vm_compute in vset n_presort (OFun presort_body) probe_vars.

(* the value `title` pushes for an entry, and the sort key it becomes *)
Definition title_value (e : Bst.entry) : value :=
  match alookup str_eqb n_title (e_fields e) with Some v => VStr v | None => VMissing n_title end.
Definition sort_key_of (rr : readres) (k : str) : str :=
  match alookup str_eqb k (r_entries rr) with
  | Some e => match alookup str_eqb n_title (e_fields e) with Some v => v | None => [] end
  | None => []
  end.

Lemma alookup_aset_same {V} k (v : V) l : alookup str_eqb k (aset str_eqb k v l) = Some v.
Proof.
  induction l as [|[k' v'] l IH]; cbn; [now rewrite str_eqb_refl|].
  destruct (str_eqb k k') eqn:E; cbn; rewrite E; [reflexivity|exact IH].
Qed.
Lemma alookup_aset_other {V} k k' (v : V) l : str_eqb k k' = false ->
  alookup str_eqb k (aset str_eqb k' v l) = alookup str_eqb k l.
Proof.
  intros Hne. induction l as [|[k2 v2] l IH]; cbn.
  - now rewrite Hne.
  - destruct (str_eqb k' k2) eqn:E; cbn.
    + destruct (str_eqb_spec k' k2) as [->|]; [|discriminate]. now rewrite Hne.
    + destruct (str_eqb k k2); [reflexivity|exact IH].
Qed.

Section Sorted.
  Variable fmt_name : str -> str -> res str.
  Variable cw : char -> Z.

  Lemma sorted_split : split_at_read sorted_style =
    (sorted_pre, [Cmd nm_read []; Cmd nm_iterate [[IId n_presort]]; Cmd nm_sort []; Cmd nm_iterate [[IId n_f]]]).
  Proof. reflexivity. Qed.
  Lemma sorted_pre_run fuel cites :
    run fmt_name cw fuel (initial_state cites []) sorted_pre =
    Ok (mkSt [] sorted_vars [] [] [] [] None cites None [] [] []).
  Proof. reflexivity. Qed.

  (* one execution of presort: the entry's frame gets sort.key$ := its title *)
  Lemma presort_visit fuel ev mac lines cur cites rr warn pr reads k e :
    alookup str_eqb k (r_entries rr) = Some e ->
    visit fmt_name cw (S (S (S (S (S fuel))))) n_presort
          (mkSt [] sorted_vars ev mac [] lines cur cites (Some rr) warn pr reads) k =
    Ok (mkSt [] sorted_vars
             (aset str_eqb k (aset str_eqb nm_sort_key_ (title_value e)
                                   (match alookup str_eqb k ev with Some f => f | None => [] end)) ev)
             mac [] lines (Some (k, e)) cites (Some rr) warn pr reads).
  Proof.
    intros He. unfold visit. cbn [st_db]. rewrite He. unfold title_value, n_title. cbn.
    match goal with |- context [alookup str_eqb ?t (e_fields e)] => destruct (alookup str_eqb t (e_fields e)) end; reflexivity.
  Qed.

  (* f on the sorted interpreter: as before (the variables differ) *)
  Lemma sorted_f_visit fuel ev mac lines cur cites rr warn pr reads k e :
    alookup str_eqb k (r_entries rr) = Some e ->
    visit fmt_name cw (S (S (S (S (S fuel))))) n_f
          (mkSt [] sorted_vars ev mac [] lines cur cites (Some rr) warn pr reads) k =
    Ok (mkSt [] sorted_vars ev mac [] (lines ++ [item_text k; [c_nl]]) (Some (k, e)) cites (Some rr) warn pr reads).
  Proof.
    intros He. unfold visit. cbn [st_db]. rewrite He.
    unfold item_text. destruct (wrap_total k default_width default_indent) as (w & Hw). rewrite Hw.
    cbn. rewrite app_nil_r, Hw. reflexivity.
  Qed.
  Lemma sorted_f_visit_all fuel ev mac cites rr warn pr reads :
    forall keys lines cur,
    (forall k, In k keys -> exists e, alookup str_eqb k (r_entries rr) = Some e) ->
    exists cur',
    visit_all fmt_name cw (S (S (S (S (S fuel))))) n_f keys
              (mkSt [] sorted_vars ev mac [] lines cur cites (Some rr) warn pr reads) =
    Ok (mkSt [] sorted_vars ev mac [] (lines ++ flat_map (fun k => [item_text k; [c_nl]]) keys) cur' cites (Some rr) warn pr reads).
  Proof.
    induction keys as [|k r IH]; intros lines cur Hk.
    - exists cur. cbn. now rewrite app_nil_r.
    - destruct (Hk k (or_introl eq_refl)) as (e & He).
      cbn [visit_all]. rewrite (sorted_f_visit fuel ev mac lines cur cites rr warn pr reads k e He). cbn [bind].
      destruct (IH (lines ++ [item_text k; [c_nl]]) (Some (k, e))) as (cur' & H); [intros x Hx; apply Hk; now right|].
      exists cur'. rewrite H. cbn [flat_map]. now rewrite <- app_assoc.
  Qed.

  (* the frames after ITERATE {presort}: every visited citation carries its title as sort.key$ *)
  Definition keyed (rr : readres) (ev : list (str * list (str * value))) (k : str) : Prop :=
    exists v, alookup str_eqb nm_sort_key_ (match alookup str_eqb k ev with Some f => f | None => [] end) = Some v /\
              as_str v = Some (sort_key_of rr k).

  Lemma presort_visit_all fuel mac lines cites rr warn pr reads :
    forall keys ev cur,
    (forall k, In k keys -> exists e, alookup str_eqb k (r_entries rr) = Some e) ->
    exists ev' cur',
    visit_all fmt_name cw (S (S (S (S (S fuel))))) n_presort keys
              (mkSt [] sorted_vars ev mac [] lines cur cites (Some rr) warn pr reads) =
    Ok (mkSt [] sorted_vars ev' mac [] lines cur' cites (Some rr) warn pr reads) /\
    (forall k, In k keys \/ keyed rr ev k -> keyed rr ev' k).
  Proof.
    induction keys as [|k r IH]; intros ev cur Hk.
    - exists ev, cur. split; [reflexivity|]. intros k [[]|H]; exact H.
    - destruct (Hk k (or_introl eq_refl)) as (e & He).
      cbn [visit_all]. rewrite (presort_visit fuel ev mac lines cur cites rr warn pr reads k e He). cbn [bind].
      set (ev1 := aset str_eqb k _ ev).
      destruct (IH ev1 (Some (k, e))) as (ev' & cur' & H & Hkeyed); [intros x Hx; apply Hk; now right|].
      exists ev', cur'. split; [exact H|].
      assert (Hk1 : keyed rr ev1 k).
      { unfold keyed, ev1. rewrite alookup_aset_same, alookup_aset_same. eexists. split; [reflexivity|].
        unfold sort_key_of, title_value. rewrite He. destruct (alookup str_eqb n_title (e_fields e)); reflexivity. }
      intros x [[<-|Hx]|Hx]; apply Hkeyed; auto.
      right. destruct (str_eqb x k) eqn:E.
      + destruct (str_eqb_spec x k) as [->|]; [exact Hk1|discriminate].
      + unfold keyed, ev1. rewrite (alookup_aset_other _ _ _ _ E). exact Hx.
  Qed.

  Lemma sort_keys_keyed rr st : forall keys, (forall k, In k keys -> keyed rr (st_evars st) k) ->
    sort_keys st keys = Ok (map (fun k => (sort_key_of rr k, k)) keys).
  Proof.
    induction keys as [|k r IH]; intros H; [reflexivity|]. cbn [sort_keys map].
    destruct (H k (or_introl eq_refl)) as (v & Hv & Hs). unfold frame. rewrite Hv, Hs.
    rewrite IH; [reflexivity|]. intros x Hx. apply H. now right.
  Qed.

  Lemma sorted_style_run fuel fs cites srcs fmt m db :
    parse_files fs fmt srcs = Ok db ->
    let rr := engine_read db cites m in
    let order := map snd (stable_sort (map (fun k => (sort_key_of rr k, k)) (r_cites rr))) in
    exists st, engine_run fmt_name cw (S (S (S (S (S fuel))))) fs sorted_style cites srcs fmt m = Ok st /\
      st_lines st = flat_map (fun k => [item_text k; [c_nl]]) order /\ st_cites st = order.
  Proof.
    intros Hp rr order. unfold engine_run. rewrite sorted_split, sorted_pre_run. cbn [bind st_cites st_db]. rewrite Hp. cbn [bind].
    fold rr.
    unfold set_db. cbn [st_stack st_vars st_evars st_macros st_buf st_lines st_cur st_cites st_warn st_print].
    cbn [run]. rewrite (run_read_lemma fmt_name cw). cbn [st_reads bind].
    unfold add_warn, set_cites, set_db. cbn [st_stack st_vars st_evars st_macros st_buf st_lines st_cur st_cites st_db st_warn st_print st_reads app].
    rewrite (run_iterate fmt_name cw _ _ n_presort (OFun presort_body)); [|reflexivity].
    rewrite iterate_is_visit_all. cbn [st_cites].
    assert (Hent : forall k, In k (r_cites rr) -> exists e, alookup str_eqb k (r_entries rr) = Some e)
      by (intros k Hk; now apply engine_read_has_entries).
    destruct (presort_visit_all fuel [] [] (r_cites rr) rr (repeat WRead (r_warnings rr)) [] [] (r_cites rr) [] None Hent)
      as (ev' & cur' & H & Hkeyed).
    rewrite H. cbn [bind].
    rewrite (run_sort fmt_name cw). cbn [st_cites].
    rewrite (sort_keys_keyed rr); [|intros k Hk; apply Hkeyed; now left]. cbn [bind].
    unfold set_cites. cbn [st_stack st_vars st_evars st_macros st_buf st_lines st_cur st_cites st_db st_warn st_print st_reads].
    fold order.
    rewrite (run_iterate fmt_name cw _ _ n_f (OFun probe_body)); [|reflexivity].
    rewrite iterate_is_visit_all. cbn [st_cites].
    destruct (sorted_f_visit_all fuel ev' [] order rr (repeat WRead (r_warnings rr)) [] [] order [] cur') as (cur2 & H2).
    { intros k Hk. apply Hent. unfold order in Hk.
      apply in_map_iff in Hk as ([s k'] & <- & Hin). cbn.
      apply (Permutation_in _ (stable_sort_perm _)) in Hin. apply in_map_iff in Hin as (x & Hx & Hin). inversion Hx; subst. exact Hin. }
    rewrite H2. cbn [bind]. eexists. split; [reflexivity|]. cbn. auto.
  Qed.
End Sorted.

Lemma sorted_style_output fmt_name cw fuel fs cites srcs fmt m db :
  5 <= fuel -> parse_files fs fmt srcs = Ok db ->
  let rr := engine_read db cites m in
  exists st, engine_run fmt_name cw fuel fs sorted_style cites srcs fmt m = Ok st /\
    output_of st = concat (map (fun k => item_text k ++ [c_nl])
                               (map snd (stable_sort (map (fun k => (sort_key_of rr k, k)) (r_cites rr))))).
Proof.
  intros Hf Hp rr. do 5 (destruct fuel as [|fuel]; [lia|]).
  destruct (sorted_style_run fmt_name cw fuel fs cites srcs fmt m db Hp) as (st & H1 & H2 & _).
  exists st. split; [exact H1|]. unfold output_of. rewrite H2. apply concat_items.
Qed.
