(* Proofs/EnginesProbe.v -- end to end for one concrete (non-sorting) style: from the files to the
   output, exactly one item per resolved citation, in citation order.
     ENTRY {title} {} {}   FUNCTION {f} { cite$ write$ newline$ }   READ   ITERATE {f}  *)
From Pybtex Require Import Base.Prelude Base.PyChar Base.PyStr Model.BibtexStr Model.Wrap Model.Bst Model.Engines.
From Pybtex Require Import Model.Citations Proofs.CitationsBase Proofs.Citations Proofs.Wrap Proofs.EnginesSort Proofs.Engines.

Definition n_title : str := Eval vm_compute in s2l "title".
Definition n_f : str := Eval vm_compute in s2l "f".
Definition n_cite : str := Eval vm_compute in s2l "cite$".
Definition n_write : str := Eval vm_compute in s2l "write$".
Definition n_newline : str := Eval vm_compute in s2l "newline$".
Definition probe_body : list instr := [IId n_cite; IId n_write; IId n_newline].
Definition probe_pre : list command :=
  [Cmd nm_entry [[IId n_title]; []; []]; Cmd nm_function [[IId n_f]; probe_body]].
Definition probe_style : list command := probe_pre ++ [Cmd nm_read []; Cmd nm_iterate [[IId n_f]]].

(* interpreter.vars after the declarations *)
Definition probe_vars : list (str * obj) := Eval vm_compute in
  vset n_f (OFun probe_body) (vset nm_crossref OCrossref (vset n_title (OField n_title) initial_vars)).

(* the text of one item *)
Definition item_text (k : str) : str :=
  match wrap k default_width default_indent with Ok w => w | _ => [] end.

Section Probe.
  Variable fmt_name : str -> str -> res str.
  Variable cw : char -> Z.

  Lemma probe_split : split_at_read probe_style = (probe_pre, [Cmd nm_read []; Cmd nm_iterate [[IId n_f]]]).
  Proof. reflexivity. Qed.

  Lemma probe_pre_run fuel cites :
    run fmt_name cw fuel (initial_state cites []) probe_pre =
    Ok (mkSt [] probe_vars [] [] [] [] None cites None [] [] []).
  Proof. reflexivity. Qed.

  (* one execution of f on an interpreter in "between items" condition *)
  Lemma probe_visit fuel ev mac lines cur cites rr warn pr reads k e :
    alookup str_eqb k (r_entries rr) = Some e ->
    visit fmt_name cw (S (S (S (S (S fuel))))) n_f
          (mkSt [] probe_vars ev mac [] lines cur cites (Some rr) warn pr reads) k =
    Ok (mkSt [] probe_vars ev mac [] (lines ++ [item_text k; [c_nl]]) (Some (k, e)) cites (Some rr) warn pr reads).
  Proof.
    intros He. unfold visit. cbn [st_db]. rewrite He.
    unfold item_text. destruct (wrap_total k default_width default_indent) as (w & Hw). rewrite Hw.
    cbn. rewrite app_nil_r, Hw. reflexivity.
  Qed.

  Lemma probe_visit_all fuel ev mac cites rr warn pr reads :
    forall keys lines cur,
    (forall k, In k keys -> exists e, alookup str_eqb k (r_entries rr) = Some e) ->
    exists cur',
    visit_all fmt_name cw (S (S (S (S (S fuel))))) n_f keys
              (mkSt [] probe_vars ev mac [] lines cur cites (Some rr) warn pr reads) =
    Ok (mkSt [] probe_vars ev mac [] (lines ++ flat_map (fun k => [item_text k; [c_nl]]) keys) cur' cites (Some rr) warn pr reads).
  Proof.
    induction keys as [|k r IH]; intros lines cur Hk.
    - exists cur. cbn. now rewrite app_nil_r.
    - destruct (Hk k (or_introl eq_refl)) as (e & He).
      cbn [visit_all]. rewrite (probe_visit fuel ev mac lines cur cites rr warn pr reads k e He). cbn [bind].
      destruct (IH (lines ++ [item_text k; [c_nl]]) (Some (k, e))) as (cur' & H); [intros x Hx; apply Hk; now right|].
      exists cur'. rewrite H. cbn [flat_map]. now rewrite <- app_assoc.
  Qed.
End Probe.

(* ---- every citation READ keeps has its entry *)
Lemma read_full_keys : forall db bd acc, map fst acc = map fst (bd_entries bd) ->
  map fst (snd (read_full db bd acc)) = map fst (bd_entries (fst (read_full db bd acc))).
Proof.
  induction db as [|e r IH]; intros bd acc H; [exact H|]. cbn [read_full]. apply IH.
  unfold add_entry, proj.
  destruct (want_entry bd (b_key e)); cbn [negb andb]; [|exact H].
  destruct (ed_mem (b_key e) (bd_entries bd)); cbn [negb]; [exact H|].
  cbn [bd_entries]. rewrite !map_app. f_equal. exact H.
Qed.

Lemma sget_of_ed_mem c (S : list (str * bentry)) (E : edict) : map fst S = map fst E ->
  ed_mem c E = true -> exists p, sget c S = Some p.
Proof.
  unfold ed_mem, sget. revert E. induction S as [|[k e] S IH]; intros [|[k' x] E] H Hm; cbn in *; try discriminate.
  inversion H; subst. destruct (keyb c k'); [eauto|]. cbn in Hm. eapply IH; eauto.
Qed.

Lemma alookup_flat_map (g : str -> option Bst.entry) : forall l c v, In c l -> g c = Some v ->
  alookup str_eqb c (flat_map (fun x => match g x with Some y => [(x, y)] | None => [] end) l) = Some v.
Proof.
  induction l as [|x l IH]; intros c v Hin Hg; [contradiction|]. cbn [flat_map].
  destruct (str_eqb_spec c x) as [->|Hne].
  - rewrite Hg. cbn. now rewrite str_eqb_refl.
  - destruct Hin as [->|Hin]; [congruence|].
    destruct (g x); cbn; [|now apply IH].
    destruct (str_eqb_spec c x); [congruence|]. now apply IH.
Qed.

Lemma engine_read_has_entries db cites m k : In k (r_cites (engine_read db cites m)) ->
  exists e, alookup str_eqb k (r_entries (engine_read db cites m)) = Some e.
Proof.
  unfold engine_read. cbn [r_cites r_entries]. intros Hin.
  set (S := stored_entries db cites) in *.
  assert (Hmem : ed_mem k (bd_entries (read_db (Some cites) (map proj db))) = true).
  { unfold command_read_raw in Hin. destruct (add_extra _ cites m) as [cs rs]. cbn in Hin.
    rewrite remove_missing_yields in Hin. apply filter_In in Hin. tauto. }
  assert (Hk : map fst S = map fst (bd_entries (read_db (Some cites) (map proj db)))).
  { unfold S, stored_entries, read_db. rewrite <- read_full_fst with (acc := []). now apply read_full_keys. }
  destruct (sget_of_ed_mem k S _ Hk Hmem) as ([k' e] & Hs).
  exists (to_entry S k' e).
  apply (alookup_flat_map (fun c => match sget c S with Some (k0, e0) => Some (to_entry S k0 e0) | None => None end)) with (v := to_entry S k' e) in Hin.
  - rewrite <- Hin. f_equal. apply flat_map_ext. intros c. destruct (sget c S) as [[? ?]|]; reflexivity.
  - now rewrite Hs.
Qed.

(* ---- the whole run *)
Section Whole.
  Variable fmt_name : str -> str -> res str.
  Variable cw : char -> Z.

  Lemma probe_style_run fuel fs cites srcs fmt m db :
    parse_files fs fmt srcs = Ok db ->
    exists st, engine_run fmt_name cw (S (S (S (S (S fuel))))) fs probe_style cites srcs fmt m = Ok st /\
      st_lines st = flat_map (fun k => [item_text k; [c_nl]]) (r_cites (engine_read db cites m)) /\
      st_cites st = r_cites (engine_read db cites m).
  Proof.
    intros Hp. unfold engine_run. rewrite probe_split, probe_pre_run. cbn [bind st_cites st_db]. rewrite Hp. cbn [bind].
    set (rr := engine_read db cites m).
    unfold set_db. cbn [st_stack st_vars st_evars st_macros st_buf st_lines st_cur st_cites st_warn st_print].
    cbn [run]. rewrite (run_read_lemma fmt_name cw). cbn [st_reads bind].
    unfold add_warn, set_cites, set_db. cbn [st_stack st_vars st_evars st_macros st_buf st_lines st_cur st_cites st_db st_warn st_print st_reads app].
    rewrite (run_iterate fmt_name cw _ _ n_f (OFun probe_body)); [|reflexivity].
    rewrite iterate_is_visit_all. cbn [st_cites].
    destruct (probe_visit_all fmt_name cw fuel [] [] (r_cites rr) rr (repeat WRead (r_warnings rr)) [] []
                (r_cites rr) [] None) as (cur' & H).
    { intros k Hk. now apply engine_read_has_entries. }
    rewrite H. cbn [bind]. eexists. split; [reflexivity|]. cbn. auto.
  Qed.
End Whole.

Lemma concat_items (f : str -> str) l :
  concat (flat_map (fun k => [f k; [c_nl]]) l) = concat (map (fun k => f k ++ [c_nl]) l).
Proof. induction l as [|k l IH]; cbn; [reflexivity|]. rewrite IH. now rewrite <- app_assoc. Qed.

Lemma probe_style_output fmt_name cw fuel fs cites srcs fmt m db :
  5 <= fuel -> parse_files fs fmt srcs = Ok db ->
  exists st, engine_run fmt_name cw fuel fs probe_style cites srcs fmt m = Ok st /\
    output_of st = concat (map (fun k => item_text k ++ [c_nl]) (r_cites (engine_read db cites m))).
Proof.
  intros Hf Hp. do 5 (destruct fuel as [|fuel]; [lia|]).
  destruct (probe_style_run fmt_name cw fuel fs cites srcs fmt m db Hp) as (st & H1 & H2 & _).
  exists st. split; [exact H1|]. unfold output_of. rewrite H2. apply concat_items.
Qed.
