(* Proofs/BstCommands.v -- the documented effect of the commands on the tables of the interpreter:
   ENTRY / INTEGERS / STRINGS / FUNCTION / MACRO (what each adds to which table; whether re-declaration is an error),
   EXECUTE, READ (and READ followed by ITERATE, with C05's characterisation of what READ selects). *)
From Pybtex Require Import Base.Prelude Base.PyChar Base.PyStr Model.BibtexStr Model.Wrap Model.Bst Proofs.Bst.
From Pybtex Require Model.Citations Spec.Citations Proofs.Citations Model.Engines.

Section Commands.
  Variable fmt_name : str -> str -> res str.
  Variable cw : char -> Z.
  Notation run_command := (run_command fmt_name cw).
  Notation run := (run fmt_name cw).
  Notation exec := (exec fmt_name cw).

  (* ---- association lists: a new key is appended *)
  Lemma aset_fresh {V} k (v : V) l : alookup str_eqb k l = None -> aset str_eqb k v l = l ++ [(k, v)].
  Proof.
    induction l as [|[k' v'] l IH]; cbn; [reflexivity|].
    destruct (str_eqb k k'); [discriminate|]. intros H. rewrite IH by exact H. reflexivity.
  Qed.
  Lemma alookup_app_none {V} k (l1 l2 : list (str * V)) :
    alookup str_eqb k (l1 ++ l2) = match alookup str_eqb k l1 with Some v => Some v | None => alookup str_eqb k l2 end.
  Proof. induction l1 as [|[k' v'] l1 IH]; cbn; [reflexivity|]. destruct (str_eqb k k'); auto. Qed.

  (* names that may be declared together: pairwise different up to case, none bound yet *)
  Fixpoint fresh (names : list str) (vars : list (str * obj)) : Prop :=
    match names with
    | [] => True
    | n :: r => alookup str_eqb (lower n) vars = None /\ ~ In (lower n) (map lower r) /\ fresh r vars
    end.

  Lemma fresh_after n o r vars : ~ In (lower n) (map lower r) -> fresh r vars -> fresh r (vars ++ [(lower n, o)]).
  Proof.
    induction r as [|x r IH]; cbn; [auto|]. intros Hn (H1 & H2 & H3). repeat split; auto.
    rewrite alookup_app_none, H1. cbn. destruct (str_eqb_spec (lower x) (lower n)) as [E|E]; [|reflexivity].
    exfalso. apply Hn. left. exact E.
  Qed.

  Lemma fresh_split o' a : forall b vars, fresh (a ++ b) vars ->
    fresh a vars /\ fresh b (vars ++ map (fun n => (lower n, o' n)) a).
  Proof.
    induction a as [|x a IHa]; intros b vars Hf; cbn in *.
    - split; [exact I|]. rewrite app_nil_r. exact Hf.
    - destruct Hf as (H1 & H2 & H3).
      assert (H3' : fresh (a ++ b) (vars ++ [(lower x, o' x)])) by (apply fresh_after; assumption).
      destruct (IHa b _ H3') as [_ Hb]. destruct (IHa b vars H3) as [Ha _]. split.
      + repeat split; auto. intros Hin. apply H2. rewrite map_app. apply in_or_app. left. exact Hin.
      + rewrite <- app_assoc in Hb. exact Hb.
  Qed.

  (* Interpreter.add_variable over a list of identifiers (the fields / integers / strings of ENTRY) *)
  Lemma declare_ok mk names : forall st, fresh names (st_vars st) ->
    declare mk (map IId names) st = Ok (set_vars st (st_vars st ++ map (fun n => (lower n, mk n)) names)).
  Proof.
    induction names as [|n r IH]; intros st H.
    - cbn. rewrite app_nil_r. destruct st; reflexivity.
    - destruct H as (H1 & H2 & H3). cbn [map declare name_of lit_of bind]. unfold add_variable, vlookup, vset.
      rewrite H1. cbn [bind]. rewrite aset_fresh by exact H1.
      rewrite IH by (apply fresh_after; assumption). cbn. rewrite <- app_assoc. reflexivity.
  Qed.
  (* ... and a name that is already bound (a built-in, a variable, a function, an earlier field) is BibTeX's
     "already declared" error *)
  Lemma declare_bound mk n r st o : alookup str_eqb (lower n) (st_vars st) = Some o ->
    declare mk (IId n :: r) st = PyErr E_BST (-1).
  Proof. intros H. cbn [declare name_of lit_of bind]. unfold add_variable, vlookup. rewrite H. reflexivity. Qed.

  (* ENTRY {fields} {integers} {strings}: fields, then the implicit crossref, then the entry integers, then the
     entry strings are appended to the variable table *)
  Lemma entry_declares fuel st fields ints strs :
    fresh (fields ++ [nm_crossref] ++ ints ++ strs) (st_vars st) ->
    run_command fuel st (Cmd nm_entry [map IId fields; map IId ints; map IId strs]) =
    Ok (set_vars st (st_vars st ++ map (fun n => (lower n, OField n)) fields ++ [(nm_crossref, OCrossref)]
                              ++ map (fun n => (lower n, OEInt n)) ints ++ map (fun n => (lower n, OEStr n)) strs)).
  Proof.
    intros H.
    assert (F : fresh (fields ++ [nm_crossref] ++ ints ++ strs) (st_vars st) ->
                run_command fuel st (Cmd nm_entry [map IId fields; map IId ints; map IId strs]) =
                (do st1 <- declare OField (map IId fields) st;
                 do st2 <- add_variable st1 nm_crossref OCrossref;
                 do st3 <- declare OEInt (map IId ints) st2; declare OEStr (map IId strs) st3)) by reflexivity.
    rewrite (F H). clear F.
    destruct (fresh_split OField _ _ _ H) as [Hf Hrest].
    rewrite (declare_ok OField fields st Hf). cbn [bind].
    cbn [app fresh] in Hrest. destruct Hrest as (C1 & C2 & C3).
    unfold add_variable, vlookup, vset. cbn [st_vars set_vars].
    assert (Lc : lower nm_crossref = nm_crossref) by reflexivity. rewrite Lc in *. rewrite C1. cbn [bind].
    rewrite aset_fresh by exact C1.
    assert (C3' : fresh (ints ++ strs) ((st_vars st ++ map (fun n => (lower n, OField n)) fields) ++ [(nm_crossref, OCrossref)])).
    { exact (fresh_after nm_crossref OCrossref _ _ C2 C3). }
    destruct (fresh_split OEInt _ _ _ C3') as [Hi Hs].
    match goal with |- context [declare OEInt _ ?s0] => rewrite (declare_ok OEInt ints s0 Hi) end. cbn [bind st_vars set_vars].
    match goal with |- context [declare OEStr _ ?s0] => rewrite (declare_ok OEStr strs s0 Hs) end. cbn [st_vars set_vars].
    f_equal. destruct st; cbn. rewrite <- !app_assoc. reflexivity.
  Qed.

  (* FUNCTION {f} {body}: a new function is appended; an already bound name is an error *)
  Lemma function_declares fuel st f body : alookup str_eqb (lower f) (st_vars st) = None ->
    run_command fuel st (Cmd nm_function [[IId f]; body]) = Ok (set_vars st (st_vars st ++ [(lower f, OFun body)])).
  Proof.
    intros H. assert (E : run_command fuel st (Cmd nm_function [[IId f]; body]) = add_variable st f (OFun body)) by reflexivity.
    rewrite E. unfold add_variable, vlookup, vset. rewrite H, aset_fresh by exact H. reflexivity.
  Qed.
  Lemma function_redeclared fuel st f body o : alookup str_eqb (lower f) (st_vars st) = Some o ->
    run_command fuel st (Cmd nm_function [[IId f]; body]) = PyErr E_BST (-1).
  Proof.
    intros H. assert (E : run_command fuel st (Cmd nm_function [[IId f]; body]) = add_variable st f (OFun body)) by reflexivity.
    rewrite E. unfold add_variable, vlookup. rewrite H. reflexivity.
  Qed.

  (* INTEGERS / STRINGS: each name is bound to a new global holding 0 / "", appended to the variable table; a name that
     is already bound is the "already declared" error, as for ENTRY and FUNCTION (fix C03-F2) *)
  Lemma integers_declares fuel st names : fresh names (st_vars st) ->
    run_command fuel st (Cmd nm_integers [map IId names]) =
    Ok (set_vars st (st_vars st ++ map (fun n => (lower n, OInt (VInt 0))) names)).
  Proof. exact (declare_ok (fun _ => OInt (VInt 0)) names st). Qed.
  Lemma strings_declares fuel st names : fresh names (st_vars st) ->
    run_command fuel st (Cmd nm_strings [map IId names]) =
    Ok (set_vars st (st_vars st ++ map (fun n => (lower n, OStr (VStr []))) names)).
  Proof. exact (declare_ok (fun _ => OStr (VStr [])) names st). Qed.
  Lemma integers_redeclaration_is_error fuel st n r o : alookup str_eqb (lower n) (st_vars st) = Some o ->
    run_command fuel st (Cmd nm_integers [IId n :: r]) = PyErr E_BST (-1) /\
    run_command fuel st (Cmd nm_strings [IId n :: r]) = PyErr E_BST (-1).
  Proof. intros H. split; exact (declare_bound _ n r st o H). Qed.

  (* MACRO {name} {"value"}: the macro table maps name to value (a later definition replaces an earlier one) *)
  Lemma macro_declares fuel st name value :
    run_command fuel st (Cmd nm_macro [[IId name]; [IStr value]]) =
    Ok (set_macros st (aset lit_eqb (LStr name) (LStr value) (st_macros st))).
  Proof. reflexivity. Qed.

  (* EXECUTE {f}: runs f once, outside any entry *)
  Lemma execute_runs fuel st f : run_command fuel st (Cmd nm_execute [[IId f]]) = exec fuel st [IId f].
  Proof. reflexivity. Qed.

  (* READ: installs what the database reader found -- the citation list, the entries, the reports *)
  Lemma read_installs fuel st d more : st_reads st = d :: more ->
    run_command fuel st (Cmd nm_read []) =
    Ok (add_warn (set_cites (set_db st (Some d) more) (r_cites d)) (repeat WRead (r_warnings d))).
  Proof.
    intros H. assert (E : run_command fuel st (Cmd nm_read []) =
      match st_reads st with [] => Unmodelled | d :: more =>
        Ok (add_warn (set_cites (set_db st (Some d) more) (r_cites d)) (repeat WRead (r_warnings d))) end) by reflexivity.
    rewrite E, H. reflexivity.
  Qed.

  (* READ then ITERATE {cite$ write$}: the function visits exactly what READ selected, in that order *)
  Lemma read_then_iterate n st d more f cite write :
    st_reads st = d :: more ->
    vlookup f (st_vars st) = Some (OFun [IId cite; IId write]) ->
    vlookup cite (st_vars st) = Some (OBuiltin B_cite) ->
    vlookup write (st_vars st) = Some (OBuiltin B_write) ->
    (forall k, In k (r_cites d) -> alookup str_eqb k (r_entries d) <> None) ->
    exists st', run (3 + n) st [Cmd nm_read []; Cmd nm_iterate [[IId f]]] = Ok st' /\
      st_buf st' = st_buf st ++ map VStr (r_cites d) /\ st_cites st' = r_cites d.
  Proof.
    intros Hr Hf Hc Hw Hall. cbn [Bst.run]. rewrite (read_installs _ _ _ _ Hr). cbn [bind].
    set (st1 := add_warn (set_cites (set_db st (Some d) more) (r_cites d)) (repeat WRead (r_warnings d))).
    destruct (iterate_order fmt_name cw n st1 d f cite write Hf Hc Hw eq_refl Hall) as (st2 & R & B & C).
    exists st2. rewrite R. cbn [bind]. repeat split; assumption.
  Qed.

  (* ... and with the reader of C06 (engine_read = C05's command_read over the files' entries) what is visited is C05's
     resolution: the explicit citations (wildcard expanded, first spelling kept) followed by the cross-referenced
     parents that reach the threshold, minus the keys that are not in the database *)
  Lemma read_then_iterate_visits_resolved n st db m more f cite write :
    let d := Engines.engine_read db (st_cites st) m in
    let E := Citations.bd_entries (Citations.read_db (Some (st_cites st)) (map Engines.proj db)) in
    let ex := Spec.Citations.explicit_spec E (st_cites st) in
    st_reads st = d :: more ->
    vlookup f (st_vars st) = Some (OFun [IId cite; IId write]) ->
    vlookup cite (st_vars st) = Some (OBuiltin B_cite) ->
    vlookup write (st_vars st) = Some (OBuiltin B_write) ->
    (forall k, In k (r_cites d) -> alookup str_eqb k (r_entries d) <> None) ->
    exists st', run (3 + n) st [Cmd nm_read []; Cmd nm_iterate [[IId f]]] = Ok st' /\
      st_buf st' = st_buf st ++
        map VStr (filter (fun c => Citations.ed_mem c E) (ex ++ Spec.Citations.crossrefs_spec E ex m)).
  Proof.
    intros d E ex Hr Hf Hc Hw Hall.
    destruct (read_then_iterate n st d more f cite write Hr Hf Hc Hw Hall) as (st' & R & B & _).
    exists st'. split; [exact R|]. rewrite B. f_equal. f_equal.
    unfold d, Engines.engine_read. cbn [r_cites].
    destruct (Citations.command_read_raw (map Engines.proj db) (st_cites st) m) as [final rs] eqn:Er.
    destruct (Proofs.Citations.command_read_reports _ _ _ _ _ Er) as (Hfin & _). exact Hfin.
  Qed.
End Commands.
