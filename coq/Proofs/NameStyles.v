(* Proofs/NameStyles.v -- the name styles plain and lastfirst print every name token of the person
   (abbreviated or full), in the style's order, separated only by the style's separators (property C07). *)
From Pybtex Require Import Base.Prelude Base.PyChar Base.PyStr Model.RtTypes Model.Template Proofs.Template Proofs.TemplateEmit.

(* the separators a name style writes: a space, a non-breaking space (tie), ", " *)
Definition is_name_sep (p : pair) : bool :=
  match p with
  | (ACh c, []) => N.eqb c c_space || N.eqb c c_comma
  | (ASym n, []) => str_eqb n nbsp_name
  | _ => false
  end.
Definition sep_only (s : ftext) : Prop := forallb is_name_sep s = true.

Lemma sep_only_nil : sep_only [].
Proof. reflexivity. Qed.
Lemma sep_only_app a b : sep_only a -> sep_only b -> sep_only (a ++ b).
Proof. unfold sep_only. intros Ha Hb. now rewrite forallb_app, Ha, Hb. Qed.
Lemma sep_only_nbsp : sep_only nbsp.
Proof. reflexivity. Qed.
Lemma sep_only_space : sep_only space.
Proof. reflexivity. Qed.
Lemma sep_only_comma_space : sep_only comma_space.
Proof. reflexivity. Qed.
Lemma sep_only_tie n o : sep_only (tie_or_space n o nbsp space).
Proof. unfold tie_or_space. destruct (Nat.ltb _ 3); reflexivity. Qed.

(* `woven toks f`: f is the tokens in that order with only separators before, between and after *)
Inductive woven : list ftext -> ftext -> Prop :=
| W_nil s : sep_only s -> woven [] s
| W_cons s t ts f : sep_only s -> woven ts f -> woven (t :: ts) (s ++ t ++ f).

Lemma woven_prefix s ts f : sep_only s -> woven ts f -> woven ts (s ++ f).
Proof.
  intros Hs H. destruct H as [s' Hs'|s' t ts f Hs' H].
  - constructor. now apply sep_only_app.
  - rewrite app_assoc. constructor; [now apply sep_only_app|exact H].
Qed.
Lemma woven_suffix s ts f : sep_only s -> woven ts f -> woven ts (f ++ s).
Proof.
  intros Hs H. induction H as [s' Hs'|s' t ts f Hs' H IH].
  - constructor. now apply sep_only_app.
  - rewrite <- !app_assoc. now constructor.
Qed.
Lemma woven_app a b f g : woven a f -> woven b g -> woven (a ++ b) (f ++ g).
Proof.
  intros Ha Hb. induction Ha as [s Hs|s t ts f Hs H IH]; cbn [app].
  - now apply woven_prefix.
  - rewrite <- !app_assoc. now constructor.
Qed.
Lemma woven_single t : woven [t] t.
Proof. rewrite <- (app_nil_r t) at 2. apply (W_cons [] t [] []); [exact sep_only_nil|constructor; exact sep_only_nil]. Qed.
Lemma woven_empty_tok ts f : woven ts f -> woven ([] :: ts) f.
Proof. intros H. apply (W_cons [] [] ts f sep_only_nil H). Qed.

Lemma join_flat_woven sep parts : sep_only sep -> woven parts (join_flat sep parts).
Proof.
  intros Hs. induction parts as [|x r IH]; [constructor; exact sep_only_nil|].
  destruct r as [|y r'].
  - apply woven_single.
  - change (join_flat sep (x :: y :: r')) with (x ++ sep ++ join_flat sep (y :: r')).
    apply (W_cons [] x); [exact sep_only_nil|]. now apply woven_prefix.
Qed.

(* dropping the falsy values does not matter: they are empty tokens *)
Lemma woven_filter vs f : woven (map vflat (filter truthy vs)) f -> woven (map vflat vs) f.
Proof.
  revert f; induction vs as [|v r IH]; intros f H; [exact H|]. cbn [filter map] in *.
  destruct (truthy v) eqn:Ht.
  - cbn [map] in H. inversion H as [|s t ts f' Hs H']; subst. constructor; [exact Hs|]. now apply IH.
  - rewrite (vflat_falsy v Ht). apply woven_empty_tok. now apply IH.
Qed.

Lemma together_true_woven vs : woven (map vflat vs) (together_vals true vs).
Proof.
  apply woven_filter. unfold together_vals.
  set (parts := map vflat (filter truthy vs)).
  destruct parts as [|p0 rest] eqn:E; [constructor; exact sep_only_nil|].
  destruct (Nat.leb (length (p0 :: rest)) 2) eqn:L.
  - apply join_flat_woven. exact sep_only_nbsp.
  - assert (Hr : rest <> []) by (intros ->; discriminate).
    rewrite (app_removelast_last [] Hr) at 1.
    assert (HL : last (p0 :: rest) [] = last rest []) by (destruct rest; [congruence|reflexivity]).
    rewrite HL.
    apply (W_cons [] p0); [exact sep_only_nil|].
    apply woven_prefix; [apply sep_only_tie|].
    apply woven_app; [apply join_flat_woven; exact sep_only_space|].
    apply woven_prefix; [exact sep_only_nbsp|apply woven_single].
Qed.

Lemma name_part_woven before tie vs : sep_only before -> woven (map vflat vs) (name_part_vals before tie vs).
Proof.
  intros Hb. pose proof (together_true_woven vs) as H. unfold name_part_vals.
  destruct (together_vals true vs) as [|p r] eqn:E; [exact H|]. cbn [is_nil].
  destruct tie.
  - apply woven_prefix; [exact Hb|]. apply woven_suffix; [apply sep_only_tie|exact H].
  - apply woven_prefix; [exact Hb|exact H].
Qed.

Lemma np_woven before tie (abbr : bool) (names : list ftext) :
  sep_only before -> woven (map (fun f : ftext => if abbr then f_abbreviate f else f) names) (np before tie abbr names).
Proof.
  intros Hb. unfold np. pose proof (name_part_woven before tie (map (fun f : ftext => VT (if abbr then f_abbreviate f else f)) names) Hb) as H.
  rewrite map_map in H. exact H.
Qed.

(* join with an empty separator is concatenation *)
Lemma join_flat_nil parts : join_flat [] parts = concat parts.
Proof.
  induction parts as [|x r IH]; [reflexivity|]. destruct r as [|y r']; [cbn; now rewrite app_nil_r|].
  change (join_flat [] (x :: y :: r')) with (x ++ [] ++ join_flat [] (y :: r')). rewrite IH. reflexivity.
Qed.
Lemma concat_filter_truthy vs : concat (map vflat (filter truthy vs)) = concat (map vflat vs).
Proof.
  induction vs as [|v r IH]; [reflexivity|]. cbn [filter map concat]. destruct (truthy v) eqn:Ht.
  - cbn [map concat]. now rewrite IH.
  - now rewrite (vflat_falsy v Ht), IH.
Qed.
Lemma concat_removelast_last (l : list ftext) : l <> [] -> concat (removelast l) ++ last l [] = concat l.
Proof.
  intros H. rewrite (app_removelast_last [] H) at 3. rewrite concat_app. cbn. now rewrite app_nil_r.
Qed.
Lemma join_vals_nil_sep vs : join_vals [] None None vs = concat (map vflat vs).
Proof.
  rewrite <- concat_filter_truthy. unfold join_vals. set (parts := map vflat (filter truthy vs)).
  destruct parts as [|p0 [|p1 [|p2 r]]]; try (cbn; now rewrite ?app_nil_r).
  set (l := p0 :: p1 :: p2 :: r). cbn [join_flat]. rewrite join_flat_nil.
  change ([] ++ last l []) with (last l []). apply concat_removelast_last. discriminate.
Qed.

Definition abbr_tokens (abbr : bool) (names : list ftext) : list ftext :=
  map (fun f : ftext => if abbr then f_abbreviate f else f) names.

(* the order in which a style prints the five groups of name tokens *)
Definition name_tokens (ns : nstyle) (abbr : bool) (fi mi pl la li : list ftext) : list ftext :=
  match ns with
  | NSPlain => abbr_tokens abbr (fi ++ mi) ++ pl ++ la ++ li
  | NSLastFirst => pl ++ la ++ li ++ abbr_tokens abbr (fi ++ mi)
  end.

Lemma abbr_tokens_false names : abbr_tokens false names = names.
Proof. unfold abbr_tokens. now rewrite map_id. Qed.

Lemma name_tokens_emitted_lemma tbl ns abbr p f :
  format_name tbl ns abbr p = TOk f ->
  exists fi mi pl la li,
    rich_names tbl (p_first p) = TOk fi /\ rich_names tbl (p_middle p) = TOk mi /\
    rich_names tbl (p_prelast p) = TOk pl /\ rich_names tbl (p_last p) = TOk la /\
    rich_names tbl (p_lineage p) = TOk li /\
    woven (name_tokens ns abbr fi mi pl la li) f.
Proof.
  unfold format_name. destruct ns; intros H.
  - apply tbind_ok in H as (fi & Hfi & H). apply tbind_ok in H as (mi & Hmi & H).
    apply tbind_ok in H as (pl & Hpl & H). apply tbind_ok in H as (la & Hla & H).
    apply tbind_ok in H as (li & Hli & H). inversion H; subst; clear H.
    exists fi, mi, pl, la, li. repeat (split; [assumption|]).
    rewrite join_vals_nil_sep. cbn [map vflat concat]. rewrite app_nil_r. unfold name_tokens.
    apply woven_app; [apply np_woven; exact sep_only_nil|].
    apply woven_app; [rewrite <- (abbr_tokens_false pl) at 1; apply np_woven; exact sep_only_nil|].
    apply woven_app; [rewrite <- (abbr_tokens_false la) at 1; apply np_woven; exact sep_only_nil|].
    rewrite <- (abbr_tokens_false li) at 1. apply np_woven. exact sep_only_comma_space.
  - apply tbind_ok in H as (pl & Hpl & H). apply tbind_ok in H as (la & Hla & H).
    apply tbind_ok in H as (li & Hli & H).
    apply tbind_ok in H as (fi & Hfi & H). apply tbind_ok in H as (mi & Hmi & H). inversion H; subst; clear H.
    exists fi, mi, pl, la, li. repeat (split; [assumption|]).
    rewrite join_vals_nil_sep. cbn [map vflat concat]. rewrite app_nil_r. unfold name_tokens.
    apply woven_app; [rewrite <- (abbr_tokens_false pl) at 1; apply np_woven; exact sep_only_nil|].
    apply woven_app; [rewrite <- (abbr_tokens_false la) at 1; apply np_woven; exact sep_only_nil|].
    apply woven_app; [rewrite <- (abbr_tokens_false li) at 1; apply np_woven; exact sep_only_comma_space|].
    apply np_woven. exact sep_only_comma_space.
Qed.

(* what "abbreviated" means for one token without delimiters: a token made of letters only becomes its
   first letter and a period, any other token is kept *)
Lemma abbreviate_simple_token f :
  forallb (fun p => negb (is_delim p)) f = true ->
  f_abbreviate f = abbr_seg f.
Proof.
  intros H. unfold f_abbreviate.
  assert (G : forall acc, abbr_go f acc = abbr_seg (rev acc ++ f)).
  { induction f as [|p r IH]; intros acc; cbn [abbr_go]; [now rewrite app_nil_r|].
    cbn [forallb] in H. apply andb_prop in H as [Hp Hr]. destruct (is_delim p); [discriminate|].
    rewrite (IH Hr). cbn [rev]. now rewrite <- app_assoc. }
  apply (G []).
Qed.
