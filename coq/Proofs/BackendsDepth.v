(* Proofs/BackendsDepth.v -- every character of a LaTeX value keeps its brace depth through
   Text.from_latex and rendering back to LaTeX (property C09, last sentence) *)
From Pybtex Require Import Base.Prelude Base.PyChar Base.PyStr Model.RtTypes Model.Backends
  Proofs.Backends Proofs.BackendsLatex.
Local Open Scope N_scope.

(* depth profile of a string: its non-brace characters, each with its brace depth *)
Fixpoint dp (d : nat) (s : str) : list (char * nat) :=
  match s with
  | [] => []
  | c :: r =>
    if c =? c_lbrace then dp (S d) r
    else if c =? c_rbrace then dp (pred d) r
    else (c, d) :: dp d r
  end.
Definition depth_profile (s : str) : list (char * nat) := dp 0 s.

Definition at_depth (d : nat) (s : str) : list (char * nat) := map (fun c => (c, d)) s.

(* depth profile of a tree: characters with the number of enclosing Protected groups *)
Fixpoint tp (d : nat) (t : rt) : list (char * nat) :=
  match t with
  | RStr s => at_depth d s
  | RSym _ => []
  | RText ps => flat_map (tp d) ps
  | RTag _ ps | RHRef _ _ ps | RProt ps => flat_map (tp (S d)) ps
  end.

(* the trees the parser builds: brace-free strings, Protected, Text *)
Fixpoint sp (t : rt) : bool :=
  match t with
  | RStr s => nobrace s
  | RProt ps | RText ps => forallb sp ps
  | _ => false
  end.

Lemma dp_nobrace s : forall d r, nobrace s = true -> dp d (s ++ r) = at_depth d s ++ dp d r.
Proof.
  induction s as [|c s IH]; intros d r H; [reflexivity|].
  cbn [nobrace forallb] in H. apply andb_prop in H as [H1 H2].
  unfold is_brace in H1. apply negb_true_iff in H1. apply orb_false_iff in H1 as [E1 E2].
  cbn [app dp at_depth map]. rewrite E1, E2. f_equal. apply IH. exact H2.
Qed.

(* R d out xs: out is depth-neutral and contributes the profile xs at depth d, in any context *)
Definition R (d : nat) (out : str) (xs : list (char * nat)) : Prop :=
  forall rest, dp d (out ++ rest) = xs ++ dp d rest.

Lemma R_nil d : R d [] [].
Proof. intros rest. reflexivity. Qed.
Lemma R_app d a b xs ys : R d a xs -> R d b ys -> R d (a ++ b) (xs ++ ys).
Proof. intros Ha Hb rest. rewrite <- !app_assoc, Ha, Hb. reflexivity. Qed.
Lemma R_group d x xs : R (S d) x xs -> R d ([c_lbrace] ++ x ++ [c_rbrace]) xs.
Proof.
  intros Hx rest. cbn [app dp]. change (c_lbrace =? c_lbrace) with true. cbv iota.
  rewrite <- app_assoc, Hx. cbn [app dp]. change (c_rbrace =? c_lbrace) with false.
  change (c_rbrace =? c_rbrace) with true. cbv iota. reflexivity.
Qed.
Lemma R_nobrace d s : nobrace s = true -> R d s (at_depth d s).
Proof. intros H rest. apply dp_nobrace. exact H. Qed.

Section Depth.
Variable T : tables.
Let enc : str -> str := fun s => s.

(* rendering a parser-built tree to LaTeX (identity encoder) succeeds and has the tree's profile *)
Lemma render_sp_parts ps :
  Forall (fun t => forall d, sp t = true -> exists out, render enc T BLatex t = Ok out /\ R d out (tp d t)) ps ->
  forall d, forallb sp ps = true ->
  exists out, render_parts enc T BLatex ps = Ok out /\ R d out (flat_map (tp d) ps).
Proof.
  induction 1 as [|p r Hp Hr IH]; intros d Hs.
  - exists []. split; [reflexivity|apply R_nil].
  - cbn [forallb] in Hs. apply andb_prop in Hs as [Hs1 Hs2].
    destruct (Hp d Hs1) as [x [Ex Rx]]. destruct (IH d Hs2) as [y [Ey Ry]].
    exists (x ++ y). cbn [render_parts]. rewrite Ex, Ey. cbn [bind]. split; [reflexivity|].
    cbn [flat_map]. apply R_app; assumption.
Qed.

Lemma render_sp t : forall d, sp t = true ->
  exists out, render enc T BLatex t = Ok out /\ R d out (tp d t).
Proof.
  induction t using rt_ind'; intros d Hs; cbn [sp] in Hs; try discriminate; rewrite render_unfold.
  - exists s. split; [reflexivity|]. cbn [tp]. apply R_nobrace. exact Hs.
  - destruct (render_sp_parts ps H d Hs) as [out [E Ro]]. exists out. split; assumption.
  - destruct (render_sp_parts ps H (S d) Hs) as [out [E Ro]].
    exists ([c_lbrace] ++ out ++ [c_rbrace]). rewrite E. cbn [bind format_protected].
    split; [reflexivity|]. cbn [tp]. apply R_group. exact Ro.
Qed.

End Depth.

(* ---- the smart constructor (as the parser uses it) keeps the profile ---- *)
Lemma rt_len_zero_tp t : forall d, rt_len t = 0%nat -> tp d t = [].
Proof.
  assert (Hl : forall ps, Forall (fun t => forall d, rt_len t = 0%nat -> tp d t = []) ps ->
              fold_right (fun p n => (rt_len p + n)%nat) 0%nat ps = 0%nat -> forall d, flat_map (tp d) ps = []).
  { induction 1 as [|p r Hp Hr IH]; intros Hz d; [reflexivity|].
    cbn [fold_right] in Hz. apply Nat.eq_add_0 in Hz as [Hz1 Hz2].
    cbn [flat_map]. rewrite (Hp d Hz1), (IH Hz2 d). reflexivity. }
  induction t using rt_ind'; intros d Hz; cbn [rt_len] in Hz; cbn [tp].
  - destruct s; [reflexivity|discriminate].
  - reflexivity.
  - apply Hl; assumption.
  - apply Hl; assumption.
  - apply Hl; assumption.
  - apply Hl; assumption.
Qed.

Lemma filter_nonempty_tp ps d : flat_map (tp d) (filter rt_nonempty ps) = flat_map (tp d) ps.
Proof.
  induction ps as [|p r IH]; [reflexivity|].
  cbn [filter]. unfold rt_nonempty at 1. destruct (Nat.eqb (rt_len p) 0) eqn:E; cbn [negb flat_map].
  - apply Nat.eqb_eq in E. rewrite (rt_len_zero_tp p d E). exact IH.
  - rewrite IH. reflexivity.
Qed.

Lemma filter_sp ps : forallb sp ps = true -> forallb sp (filter rt_nonempty ps) = true.
Proof.
  induction ps as [|p r IH]; [reflexivity|]. cbn [forallb filter]. intros H.
  apply andb_prop in H as [H1 H2]. destruct (rt_nonempty p); [cbn [forallb]; rewrite H1; auto|auto].
Qed.

Lemma nobrace_app a b : nobrace (a ++ b) = nobrace a && nobrace b.
Proof. apply forallb_app. Qed.

Lemma at_depth_app d a b : at_depth d (a ++ b) = at_depth d a ++ at_depth d b.
Proof. apply map_app. Qed.

Lemma span_str_spec r : forall v k rest, span_str r = (v, k, rest) -> forallb sp r = true ->
  nobrace v = true /\ forallb sp rest = true /\ (length rest <= length r)%nat /\
  forall d, flat_map (tp d) r = at_depth d v ++ flat_map (tp d) rest.
Proof.
  induction r as [|p r IH]; intros v k rest E Hs.
  - cbn in E. injection E as <- <- <-. repeat split; auto.
  - cbn [forallb] in Hs. apply andb_prop in Hs as [Hs1 Hs2].
    destruct p; cbn [span_str] in E;
      try (injection E as <- <- <-; cbn [forallb]; rewrite Hs1, Hs2; repeat split; auto).
    destruct (span_str r) as [[v' k'] rest'] eqn:Er. injection E as <- <- <-.
    destruct (IH v' k' rest' eq_refl Hs2) as [Hv [Hr [Hl Hf]]].
    cbn [sp] in Hs1. repeat split.
    + rewrite nobrace_app, Hs1, Hv. reflexivity.
    + exact Hr.
    + cbn [length]. lia.
    + intros d. cbn [flat_map tp]. rewrite Hf, at_depth_app, app_assoc. reflexivity.
Qed.

Lemma span_prot_spec r : forall v k rest, span_prot r = (v, k, rest) -> forallb sp r = true ->
  forallb sp v = true /\ forallb sp rest = true /\ (length rest <= length r)%nat /\
  forall d, flat_map (tp d) r = flat_map (tp (S d)) v ++ flat_map (tp d) rest.
Proof.
  induction r as [|p r IH]; intros v k rest E Hs.
  - cbn in E. injection E as <- <- <-. repeat split; auto.
  - cbn [forallb] in Hs. apply andb_prop in Hs as [Hs1 Hs2].
    destruct p; cbn [span_prot] in E;
      try (injection E as <- <- <-; cbn [forallb]; rewrite Hs1, Hs2; repeat split; auto).
    destruct (span_prot r) as [[v' k'] rest'] eqn:Er. injection E as <- <- <-.
    destruct (IH v' k' rest' eq_refl Hs2) as [Hv [Hr [Hl Hf]]].
    cbn [sp] in Hs1. repeat split.
    + rewrite forallb_app, Hs1, Hv. reflexivity.
    + exact Hr.
    + cbn [length]. lia.
    + intros d. cbn [flat_map tp]. rewrite Hf, flat_map_app, app_assoc. reflexivity.
Qed.

Lemma merge_similar_spec fuel : forall n ps qs,
  (length ps <= n)%nat -> forallb sp ps = true -> merge_similar fuel n ps = Ok qs ->
  forallb sp qs = true /\ forall d, flat_map (tp d) qs = flat_map (tp d) ps.
Proof.
  induction fuel as [|f IHf]; intros n ps qs Hn Hs E; [discriminate|].
  revert ps qs Hn Hs E. induction n as [|n IHn]; intros ps qs Hn Hs E.
  - destruct ps; [|cbn in Hn; lia]. cbn in E. injection E as <-. split; auto.
  - cbn [merge_similar] in E. fold (merge_similar f) in E.
    destruct ps as [|p r]; [injection E as <-; split; auto|].
    cbn [length] in Hn. cbn [forallb] in Hs. apply andb_prop in Hs as [Hs1 Hs2].
    destruct p as [s0|nm|tps|nm tps|u ex tps|q]; cbn [sp] in Hs1; try discriminate.
    + (* a run of Strings *)
      destruct (span_str r) as [[v k] rest] eqn:Er.
      destruct (span_str_spec r v k rest Er Hs2) as [Hv [Hr [Hl Hf]]].
      match type of E with (do tl <- ?X; _) = _ => destruct X as [tl| | |] eqn:Et; try discriminate end.
      cbn [bind] in E. injection E as <-.
      destruct (IHn rest tl ltac:(lia) Hr Et) as [Hstl Hftl]. split.
      * cbn [forallb sp]. rewrite nobrace_app, Hs1, Hv, Hstl. reflexivity.
      * intros d. cbn [flat_map tp]. rewrite Hf, Hftl, at_depth_app, app_assoc. reflexivity.
    + (* Text among the parts: not produced by the parser, passed through *)
      match type of E with (do tl <- ?X; _) = _ => destruct X as [tl| | |] eqn:Et; try discriminate end.
      cbn [bind] in E. injection E as <-.
      destruct (IHn r tl ltac:(lia) Hs2 Et) as [Hstl Hftl]. split.
      * cbn [forallb sp]. rewrite Hs1, Hstl. reflexivity.
      * intros d. cbn [flat_map]. rewrite Hftl. reflexivity.
    + (* a run of Protected *)
      destruct (span_prot r) as [[v k] rest] eqn:Er.
      destruct (span_prot_spec r v k rest Er Hs2) as [Hv [Hr [Hl Hf]]].
      match type of E with (do tl <- ?X; _) = _ => destruct X as [tl| | |] eqn:Et; try discriminate end.
      cbn [bind] in E.
      destruct (IHn rest tl ltac:(lia) Hr Et) as [Hstl Hftl].
      destruct k as [|k'].
      * injection E as <-. split.
        -- cbn [forallb sp]. rewrite Hs1, Hstl. reflexivity.
        -- intros d. cbn [flat_map tp]. rewrite Hf, Hftl.
           assert (Hv0 : v = []).
           { clear -Er. destruct r as [|p r']; cbn in Er; [congruence|].
             destruct p; try (injection Er; congruence).
             destruct (span_prot r') as [[a b] c]. discriminate. }
           subst v. reflexivity.
      * match type of E with (do inner <- ?X; _) = _ => destruct X as [inner| | |] eqn:Ei; try discriminate end.
        cbn [bind] in E. injection E as <-.
        assert (Hargs : forallb sp (filter rt_nonempty (q ++ v)) = true).
        { apply filter_sp. rewrite forallb_app, Hs1, Hv. reflexivity. }
        destruct (IHf _ _ inner (le_n _) Hargs Ei) as [Hsi Hfi]. split.
        -- cbn [forallb sp]. rewrite Hsi, Hstl. reflexivity.
        -- intros d. cbn [flat_map tp]. rewrite Hfi, filter_nonempty_tp, flat_map_app, Hf, Hftl.
           rewrite <- app_assoc. reflexivity.
Qed.

Lemma mk_parts_spec fuel ps qs : forallb sp ps = true -> mk_parts fuel ps = Ok qs ->
  forallb sp qs = true /\ forall d, flat_map (tp d) qs = flat_map (tp d) ps.
Proof.
  unfold mk_parts. intros Hs E.
  destruct (merge_similar_spec fuel _ _ qs (le_n _) (filter_sp ps Hs) E) as [H1 H2].
  split; [exact H1|]. intros d. rewrite H2. apply filter_nonempty_tp.
Qed.

(* ---- the parser ---- *)
Lemma skip_to_brace_none s : skip_to_brace s = None -> nobrace s = true.
Proof.
  induction s as [|c s IH]; [reflexivity|]. cbn [skip_to_brace].
  destruct (c =? c_lbrace) eqn:E1; [discriminate|]. destruct (c =? c_rbrace) eqn:E2; [discriminate|].
  destruct (skip_to_brace s) as [[[pre k] rest]|]; [discriminate|]. intros _.
  cbn [nobrace forallb]. unfold is_brace. rewrite E1, E2. cbn. apply IH. reflexivity.
Qed.

Lemma skip_to_brace_some s : forall pre k rest, skip_to_brace s = Some (pre, k, rest) ->
  nobrace pre = true /\ s = pre ++ (if k then c_lbrace else c_rbrace) :: rest.
Proof.
  induction s as [|c s IH]; intros pre k rest E; [discriminate|]. cbn [skip_to_brace] in E.
  destruct (c =? c_lbrace) eqn:E1.
  - injection E as <- <- <-. apply N.eqb_eq in E1. subst. split; reflexivity.
  - destruct (c =? c_rbrace) eqn:E2.
    + injection E as <- <- <-. apply N.eqb_eq in E2. subst. split; reflexivity.
    + destruct (skip_to_brace s) as [[[pre' k'] rest']|]; [|discriminate].
      injection E as <- <- <-. destruct (IH pre' k' rest' eq_refl) as [Hn ->]. split; [|reflexivity].
      cbn [nobrace forallb]. unfold is_brace. rewrite E1, E2. exact Hn.
Qed.

Lemma iter_string_parts_spec fuel : forall level s ps rest,
  iter_string_parts fuel level s = Ok (ps, rest) ->
  forallb sp ps = true /\
  forall d, dp d s = flat_map (tp d) ps ++ match level with O => [] | S _ => dp (pred d) rest end.
Proof.
  induction fuel as [|f IH]; intros level s ps rest E; [discriminate|].
  cbn [iter_string_parts] in E.
  destruct (skip_to_brace s) as [[[pre k] rest0]|] eqn:Es.
  - destruct (skip_to_brace_some s pre k rest0 Es) as [Hpre ->]. destruct k.
    + (* an opening brace *)
      destruct (iter_string_parts f (S level) rest0) as [[inner rest']| | |] eqn:Ei; try discriminate.
      cbn [bind] in E.
      match type of E with (do ip <- ?X; _) = _ => destruct X as [ip| | |] eqn:Em; try discriminate end.
      cbn [bind] in E.
      destruct (iter_string_parts f level rest') as [[more rest'']| | |] eqn:Eo; try discriminate.
      cbn [bind] in E. injection E as <- <-.
      destruct (IH _ _ _ _ Ei) as [Hsi Hdi]. destruct (IH _ _ _ _ Eo) as [Hso Hdo].
      destruct (mk_parts_spec _ _ _ Hsi Em) as [Hsm Hdm]. split.
      * cbn [forallb sp]. rewrite Hpre, Hsm, Hso. reflexivity.
      * intros d. rewrite dp_nobrace by exact Hpre. cbn [dp]. change (c_lbrace =? c_lbrace) with true. cbv iota.
        rewrite (Hdi (S d)). cbn [pred]. rewrite (Hdo d).
        cbn [flat_map tp]. rewrite Hdm, <- !app_assoc. reflexivity.
    + (* a closing brace *)
      destruct level; [discriminate|]. injection E as <- <-. split.
      * cbn [forallb sp]. rewrite Hpre. reflexivity.
      * intros d. rewrite dp_nobrace by exact Hpre. cbn [dp]. change (c_rbrace =? c_lbrace) with false.
        change (c_rbrace =? c_rbrace) with true. cbv iota. cbn [flat_map tp]. rewrite app_nil_r. reflexivity.
  - (* no brace left *)
    pose proof (skip_to_brace_none s Es) as Hn.
    destruct level; [|discriminate]. injection E as <- <-. split.
    + destruct s; cbn [is_empty forallb sp]; [reflexivity|]. rewrite Hn. reflexivity.
    + intros d. rewrite <- (app_nil_r s) at 1. rewrite dp_nobrace by exact Hn. cbn [dp].
      destruct s; cbn [is_empty flat_map tp at_depth map app]; rewrite ?app_nil_r; reflexivity.
Qed.

Lemma parse_latex_spec s t : parse_latex s = Ok t ->
  sp t = true /\ tp 0 t = depth_profile s.
Proof.
  unfold parse_latex. intros E.
  destruct (iter_string_parts (S (length s)) 0 s) as [[ps rest]| | |] eqn:Ei; try discriminate.
  cbn [bind] in E.
  match type of E with (do parts <- ?X; _) = _ => destruct X as [parts| | |] eqn:Em; try discriminate end.
  cbn [bind] in E. injection E as <-.
  destruct (iter_string_parts_spec _ _ _ _ _ Ei) as [Hs Hd].
  destruct (mk_parts_spec _ _ _ Hs Em) as [Hsm Hdm]. split; [exact Hsm|].
  cbn [tp]. unfold depth_profile. rewrite Hdm, (Hd 0%nat), app_nil_r. reflexivity.
Qed.

(* every character of a field value keeps its brace depth when the value is parsed into rich
   text and rendered back to LaTeX (identity codec) *)
Lemma latex_depth_roundtrip_holds T v t : parse_latex v = Ok t ->
  exists out, render (fun s => s) T BLatex t = Ok out /\ depth_profile out = depth_profile v.
Proof.
  intros E. destruct (parse_latex_spec v t E) as [Hs Ht].
  destruct (render_sp T t 0 Hs) as [out [Er Ro]]. exists out. split; [exact Er|].
  unfold depth_profile. specialize (Ro []). rewrite app_nil_r in Ro. cbn [dp] in Ro.
  rewrite app_nil_r in Ro. rewrite Ro. exact Ht.
Qed.
