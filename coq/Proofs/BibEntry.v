(* Proofs/BibEntry.v -- C01: a rendered field, field list and entry read back as what they denote *)
From Pybtex Require Import Base.Prelude Base.PyChar Base.PyStr Model.BibtexStr Model.Names
  Model.Scanner Model.BibParser Proofs.Scanner Proofs.CharFacts Proofs.BibValues.
Local Open Scope N_scope.

(* a field as written: whitespace, name, whitespace, '=', value parts (the whitespace after
   '=' belongs to the first part, the whitespace before the following ',' or closing
   delimiter to the last part) *)
Definition sfield := (str * str * str * list gpart)%type.
Definition render_sfield (f : sfield) : str :=
  let '(wsn, name, wse, parts) := f in wsn ++ name ++ wse ++ 61 :: render_gparts parts.
Definition wf_sfield (macros : list (str * str)) (f : sfield) : Prop :=
  let '(wsn, name, wse, parts) := f in
  forallb is_space wsn = true /\ forallb is_space wse = true /\ is_name name = true /\
  parts <> [] /\ Forall (wf_gpart macros) parts.
Definition field_result (macros : list (str * str)) (f : sfield) : str * list str :=
  let '(_, name, _, parts) := f in (name, map (gpart_value macros) parts).

(* the character after a value / a key / the field list: ',' or the closing delimiter *)
Definition stop_char (c : char) : Prop := is_space c = false /\ c <> c_hash /\ is_name_char c = false.

Lemma parse_field_reads m st f c t : wf_sfield (p_macros st) f -> stop_char c ->
  sc_rest (p_sc st) = render_sfield f ++ c :: t ->
  exists sc', parse_field m st =
    Ret tt (mkP sc' (p_macros st) (p_errs st) (p_key st) (p_fields st)
                (Some (fst (field_result (p_macros st) f))) (snd (field_result (p_macros st) f)) (p_cstart st))
    /\ sc_rest sc' = c :: t.
Proof.
  destruct f as [[[wsn name] wse] parts]. intros (Hwsn & Hwse & Hname & Hne & Hparts) (Hc1 & Hc2 & Hc3) Hr.
  cbn [render_sfield] in Hr. rewrite <- !app_assoc in Hr. cbn [app] in Hr.
  destruct (name_head name Hname) as (c0 & t0 & Hn0 & Hs0 & Hc0).
  assert (Hf : first_match [P_NAME] (name ++ wse ++ 61 :: render_gparts parts ++ c :: t)
               = Some (P_NAME, name, wse ++ 61 :: render_gparts parts ++ c :: t)).
  { cbn [first_match]. rewrite (match_name name _ Hname (head_ok_ws_then wse 61 _ Hwse eq_refl)). reflexivity. }
  unfold parse_field.
  rewrite Hn0 in Hr, Hf. cbn [app] in Hr, Hf.
  destruct (optional_after_ws [P_NAME] st wsn c0 _ _ _ _ Hwsn (name_char_not_space c0 Hc0) Hr Hf) as (sc1 & H1 & Hr1).
  rewrite H1. cbn [obind]. cbv zeta. cbn [snd].
  assert (Hf2 : first_match [P_LIT 61] (61 :: render_gparts parts ++ c :: t) = Some (P_LIT 61, [61], render_gparts parts ++ c :: t)) by reflexivity.
  match goal with |- context [required ?ps ?s2 >>= _] =>
    destruct (required_after_ws ps s2 wse 61 _ _ _ _ Hwse eq_refl Hr1 Hf2) as (sc2 & H2 & Hr2);
    rewrite H2; cbn [obind];
    destruct (value_roundtrip_general m parts (set_sc s2 sc2) c t Hne Hparts Hc1 Hc2 Hc3 Hr2) as (sc3 & H3 & Hr3)
  end.
  rewrite H3. exists sc3. split; [|exact Hr3]. subst name. reflexivity.
Qed.

(* the text right after a comma of the field list: the remaining fields, an optional trailing
   comma, whitespace, the closing delimiter *)
Fixpoint fields_text (fs : list sfield) (trailing : bool) (wsend : str) (cl : char) (rest : str) : str :=
  match fs with
  | [] => wsend ++ cl :: rest
  | f :: r => render_sfield f ++
              match r with
              | [] => if trailing then c_comma :: wsend ++ cl :: rest else cl :: rest
              | _ => c_comma :: fields_text r trailing wsend cl rest
              end
  end.

Definition closer_char (cl : char) : Prop := stop_char cl /\ cl <> c_comma /\ is_name_start cl = false.

Lemma comma_stop : stop_char c_comma.
Proof. repeat split; try reflexivity. discriminate. Qed.

Lemma name_start_char_false c : is_name_char c = false -> is_name_start c = false.
Proof. unfold is_name_char. intros H. apply orb_false_iff in H as [H _]. exact H. Qed.

Lemma fields_loop m : forall fs fuel st trailing wsend cl rest,
  (length fs < fuel)%nat -> Forall (wf_sfield (p_macros st)) fs -> forallb is_space wsend = true -> closer_char cl ->
  sc_rest (p_sc st) = fields_text fs trailing wsend cl rest ->
  exists st', parse_entry_fields fuel m st = Ret tt st' /\ sc_rest (p_sc st') = cl :: rest /\
    p_fields st' = p_fields st ++ map (field_result (p_macros st)) fs /\
    p_key st' = p_key st /\ p_errs st' = p_errs st /\ p_macros st' = p_macros st /\ p_cstart st' = p_cstart st.
Proof.
  induction fs as [|f r IH]; intros fuel st trailing wsend cl rest Hf Hwf Hws ((Hc1 & Hc2 & Hc3) & Hc4 & Hc5) Hr;
    (destruct fuel as [|fu]; [cbn in Hf; lia|]); cbn [parse_entry_fields].
  - cbn [fields_text] in Hr. unfold parse_field.
    match goal with |- context [optional [P_NAME] ?s0] =>
      destruct (optional_none_after_ws [P_NAME] s0 wsend cl rest Hws Hc1 Hr) as (sc1 & H1 & Hr1) end.
    { cbn [first_match match_pat]. rewrite Hc5. reflexivity. }
    rewrite H1. cbn [obind p_fname set_sc set_value set_fname].
    match goal with |- context [optional [P_LIT c_comma] ?s2] =>
      destruct (optional_none_after_ws [P_LIT c_comma] s2 [] cl rest eq_refl Hc1 Hr1) as (sc2 & H2 & Hr2) end.
    { cbn [first_match match_pat]. apply N.eqb_neq in Hc4. rewrite Hc4. reflexivity. }
    rewrite H2. cbn [obind]. eexists. split; [reflexivity|]. cbn. rewrite app_nil_r. repeat split; auto.
  - inversion Hwf as [|? ? Hwf1 Hwfr]; subst. cbn [fields_text] in Hr.
    set (nxt := match r with
                | [] => if trailing then c_comma :: wsend ++ cl :: rest else cl :: rest
                | _ => c_comma :: fields_text r trailing wsend cl rest end) in Hr.
    assert (Hnx : exists c t, nxt = c :: t /\ stop_char c).
    { unfold nxt. destruct r; [destruct trailing|]; eexists; eexists; (split; [reflexivity|]);
        try exact comma_stop; repeat split; auto. }
    destruct Hnx as (c & t & Hnxt & Hstop). rewrite Hnxt in Hr.
    match goal with |- context [parse_field m ?s0] =>
      destruct (parse_field_reads m s0 f c t Hwf1 Hstop Hr) as (sc1 & H1 & Hr1) end.
    rewrite H1. cbn [obind p_fname p_value p_fields p_macros set_value set_fname].
    destruct f as [[[wsn name] wse] parts]. destruct Hwf1 as (_ & _ & _ & Hne & _).
    destruct parts as [|p0 ps]; [congruence|]. cbn [field_result fst snd map].
    destruct r as [|f2 r'].
    + destruct trailing.
      * unfold nxt in Hnxt. injection Hnxt as <- <-.
        match goal with |- context [optional [P_LIT c_comma] ?s2] =>
          destruct (optional_after_ws [P_LIT c_comma] s2 [] c_comma (wsend ++ cl :: rest) (P_LIT c_comma) [c_comma] (wsend ++ cl :: rest) eq_refl eq_refl Hr1 eq_refl) as (sc2 & H2 & Hr2);
          rewrite H2; cbn [obind];
          destruct (IH fu (set_sc s2 sc2) true wsend cl rest ltac:(cbn [length] in *; lia) Hwfr Hws ltac:(repeat split; auto) Hr2)
            as (st' & H3 & Hr3 & Hfs & Hk & He & Hm & Hcs)
        end.
        rewrite H3. exists st'. split; [reflexivity|]. split; [exact Hr3|]. cbn in Hfs, Hk, He, Hm, Hcs |- *.
        rewrite Hfs, app_nil_r. repeat split; auto.
      * unfold nxt in Hnxt. injection Hnxt as <- <-.
        match goal with |- context [optional [P_LIT c_comma] ?s2] =>
          destruct (optional_none_after_ws [P_LIT c_comma] s2 [] cl rest eq_refl Hc1 Hr1) as (sc2 & H2 & Hr2) end.
        { cbn [first_match match_pat]. apply N.eqb_neq in Hc4. rewrite Hc4. reflexivity. }
        rewrite H2. cbn [obind]. eexists. split; [reflexivity|]. cbn. repeat split; auto.
    + unfold nxt in Hnxt. injection Hnxt as <- <-.
      match goal with |- context [optional [P_LIT c_comma] ?s2] =>
        destruct (optional_after_ws [P_LIT c_comma] s2 [] c_comma _ (P_LIT c_comma) [c_comma] _ eq_refl eq_refl Hr1 eq_refl) as (sc2 & H2 & Hr2);
        rewrite H2; cbn [obind];
        destruct (IH fu (set_sc s2 sc2) trailing wsend cl rest ltac:(cbn [length] in *; lia) Hwfr Hws ltac:(repeat split; auto) Hr2)
          as (st' & H3 & Hr3 & Hfs & Hk & He & Hm & Hcs)
      end.
      rewrite H3. exists st'. split; [reflexivity|]. split; [exact Hr3|]. cbn in Hfs, Hk, He, Hm, Hcs |- *.
      rewrite Hfs, <- app_assoc. repeat split; auto.
Qed.

(* ---- one entry *)
Definition is_entry_type (typ : str) : bool :=
  is_name typ && negb (str_eqb (lower typ) kw_comment) && negb (str_eqb (lower typ) kw_string)
  && negb (str_eqb (lower typ) kw_preamble).
Definition keyp (brace : bool) (c : char) : bool :=
  if brace then negb (is_space c || (c =? c_comma) || (c =? c_rbrace)) else negb (is_space c || (c =? c_comma)).
Definition is_key (brace : bool) (key : str) : bool := match key with [] => false | _ => forallb (keyp brace) key end.
Definition op_char (brace : bool) : char := if brace then c_lbrace else 40.
Definition cl_char (brace : bool) : char := if brace then c_rbrace else 41.

(* '@' has been consumed; the rest of the entry as written *)
Definition entry_text (brace : bool) (ws0 typ ws1 ws2 key wsk : str) (fs : list sfield) (trailing : bool) (wsend rest : str) : str :=
  ws0 ++ typ ++ ws1 ++ op_char brace :: ws2 ++ key ++ wsk ++ c_comma :: fields_text fs trailing wsend (cl_char brace) rest.

Lemma cl_closer brace : closer_char (cl_char brace).
Proof. destruct brace; repeat split; try reflexivity; discriminate. Qed.

Lemma match_key brace key next : is_key brace key = true -> head_ok (keyp brace) next ->
  match_pat (if brace then P_KEY_BRACE else P_KEY_PAREN) (key ++ next) = Some (key, next).
Proof.
  intros Hk Hn. destruct key as [|k0 k']; [discriminate|]. cbn [is_key] in Hk.
  destruct brace.
  - change (match_pat P_KEY_BRACE ((k0 :: k') ++ next)) with (nonempty_span (keyp true) ((k0 :: k') ++ next)).
    unfold nonempty_span. rewrite (span_app_gen _ (k0 :: k') next Hk Hn). reflexivity.
  - change (match_pat P_KEY_PAREN ((k0 :: k') ++ next)) with (nonempty_span (keyp false) ((k0 :: k') ++ next)).
    unfold nonempty_span. rewrite (span_app_gen _ (k0 :: k') next Hk Hn). reflexivity.
Qed.

Lemma entry_reads m st brace ws0 typ ws1 ws2 key wsk fs trailing wsend rest :
  forallb is_space ws0 = true -> forallb is_space ws1 = true -> forallb is_space ws2 = true ->
  forallb is_space wsk = true -> forallb is_space wsend = true ->
  is_entry_type typ = true -> is_key brace key = true -> Forall (wf_sfield (p_macros st)) fs ->
  sc_rest (p_sc st) = entry_text brace ws0 typ ws1 ws2 key wsk fs trailing wsend rest ->
  exists st', parse_command m st = Ret (Some (CEntry typ (Some key) (map (field_result (p_macros st)) fs))) st'
    /\ sc_rest (p_sc st') = rest /\ p_errs st' = p_errs st /\ p_macros st' = p_macros st.
Proof.
  intros H0 H1 H2 Hk Hend Htyp Hkey Hwf Hr. unfold entry_text in Hr.
  unfold is_entry_type in Htyp. apply andb_prop in Htyp as [Htyp Hp]. apply andb_prop in Htyp as [Htyp Hs].
  apply andb_prop in Htyp as [Hname Hc]. apply negb_true_iff in Hp, Hs, Hc.
  destruct (name_head typ Hname) as (t0 & t' & Ht0 & Hts & Htc).
  unfold parse_command.
  (* type *)
  assert (Hf1 : first_match [P_NAME] (typ ++ ws1 ++ op_char brace :: ws2 ++ key ++ wsk ++ c_comma :: fields_text fs trailing wsend (cl_char brace) rest)
                = Some (P_NAME, typ, ws1 ++ op_char brace :: ws2 ++ key ++ wsk ++ c_comma :: fields_text fs trailing wsend (cl_char brace) rest)).
  { cbn [first_match]. rewrite (match_name typ _ Hname (head_ok_ws_then ws1 (op_char brace) _ H1 ltac:(destruct brace; reflexivity))). reflexivity. }
  rewrite Ht0 in Hr, Hf1. cbn [app] in Hr, Hf1.
  match goal with |- context [required [P_NAME] ?s0] =>
    destruct (required_after_ws [P_NAME] s0 ws0 t0 _ _ _ _ H0 (name_char_not_space t0 Htc) Hr Hf1) as (sc1 & E1 & Hr1) end.
  rewrite E1. cbn [obind]. cbv zeta. cbn [snd fst].
  (* opening delimiter *)
  assert (Hf2 : first_match [P_LIT 40; P_LIT c_lbrace] (op_char brace :: ws2 ++ key ++ wsk ++ c_comma :: fields_text fs trailing wsend (cl_char brace) rest)
                = Some (P_LIT (op_char brace), [op_char brace], ws2 ++ key ++ wsk ++ c_comma :: fields_text fs trailing wsend (cl_char brace) rest))
    by (destruct brace; reflexivity).
  match goal with |- context [required [P_LIT 40; P_LIT c_lbrace] ?s1] =>
    destruct (required_after_ws _ s1 ws1 (op_char brace) _ _ _ _ H1 ltac:(destruct brace; reflexivity) Hr1 Hf2) as (sc2 & E2 & Hr2) end.
  rewrite E2. cbn [obind fst snd]. rewrite <- Ht0. rewrite Hc, Hs, Hp.
  assert (Hb : (op_char brace =? c_lbrace) = brace) by (destruct brace; reflexivity). rewrite Hb.
  (* key *)
  unfold parse_entry_body.
  destruct key as [|k0 k']; [discriminate|].
  assert (Hk0 : is_space k0 = false).
  { cbn [is_key forallb] in Hkey. apply andb_prop in Hkey as [Hx _]. unfold keyp in Hx.
    destruct brace; apply negb_true_iff in Hx.
    - apply orb_false_iff in Hx as [Hx _]. apply orb_false_iff in Hx as [Hx _]. exact Hx.
    - apply orb_false_iff in Hx as [Hx _]. exact Hx. }
  assert (Hf3 : first_match [if brace then P_KEY_BRACE else P_KEY_PAREN] ((k0 :: k') ++ wsk ++ c_comma :: fields_text fs trailing wsend (cl_char brace) rest)
                = Some (if brace then P_KEY_BRACE else P_KEY_PAREN, k0 :: k', wsk ++ c_comma :: fields_text fs trailing wsend (cl_char brace) rest)).
  { cbn [first_match]. rewrite (match_key brace (k0 :: k') _ Hkey); [reflexivity|].
    destruct wsk as [|w wsk']; cbn.
    - destruct brace; reflexivity.
    - cbn in Hk. apply andb_prop in Hk as [Hw _]. destruct brace; cbn; rewrite Hw; reflexivity. }
  cbn [app] in Hf3, Hr2.
  match goal with |- context [required [if brace then P_KEY_BRACE else P_KEY_PAREN] ?s2] =>
    destruct (required_after_ws _ s2 ws2 k0 _ _ _ _ H2 Hk0 Hr2 Hf3) as (sc3 & E3 & Hr3) end.
  rewrite E3. cbn [obind snd].
  (* the first round of parse_entry_fields: no field before the first comma *)
  match goal with |- context [parse_entry_fields (S ?n) m ?s3] => remember s3 as s3v eqn:Es3; remember n as fuel0 eqn:Efu end.
  assert (Hr3' : sc_rest (p_sc s3v) = wsk ++ c_comma :: fields_text fs trailing wsend (cl_char brace) rest) by (subst s3v; exact Hr3).
  cbn [parse_entry_fields]. unfold parse_field.
  match goal with |- context [optional [P_NAME] ?s] =>
    destruct (optional_none_after_ws [P_NAME] s wsk c_comma _ Hk eq_refl Hr3' eq_refl) as (sc4 & E4 & Hr4) end.
  rewrite E4. cbn [obind p_fname set_sc set_value set_fname].
  match goal with |- context [optional [P_LIT c_comma] ?s] =>
    destruct (optional_after_ws [P_LIT c_comma] s [] c_comma _ (P_LIT c_comma) [c_comma] _ eq_refl eq_refl Hr4 eq_refl) as (sc5 & E5 & Hr5);
    rewrite E5; cbn [obind];
    destruct (fields_loop m fs fuel0 (set_sc s sc5) trailing wsend (cl_char brace) rest) as (st6 & E6 & Hr6 & Hfs & Hky & Her & Hma & Hcs)
  end.
  { subst fuel0. cbn [p_sc set_key set_sc]. rewrite Hr3. rewrite !app_length. cbn [length].
    assert (Hl : forall fs' tr, (length fs' <= length (fields_text fs' tr wsend (cl_char brace) rest))%nat).
    { induction fs' as [|f r IHf]; intros tr; cbn [fields_text length]; [lia|].
      rewrite app_length. destruct f as [[[wsn nm] wse] pts]. cbn [render_sfield]. rewrite !app_length. cbn [length].
      destruct r as [|f2 r']; [cbn [length]; destruct tr; cbn [length]; lia|]. specialize (IHf tr). cbn [length] in *. lia. }
    specialize (Hl fs trailing). lia. }
  { subst s3v. cbn. exact Hwf. }
  { exact Hend. }
  { apply cl_closer. }
  { exact Hr5. }
  rewrite E6. cbn [obind].
  (* closing delimiter *)
  assert (Hf7 : first_match [P_LIT (if brace then c_rbrace else 41)] (cl_char brace :: rest) = Some (P_LIT (cl_char brace), [cl_char brace], rest))
    by (destruct brace; reflexivity).
  destruct (required_after_ws _ st6 [] (cl_char brace) rest _ _ _ eq_refl ltac:(destruct brace; reflexivity) Hr6 Hf7) as (sc7 & E7 & Hr7).
  rewrite E7. eexists. split.
  - unfold make_result. cbn [p_key p_fields set_sc]. rewrite Hky, Hfs. subst s3v. cbn. reflexivity.
  - cbn [p_sc set_sc p_errs p_macros]. rewrite Her, Hma. subst s3v. cbn. auto.
Qed.

(* ---- a file of entries separated by whitespace (no junk, no @string / @preamble / @comment) *)
Record sentry := mkSentry {
  se_wsb : str; se_brace : bool; se_ws0 : str; se_typ : str; se_ws1 : str; se_ws2 : str; se_key : str;
  se_wsk : str; se_fields : list sfield; se_trailing : bool; se_wsend : str }.
Definition wf_sentry (macros : list (str * str)) (e : sentry) : Prop :=
  forallb is_space (se_wsb e) = true /\ forallb is_space (se_ws0 e) = true /\ forallb is_space (se_ws1 e) = true /\
  forallb is_space (se_ws2 e) = true /\ forallb is_space (se_wsk e) = true /\ forallb is_space (se_wsend e) = true /\
  is_entry_type (se_typ e) = true /\ is_key (se_brace e) (se_key e) = true /\ Forall (wf_sfield macros) (se_fields e).
Definition entry_cmd (macros : list (str * str)) (e : sentry) : cmd :=
  CEntry (se_typ e) (Some (se_key e)) (map (field_result macros) (se_fields e)).
Fixpoint file_text (es : list sentry) (tail : str) : str :=
  match es with
  | [] => tail
  | e :: r => se_wsb e ++ c_at :: entry_text (se_brace e) (se_ws0 e) (se_typ e) (se_ws1 e) (se_ws2 e) (se_key e)
                                             (se_wsk e) (se_fields e) (se_trailing e) (se_wsend e) (file_text r tail)
  end.

Lemma find_first_all_false p s : (forall x, In x s -> p x = false) -> find_first p s = None.
Proof.
  induction s as [|c t IH]; intros H; [reflexivity|]. cbn. rewrite (H c (or_introl eq_refl)).
  rewrite IH; [reflexivity|]. intros x Hx. apply H. right. exact Hx.
Qed.

Lemma spaces_no_at ws : forallb is_space ws = true -> forall x, In x ws -> (x =? c_at) = false.
Proof.
  intros H x Hx. rewrite forallb_forall in H. specialize (H x Hx). apply N.eqb_neq. intros ->. discriminate.
Qed.

Definition lowproc : mode -> cmd -> list cmd -> pst -> out (list cmd) := fun _ c d s => Ret (d ++ [c]) s.

Lemma file_loop m : forall es fuel d st tail,
  (length es < fuel)%nat -> Forall (wf_sentry (p_macros st)) es -> forallb is_space tail = true ->
  sc_rest (p_sc st) = file_text es tail ->
  exists st', bib_loop lowproc fuel m d st = Ret (d ++ map (entry_cmd (p_macros st)) es) st'
              /\ p_errs st' = p_errs st /\ p_macros st' = p_macros st.
Proof.
  induction es as [|e r IH]; intros fuel d st tail Hf Hwf Htail Hr; (destruct fuel as [|fu]; [cbn in Hf; lia|]); cbn [bib_loop].
  - cbn [file_text] in Hr. unfold skip_to. rewrite Hr, (find_first_all_false _ tail (spaces_no_at tail Htail)).
    exists st. cbn [map]. rewrite app_nil_r. auto.
  - inversion Hwf as [|? ? He Hwr]; subst. destruct He as (Hb & H0 & H1 & H2 & Hk & Hend & Htyp & Hkey & Hfs).
    cbn [file_text] in Hr. unfold skip_to. rewrite Hr, (find_first_app _ (se_wsb e) c_at _ (spaces_no_at _ Hb) eq_refl).
    match goal with |- context [parse_command m ?s1] =>
      destruct (entry_reads m s1 (se_brace e) (se_ws0 e) (se_typ e) (se_ws1 e) (se_ws2 e) (se_key e) (se_wsk e)
                  (se_fields e) (se_trailing e) (se_wsend e) (file_text r tail) H0 H1 H2 Hk Hend Htyp Hkey Hfs eq_refl)
        as (st2 & E & Hr2 & Her & Hma)
    end.
    rewrite E. unfold lowproc at 1. cbn [obind].
    destruct (IH fu (d ++ [entry_cmd (p_macros st) e]) st2 tail ltac:(cbn [length] in *; lia)) as (st3 & E3 & Her3 & Hma3).
    + cbn in Hma. rewrite Hma. exact Hwr.
    + exact Htail.
    + exact Hr2.
    + cbn [p_macros set_cstart set_sc] in *. unfold entry_cmd at 1 in E3. rewrite E3.
      exists st3. rewrite Hma, <- app_assoc. cbn [map app]. split; [reflexivity|].
      cbn in Her. split; [rewrite Her3, Her; reflexivity|rewrite Hma3, Hma; reflexivity].
Qed.

Lemma file_text_len macros es tail : Forall (wf_sentry macros) es -> (length es <= length (file_text es tail))%nat.
Proof.
  induction es as [|e r IH]; intros H; cbn [file_text length]; [lia|]. inversion H; subst.
  rewrite app_length. cbn [length]. unfold entry_text. rewrite !app_length. cbn [length]. rewrite !app_length. cbn [length].
  assert (Hl : forall fs tr ws cl rest, (length rest <= length (fields_text fs tr ws cl rest))%nat).
  { induction fs as [|f fr IHf]; intros; cbn [fields_text]; rewrite app_length; cbn [length]; [lia|].
    destruct fr; [destruct tr; cbn [length]; rewrite ?app_length; cbn [length]; lia|]. specialize (IHf tr ws cl rest). cbn [length]. lia. }
  specialize (Hl (se_fields e) (se_trailing e) (se_wsend e) (cl_char (se_brace e)) (file_text r tail)).
  specialize (IH ltac:(assumption)). lia.
Qed.

(* list(LowLevelParser(text)) of a rendered file of entries *)
Lemma file_lowlevel m es tail : Forall (wf_sentry month_macros) es -> forallb is_space tail = true ->
  exists st', lowlevel m (file_text es tail) = Ret (map (entry_cmd month_macros) es) st' /\ p_errs st' = [].
Proof.
  intros Hwf Htail. unfold lowlevel.
  destruct (file_loop m es (S (length (file_text es tail))) [] (pst_init (file_text es tail) month_macros) tail) as (st' & E & He & _).
  - pose proof (file_text_len _ es tail Hwf). lia.
  - exact Hwf.
  - exact Htail.
  - reflexivity.
  - exists st'. split; [exact E|exact He].
Qed.

(* ---- character-level prefix confinement for well-formed prefixes: whatever text b follows
   a sequence of well-formed entries (malformed or not), those entries are read as written *)
Lemma file_prefix m : forall es fuel d st b,
  Forall (wf_sentry (p_macros st)) es -> sc_rest (p_sc st) = file_text es b ->
  exists st', bib_loop lowproc (length es + fuel) m d st = bib_loop lowproc fuel m (d ++ map (entry_cmd (p_macros st)) es) st'
              /\ sc_rest (p_sc st') = b /\ p_errs st' = p_errs st /\ p_macros st' = p_macros st.
Proof.
  induction es as [|e r IH]; intros fuel d st b Hwf Hr.
  - cbn [file_text] in Hr. exists st. cbn. rewrite app_nil_r. auto.
  - cbn [length plus bib_loop].
    inversion Hwf as [|? ? He Hwr]; subst. destruct He as (Hb & H0 & H1 & H2 & Hk & Hend & Htyp & Hkey & Hfs).
    cbn [file_text] in Hr. unfold skip_to. rewrite Hr, (find_first_app _ (se_wsb e) c_at _ (spaces_no_at _ Hb) eq_refl).
    match goal with |- context [parse_command m ?s1] =>
      destruct (entry_reads m s1 (se_brace e) (se_ws0 e) (se_typ e) (se_ws1 e) (se_ws2 e) (se_key e) (se_wsk e)
                  (se_fields e) (se_trailing e) (se_wsend e) (file_text r b) H0 H1 H2 Hk Hend Htyp Hkey Hfs eq_refl)
        as (st2 & E & Hr2 & Her & Hma)
    end.
    rewrite E. unfold lowproc at 1. cbn [obind].
    cbn [p_macros p_errs set_cstart set_sc] in *.
    destruct (IH fuel (d ++ [CEntry (se_typ e) (Some (se_key e)) (map (field_result (p_macros st)) (se_fields e))]) st2 b) as (st3 & E3 & Hr3 & Her3 & Hma3).
    + rewrite Hma. exact Hwr.
    + exact Hr2.
    + rewrite E3. exists st3. rewrite Hma, <- app_assoc. cbn [map app]. unfold entry_cmd at 2.
      split; [reflexivity|]. split; [exact Hr3|]. split; congruence.
Qed.

Lemma lowproc_append m : forall fuel d s d' s', bib_loop lowproc fuel m d s = Ret d' s' -> exists l, d' = d ++ l.
Proof.
  induction fuel as [|f IH]; intros d s d' s' H; [discriminate|]. cbn [bib_loop] in H.
  destruct (skip_to _ (p_sc s)) as [[[v c] c']|].
  2:{ injection H as <- <-. exists []. rewrite app_nil_r. reflexivity. }
  destruct (parse_command m _) as [[c0|] s2|e s2|x]; try discriminate.
  - unfold lowproc at 1 in H. cbn [obind] in H. destruct (IH _ _ _ _ H) as [l ->]. exists (c0 :: l). rewrite <- app_assoc. reflexivity.
  - exact (IH _ _ _ _ H).
  - destruct (handle_error m e s2) as [u s3|e3 s3|x3]; cbn [obind] in H; try discriminate. exact (IH _ _ _ _ H).
Qed.

Lemma prefix_confinement_lowlevel m es b d s : Forall (wf_sentry month_macros) es ->
  lowlevel m (file_text es b) = Ret d s -> exists l, d = map (entry_cmd month_macros) es ++ l.
Proof.
  intros Hwf H. unfold lowlevel in H.
  change (bib_loop lowproc (S (length (file_text es b))) m [] (pst_init (file_text es b) month_macros) = Ret d s) in H.
  pose proof (file_text_len _ es b Hwf) as Hl.
  replace (S (length (file_text es b))) with (length es + (S (length (file_text es b)) - length es))%nat in H by lia.
  destruct (file_prefix m es (S (length (file_text es b)) - length es) [] (pst_init (file_text es b) month_macros) b Hwf eq_refl)
    as (st' & E & _).
  rewrite E in H. cbn [app] in H. exact (lowproc_append m _ _ _ _ _ H).
Qed.
