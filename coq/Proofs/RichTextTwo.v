(* Proofs/RichTextTwo.v -- split() of a two-part text (a String followed by a Tag around a String)
   whose seam is not adjacent to a separator match: the pieces are exactly those of the regex split
   of the two strings, glued at the seam (the F17s-free two-part case). *)
From Pybtex Require Import Base.Prelude Base.PyChar Base.PyStr Model.RtTypes Model.RichText
  Spec.Flat Spec.FlatOps Proofs.RichText Proofs.RichOps Proofs.RichRender Proofs.RichChain.

Definition nonnil (p : str) : bool := negb (length p =? 0).

Lemma split_loop_cons keep sp r tail : sp <> [] ->
  split_loop keep (sp :: r) tail =
  (fst (split_items keep (removelast sp) tail) ++
   fst (split_loop keep r (snd (split_items keep (removelast sp) tail) ++ [last sp (RStr [])])),
   snd (split_loop keep r (snd (split_items keep (removelast sp) tail) ++ [last sp (RStr [])]))).
Proof.
  intro H. destruct sp as [|x sp']; [congruence|]. cbn [split_loop].
  destruct (split_items keep (removelast (x :: sp')) tail) as [ys tl]. cbn [fst snd].
  destruct (split_loop keep r (tl ++ [last (x :: sp') (RStr [])])) as [ys2 tl2]. reflexivity.
Qed.

Lemma split_items_false_tail x l t1 : split_items false (x :: l) [t1] =
  ([t1; x] :: map (fun y => [y]) (filter nonempty l), []).
Proof. cbn [split_items]. rewrite split_items_false. reflexivity. Qed.

Lemma mkc_two a m h : a <> [] -> h <> [] ->
  mkc KText [RStr a; RTag m [RStr h]] = Ok (RText [RStr a; RTag m [RStr h]]).
Proof. destruct a; [congruence|]. destruct h; [congruence|]. intros _ _. reflexivity. Qed.

Lemma map_last {X Y} (g : X -> Y) l d : last (map g l) (g d) = g (last l d).
Proof. induction l as [|x l IH]; [reflexivity|]. cbn [map last]. destruct l; [reflexivity|exact IH]. Qed.
Lemma map_removelast {X Y} (g : X -> Y) l : removelast (map g l) = map g (removelast l).
Proof. induction l as [|x l IH]; [reflexivity|]. cbn [map removelast]. destruct l; [reflexivity|]. cbn [map] in *. now rewrite IH. Qed.

Lemma filter_strs (L : list str) : filter nonempty (map RStr L) = map RStr (filter nonnil L).
Proof. induction L as [|w L IH]; [reflexivity|]. cbn [map filter]. unfold nonempty at 1, nonnil at 1. cbn [rlen]. rewrite IH. destruct (negb (length w =? 0)); reflexivity. Qed.

Lemma wrap_str_words (L : list str) : map (wrapk KText) (map RStr (filter nonnil L)) = map (fun w => RText [RStr w]) (filter nonnil L).
Proof.
  rewrite map_map. apply map_ext_in. intros w Hw. apply filter_In in Hw as [_ Hw]. destruct w; [discriminate|reflexivity].
Qed.
Lemma wrap_tag_words m (L : list str) :
  map (wrapk KText) (map (rechain (RTag m [RStr []])) (filter nonnil L)) = map (fun w => RText [RTag (check_name m) [RStr w]]) (filter nonnil L).
Proof.
  rewrite map_map. apply map_ext_in. intros w Hw. apply filter_In in Hw as [_ Hw]. destruct w; [discriminate|reflexivity].
Qed.

Lemma mapM_app {X Y} (g : X -> res Y) a b :
  mapM g (a ++ b) = (do x <- mapM g a; do y <- mapM g b; Ok (x ++ y)).
Proof.
  induction a as [|p a IH]; cbn [app mapM bind].
  - destruct (mapM g b); reflexivity.
  - destruct (g p); cbn [bind]; try reflexivity. rewrite IH. destruct (mapM g a); cbn [bind]; try reflexivity.
    destruct (mapM g b); reflexivity.
Qed.
Lemma last_map_nonnil {X Y} (g : X -> Y) l d d' : l <> [] -> last (map g l) d = g (last l d').
Proof. induction l as [|x l IH]; [congruence|]. intros _. cbn [map last]. destruct l; [reflexivity|]. apply IH. discriminate. Qed.
Lemma last_cons_nonnil {X} (x : X) l d : l <> [] -> last (x :: l) d = last l d.
Proof. destruct l; [congruence|reflexivity]. Qed.

Theorem two_part_split_ws_lem m s1 s2 :
  last (re_split_ws s1 [] false) [] <> [] -> hd [] (re_split_ws s2 [] false) <> [] ->
  split_c (RText [RStr s1; RTag m [RStr s2]]) SepNone None =
  Ok (map (fun w => RText [RStr w]) (filter nonnil (removelast (re_split_ws s1 [] false)))
      ++ [RText [RStr (last (re_split_ws s1 [] false) []); RTag (check_name m) [RStr (hd [] (re_split_ws s2 [] false))]]]
      ++ map (fun w => RText [RTag (check_name m) [RStr w]]) (filter nonnil (tl (re_split_ws s2 [] false)))).
Proof.
  set (L1 := re_split_ws s1 [] false). set (L2 := re_split_ws s2 [] false). intros H1 H2.
  set (t := RText [RStr s1; RTag m [RStr s2]]). set (tg := RTag m [RStr s2]).
  assert (N1 : L1 <> []) by apply re_split_ws_nonnil. assert (N2 : L2 <> []) by apply re_split_ws_nonnil.
  (* the two parts, split with keep_empty_parts=True *)
  assert (E1 : split 2 (RStr s1) SepNone (Some true) = Ok (map RStr L1)).
  { apply (chain_split_keep (RStr s1) s1 (ci_str s1) 2). cbn; lia. }
  assert (E2 : split 2 tg SepNone (Some true) = Ok (map (rechain tg) L2)).
  { apply (chain_split_keep tg s2 (ci_tag m _ _ (ci_str s2)) 2). cbn; lia. }
  assert (Eu : split_c t SepNone None =
    (do sps <- mapM (fun p => split 2 p SepNone (Some true)) [RStr s1; tg];
     let '(ys, tl) := split_loop false sps [] in
     do out <- mapM (create_similar t) ys;
     match tl with
     | [] => Ok out
     | _ => do tlt <- create_similar t tl; if negb (rlen tlt =? 0) || false then Ok (out ++ [tlt]) else Ok out
     end)) by reflexivity.
  rewrite Eu. clear Eu. cbn [mapM]. rewrite E1. cbn [bind]. rewrite E2. cbn [bind].
  (* the loop *)
  rewrite (split_loop_cons false (map RStr L1) [map (rechain tg) L2] []) by (destruct L1; [congruence|discriminate]).
  rewrite map_removelast, split_items_false. cbn [fst snd app].
  change (RStr []) with (RStr (@nil char)). rewrite (map_last RStr L1 []).
  rewrite (split_loop_one false (map (rechain tg) L2) [RStr (last L1 [])]) by (destruct L2; [congruence|discriminate]).
  rewrite map_removelast. cbn [fst snd].
  assert (NT : forall L, Forall (fun x => not_text x = true) (map (rechain tg) L)).
  { intro L. apply Forall_forall. intros x Hx. apply in_map_iff in Hx as [w [<- _]]. reflexivity. }
  destruct L2 as [|h r]; [congruence|]. cbn [hd tl] in *.
  assert (Eh : rechain tg h = RTag (check_name m) [RStr h]) by (destruct h; [congruence|reflexivity]).
  destruct r as [|h2 r'].
  - (* one piece in the second part: everything is glued into the final tail *)
    cbn [removelast map split_items fst snd app last filter]. rewrite app_nil_r.
    rewrite filter_strs.
    rewrite (mapM_wrap t (map RStr (filter nonnil (removelast L1)))) by
      (apply Forall_forall; intros x Hx; apply in_map_iff in Hx as [w [<- _]]; reflexivity).
    cbn [bind]. unfold create_similar. cbn [kind_of t]. rewrite Eh, (mkc_two _ _ _ H1 H2). cbn [bind rlen map list_sum fold_right length].
    rewrite wrap_str_words.
    destruct (last L1 []) as [|c l1]; [congruence|]. reflexivity.
  - (* several pieces: the first is glued to the last of the first part *)
    remember (h2 :: r') as r eqn:Er. assert (Nr : r <> []) by (subst; discriminate).
    rewrite (removelast_cons h r Nr). cbn [map]. rewrite split_items_false_tail. cbn [fst snd app].
    rewrite app_nil_r, filter_strs.
    assert (C : chain_in tg s2) by (apply ci_tag, ci_str).
    replace (filter nonempty (map (rechain tg) (removelast r))) with (map (rechain tg) (filter nonnil (removelast r)))
      by (symmetry; apply (filter_rechain tg s2 _ C)).
    rewrite mapM_app.
    rewrite (mapM_wrap t (map RStr (filter nonnil (removelast L1)))) by
      (apply Forall_forall; intros x Hx; apply in_map_iff in Hx as [w [<- _]]; reflexivity).
    cbn [bind mapM]. unfold create_similar at 1. cbn [kind_of t]. rewrite Eh, (mkc_two _ _ _ H1 H2). cbn [bind].
    rewrite (mapM_wrap t _ (NT _)). cbn [bind kind_of t].
    rewrite (last_cons_nonnil _ (map (rechain tg) r) (RStr [])) by (destruct r; [congruence|discriminate]).
    rewrite (last_map_nonnil (rechain tg) r (RStr []) [] Nr).
    unfold create_similar. cbn [kind_of t]. rewrite (mkc_single KText (rechain tg (last r [])) eq_refl). cbn [bind].
    rewrite rlen_build, wrap_str_words.
    assert (EL : filter nonnil r = filter nonnil (removelast r) ++ filter nonnil [last r []]).
    { rewrite <- filter_app. f_equal. now apply app_removelast_last. }
    rewrite EL, map_app. cbn [filter].
    assert (Wt : forall L, map (wrapk KText) (map (rechain tg) (filter nonnil L)) =
                           map (fun w => RText [RTag (check_name m) [RStr w]]) (filter nonnil L)).
    { intro L. rewrite map_map. apply map_ext_in. intros w Hw. apply filter_In in Hw as [_ Hw]. destruct w; [discriminate|reflexivity]. }
    rewrite Wt. cbn [filter]. unfold nonempty. rewrite (rechain_rlen tg s2 (last r []) C).
    unfold nonnil at 3. destruct (last r []) as [|c w] eqn:El.
    + cbn. rewrite ?app_nil_r. reflexivity.
    + simpl. rewrite <- app_assoc. reflexivity.
Qed.
