(* Proofs/RichSlice.v -- slicing and indexing of rich text (property C08). *)
From Pybtex Require Import Base.Prelude Base.PyChar Base.PyStr Model.RtTypes Model.RichText
  Spec.Flat Spec.FlatOps Proofs.RichText.

Definition lastn {X} (k : nat) (l : list X) : list X := skipn (length l - k) l.

Lemma lastn_app_short {X} k (a b : list X) : k <= length b -> lastn k (a ++ b) = lastn k b.
Proof.
  intro H. unfold lastn. rewrite app_length, skipn_app.
  replace (length a + length b - k - length a) with (length b - k) by lia.
  rewrite skipn_all2 by lia. reflexivity.
Qed.
Lemma lastn_app_long {X} k (a b : list X) : length b <= k -> lastn k (a ++ b) = lastn (k - length b) a ++ b.
Proof.
  intro H. unfold lastn. rewrite app_length, skipn_app.
  replace (length a + length b - k - length a) with 0 by lia.
  replace (length a + length b - k) with (length a - (k - length b)) by lia. reflexivity.
Qed.
Lemma lastn_0 {X} (l : list X) : lastn 0 l = [].
Proof. unfold lastn. rewrite Nat.sub_0_r. apply skipn_all. Qed.

Lemma flat_e_length t : length (flat_e t) = rlen t.
Proof. unfold flat_e, erase. now rewrite map_length, flat_length. Qed.

Lemma pushk_e_firstn k n f : firstn n (pushk_e k f) = pushk_e k (firstn n f).
Proof. unfold pushk_e, push_m. destruct (km k); [apply firstn_map|reflexivity]. Qed.
Lemma pushk_e_skipn k n f : skipn n (pushk_e k f) = pushk_e k (skipn n f).
Proof. unfold pushk_e, push_m. destruct (km k); [apply skipn_map|reflexivity]. Qed.
Lemma pushk_e_length k f : length (pushk_e k f) = length f.
Proof. unfold pushk_e, push_m. destruct (km k); [apply map_length|reflexivity]. Qed.
Lemma pushk_e_lastn k n f : lastn n (pushk_e k f) = pushk_e k (lastn n f).
Proof. unfold lastn. now rewrite pushk_e_length, pushk_e_skipn. Qed.

(* slices of a plain list *)
Lemma pyslice_to {X} (l : list X) e :
  pyslice l None (Some e) = firstn (Z.to_nat (clamp_idx (Z.of_nat (length l)) e)) l.
Proof. unfold pyslice. cbn. now rewrite Z.sub_0_r. Qed.
Lemma clamp_range n i : (0 <= n -> 0 <= clamp_idx n i <= n)%Z.
Proof. unfold clamp_idx. destruct (i <? 0)%Z eqn:E; lia. Qed.
Lemma pyslice_from {X} (l : list X) s :
  pyslice l (Some s) None = skipn (Z.to_nat (clamp_idx (Z.of_nat (length l)) s)) l.
Proof.
  unfold pyslice. pose proof (clamp_range (Z.of_nat (length l)) s ltac:(lia)) as R.
  apply firstn_all2. rewrite skipn_length. lia.
Qed.
Lemma pyslice_map {X Y} (g : X -> Y) l i j : pyslice (map g l) i j = map g (pyslice l i j).
Proof. unfold pyslice. now rewrite map_length, skipn_map, firstn_map. Qed.

Lemma mkc_multipart k raw v : mkc k raw = Ok v -> is_multipart v = true.
Proof.
  unfold mkc. destruct (mk _ k raw) as [t|] eqn:E; cbn; [|discriminate]. intro H; inversion H; subst.
  cbn in E. destruct (merge_all _ _); cbn in E; [|discriminate]. inversion E. now destruct k.
Qed.

Lemma ldepth_dle d l : dle d l -> ldepth l <= d.
Proof. intro H. now apply list_max_dle. Qed.

Section Parts.
  Variable f' : nat.
  Variable gi : rt -> key -> res rt.
  Hypothesis Hgi : forall p, depth p <= f' -> forall i j,
    exists v, gi p (KSlice i j) = Ok v /\ flat_e v = pyslice (flat_e p) i j /\ depth v <= f'.

  Lemma sbp_spec ps : dle f' ps -> forall len sl, (0 <= len <= sl)%Z ->
    exists rs, slice_beginning_parts gi ps len sl = Ok rs /\
      concat (map flat_e rs) = firstn (Z.to_nat (sl - len)) (concat (map flat_e ps)) /\ dle f' rs.
  Proof.
    induction 1 as [|p ps Hp Hps IH]; intros len sl Hl; cbn [slice_beginning_parts].
    - exists []. repeat split; [now rewrite firstn_nil|constructor].
    - unfold zlen. destruct (len + Z.of_nat (rlen p) >? sl)%Z eqn:E.
      + destruct (Hgi p Hp None (Some (sl - len)%Z)) as [x [Hx [Hf Hd]]]. rewrite Hx; cbn.
        exists [x]. repeat split; [|constructor; [exact Hd|constructor]].
        cbn [map concat]. rewrite app_nil_r, Hf, pyslice_to, flat_e_length.
        unfold clamp_idx. replace (sl - len <? 0)%Z with false by lia.
        rewrite Z.min_l by lia. rewrite firstn_app.
        replace (Z.to_nat (sl - len) - length (flat_e p)) with 0 by (rewrite flat_e_length; lia).
        cbn. now rewrite app_nil_r.
      + destruct (IH (len + Z.of_nat (rlen p))%Z sl ltac:(lia)) as [rs [Hrs [Hf Hd]]]. rewrite Hrs; cbn.
        exists (p :: rs). repeat split; [|constructor; assumption].
        cbn [map concat]. rewrite Hf, firstn_app, flat_e_length.
        rewrite (firstn_all2 (flat_e p)) by (rewrite flat_e_length; lia).
        f_equal. f_equal. lia.
  Qed.

  Lemma sep_spec rps : dle f' rps -> forall len sl, (0 <= len)%Z ->
    exists rs, slice_end_parts gi rps len sl = Ok rs /\
      concat (map flat_e (rev rs)) = lastn (Z.to_nat (sl - len)) (concat (map flat_e (rev rps))) /\ dle f' rs.
  Proof.
    induction 1 as [|p ps Hp Hps IH]; intros len sl Hl; cbn [slice_end_parts].
    - exists []. repeat split; constructor.
    - unfold zlen. cbn [rev]. rewrite map_app, concat_app. cbn [map concat]. rewrite app_nil_r.
      destruct (len + Z.of_nat (rlen p) >? sl)%Z eqn:E.
      + destruct (Hgi p Hp (Some (Z.of_nat (rlen p) - (sl - len))%Z) None) as [x [Hx [Hf Hd]]]. rewrite Hx; cbn.
        exists [x]. repeat split; [|constructor; [exact Hd|constructor]].
        cbn [map concat rev app]. rewrite app_nil_r, Hf, pyslice_from, flat_e_length.
        rewrite lastn_app_short by (rewrite flat_e_length; lia).
        unfold lastn. rewrite flat_e_length. f_equal. unfold clamp_idx.
        destruct (Z.of_nat (rlen p) - (sl - len) <? 0)%Z eqn:E2; lia.
      + destruct (IH (len + Z.of_nat (rlen p))%Z sl ltac:(lia)) as [rs [Hrs [Hf Hd]]]. rewrite Hrs; cbn.
        exists (p :: rs). repeat split; [|constructor; assumption].
        cbn [rev]. rewrite map_app, concat_app. cbn [map concat]. rewrite app_nil_r, Hf.
        rewrite lastn_app_long by (rewrite flat_e_length; lia).
        rewrite flat_e_length. f_equal. f_equal. lia.
  Qed.

  Lemma slice_beginning_spec t sl : is_multipart t = true -> depth t <= S f' -> (0 <= sl)%Z ->
    exists v, slice_beginning gi t sl = Ok v /\
      flat_e v = firstn (Z.to_nat sl) (flat_e t) /\ depth v <= S f' /\ is_multipart v = true.
  Proof.
    intros Hm Hd Hs. unfold slice_beginning.
    destruct (sbp_spec (parts_of t) (dle_parts _ _ Hd) 0%Z sl ltac:(lia)) as [rs [Hrs [Hf Hdr]]].
    rewrite Hrs; cbn. destruct (create_similar_spec t rs) as [v [Hv [Hfv Hdv]]].
    exists v. repeat split; [exact Hv| | |unfold create_similar in Hv; eapply mkc_multipart; exact Hv].
    - rewrite Hfv, Hf, (flat_e_kind t Hm), pushk_e_firstn, Z.sub_0_r. reflexivity.
    - apply ldepth_dle in Hdr. lia.
  Qed.

  Lemma slice_end_spec t sl : is_multipart t = true -> depth t <= S f' ->
    exists v, slice_end gi t sl = Ok v /\
      flat_e v = lastn (Z.to_nat sl) (flat_e t) /\ depth v <= S f' /\ is_multipart v = true.
  Proof.
    intros Hm Hd. unfold slice_end.
    assert (Hr : dle f' (rev (parts_of t))) by (apply Forall_rev, dle_parts, Hd).
    destruct (sep_spec (rev (parts_of t)) Hr 0%Z sl ltac:(lia)) as [rs [Hrs [Hf Hdr]]].
    rewrite Hrs; cbn. destruct (create_similar_spec t (rev rs)) as [v [Hv [Hfv Hdv]]].
    exists v. repeat split; [exact Hv| | |unfold create_similar in Hv; eapply mkc_multipart; exact Hv].
    - rewrite Hfv, Hf, rev_involutive, (flat_e_kind t Hm), pushk_e_lastn, Z.sub_0_r. reflexivity.
    - assert (dle f' (rev rs)) by now apply Forall_rev. apply ldepth_dle in H. lia.
  Qed.

  (* the body of BaseMultipartText.__getitem__ after start/end have been computed *)
  Lemma multi_spec t s e : is_multipart t = true -> depth t <= S f' ->
    exists v, (do a <- slice_end gi t (zlen t - s)%Z; slice_beginning gi a (Z.max (e - s) 0)%Z) = Ok v /\
      flat_e v = firstn (Z.to_nat (e - s)) (lastn (Z.to_nat (zlen t - s)) (flat_e t)) /\ depth v <= S f'.
  Proof.
    intros Hm Hd. destruct (slice_end_spec t (zlen t - s)%Z Hm Hd) as [a [Ha [Hfa [Hda Hma]]]].
    rewrite Ha; cbn. destruct (slice_beginning_spec a (Z.max (e - s) 0)%Z Hma Hda ltac:(lia)) as [v [Hv [Hfv [Hdv _]]]].
    exists v. repeat split; [exact Hv| |exact Hdv]. rewrite Hfv, Hfa. f_equal. lia.
  Qed.
End Parts.

Lemma slice_indices_range n i j a b : (0 <= n)%Z -> slice_indices n i j = (a, b) -> (0 <= a <= n /\ 0 <= b <= n)%Z.
Proof.
  intros Hn H. unfold slice_indices in H. inversion H; subst. split.
  - destruct i; [apply clamp_range; lia|lia].
  - destruct j; [apply clamp_range; lia|lia].
Qed.

Lemma getitem_slice_spec f : forall t, depth t <= f -> forall i j,
  exists v, getitem (S f) t (KSlice i j) = Ok v /\ flat_e v = pyslice (flat_e t) i j /\ depth v <= f.
Proof.
  induction f as [|f' IH]; intros t Hd i j.
  - destruct t; cbn [depth] in Hd; try lia; cbn [getitem].
    + eexists. repeat split; [|cbn; lia]. unfold flat_e, erase; cbn [flat]. now rewrite !pyslice_map.
    + destruct (pyslice [0%N] i j) as [|c l] eqn:E.
      * eexists. repeat split; [|cbn; lia]. unfold flat_e, erase; cbn [flat map].
        change [erase_p (ASym name, [])] with (map (fun _ : N => erase_p (ASym name, [])) [0%N]).
        now rewrite pyslice_map, E.
      * eexists. repeat split; [|cbn; lia]. unfold flat_e, erase; cbn [flat map].
        change [erase_p (ASym name, [])] with (map (fun _ : N => erase_p (ASym name, [])) [0%N]).
        rewrite pyslice_map, E. unfold pyslice in E. cbn [length] in E.
        assert (length (c :: l) <= 1).
        { rewrite <- E. rewrite firstn_length, skipn_length. cbn [length]. lia. }
        destruct l; [reflexivity|cbn in H; lia].
  - assert (Hmulti : is_multipart t = true -> exists v, getitem (S (S f')) t (KSlice i j) = Ok v /\
               flat_e v = pyslice (flat_e t) i j /\ depth v <= S f').
    { intro Hm.
      assert (E : getitem (S (S f')) t (KSlice i j) =
        let n := zlen t in let '(a, b) := slice_indices n i j in
        do x <- slice_end (getitem (S f')) t (n - a)%Z; slice_beginning (getitem (S f')) x (Z.max (b - a) 0)%Z).
      { destruct (slice_indices_range (zlen t) i j _ _ ltac:(unfold zlen; lia) eq_refl) as [[A1 A2] [B1 B2]].
        destruct t; cbn [is_multipart] in Hm; try discriminate; cbn [getitem];
          cbv zeta; unfold slice_indices in *;
          match goal with |- context [(?x <? 0)%Z] => replace (x <? 0)%Z with false by lia end;
          match goal with |- context [(?x <? 0)%Z] => replace (x <? 0)%Z with false by lia end;
          reflexivity. }
      rewrite E. cbv zeta. destruct (slice_indices (zlen t) i j) as [a b] eqn:SI.
      destruct (slice_indices_range (zlen t) i j a b ltac:(unfold zlen; lia) SI) as [[A1 A2] [B1 B2]].
      destruct (multi_spec f' (getitem (S f')) IH t a b Hm Hd) as [v [Hv [Hf Hdv]]].
      exists v. repeat split; [exact Hv| |exact Hdv].
      rewrite Hf. unfold pyslice, lastn. rewrite flat_e_length. fold (zlen t).
      unfold slice_indices in SI. inversion SI; subst a b. unfold zlen in *.
      f_equal. f_equal. lia. }
    destruct t; try (apply Hmulti; reflexivity).
    + destruct (IH (RStr s) ltac:(cbn; lia) i j) as [v [Hv [Hf Hdv]]]. exists v. repeat split; [exact Hv|exact Hf|lia].
    + destruct (IH (RSym name) ltac:(cbn; lia) i j) as [v [Hv [Hf Hdv]]]. exists v. repeat split; [exact Hv|exact Hf|lia].
Qed.

(* slice_flat: text[i:j] for every pair of optional bounds, in and beyond the text *)
Theorem slice_flat_e t i j : exists v, getitem_c t (KSlice i j) = Ok v /\
  erase (flat v) = pyslice (erase (flat t)) i j.
Proof.
  unfold getitem_c. destruct (getitem_slice_spec (S (depth t)) t ltac:(lia) i j) as [v [Hv [Hf _]]].
  exists v. split; [exact Hv|exact Hf].
Qed.

(* ------------------------------------------------------------------------------ *)
(* indexing with an int *)
Lemma firstn1_skipn {X} (l : list X) k p : nth_error l k = Some p -> firstn 1 (skipn k l) = [p].
Proof.
  revert k; induction l as [|x l IH]; intros [|k]; cbn; try discriminate.
  - intro H; inversion H. reflexivity.
  - apply IH.
Qed.

Lemma nth_error_map_some {X Y} (g : X -> Y) l k : nth_error (map g l) k = option_map g (nth_error l k).
Proof. revert k; induction l; intros [|k]; cbn; auto. Qed.

Theorem index_flat_e t i p : pyindex (erase (flat t)) i = Some p ->
  exists v, getitem_c t (KInt i) = Ok v /\ erase (flat v) = [p].
Proof.
  unfold pyindex. fold (flat_e t). rewrite flat_e_length.
  destruct ((- Z.of_nat (rlen t) <=? i) && (i <? Z.of_nat (rlen t)))%Z eqn:R; [|discriminate].
  intro Hn. apply andb_prop in R as [R1 R2]. apply Z.leb_le in R1. apply Z.ltb_lt in R2.
  set (k := Z.to_nat (if (i <? 0)%Z then Z.of_nat (rlen t) + i else i)) in *.
  pose proof (firstn1_skipn _ _ _ Hn) as F1.
  unfold getitem_c. destruct t.
  - cbn [getitem rlen] in *. rewrite (proj2 (Z.leb_le _ _) R1), (proj2 (Z.ltb_lt _ _) R2). cbn [andb].
    eexists. split; [reflexivity|]. fold k. rewrite <- F1. unfold flat_e, erase. cbn [flat].
    now rewrite !skipn_map, !firstn_map.
  - cbn [getitem rlen] in *. assert (i = 0 \/ i = -1)%Z as [-> | ->] by lia; cbn.
    + eexists. split; [reflexivity|]. cbn in Hn. now inversion Hn.
    + eexists. split; [reflexivity|]. cbn in Hn. now inversion Hn.
  - set (t := RText parts) in *.
    assert (Hm : is_multipart t = true) by reflexivity.
    destruct (multi_spec (depth t) (getitem (S (depth t))) (getitem_slice_spec (depth t)) t
                (if (i <? 0)%Z then zlen t + i else i)%Z ((if (i <? 0)%Z then zlen t + i else i) + 1)%Z Hm ltac:(lia))
      as [v [Hv [Hf _]]].
    exists v. split.
    + rewrite <- Hv. unfold t at 1. cbn [getitem]. cbv zeta. fold t. unfold zlen in *.
      destruct (i <? 0)%Z eqn:E;
        repeat match goal with |- context [(?x <? 0)%Z] => replace (x <? 0)%Z with false by lia end; reflexivity.
    + change (erase (flat v)) with (flat_e v). rewrite Hf, <- F1. unfold lastn. rewrite flat_e_length. unfold zlen, k.
      destruct (i <? 0)%Z eqn:E; (f_equal; [lia|f_equal; lia]).
  - set (t := RTag name parts) in *.
    assert (Hm : is_multipart t = true) by reflexivity.
    destruct (multi_spec (depth t) (getitem (S (depth t))) (getitem_slice_spec (depth t)) t
                (if (i <? 0)%Z then zlen t + i else i)%Z ((if (i <? 0)%Z then zlen t + i else i) + 1)%Z Hm ltac:(lia))
      as [v [Hv [Hf _]]].
    exists v. split.
    + rewrite <- Hv. unfold t at 1. cbn [getitem]. cbv zeta. fold t. unfold zlen in *.
      destruct (i <? 0)%Z eqn:E;
        repeat match goal with |- context [(?x <? 0)%Z] => replace (x <? 0)%Z with false by lia end; reflexivity.
    + change (erase (flat v)) with (flat_e v). rewrite Hf, <- F1. unfold lastn. rewrite flat_e_length. unfold zlen, k.
      destruct (i <? 0)%Z eqn:E; (f_equal; [lia|f_equal; lia]).
  - set (t := RHRef url external parts) in *.
    assert (Hm : is_multipart t = true) by reflexivity.
    destruct (multi_spec (depth t) (getitem (S (depth t))) (getitem_slice_spec (depth t)) t
                (if (i <? 0)%Z then zlen t + i else i)%Z ((if (i <? 0)%Z then zlen t + i else i) + 1)%Z Hm ltac:(lia))
      as [v [Hv [Hf _]]].
    exists v. split.
    + rewrite <- Hv. unfold t at 1. cbn [getitem]. cbv zeta. fold t. unfold zlen in *.
      destruct (i <? 0)%Z eqn:E;
        repeat match goal with |- context [(?x <? 0)%Z] => replace (x <? 0)%Z with false by lia end; reflexivity.
    + change (erase (flat v)) with (flat_e v). rewrite Hf, <- F1. unfold lastn. rewrite flat_e_length. unfold zlen, k.
      destruct (i <? 0)%Z eqn:E; (f_equal; [lia|f_equal; lia]).
  - set (t := RProt parts) in *.
    assert (Hm : is_multipart t = true) by reflexivity.
    destruct (multi_spec (depth t) (getitem (S (depth t))) (getitem_slice_spec (depth t)) t
                (if (i <? 0)%Z then zlen t + i else i)%Z ((if (i <? 0)%Z then zlen t + i else i) + 1)%Z Hm ltac:(lia))
      as [v [Hv [Hf _]]].
    exists v. split.
    + rewrite <- Hv. unfold t at 1. cbn [getitem]. cbv zeta. fold t. unfold zlen in *.
      destruct (i <? 0)%Z eqn:E;
        repeat match goal with |- context [(?x <? 0)%Z] => replace (x <? 0)%Z with false by lia end; reflexivity.
    + change (erase (flat v)) with (flat_e v). rewrite Hf, <- F1. unfold lastn. rewrite flat_e_length. unfold zlen, k.
      destruct (i <? 0)%Z eqn:E; (f_equal; [lia|f_equal; lia]).
Qed.

(* outside the bounds String and Symbol raise IndexError like str ... *)
Lemma index_leaf_crash t i : is_multipart t = false -> pyindex (flat t) i = None ->
  getitem_c t (KInt i) = Crash.
Proof.
  unfold pyindex. rewrite flat_length. destruct t; cbn [is_multipart]; try discriminate; intros _; unfold getitem_c; cbn [getitem rlen depth].
  - destruct ((- Z.of_nat (length s) <=? i) && (i <? Z.of_nat (length s)))%Z eqn:R; [|reflexivity].
    intro H. apply nth_error_None in H. rewrite flat_length in H. cbn [rlen] in H.
    apply andb_prop in R as [R1 R2]. apply Z.leb_le in R1. apply Z.ltb_lt in R2.
    destruct (i <? 0)%Z eqn:E; lia.
  - destruct ((- Z.of_nat 1 <=? i) && (i <? Z.of_nat 1))%Z eqn:R.
    + intro H. apply nth_error_None in H. rewrite flat_length in H. cbn [rlen] in H.
      apply andb_prop in R as [R1 R2]. apply Z.leb_le in R1. apply Z.ltb_lt in R2.
      destruct (i <? 0)%Z eqn:E; lia.
    + intros _. apply andb_false_iff in R. rewrite Z.leb_gt, Z.ltb_ge in R.
      destruct (Z.eqb_spec i 0); [lia|]. destruct (Z.eqb_spec i (-1)); [lia|]. reflexivity.
Qed.

(* ... but a multipart text returns a text (F23) *)
Lemma index_out_of_range_refuted : exists t i, pyindex (flat t) i = None /\ getitem_c t (KInt i) <> Crash.
Proof.
  exists (RText [RStr [97; 98; 99]%N]), 10%Z. split; [reflexivity|]. vm_compute. discriminate.
Qed.
