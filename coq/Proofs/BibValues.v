(* Proofs/BibValues.v -- C01: what the reader computes from well-formed pieces:
   normalize_whitespace is "the words joined by single spaces"; fields keep source order and
   the first of two fields with the same (case-insensitive) name wins; the first of two
   entries with the same key wins; month macros are predefined. *)
From Pybtex Require Import Base.Prelude Base.PyChar Base.PyStr Model.BibtexStr Model.Names
  Model.Scanner Model.BibParser.
Local Open Scope N_scope.

(* ---- normalize_whitespace *)
Definition no_lead (t : str) : Prop := match t with [] => True | c :: _ => is_space c = false end.
Definition no_trail (t : str) : Prop := no_lead (rev t).

Lemma collapse_no_lead t : no_lead t -> collapse_ws t false = collapse_ws t true.
Proof. destruct t as [|c t]; cbn; [reflexivity|]. intros H. rewrite H. reflexivity. Qed.

Lemma no_trail_cons c t : t <> [] -> no_trail (c :: t) -> no_trail t.
Proof.
  unfold no_trail. cbn [rev]. intros Hne H. destruct (rev t) as [|x r] eqn:E.
  - exfalso. apply Hne. rewrite <- (rev_involutive t), E. reflexivity.
  - exact H.
Qed.

Lemma no_trail_single c : no_trail [c] -> is_space c = false.
Proof. unfold no_trail. cbn. auto. Qed.

Lemma split_ws_aux_nonempty t : forall acc, no_trail t -> (t <> [] \/ acc <> []) -> split_ws_aux t acc <> [].
Proof.
  induction t as [|c t IH]; intros acc Ht Hne; cbn [split_ws_aux].
  - destruct acc; [destruct Hne; congruence|discriminate].
  - destruct (is_space c) eqn:Ec.
    + destruct t as [|d t'].
      * apply no_trail_single in Ht. congruence.
      * assert (Ht' : no_trail (d :: t')) by (apply (no_trail_cons c); [discriminate|exact Ht]).
        destruct acc; [apply IH; [exact Ht'|left; discriminate]|discriminate].
    + destruct t as [|d t'].
      * cbn. discriminate.
      * apply IH; [apply (no_trail_cons c); [discriminate|exact Ht]|left; discriminate].
Qed.

Lemma join_cons_nonempty sep x l : l <> [] -> join sep (x :: l) = x ++ sep ++ join sep l.
Proof. destruct l; [congruence|reflexivity]. Qed.

Lemma collapse_words t : forall acc, no_trail t ->
  join [c_space] (split_ws_aux t acc) =
  rev acc ++ (match acc with [] => collapse_ws t true | _ => collapse_ws t false end).
Proof.
  induction t as [|c t IH]; intros acc Ht; cbn [split_ws_aux collapse_ws].
  - destruct acc; cbn; [reflexivity|rewrite app_nil_r; reflexivity].
  - destruct (is_space c) eqn:Ec.
    + destruct t as [|d t'].
      { apply no_trail_single in Ht. congruence. }
      assert (Ht' : no_trail (d :: t')) by (apply (no_trail_cons c); [discriminate|exact Ht]).
      destruct acc as [|a acc'].
      * rewrite IH by exact Ht'. reflexivity.
      * rewrite join_cons_nonempty by (apply split_ws_aux_nonempty; [exact Ht'|left; discriminate]).
        rewrite IH by exact Ht'. reflexivity.
    + destruct t as [|d t'].
      * cbn [split_ws_aux join collapse_ws rev]. destruct acc; cbn [rev app]; [reflexivity|].
        rewrite <- app_assoc. reflexivity.
      * rewrite IH by (apply (no_trail_cons c); [discriminate|exact Ht]).
        cbn [rev]. rewrite <- app_assoc. destruct acc; reflexivity.
Qed.

Lemma split_ws_aux_lstrip s : split_ws_aux (lstrip s) [] = split_ws_aux s [].
Proof.
  induction s as [|c t IH]; [reflexivity|]. cbn [lstrip split_ws_aux].
  destruct (is_space c) eqn:E; [exact IH|]. cbn [split_ws_aux]. rewrite E. reflexivity.
Qed.

Lemma split_ws_aux_trailing ws : forallb is_space ws = true -> forall s acc,
  split_ws_aux (s ++ ws) acc = split_ws_aux s acc.
Proof.
  intros Hws. assert (Hb : forall acc, split_ws_aux ws acc = split_ws_aux [] acc).
  { induction ws as [|w ws' IH]; intros acc; [reflexivity|]. cbn in Hws. apply andb_prop in Hws as [H1 H2].
    cbn [split_ws_aux]. rewrite H1. destruct acc.
    - rewrite (IH H2). reflexivity.
    - rewrite (IH H2). reflexivity. }
  induction s as [|c t IH]; intros acc; cbn [app].
  - apply Hb.
  - cbn [split_ws_aux]. destruct (is_space c); [destruct acc|]; rewrite ?IH; reflexivity.
Qed.

Lemma lstrip_decomp s : exists ws, forallb is_space ws = true /\ s = ws ++ lstrip s /\ no_lead (lstrip s).
Proof.
  induction s as [|c t (ws & H1 & H2 & H3)]; [exists []; repeat split|]. cbn [lstrip].
  destruct (is_space c) eqn:E.
  - exists (c :: ws). cbn. rewrite E, H1. repeat split; auto. rewrite <- H2. reflexivity.
  - exists []. repeat split. cbn. exact E.
Qed.

Lemma rstrip_decomp s : exists ws, forallb is_space ws = true /\ s = rstrip s ++ ws /\ no_trail (rstrip s).
Proof.
  unfold rstrip, no_trail. destruct (lstrip_decomp (rev s)) as (ws & H1 & H2 & H3).
  exists (rev ws). split; [|split].
  - rewrite forallb_forall in *. intros x Hx. apply H1. apply in_rev. exact Hx.
  - rewrite <- rev_app_distr, <- H2, rev_involutive. reflexivity.
  - rewrite rev_involutive. exact H3.
Qed.

Lemma lstrip_snoc l c : is_space c = false -> exists l', lstrip (l ++ [c]) = l' ++ [c].
Proof.
  intros Hc. induction l as [|x l (l' & IH)]; cbn.
  - rewrite Hc. exists []. reflexivity.
  - destruct (is_space x); [exists l'; exact IH|exists (x :: l); reflexivity].
Qed.

Lemma rstrip_no_lead t : no_lead t -> no_lead (rstrip t).
Proof.
  destruct t as [|c t]; [intros; exact I|]. cbn [no_lead]. intros Hc. unfold rstrip. cbn [rev].
  destruct (lstrip_snoc (rev t) c Hc) as (l' & ->). rewrite rev_app_distr. cbn. exact Hc.
Qed.

(* normalize_whitespace(s) is the whitespace-separated words of s joined by single spaces *)
Lemma normalize_whitespace_words s : normalize_whitespace s = join [c_space] (split_ws s).
Proof.
  unfold normalize_whitespace, strip, split_ws.
  destruct (lstrip_decomp s) as (ws1 & _ & _ & Hl).
  destruct (rstrip_decomp (lstrip s)) as (ws2 & Hw2 & Hd & Ht).
  rewrite (collapse_no_lead _ (rstrip_no_lead _ Hl)).
  pose proof (collapse_words (rstrip (lstrip s)) [] Ht) as H. cbn [rev app] in H. rewrite <- H.
  rewrite <- (split_ws_aux_lstrip s). rewrite Hd at 2. rewrite (split_ws_aux_trailing ws2 Hw2). reflexivity.
Qed.

(* idempotence, a consequence used by readers of the database *)
Lemma split_ws_aux_words_nonspace s : forall acc w, In w (split_ws_aux s acc) ->
  (forall c, In c acc -> is_space c = false) -> forall c, In c w -> is_space c = false.
Proof.
  induction s as [|x t IH]; intros acc w Hw Hacc c Hc; cbn [split_ws_aux] in Hw.
  - destruct acc; [contradiction|]. destruct Hw as [<-|[]]. apply Hacc. apply in_rev. exact Hc.
  - destruct (is_space x) eqn:E.
    + destruct acc.
      * eapply IH; eauto.
      * destruct Hw as [<-|Hw]; [apply Hacc; apply in_rev; exact Hc|]. eapply (IH []); eauto. intros ? [].
    + eapply IH; eauto. intros y [<-|Hy]; auto.
Qed.

(* ---- fields: source order, first of two equal (case-insensitive) names wins *)
Fixpoint keep_first (seen : list str) (fields : list (str * list str)) : list (str * list str) :=
  match fields with
  | [] => []
  | (n, p) :: r =>
    if existsb (str_eqb (lower n)) seen then keep_first seen r
    else (n, p) :: keep_first (seen ++ [lower n]) r
  end.
Fixpoint count_dups (seen : list str) (fields : list (str * list str)) : nat :=
  match fields with
  | [] => 0
  | (n, p) :: r =>
    if existsb (str_eqb (lower n)) seen then S (count_dups seen r)
    else count_dups (seen ++ [lower n]) r
  end.
Definition add_errs (s : pst) (l : list err) : pst := fold_left add_err l s.
Definition field_value (f : str * list str) : str * str := (fst f, normalize_whitespace (concat (snd f))).
Definition plain_fields (fields : list (str * list str)) : Prop :=
  forall f, In f fields -> is_person_field (lower (fst f)) = false.

Lemma process_fields_spec : forall fields seen fs ps s, plain_fields fields ->
  process_fields Capture fields seen fs ps s =
  Ret (fs ++ map field_value (keep_first seen fields), ps)
      (add_errs s (repeat (data_err E_DUPFIELD) (count_dups seen fields))).
Proof.
  induction fields as [|[n p] r IH]; intros seen fs ps s Hp; cbn [process_fields keep_first count_dups].
  - cbn. rewrite app_nil_r. reflexivity.
  - assert (Hr : plain_fields r) by (intros f Hf; apply Hp; right; exact Hf).
    destruct (existsb (str_eqb (lower n)) seen).
    + cbn [handle_error obind]. rewrite IH by exact Hr. reflexivity.
    + pose proof (Hp (n, p) (or_introl eq_refl)) as Hnp. cbn [fst] in Hnp. rewrite Hnp. rewrite IH by exact Hr.
      cbn [map field_value fst snd]. rewrite <- app_assoc. reflexivity.
Qed.

Lemma existsb_str_in x l : existsb (str_eqb x) l = true <-> In x l.
Proof.
  rewrite existsb_exists. split.
  - intros (y & Hy & He). destruct (str_eqb_spec x y); [subst; exact Hy|discriminate].
  - intros H. exists x. split; [exact H|apply str_eqb_refl].
Qed.

Lemma keep_first_fresh : forall fields seen f, In f (keep_first seen fields) ->
  In f fields /\ ~ In (lower (fst f)) seen.
Proof.
  induction fields as [|[n p] r IH]; intros seen f Hf; cbn [keep_first] in Hf; [contradiction|].
  destruct (existsb (str_eqb (lower n)) seen) eqn:E.
  - destruct (IH _ _ Hf) as [H1 H2]. split; [right; exact H1|exact H2].
  - destruct Hf as [<-|Hf].
    + split; [left; reflexivity|]. cbn [fst]. intros Hin. apply existsb_str_in in Hin. congruence.
    + destruct (IH _ _ Hf) as [H1 H2]. split; [right; exact H1|]. intros Hin. apply H2. apply in_or_app. left. exact Hin.
Qed.

Lemma keep_first_nodup : forall fields seen, NoDup (map (fun f => lower (fst f)) (keep_first seen fields)).
Proof.
  induction fields as [|[n p] r IH]; intros seen; cbn [keep_first]; [constructor|].
  destruct (existsb (str_eqb (lower n)) seen); [apply IH|].
  cbn [map fst]. constructor; [|apply IH].
  intros Hin. apply in_map_iff in Hin as (f & Hf1 & Hf2).
  destruct (keep_first_fresh _ _ _ Hf2) as [_ Hn]. apply Hn. apply in_or_app. right. left. symmetry. exact Hf1.
Qed.

Lemma keep_first_all : forall fields seen,
  NoDup (map (fun f => lower (fst f)) fields) -> (forall f, In f fields -> ~ In (lower (fst f)) seen) ->
  keep_first seen fields = fields /\ count_dups seen fields = 0%nat.
Proof.
  induction fields as [|[n p] r IH]; intros seen Hnd Hs; cbn [keep_first count_dups]; [auto|].
  inversion Hnd as [|? ? Hn Hr]; subst.
  destruct (existsb (str_eqb (lower n)) seen) eqn:E.
  - exfalso. apply existsb_str_in in E. exact (Hs (n, p) (or_introl eq_refl) E).
  - destruct (IH (seen ++ [lower n]) Hr) as [H1 H2].
    + intros f Hf Hin. apply in_app_or in Hin as [Hin|[Hin|[]]].
      * exact (Hs f (or_intror Hf) Hin).
      * apply Hn. cbn [fst]. rewrite Hin. apply (in_map (fun f => lower (fst f)) r f Hf).
    + rewrite H1, H2. auto.
Qed.

(* fields whose names are pairwise different (ignoring case) are all kept, in source order,
   each with its parts concatenated and whitespace-normalised; no problem is reported *)
Lemma field_order_lemma fields s : plain_fields fields -> NoDup (map (fun f => lower (fst f)) fields) ->
  process_fields Capture fields [] [] [] s = Ret (map field_value fields, []) s.
Proof.
  intros Hp Hnd. rewrite process_fields_spec by exact Hp.
  destruct (keep_first_all fields [] Hnd ltac:(intros f _ [])) as [-> ->]. reflexivity.
Qed.

(* ---- entries: the first of two entries with the same (case-insensitive) key wins *)
Lemma add_entry_repeated key typ fs ps d s :
  existsb (fun e => str_eqb (lower (en_key e)) (lower key)) (db_entries d) = true ->
  exists d', add_entry Capture key typ fs ps d s = Ret d' (add_err s (data_err E_REPEATED))
             /\ db_entries d' = db_entries d /\ db_preamble d' = db_preamble d.
Proof. intros H. unfold add_entry. rewrite H. cbn. eexists. split; [reflexivity|]. cbn. auto. Qed.

Lemma add_entry_new key typ fs ps d s :
  existsb (fun e => str_eqb (lower (en_key e)) (lower key)) (db_entries d) = false ->
  exists d' dirty, add_entry Capture key typ fs ps d s = Ret d' s
             /\ db_entries d' = db_entries d ++ [mkEntry key (lower typ) typ fs ps dirty].
Proof. intros H. unfold add_entry. rewrite H. eexists. eexists. split; reflexivity. Qed.

(* ---- @preamble values are collected, normalised, in order *)
Lemma preamble_collected_lemma m n v d s : exists d', process m (CPreamble n v) d s = Ret d' s /\
  map snd (db_preamble d') = map snd (db_preamble d) ++ [normalize_whitespace (concat v)] /\ db_entries d' = db_entries d.
Proof. cbn. unfold process_preamble. eexists. split; [reflexivity|]. cbn. rewrite map_app. auto. Qed.

(* ---- the twelve month macros are defined in a fresh reader, whatever the letter case *)
Lemma months_lookup k v : In (k, v) month_macros -> assoc_get k month_macros = Some v.
Proof.
  intros H. cbn in H.
  repeat (destruct H as [H|H]; [injection H as <- <-; reflexivity|]). contradiction.
Qed.

Lemma months_predefined_lemma m text name v : In (lower name, v) month_macros ->
  substitute_macro m name (pst_init text month_macros) = Ret v (pst_init text month_macros).
Proof. intros H. unfold substitute_macro. cbn [p_macros pst_init]. rewrite (months_lookup _ _ H). reflexivity. Qed.

(* ---- delimited strings: {body} and "body" read back as body *)
From Pybtex Require Import Proofs.Scanner.

Definition special (q : bool) (level : nat) (c : char) : bool :=
  is_lbrace c || is_rbrace c || (q && Nat.eqb level 0 && (c =? c_quote)).
Definition closer (q : bool) : char := if q then c_quote else c_rbrace.

(* brace discipline of a body read from nesting level [level]: Some k = it ends at level k;
   None = it is not a legal body (closes more than it opens, nests deeper than 100, or --
   for a quoted string -- has a double quote outside all braces) *)
Fixpoint walk (q : bool) (s : str) (level : nat) : option nat :=
  match s with
  | [] => Some level
  | c :: t =>
    if is_lbrace c then (if Nat.ltb nest_limit (S level) then None else walk q t (S level))
    else if is_rbrace c then match level with O => None | S l => walk q t l end
    else if q && Nat.eqb level 0 && (c =? c_quote) then None
    else walk q t level
  end.
Definition wf_body (q : bool) (body : str) : Prop := walk q body 0 = Some 0%nat.

Lemma find_first_app p u c t : (forall x, In x u -> p x = false) -> p c = true ->
  find_first p (u ++ c :: t) = Some (u ++ [c], c, t).
Proof.
  induction u as [|x u IH]; intros Hu Hc; cbn.
  - rewrite Hc. reflexivity.
  - rewrite (Hu x (or_introl eq_refl)). rewrite IH; auto. intros y Hy. apply Hu. right. exact Hy.
Qed.

Lemma walk_prefix q level u x : (forall c, In c u -> special q level c = false) ->
  walk q (u ++ x) level = walk q x level.
Proof.
  induction u as [|c u IH]; intros Hu; [reflexivity|]. cbn [app walk].
  pose proof (Hu c (or_introl eq_refl)) as Hc. unfold special in Hc.
  apply orb_false_iff in Hc as [Hc H3]. apply orb_false_iff in Hc as [H1 H2].
  rewrite H1, H2, H3. apply IH. intros y Hy. apply Hu. right. exact Hy.
Qed.

Lemma set_sc_set_sc s a b : set_sc (set_sc s a) b = set_sc s b.
Proof. reflexivity. Qed.

Lemma lbrace_not_quote c : is_lbrace c = true -> (c =? c_quote) = false.
Proof. unfold is_lbrace. intros H. apply N.eqb_eq in H. subst c. reflexivity. Qed.
Lemma rbrace_not_quote c : is_rbrace c = true -> (c =? c_quote) = false.
Proof. unfold is_rbrace. intros H. apply N.eqb_eq in H. subst c. reflexivity. Qed.

Lemma pstring_reads_body : forall n s, (length s < n)%nat ->
  forall q level acc st rest fuel, walk q s level = Some 0%nat ->
  sc_rest (p_sc st) = s ++ closer q :: rest -> (length (s ++ closer q :: rest) < fuel)%nat ->
  exists sc', pstring fuel q level acc st = Ret (acc ++ s ++ [closer q]) (set_sc st sc') /\ sc_rest sc' = rest.
Proof.
  induction n as [|n IH]; intros s Hn q level acc st rest fuel Hw Hr Hf; [lia|].
  - destruct fuel as [|f]; [lia|]. cbn [pstring].
    change (fun c => is_lbrace c || is_rbrace c || (q && Nat.eqb level 0 && (c =? c_quote))) with (special q level).
    destruct (span (fun c => negb (special q level c)) s) as [u s2] eqn:Es.
    destruct (span_spec _ _ _ _ Es) as (Hs & Hu & Hh).
    assert (Hu' : forall x, In x u -> special q level x = false).
    { intros x Hx. specialize (Hu x Hx). destruct (special q level x); [discriminate|reflexivity]. }
    destruct s2 as [|b s'].
    + rewrite app_nil_r in Hs. subst u.
      rewrite <- (app_nil_r s) in Hw. rewrite (walk_prefix q level s [] Hu') in Hw. cbn in Hw. injection Hw as ->.
      assert (Hsp : special q 0 (closer q) = true) by (destruct q; reflexivity).
      unfold skip_to. rewrite Hr, (find_first_app _ s (closer q) rest Hu' Hsp).
      exists (advance (p_sc st) (s ++ [closer q]) rest). split; [|reflexivity].
      destruct q; cbn [closer]; [change (c_quote =? c_quote) with true|change (c_rbrace =? c_quote) with false; change (is_lbrace c_rbrace) with false]; cbn iota; reflexivity.
    + assert (Hb : special q level b = true) by (destruct (special q level b); [reflexivity|discriminate]).
      subst s. rewrite (walk_prefix q level u (b :: s') Hu') in Hw. cbn [walk] in Hw.
      unfold skip_to. rewrite Hr. rewrite <- app_assoc. cbn [app].
      rewrite (find_first_app _ u b (s' ++ closer q :: rest) Hu' Hb).
      rewrite app_length in Hn. cbn [length] in Hn.
      set (st1 := set_sc st (advance (p_sc st) (u ++ [b]) (s' ++ closer q :: rest))).
      assert (Hr1 : sc_rest (p_sc st1) = s' ++ closer q :: rest) by reflexivity.
      assert (Hf1 : (length (s' ++ closer q :: rest) < f)%nat).
      { rewrite <- app_assoc, app_length in Hf. cbn [app length] in Hf. lia. }
      destruct (is_lbrace b) eqn:Elb.
      * rewrite (lbrace_not_quote b Elb).
        destruct (Nat.ltb nest_limit (S level)); [discriminate|].
        destruct (IH s' ltac:(lia) q (S level) (acc ++ u ++ [b]) st1 rest f Hw Hr1 Hf1) as (sc' & Hp & Hrest).
        exists sc'. split; [|exact Hrest]. rewrite Hp. unfold st1. rewrite set_sc_set_sc.
        rewrite <- !app_assoc. reflexivity.
      * destruct (is_rbrace b) eqn:Erb.
        -- rewrite (rbrace_not_quote b Erb). destruct level as [|l]; [discriminate|].
           destruct (IH s' ltac:(lia) q l (acc ++ u ++ [b]) st1 rest f Hw Hr1 Hf1) as (sc' & Hp & Hrest).
           exists sc'. split; [|exact Hrest]. rewrite Hp. unfold st1. rewrite set_sc_set_sc.
           rewrite <- !app_assoc. reflexivity.
        -- unfold special in Hb. rewrite Elb, Erb in Hb. cbn [orb] in Hb. rewrite Hb in Hw. discriminate.
Qed.

Definition opener (q : bool) : char := if q then c_quote else c_lbrace.

Lemma span_app_stop p ws c t : forallb p ws = true -> p c = false -> span p (ws ++ c :: t) = (ws, c :: t).
Proof.
  induction ws as [|w ws IH]; intros Hw Hc; cbn.
  - rewrite Hc. reflexivity.
  - cbn in Hw. apply andb_prop in Hw as [H1 H2]. rewrite H1, (IH H2 Hc). reflexivity.
Qed.

(* a braced or quoted value part, after any whitespace, reads back as exactly its body and
   leaves the scanner right after the closing delimiter *)
Lemma value_part_delimited m st q ws body rest :
  forallb is_space ws = true -> wf_body q body ->
  sc_rest (p_sc st) = ws ++ opener q :: body ++ closer q :: rest ->
  exists sc', parse_value_part m st = Ret body (set_sc st sc') /\ sc_rest sc' = rest.
Proof.
  intros Hws Hwf Hr. unfold parse_value_part, required, get_token, eat_whitespace.
  rewrite Hr. rewrite (span_app_stop is_space ws (opener q) _ Hws ltac:(destruct q; reflexivity)).
  cbn [advance sc_rest].
  assert (Hfm : first_match [P_LIT c_quote; P_LIT c_lbrace; P_NUMBER; P_NAME] (opener q :: body ++ closer q :: rest)
                = Some (P_LIT (opener q), [opener q], body ++ closer q :: rest)).
  { destruct q; reflexivity. }
  rewrite Hfm. cbn [obind fst snd].
  set (st1 := set_sc st _).
  assert (Hr1 : sc_rest (p_sc st1) = body ++ closer q :: rest) by reflexivity.
  assert (Hq : (opener q =? c_quote) = q) by (destruct q; reflexivity).
  rewrite Hq.
  destruct (pstring_reads_body (S (length body)) body ltac:(lia) q 0 [] st1 rest
              (S (length (sc_rest (p_sc st1)))) Hwf Hr1 ltac:(rewrite Hr1; lia)) as (sc' & Hp & Hrest).
  rewrite Hp. cbn [obind app]. rewrite removelast_last. exists sc'. split; [|exact Hrest].
  unfold st1. rewrite set_sc_set_sc. reflexivity.
Qed.

(* ---- '#' concatenation of delimited parts, any whitespace around '#' *)
Lemma optional_hash_some st ws r : forallb is_space ws = true -> sc_rest (p_sc st) = ws ++ c_hash :: r ->
  exists sc', optional [P_LIT c_hash] st = Ret (Some (P_LIT c_hash, [c_hash])) (set_sc st sc') /\ sc_rest sc' = r.
Proof.
  intros Hws Hr. unfold optional, get_token, eat_whitespace. rewrite Hr.
  rewrite (span_app_stop is_space ws c_hash r Hws eq_refl). cbn [advance sc_rest].
  eexists. split; reflexivity.
Qed.

Lemma optional_hash_none st ws c t : forallb is_space ws = true -> is_space c = false -> c <> c_hash ->
  sc_rest (p_sc st) = ws ++ c :: t ->
  exists sc', optional [P_LIT c_hash] st = Ret None (set_sc st sc') /\ sc_rest sc' = c :: t.
Proof.
  intros Hws Hc Hh Hr. unfold optional, get_token, eat_whitespace. rewrite Hr.
  rewrite (span_app_stop is_space ws c t Hws Hc). cbn [advance sc_rest first_match match_pat].
  apply N.eqb_neq in Hh. rewrite Hh. eexists. split; reflexivity.
Qed.

(* a surface part: leading whitespace, quoted?, body, whitespace before the next '#' *)
Definition dpart := (str * bool * str * str)%type.
Definition render_dpart (p : dpart) : str :=
  let '(ws, q, body, ws') := p in ws ++ opener q :: body ++ closer q :: ws'.
Definition wf_dpart (p : dpart) : Prop :=
  let '(ws, q, body, ws') := p in forallb is_space ws = true /\ forallb is_space ws' = true /\ wf_body q body.
Definition dpart_body (p : dpart) : str := let '(_, _, body, _) := p in body.

Fixpoint render_dparts (ps : list dpart) : str :=
  match ps with
  | [] => []
  | [p] => render_dpart p
  | p :: r => render_dpart p ++ c_hash :: render_dparts r
  end.

Lemma value_loop_roundtrip m : forall ps fuel acc st c t,
  ps <> [] -> Forall wf_dpart ps -> (length ps < fuel)%nat -> is_space c = false -> c <> c_hash ->
  sc_rest (p_sc st) = render_dparts ps ++ c :: t ->
  exists sc', parse_value_loop fuel m acc st = Ret (acc ++ map dpart_body ps) (set_sc st sc') /\ sc_rest sc' = c :: t.
Proof.
  induction ps as [|p r IH]; intros fuel acc st c t Hne Hwf Hf Hc Hh Hr; [congruence|].
  destruct fuel as [|f]; [lia|]. cbn [parse_value_loop].
  inversion Hwf as [|? ? Hp Hwr]; subst.
  destruct p as [[[ws q] body] ws']. destruct Hp as (Hws & Hws' & Hb).
  destruct r as [|p2 r'].
  - cbn [render_dparts render_dpart] in Hr.
    rewrite <- app_assoc in Hr. cbn [app] in Hr. rewrite <- app_assoc in Hr. cbn [app] in Hr.
    destruct (value_part_delimited m st q ws body (ws' ++ c :: t) Hws Hb Hr) as (sc1 & H1 & Hr1).
    rewrite H1. cbn [obind].
    destruct (optional_hash_none (set_sc st sc1) ws' c t Hws' Hc Hh Hr1) as (sc2 & H2 & Hr2).
    rewrite H2. cbn [obind map dpart_body]. exists sc2. split; [|exact Hr2]. rewrite set_sc_set_sc. reflexivity.
  - change (render_dparts ((ws, q, body, ws') :: p2 :: r')) with (render_dpart (ws, q, body, ws') ++ c_hash :: render_dparts (p2 :: r')) in Hr.
    cbn [render_dpart] in Hr.
    rewrite <- !app_assoc in Hr. cbn [app] in Hr. rewrite <- !app_assoc in Hr. cbn [app] in Hr.
    destruct (value_part_delimited m st q ws body (ws' ++ c_hash :: render_dparts (p2 :: r') ++ c :: t) Hws Hb Hr) as (sc1 & H1 & Hr1).
    rewrite H1. cbn [obind].
    destruct (optional_hash_some (set_sc st sc1) ws' _ Hws' Hr1) as (sc2 & H2 & Hr2).
    rewrite H2. cbn [obind]. rewrite set_sc_set_sc.
    destruct (IH f (acc ++ [body]) (set_sc st sc2) c t ltac:(discriminate) Hwr ltac:(cbn [length] in *; lia) Hc Hh Hr2) as (sc3 & H3 & Hr3).
    rewrite H3. exists sc3. split; [|exact Hr3]. rewrite set_sc_set_sc. cbn [map dpart_body]. rewrite <- app_assoc. reflexivity.
Qed.

(* parse_value on a '#'-concatenation of braced / quoted parts, with any whitespace before
   each part and before each '#', followed by anything that (after whitespace) is not '#':
   current_value becomes exactly the list of bodies *)
Lemma value_roundtrip_lemma m ps st c t :
  ps <> [] -> Forall wf_dpart ps -> is_space c = false -> c <> c_hash ->
  sc_rest (p_sc st) = render_dparts ps ++ c :: t ->
  exists sc', parse_value m st = Ret tt (set_value (set_sc st sc') (map dpart_body ps)) /\ sc_rest sc' = c :: t.
Proof.
  intros Hne Hwf Hc Hh Hr. unfold parse_value.
  assert (Hlen : (length ps < S (length (sc_rest (p_sc st))))%nat).
  { rewrite Hr, app_length. clear -Hne. induction ps as [|p r IH]; [congruence|].
    destruct r as [|p2 r'].
    - destruct p as [[[ws q] body] ws']. cbn. rewrite !app_length. cbn. lia.
    - change (render_dparts (p :: p2 :: r')) with (render_dpart p ++ c_hash :: render_dparts (p2 :: r')).
      rewrite app_length. cbn [length]. specialize (IH ltac:(discriminate)). cbn [length] in IH. lia. }
  destruct (value_loop_roundtrip m ps _ [] st c t Hne Hwf Hlen Hc Hh Hr) as (sc' & H & Hr').
  rewrite H. cbn [obind app]. exists sc'. split; [reflexivity|exact Hr'].
Qed.

(* ==== tokens after whitespace, number and macro parts, general values ==== *)
From Pybtex Require Import Proofs.CharFacts.

Definition head_ok (p : char -> bool) (next : str) : Prop := match next with x :: _ => p x = false | [] => True end.

Lemma span_app_gen p a next : forallb p a = true -> head_ok p next -> span p (a ++ next) = (a, next).
Proof.
  induction a as [|x a IH]; intros Ha Hn; cbn.
  - destruct next as [|y t]; [reflexivity|]. cbn in Hn. cbn. rewrite Hn. reflexivity.
  - cbn in Ha. apply andb_prop in Ha as [H1 H2]. rewrite H1, (IH H2 Hn). reflexivity.
Qed.

Lemma get_token_after_ws ps c ws x t p v r : forallb is_space ws = true -> is_space x = false ->
  sc_rest c = ws ++ x :: t -> first_match ps (x :: t) = Some (p, v, r) ->
  exists c', get_token ps c = (Tok p v, c') /\ sc_rest c' = r.
Proof.
  intros Hws Hx Hr Hf. unfold get_token, eat_whitespace. rewrite Hr, (span_app_stop is_space ws x t Hws Hx).
  cbn [advance sc_rest]. rewrite Hf. eexists. split; reflexivity.
Qed.

Lemma get_token_none_after_ws ps c ws x t : forallb is_space ws = true -> is_space x = false ->
  sc_rest c = ws ++ x :: t -> first_match ps (x :: t) = None ->
  exists c', get_token ps c = (TokNone, c') /\ sc_rest c' = x :: t.
Proof.
  intros Hws Hx Hr Hf. unfold get_token, eat_whitespace. rewrite Hr, (span_app_stop is_space ws x t Hws Hx).
  cbn [advance sc_rest]. rewrite Hf. eexists. split; reflexivity.
Qed.

Lemma required_after_ws ps st ws x t p v r : forallb is_space ws = true -> is_space x = false ->
  sc_rest (p_sc st) = ws ++ x :: t -> first_match ps (x :: t) = Some (p, v, r) ->
  exists sc', required ps st = Ret (p, v) (set_sc st sc') /\ sc_rest sc' = r.
Proof.
  intros Hws Hx Hr Hf. destruct (get_token_after_ws ps _ ws x t p v r Hws Hx Hr Hf) as (c' & Hg & Hc).
  unfold required. rewrite Hg. exists c'. split; [reflexivity|exact Hc].
Qed.

Lemma optional_after_ws ps st ws x t p v r : forallb is_space ws = true -> is_space x = false ->
  sc_rest (p_sc st) = ws ++ x :: t -> first_match ps (x :: t) = Some (p, v, r) ->
  exists sc', optional ps st = Ret (Some (p, v)) (set_sc st sc') /\ sc_rest sc' = r.
Proof.
  intros Hws Hx Hr Hf. destruct (get_token_after_ws ps _ ws x t p v r Hws Hx Hr Hf) as (c' & Hg & Hc).
  unfold optional. rewrite Hg. exists c'. split; [reflexivity|exact Hc].
Qed.

Lemma optional_none_after_ws ps st ws x t : forallb is_space ws = true -> is_space x = false ->
  sc_rest (p_sc st) = ws ++ x :: t -> first_match ps (x :: t) = None ->
  exists sc', optional ps st = Ret None (set_sc st sc') /\ sc_rest sc' = x :: t.
Proof.
  intros Hws Hx Hr Hf. destruct (get_token_none_after_ws ps _ ws x t Hws Hx Hr Hf) as (c' & Hg & Hc).
  unfold optional. rewrite Hg. exists c'. split; [reflexivity|exact Hc].
Qed.

(* a NAME / a NUMBER is read whole when what follows cannot extend it *)
Definition is_name (n : str) : bool :=
  match n with c :: t => is_name_start c && forallb is_name_char t | [] => false end.
Definition is_number (d : str) : bool := match d with [] => false | _ => forallb is_digit d end.

Lemma match_name n next : is_name n = true -> head_ok is_name_char next -> match_pat P_NAME (n ++ next) = Some (n, next).
Proof.
  destruct n as [|c t]; [discriminate|]. cbn [is_name]. intros H Hn. apply andb_prop in H as [H1 H2].
  cbn [app match_pat]. rewrite H1, (span_app_gen is_name_char t next H2 Hn). reflexivity.
Qed.

Lemma match_number d next : is_number d = true -> head_ok is_digit next -> match_pat P_NUMBER (d ++ next) = Some (d, next).
Proof.
  destruct d as [|c t]; [discriminate|]. cbn [is_number]. intros H Hn.
  cbn [match_pat]. unfold nonempty_span. rewrite (span_app_gen is_digit (c :: t) next H Hn). reflexivity.
Qed.

Lemma head_ok_weaken next : head_ok is_name_char next -> head_ok is_digit next.
Proof. destruct next; [auto|]. cbn. apply not_name_char_not_digit. Qed.

Lemma name_head n : is_name n = true -> exists c t, n = c :: t /\ is_name_start c = true /\ is_name_char c = true.
Proof.
  destruct n as [|c t]; [discriminate|]. cbn. intros H. apply andb_prop in H as [H1 _].
  exists c, t. repeat split; auto. unfold is_name_char. rewrite H1. reflexivity.
Qed.

(* surface parts of a value *)
Inductive spart := SDelim (q : bool) (body : str) | SNumber (d : str) | SMacro (n : str).
Definition part_text (p : spart) : str :=
  match p with
  | SDelim q b => opener q :: b ++ [closer q]
  | SNumber d => d
  | SMacro n => n
  end.
Definition wf_spart (macros : list (str * str)) (p : spart) : Prop :=
  match p with
  | SDelim q b => wf_body q b
  | SNumber d => is_number d = true
  | SMacro n => is_name n = true /\ assoc_get (lower n) macros <> None
  end.
(* what the part denotes: its body / its digits / the expansion of the macro (case-insensitive) *)
Definition part_value (macros : list (str * str)) (p : spart) : str :=
  match p with
  | SDelim _ b => b
  | SNumber d => d
  | SMacro n => match assoc_get (lower n) macros with Some v => v | None => [] end
  end.

Lemma value_part_general m st ws p next :
  forallb is_space ws = true -> wf_spart (p_macros st) p -> head_ok is_name_char next ->
  sc_rest (p_sc st) = ws ++ part_text p ++ next ->
  exists sc', parse_value_part m st = Ret (part_value (p_macros st) p) (set_sc st sc') /\ sc_rest sc' = next.
Proof.
  intros Hws Hwf Hn Hr. destruct p as [q b|d|n]; cbn [part_text part_value wf_spart] in *.
  - apply (value_part_delimited m st q ws b next Hws Hwf). rewrite Hr. cbn [app]. rewrite <- app_assoc. reflexivity.
  - destruct d as [|d0 d']; [discriminate|].
    assert (Hd0 : is_digit d0 = true) by (cbn in Hwf; apply andb_prop in Hwf as [H _]; exact H).
    assert (Hf : first_match [P_LIT c_quote; P_LIT c_lbrace; P_NUMBER; P_NAME] (d0 :: d' ++ next) = Some (P_NUMBER, d0 :: d', next)).
    { cbn [first_match]. cbn [match_pat].
      replace (d0 =? c_quote) with false by (symmetry; apply N.eqb_neq; intros ->; discriminate).
      replace (d0 =? c_lbrace) with false by (symmetry; apply N.eqb_neq; intros ->; discriminate).
      change (d0 :: d' ++ next) with ((d0 :: d') ++ next).
      pose proof (match_number (d0 :: d') next Hwf (head_ok_weaken next Hn)) as Hm. cbn [match_pat] in Hm. rewrite Hm. reflexivity. }
    destruct (required_after_ws _ st ws d0 (d' ++ next) _ _ _ Hws
                ltac:(apply name_char_not_space; apply digit_is_name_char; exact Hd0) Hr Hf) as (sc' & H1 & H2).
    unfold parse_value_part. rewrite H1. cbn [obind fst snd]. exists sc'. split; [reflexivity|exact H2].
  - destruct Hwf as [Hname Hdef]. destruct (name_head n Hname) as (c & t & -> & Hs & Hc).
    assert (Hf : first_match [P_LIT c_quote; P_LIT c_lbrace; P_NUMBER; P_NAME] (c :: t ++ next) = Some (P_NAME, c :: t, next)).
    { cbn [first_match]. cbn [match_pat].
      replace (c =? c_quote) with false by (symmetry; apply N.eqb_neq; intros ->; discriminate).
      replace (c =? c_lbrace) with false by (symmetry; apply N.eqb_neq; intros ->; discriminate).
      unfold nonempty_span. cbn [span]. rewrite (name_start_not_digit c Hs).
      pose proof (match_name (c :: t) next Hname Hn) as Hm. cbn [app match_pat] in Hm. rewrite Hm. reflexivity. }
    destruct (required_after_ws _ st ws c (t ++ next) _ _ _ Hws (name_char_not_space c Hc) Hr Hf) as (sc' & H1 & H2).
    unfold parse_value_part. rewrite H1. cbn [obind fst snd]. unfold substitute_macro. cbn [p_macros set_sc].
    destruct (assoc_get (lower (c :: t)) (p_macros st)) as [v|]; [|congruence].
    exists sc'. split; [reflexivity|exact H2].
Qed.

(* a value: parts with whitespace before each part and before each '#' *)
Definition gpart := (str * spart * str)%type.
Definition render_gpart (p : gpart) : str := let '(ws, sp, ws') := p in ws ++ part_text sp ++ ws'.
Definition wf_gpart (macros : list (str * str)) (p : gpart) : Prop :=
  let '(ws, sp, ws') := p in forallb is_space ws = true /\ forallb is_space ws' = true /\ wf_spart macros sp.
Definition gpart_value (macros : list (str * str)) (p : gpart) : str := let '(_, sp, _) := p in part_value macros sp.
Fixpoint render_gparts (ps : list gpart) : str :=
  match ps with
  | [] => []
  | [p] => render_gpart p
  | p :: r => render_gpart p ++ c_hash :: render_gparts r
  end.

Lemma head_ok_ws_then ws' x t : forallb is_space ws' = true -> is_name_char x = false -> head_ok is_name_char (ws' ++ x :: t).
Proof.
  destruct ws' as [|w ws'']; cbn; [auto|]. intros H _. apply andb_prop in H as [H _]. apply space_not_name_char. exact H.
Qed.

Lemma value_loop_general m : forall ps fuel acc st c t,
  ps <> [] -> Forall (wf_gpart (p_macros st)) ps -> (length ps < fuel)%nat ->
  is_space c = false -> c <> c_hash -> is_name_char c = false ->
  sc_rest (p_sc st) = render_gparts ps ++ c :: t ->
  exists sc', parse_value_loop fuel m acc st = Ret (acc ++ map (gpart_value (p_macros st)) ps) (set_sc st sc') /\ sc_rest sc' = c :: t.
Proof.
  induction ps as [|p r IH]; intros fuel acc st c t Hne Hwf Hf Hc Hh Hnc Hr; [congruence|].
  destruct fuel as [|f]; [lia|]. cbn [parse_value_loop].
  inversion Hwf as [|? ? Hp Hwr]; subst.
  destruct p as [[ws sp] ws']. destruct Hp as (Hws & Hws' & Hb).
  destruct r as [|p2 r'].
  - cbn [render_gparts render_gpart] in Hr. rewrite <- !app_assoc in Hr.
    destruct (value_part_general m st ws sp (ws' ++ c :: t) Hws Hb (head_ok_ws_then ws' c t Hws' Hnc) Hr) as (sc1 & H1 & Hr1).
    rewrite H1. cbn [obind].
    destruct (optional_hash_none (set_sc st sc1) ws' c t Hws' Hc Hh Hr1) as (sc2 & H2 & Hr2).
    rewrite H2. cbn [obind map gpart_value]. exists sc2. split; [|exact Hr2]. rewrite set_sc_set_sc. reflexivity.
  - change (render_gparts ((ws, sp, ws') :: p2 :: r')) with (render_gpart (ws, sp, ws') ++ c_hash :: render_gparts (p2 :: r')) in Hr.
    cbn [render_gpart] in Hr. rewrite <- !app_assoc in Hr. cbn [app] in Hr.
    destruct (value_part_general m st ws sp (ws' ++ c_hash :: render_gparts (p2 :: r') ++ c :: t) Hws Hb
                (head_ok_ws_then ws' c_hash _ Hws' eq_refl) Hr) as (sc1 & H1 & Hr1).
    rewrite H1. cbn [obind].
    destruct (optional_hash_some (set_sc st sc1) ws' _ Hws' Hr1) as (sc2 & H2 & Hr2).
    rewrite H2. cbn [obind]. rewrite set_sc_set_sc.
    destruct (IH f (acc ++ [part_value (p_macros st) sp]) (set_sc st sc2) c t ltac:(discriminate) Hwr ltac:(cbn [length] in *; lia) Hc Hh Hnc Hr2) as (sc3 & H3 & Hr3).
    rewrite H3. exists sc3. split; [|exact Hr3]. rewrite set_sc_set_sc. cbn [map gpart_value p_macros set_sc]. rewrite <- app_assoc. reflexivity.
Qed.

Lemma render_gparts_length ps : ps <> [] -> (length ps <= length (render_gparts ps))%nat \/ True.
Proof. auto. Qed.

Lemma gpart_nonempty macros p : wf_gpart macros p -> (1 <= length (render_gpart p))%nat.
Proof.
  destruct p as [[ws sp] ws']. intros (_ & _ & H). cbn [render_gpart]. rewrite !app_length.
  destruct sp as [q b|d|n]; cbn [part_text wf_spart] in *.
  - cbn. lia.
  - destruct d; [discriminate|cbn; lia].
  - destruct H as [H _]. destruct n; [discriminate|cbn; lia].
Qed.

Lemma render_gparts_len macros ps : Forall (wf_gpart macros) ps -> (length ps <= length (render_gparts ps))%nat.
Proof.
  induction ps as [|p r IH]; intros H; [cbn; lia|]. inversion H as [|? ? Hp Hr]; subst.
  pose proof (gpart_nonempty macros p Hp). destruct r as [|p2 r'].
  - cbn [render_gparts length]. lia.
  - change (render_gparts (p :: p2 :: r')) with (render_gpart p ++ c_hash :: render_gparts (p2 :: r')).
    rewrite app_length. cbn [length]. specialize (IH Hr). cbn [length] in IH. lia.
Qed.

(* VALUE ROUND TRIP: parse_value on any '#'-concatenation of braced, quoted, bare-number and
   macro parts *)
Lemma value_roundtrip_general m ps st c t :
  ps <> [] -> Forall (wf_gpart (p_macros st)) ps -> is_space c = false -> c <> c_hash -> is_name_char c = false ->
  sc_rest (p_sc st) = render_gparts ps ++ c :: t ->
  exists sc', parse_value m st = Ret tt (set_value (set_sc st sc') (map (gpart_value (p_macros st)) ps)) /\ sc_rest sc' = c :: t.
Proof.
  intros Hne Hwf Hc Hh Hnc Hr. unfold parse_value.
  assert (Hlen : (length ps < S (length (sc_rest (p_sc st))))%nat).
  { rewrite Hr, app_length. pose proof (render_gparts_len _ ps Hwf). lia. }
  destruct (value_loop_general m ps _ [] st c t Hne Hwf Hlen Hc Hh Hnc Hr) as (sc' & H & Hr').
  rewrite H. cbn [obind app]. exists sc'. split; [reflexivity|exact Hr'].
Qed.

(* ---- normalize_whitespace is idempotent; its result has single spaces only ---- *)
Lemma split_ws_aux_words_nonempty s : forall acc w, In w (split_ws_aux s acc) -> w <> [].
Proof.
  induction s as [|x t IH]; intros acc w Hw; cbn [split_ws_aux] in Hw.
  - destruct acc as [|a acc]; [contradiction|]. destruct Hw as [<-|[]].
    intros E. apply (f_equal (@length _)) in E. rewrite rev_length in E. discriminate.
  - destruct (is_space x).
    + destruct acc as [|a acc].
      * eapply IH; eauto.
      * destruct Hw as [<-|Hw]; [|eapply IH; eauto].
        intros E. apply (f_equal (@length _)) in E. rewrite rev_length in E. discriminate.
    + eapply IH; eauto.
Qed.

Lemma split_ws_aux_word w : forall acc rest, (forall c, In c w -> is_space c = false) ->
  split_ws_aux (w ++ rest) acc = split_ws_aux rest (rev w ++ acc).
Proof.
  induction w as [|x w IH]; intros acc rest Hw; [reflexivity|].
  cbn [app split_ws_aux]. rewrite (Hw x (or_introl eq_refl)).
  rewrite IH by (intros c Hc; apply Hw; right; exact Hc).
  cbn [rev]. rewrite <- app_assoc. reflexivity.
Qed.

Definition is_word (w : str) : Prop := w <> [] /\ forall c, In c w -> is_space c = false.

Lemma split_ws_join ws : Forall is_word ws -> split_ws (join [c_space] ws) = ws.
Proof.
  unfold split_ws. induction ws as [|p [|q rest] IH]; intros H.
  - reflexivity.
  - inversion H as [|? ? [Hne Hns] _]; subst. cbn [join].
    rewrite <- (app_nil_r p) at 1. rewrite split_ws_aux_word by exact Hns. rewrite app_nil_r.
    cbn [split_ws_aux]. destruct (rev p) eqn:E.
    + exfalso. apply Hne. apply (f_equal (@rev _)) in E. rewrite rev_involutive in E. exact E.
    + rewrite <- E, rev_involutive. reflexivity.
  - inversion H as [|? ? [Hne Hns] Hr]; subst.
    change (join [c_space] (p :: q :: rest)) with (p ++ c_space :: join [c_space] (q :: rest)).
    rewrite split_ws_aux_word by exact Hns. rewrite app_nil_r. cbn [split_ws_aux].
    change (is_space c_space) with true. cbv iota.
    destruct (rev p) eqn:E.
    + exfalso. apply Hne. apply (f_equal (@rev _)) in E. rewrite rev_involutive in E. exact E.
    + rewrite <- E, rev_involutive. f_equal. apply IH. exact Hr.
Qed.

Lemma split_ws_words s : Forall is_word (split_ws s).
Proof.
  apply Forall_forall. intros w Hw. split.
  - eapply split_ws_aux_words_nonempty; exact Hw.
  - eapply split_ws_aux_words_nonspace; [exact Hw|intros ? []].
Qed.

Lemma split_ws_normalized s : split_ws (normalize_whitespace s) = split_ws s.
Proof. rewrite normalize_whitespace_words. apply split_ws_join. apply split_ws_words. Qed.

Lemma normalize_whitespace_idem s : normalize_whitespace (normalize_whitespace s) = normalize_whitespace s.
Proof. rewrite (normalize_whitespace_words (normalize_whitespace s)), split_ws_normalized, <- normalize_whitespace_words. reflexivity. Qed.
