(* Proofs/BstReal.v -- the interpreter instantiated with the real name formatter (Model/BstReal.v):
   format.name$ is C11's format_name_n, and type soundness needs no hypothesis about it. *)
From Pybtex Require Import Base.Prelude Base.PyChar Base.PyStr Model.BibtexStr Model.Wrap Model.Names Model.NameFormat
  Model.Bst Model.BstReal Spec.BstSem Spec.BstDoc Spec.BstTyping Proofs.Bst Proofs.BstTyping Proofs.BstDocSound Proofs.NameFormatFmt Proofs.NameFormatRules.
Local Open Scope Z_scope.

Lemma real_fmt_no_crash name f : real_fmt name f <> Crash.
Proof.
  unfold real_fmt.
  destruct (format_name_no_crash_thm name f) as [[out E]|(c & l & E)]; rewrite E; cbn; discriminate.
Qed.

(* what format.name$ computes on (names, index, format) -- string operands -- is exactly C11's format_name_n
   (up to the error class: both are BibTeX errors) *)
Lemma format_name_law_real cw rec wh st f k names r :
  st_stack st = VStr f :: VInt k :: VStr names :: r ->
  match NameFormat.format_name_n names k f with
  | Ok (t, _) => builtin_step real_fmt cw rec wh B_format_name st = Ok (set_stack st (VStr t :: r))
  | PyErr _ _ => exists c l, builtin_step real_fmt cw rec wh B_format_name st = PyErr c l
  | Crash => builtin_step real_fmt cw rec wh B_format_name st = Crash
  | OutOfFuel => builtin_step real_fmt cw rec wh B_format_name st = OutOfFuel
  end.
Proof.
  intros H. cbn [builtin_step]. rewrite (pop_cons _ _ _ H). cbn [bind]. rewrite pop_set_stack. cbn [bind]. rewrite pop_set_stack. cbn [bind].
  unfold format_name_call, format_name_n. cbn [hashable andb negb as_str].
  destruct (split_name_list names) as [parts| | |]; cbn [bind]; eauto.
  destruct ((1 <=? k) && (k <=? Z.of_nat (length parts)))%bool; cbn [bind]; [|unfold err; cbn [bind]; eauto].
  unfold real_fmt.
  destruct (NameFormat.format_name (nth (Z.to_nat (k - 1)) parts []) f) as [[t b]| | |]; cbn; eauto.
Qed.

Theorem welltyped_no_crash_real cw G ent tys cf s p s' :
  ctx_ok G = true -> check G ent tys cf s p = Some s' ->
  forall n st, state_ok G ent tys st -> sabs (st_stack st) s ->
  exec_real cw n st p <> Crash /\
  (forall st', exec_real cw n st p = Ok st' -> state_ok G ent tys st' /\ sabs (st_stack st') s').
Proof. intros. eapply welltyped_no_crash; eauto. apply real_fmt_no_crash. Qed.

(* with the real name formatter: every terminating run of a well-typed program is derivable over the documented rules *)
Theorem doc_sound_real cw G ent tys cf s p s' :
  ctx_ok G = true -> check G ent tys cf s p = Some s' ->
  forall n st st', state_ok G ent tys st -> sabs (st_stack st) s ->
  exec_real cw n st p = Ok st' ->
  bigsteps real_fmt cw (builtin_doc real_fmt cw) st p st'.
Proof. intros. eapply doc_sound; eauto. apply real_fmt_no_crash. Qed.
