(* Proofs/WritersQuote.v -- what Writer.quote writes, the .bib reader's parse_value_part reads back (C02). *)
From Pybtex Require Import Base.Prelude Base.PyChar Base.PyStr Model.BibtexStr Model.Names Model.Scanner Model.BibParser Model.Writers.
Local Open Scope N_scope.

(* the brace walk of a value: the level after it, None when a closing brace has no partner or the
   nesting exceeds the reader's limit (parse_string(..., max_level=100)) *)
Fixpoint bal (level : nat) (v : str) : option nat :=
  match v with
  | [] => Some level
  | c :: t =>
    if is_lbrace c then (if Nat.ltb nest_limit (S level) then None else bal (S level) t)
    else if is_rbrace c then match level with O => None | S l => bal l t end
    else bal level t
  end.
(* brace-balanced TeX string (nesting depth at most 100) *)
Definition balanced (v : str) : Prop := bal 0 v = Some 0%nat.

Definition frame (s : pst) := (p_macros s, p_errs s, p_key s, p_fields s, p_fname s, p_value s, p_cstart s).
Lemma frame_set_sc s x : frame (set_sc s x) = frame s.
Proof. reflexivity. Qed.

Definition special (q : bool) (level : nat) (c : char) : bool :=
  is_lbrace c || is_rbrace c || (q && Nat.eqb level 0 && (c =? c_quote)).
Definition closer (q : bool) : char := if q then c_quote else c_rbrace.

Lemma find_first_none p s : find_first p s = None -> forallb (fun c => negb (p c)) s = true.
Proof.
  induction s as [|c t IH]; cbn; [reflexivity|]. destruct (p c) eqn:E; [discriminate|].
  destruct (find_first p t) as [[[v d] r]|]; [discriminate|]. intros _. cbn. auto.
Qed.

Lemma find_first_some p s u c r : find_first p s = Some (u, c, r) ->
  exists pre, u = pre ++ [c] /\ s = pre ++ c :: r /\ forallb (fun c => negb (p c)) pre = true /\ p c = true.
Proof.
  revert u c r; induction s as [|d t IH]; cbn; intros u c r H; [discriminate|].
  destruct (p d) eqn:E.
  - inversion H; subst. exists []. cbn. auto.
  - destruct (find_first p t) as [[[v d'] r']|] eqn:F; [|discriminate]. inversion H; subst.
    destruct (IH _ _ _ eq_refl) as (pre & -> & -> & Hp & Hc). exists (d :: pre). cbn. rewrite E. cbn. auto.
Qed.

Lemma find_first_app p pre c r : forallb (fun c => negb (p c)) pre = true -> p c = true ->
  find_first p (pre ++ c :: r) = Some (pre ++ [c], c, r).
Proof.
  induction pre as [|d pre IH]; cbn; intros Hp Hc; [now rewrite Hc|].
  apply andb_prop in Hp as [Hd Hp]. apply negb_true_iff in Hd. rewrite Hd. now rewrite IH.
Qed.

Lemma bal_nonbrace level pre t : forallb (fun c => negb (is_lbrace c || is_rbrace c)) pre = true ->
  bal level (pre ++ t) = bal level t.
Proof.
  induction pre as [|d pre IH]; cbn; intros H; [reflexivity|].
  apply andb_prop in H as [Hd H]. apply negb_true_iff, orb_false_iff in Hd as [H1 H2]. rewrite H1, H2. auto.
Qed.

Lemma special_nonbrace q level pre : forallb (fun c => negb (special q level c)) pre = true ->
  forallb (fun c => negb (is_lbrace c || is_rbrace c)) pre = true.
Proof.
  induction pre as [|d pre IH]; cbn; intros H; [reflexivity|].
  apply andb_prop in H as [Hd H]. rewrite IH by assumption. unfold special in Hd.
  apply negb_true_iff, orb_false_iff in Hd as [Hd _]. now rewrite Hd.
Qed.

Lemma has_quote_app a b : has_quote (a ++ b) = has_quote a || has_quote b.
Proof. unfold has_quote. apply existsb_app. Qed.

Lemma pstring_walk : forall n v, (length v <= n)%nat -> forall fuel q level acc s tail,
  bal level v = Some 0%nat -> (q = true -> has_quote v = false) ->
  sc_rest (p_sc s) = v ++ closer q :: tail -> (length v < fuel)%nat ->
  exists s', pstring fuel q level acc s = Ret (acc ++ v ++ [closer q]) s' /\ sc_rest (p_sc s') = tail /\ frame s' = frame s.
Proof.
  induction n as [|n IH]; intros v Hlen fuel q level acc s tail Hb Hq Hr Hf.
  - destruct v; [|cbn in Hlen; lia]. destruct fuel as [|f]; [cbn in Hf; lia|].
    cbn in Hb. inversion Hb; subst level. cbn [app] in Hr.
    cbn [pstring]. unfold skip_to. rewrite Hr.
    assert (Hc : (is_lbrace (closer q) || is_rbrace (closer q) || (q && Nat.eqb 0 0 && (closer q =? c_quote))) = true) by (destruct q; reflexivity).
    cbn [find_first]. rewrite Hc.
    destruct q; (eexists; split; [|split]; [cbn; reflexivity|reflexivity|reflexivity]).
  - destruct fuel as [|f]; [lia|].
    cbn [pstring]. unfold skip_to. rewrite Hr.
    fold (special q level).
    destruct (find_first (special q level) v) as [[[u c] r]|] eqn:F.
    + destruct (find_first_some _ _ _ _ _ F) as (pre & -> & -> & Hp & Hc).
      rewrite <- app_assoc. cbn [app]. rewrite (find_first_app _ pre c (r ++ closer q :: tail) Hp Hc).
      pose proof (special_nonbrace _ _ _ Hp) as Hnb.
      rewrite (bal_nonbrace level pre (c :: r) Hnb) in Hb.
      rewrite app_length in Hlen, Hf. cbn [length] in Hlen, Hf.
      assert (Hqr : q = true -> has_quote r = false).
      { intros E. specialize (Hq E). rewrite has_quote_app in Hq. apply orb_false_iff in Hq as [_ Hq].
        cbn in Hq. apply orb_false_iff in Hq as [_ Hq]. exact Hq. }
      assert (Hcq : (c =? c_quote) = false).
      { destruct (c =? c_quote) eqn:E; [|reflexivity]. apply N.eqb_eq in E. subst c.
        unfold special in Hc. cbn in Hc. apply andb_prop in Hc as [Hc _]. apply andb_prop in Hc as [Hc _].
        specialize (Hq Hc). rewrite has_quote_app in Hq. apply orb_false_iff in Hq as [_ Hq]. cbn in Hq. discriminate. }
      rewrite Hcq. cbn [bal] in Hb.
      destruct (is_lbrace c) eqn:EL.
      * destruct (Nat.ltb nest_limit (S level)) eqn:EN; [discriminate|].
        edestruct (IH r ltac:(lia) f q (S level) (acc ++ pre ++ [c])
                      (set_sc s (advance (p_sc s) (pre ++ [c]) (r ++ closer q :: tail))) tail Hb Hqr eq_refl ltac:(lia))
          as (s' & E1 & E2 & E3).
        exists s'. rewrite E1. split; [|split; [exact E2|rewrite E3; reflexivity]].
        f_equal. rewrite <- !app_assoc. reflexivity.
      * destruct (is_rbrace c) eqn:ER.
        -- destruct level as [|l]; [discriminate|].
           edestruct (IH r ltac:(lia) f q l (acc ++ pre ++ [c])
                      (set_sc s (advance (p_sc s) (pre ++ [c]) (r ++ closer q :: tail))) tail Hb Hqr eq_refl ltac:(lia))
             as (s' & E1 & E2 & E3).
           exists s'. rewrite E1. split; [|split; [exact E2|rewrite E3; reflexivity]].
           f_equal. rewrite <- !app_assoc. reflexivity.
        -- exfalso. unfold special in Hc. rewrite EL, ER, Hcq in Hc. cbn in Hc. rewrite andb_false_r in Hc. discriminate.
    + pose proof (find_first_none _ _ F) as Hp.
      pose proof (special_nonbrace _ _ _ Hp) as Hnb.
      rewrite <- (app_nil_r v) in Hb. rewrite (bal_nonbrace level v [] Hnb) in Hb. cbn in Hb. inversion Hb; subst level.
      assert (Hc : special q 0 (closer q) = true) by (destruct q; reflexivity).
      rewrite (find_first_app _ v (closer q) tail Hp Hc).
      destruct q; (eexists; split; [|split]; [cbn; rewrite <- ?app_assoc; reflexivity|reflexivity|reflexivity]).
Qed.

Lemma quote_shape v q : quote v = Ok q ->
  q = if has_quote v then c_lbrace :: v ++ [c_rbrace] else c_quote :: v ++ [c_quote].
Proof. unfold quote. destruct (check_braces v); cbn; intros H; inversion H; reflexivity. Qed.

(* parse_value_part reads back what quote wrote: the value, the rest of the text left in the scanner,
   nothing else of the parser state touched, no error reported *)
Lemma quote_roundtrip_pf m v q s tail :
  balanced v -> quote v = Ok q -> sc_rest (p_sc s) = q ++ tail ->
  exists s', parse_value_part m s = Ret v s' /\ sc_rest (p_sc s') = tail /\ frame s' = frame s.
Proof.
  intros Hb Hq Hr. apply quote_shape in Hq. subst q.
  unfold parse_value_part, required, get_token, eat_whitespace.
  destruct (has_quote v) eqn:HQ; cbn [app] in Hr; rewrite <- app_assoc in Hr; cbn [app] in Hr; rewrite Hr; cbn [span].
  - change (is_space c_lbrace) with false. cbn [advance sc_rest first_match match_pat].
    change (c_lbrace =? c_quote) with false. change (c_lbrace =? c_lbrace) with true.
    cbn [obind fst snd advance_token set_sc p_sc sc_rest].
    change (c_lbrace =? c_quote) with false.
    match goal with |- context [pstring ?fu ?qq ?lv ?ac ?st] =>
      destruct (pstring_walk (length v) v (le_n _) fu false 0%nat [] st tail Hb ltac:(discriminate) eq_refl) as (s' & E1 & E2 & E3)
    end.
    { rewrite app_length. cbn. lia. }
    cbn [closer] in E1. rewrite E1. cbn [obind app].
    exists s'. rewrite removelast_last. auto.
  - change (is_space c_quote) with false. cbn [advance sc_rest first_match match_pat].
    change (c_quote =? c_quote) with true.
    cbn [obind fst snd advance_token set_sc p_sc sc_rest].
    change (c_quote =? c_quote) with true.
    match goal with |- context [pstring ?fu ?qq ?lv ?ac ?st] =>
      destruct (pstring_walk (length v) v (le_n _) fu true 0%nat [] st tail Hb (fun _ => HQ) eq_refl) as (s' & E1 & E2 & E3)
    end.
    { rewrite app_length. cbn. lia. }
    cbn [closer] in E1. rewrite E1. cbn [obind app].
    exists s'. rewrite removelast_last. auto.
Qed.

(* ---- Writer.quote does not raise on a balanced value: the last token scan_bibtex_string yields is at level 0 *)
Lemma last_nonnil_default {X} (l : list X) d e : l <> [] -> last l d = last l e.
Proof. induction l as [|b l IH]; intros H; [congruence|]. cbn [last]. destruct l; [reflexivity|]. apply IH. discriminate. Qed.
Lemma last_cons {X} (a : X) l d : last (a :: l) d = last l a.
Proof. cbn [last]. destruct l as [|b l]; [reflexivity|]. apply last_nonnil_default. discriminate. Qed.

Lemma last_snd_default (r : list tok) (a b : tok) : snd a = snd b -> snd (last r a) = snd (last r b).
Proof. destruct r as [|x r]; [auto|]. intros _. now rewrite !last_cons. Qed.

Lemma scan_bal : forall s level sp,
  match sp with
  | None => bal level s = Some 0%nat
  | Some (d, _) => bal (S d) s = Some 0%nat
  end ->
  exists ts, scan_go s level sp = Ok ts /\
             snd (last ts ([], match sp with None => level | Some _ => 1%nat end)) = 0%nat.
Proof.
  induction s as [|c t IH]; intros level sp H.
  - destruct sp as [[d acc]|]; cbn in H; [discriminate|]. inversion H; subst. exists []. auto.
  - destruct sp as [[d acc]|]; cbn [scan_go]; cbn [bal] in H.
    + destruct (is_lbrace c) eqn:EL.
      * change (Nat.ltb max_level (2 + d)) with (Nat.ltb nest_limit (S (S d))).
        destruct (Nat.ltb nest_limit (S (S d))); [discriminate|].
        apply (IH level (Some (S d, c :: acc)) H).
      * destruct (is_rbrace c) eqn:ER.
        -- destruct d as [|d'].
           ++ destruct (IH 0%nat None H) as (r & E & L). rewrite E. cbn [bind]. eexists; split; [reflexivity|].
              rewrite !last_cons. rewrite (last_snd_default r _ ([], 0%nat)); [exact L|reflexivity].
           ++ apply (IH level (Some (d', c :: acc)) H).
        -- apply (IH level (Some (d, c :: acc)) H).
    + destruct (is_lbrace c) eqn:EL.
      * change nest_limit with max_level in H.
        destruct (Nat.ltb max_level (S level)) eqn:EN; [discriminate|].
        destruct (Nat.eqb level 0 && match t with b :: _ => b =? c_bslash | [] => false end) eqn:ES.
        -- apply andb_prop in ES as [E0 _]. apply Nat.eqb_eq in E0. subst level.
           destruct (IH 0%nat (Some (0%nat, [])) H) as (r & E & L). rewrite E. cbn [bind]. eexists; split; [reflexivity|].
           rewrite last_cons. rewrite (last_snd_default r _ ([], 1%nat)); [exact L|reflexivity].
        -- destruct (IH (S level) None H) as (r & E & L). rewrite E. cbn [bind]. eexists; split; [reflexivity|].
           rewrite last_cons. rewrite (last_snd_default r _ ([], S level)); [exact L|reflexivity].
      * destruct (is_rbrace c) eqn:ER.
        -- destruct level as [|l]; [discriminate|]. cbn [andb]. change ((0 <? S l)%nat) with true. cbn [Init.Nat.pred].
           destruct (IH l None H) as (r & E & L). rewrite E. cbn [bind]. eexists; split; [reflexivity|].
           rewrite last_cons. rewrite (last_snd_default r _ ([], l)); [exact L|reflexivity].
        -- cbn [andb]. destruct (IH level None H) as (r & E & L). rewrite E. cbn [bind]. eexists; split; [reflexivity|].
           rewrite last_cons. rewrite (last_snd_default r _ ([], level)); [exact L|reflexivity].
Qed.

Lemma quote_total_pf v : balanced v -> exists q, quote v = Ok q.
Proof.
  intros H. destruct (scan_bal v 0%nat None H) as (ts & E & L).
  unfold quote, check_braces, scan. rewrite E. cbn [bind].
  destruct ts as [|x r]; [cbn; eauto|]. rewrite L. cbn. eauto.
Qed.

(* quote then read, in one statement *)
Lemma quote_read_pf v : balanced v ->
  exists q, quote v = Ok q /\
    forall m s tail, sc_rest (p_sc s) = q ++ tail ->
      exists s', parse_value_part m s = Ret v s' /\ sc_rest (p_sc s') = tail /\ frame s' = frame s.
Proof.
  intros H. destruct (quote_total_pf v H) as (q & Q). exists q. split; [exact Q|].
  intros m s tail Hr. now apply (quote_roundtrip_pf m v q s tail).
Qed.
