(* Proofs/ErrorsBst.v -- property C16 connected to the validated .bst parser model of C15
   (Model/BstParser.v, used as it is): the line number of EVERY TokenRequired the parser raises,
   on any text whatsoever, points into text.splitlines(True) -- so its source context can be
   rendered (lines[error_lineno0] never raises IndexError) -- with no hypothesis on the text
   -- multi-line string literals included: since fix 6970deb (F29) Scanner.get_token counts the line
   breaks inside a matched token, and the invariant below follows the model of that code: a token
   never ends in CR, so the count of the token and of the rest add up. *)
From Pybtex Require Import Base.Prelude Base.PyChar Base.PyStr Model.Errors Proofs.Errors.
From Pybtex Require Model.BstParser Proofs.BstLex Proofs.BstErrors.

Notation cnt := Errors.count_newlines.

(* ---- the scanner's newline count (\n, \r, \r\n once) and concatenation ---- *)
Lemma cnt_cons_ge c x : (cnt x <= cnt (c :: x))%nat.
Proof.
  cbn [count_newlines]. destruct (c =? 10)%N; [lia|]. destruct (c =? 13)%N; [|lia].
  destruct x as [|d t]; [cbn; lia|]. destruct (d =? 10)%N; lia.
Qed.

Lemma cnt_app_ge a b : (cnt b <= cnt (a ++ b))%nat.
Proof.
  induction a as [|c a IH]; cbn [app]; [lia|]. pose proof (cnt_cons_ge c (a ++ b)). lia.
Qed.

Lemma cnt_app_le a : forall b, (cnt (a ++ b) <= cnt a + cnt b)%nat.
Proof.
  induction a as [|c a IH]; intros b; cbn [app]; [cbn; lia|].
  specialize (IH b). cbn [count_newlines]. destruct (c =? 10)%N; [lia|]. destruct (c =? 13)%N; [|lia].
  destruct a as [|d a'].
  - cbn [app]. destruct b as [|d b']; [cbn; lia|]. destruct (d =? 10)%N; cbn [count_newlines] in *; lia.
  - cbn [app] in *. destruct (d =? 10)%N; lia.
Qed.

Definition starts_lf (b : str) : bool := match b with d :: _ => (d =? 10)%N | [] => false end.

Lemma cnt_app_eq a : forall b, starts_lf b = false -> cnt (a ++ b) = (cnt a + cnt b)%nat.
Proof.
  induction a as [|c a IH]; intros b Hb; cbn [app]; [reflexivity|].
  specialize (IH b Hb). cbn [count_newlines]. destruct (c =? 10)%N; [lia|]. destruct (c =? 13)%N; [|lia].
  destruct a as [|d a'].
  - cbn [app]. destruct b as [|d b']; [reflexivity|]. cbn [starts_lf] in Hb. rewrite Hb. cbn [count_newlines]. lia.
  - cbn [app] in *. destruct (d =? 10)%N; lia.
Qed.

(* ... and also when the first part does not end in CR *)
Lemma cnt_app_eq_l a : forall b, last a 0%N <> 13%N -> cnt (a ++ b) = (cnt a + cnt b)%nat.
Proof.
  induction a as [|c a IH]; intros b Hl; cbn [app]; [reflexivity|].
  destruct a as [|d a'].
  - cbn [last] in Hl. cbn [app count_newlines]. destruct (c =? 10)%N; [lia|].
    destruct (N.eqb_spec c 13) as [->|_]; [congruence|lia].
  - assert (Hl' : last (d :: a') 0%N <> 13%N) by exact Hl.
    specialize (IH b Hl'). cbn [app] in *. cbn [count_newlines] in *.
    destruct (c =? 10)%N; [lia|]. destruct (c =? 13)%N; [|lia]. destruct (d =? 10)%N; lia.
Qed.

Lemma cnt_no_nl v : forallb (fun c => negb (is_space c)) v = true -> cnt v = 0%nat.
Proof.
  induction v as [|c t IH]; cbn [forallb count_newlines]; [reflexivity|]. intros H.
  apply andb_prop in H as [Hc Ht]. apply negb_true_iff in Hc.
  destruct (N.eqb_spec c 10) as [->|_]; [discriminate Hc|]. destruct (N.eqb_spec c 13) as [->|_]; [discriminate Hc|]. auto.
Qed.

(* the model's nl_count (count of LF + count of CR - count of CR LF) is that count *)
Lemma nl_count_cnt v : BstParser.nl_count v = Z.of_nat (cnt v).
Proof.
  unfold BstParser.nl_count.
  induction v as [|c t IH]; [reflexivity|].
  cbn [BstParser.count_char BstParser.count_crlf count_newlines].
  destruct (c =? 10)%N eqn:E10.
  - apply N.eqb_eq in E10. subst c. change (10 =? 13)%N with false. cbn [andb]. lia.
  - destruct (c =? 13)%N eqn:E13; cbn [andb]; [|lia].
    destruct t as [|d t']; [cbn in *; lia|]. destruct (d =? 10)%N; lia.
Qed.

(* ---- the invariant of the scanner state (unread text, line) ---- *)
Section Inv.
Variable text : str.

Definition Inv (s : str) (ln : Z) : Prop :=
  (1 <= ln)%Z /\ (exists pre, text = pre ++ s) /\ (ln + Z.of_nat (cnt s) <= 1 + Z.of_nat (cnt text))%Z.
Definition Good (l : Z) : Prop := (1 <= l <= Z.of_nat (length (splitlines true text)))%Z.

Lemma good_of_inv c0 r ln : Inv (c0 :: r) ln -> is_space c0 = false -> Good ln.
Proof.
  intros (H1 & (pre & Ht) & H2) Hc. split; [exact H1|].
  pose proof (scanner_lineno_in_range (length pre) pre (le_n _) [] c0 r (nonspace_not_lb c0 Hc)) as Hlt.
  unfold splitlines. rewrite Ht. rewrite Ht in H2.
  pose proof (cnt_app_le pre (c0 :: r)). lia.
Qed.

(* scanner.py get_token after fix 6970deb: self.update_lineno(value) for the matched token *)
Lemma inv_token v r ln : Inv (v ++ r) ln -> last v 0%N <> 13%N -> Inv r (ln + Z.of_nat (cnt v)).
Proof.
  intros (H1 & (pre & Ht) & H2) Hl. split; [lia|]. split.
  - exists (pre ++ v). now rewrite <- app_assoc.
  - pose proof (cnt_app_eq_l v r Hl) as E. unfold str, char in *. rewrite E in H2. lia.
Qed.

Import BstParser.

(* outcome of a parser function: the state it returns satisfies the invariant; a TokenRequired
   it raises names a line of the text *)
Definition post {A} (r : res (A * state)) : Prop :=
  match r with
  | Ok (_, (s', ln')) => Inv s' ln'
  | PyErr c l => c = cls_token_required -> Good l
  | _ => True
  end.

Lemma eat_whitespace_inv s ln r ln' :
  Inv s ln -> eat_whitespace s ln = (r, ln') -> Inv r ln' /\ BstLex.stops is_space r.
Proof.
  intros (H1 & (pre & Ht) & H2). unfold eat_whitespace.
  destruct (span is_space s) as [w r0] eqn:E. intros H; injection H as <- <-.
  destruct (BstLex.span_decomp _ _ _ _ E) as (-> & _ & Hst). split; [|exact Hst].
  rewrite nl_count_cnt.
  assert (Hlf : starts_lf r0 = false).
  { destruct r0 as [|d t]; [reflexivity|]. cbn in Hst |- *. destruct (N.eqb_spec d 10) as [->|]; [discriminate|reflexivity]. }
  rewrite (cnt_app_eq w r0 Hlf) in H2. split; [lia|]. split; [|lia].
  exists (pre ++ w). now rewrite <- app_assoc.
Qed.

Lemma forallb_last {X} (p : X -> bool) (l : list X) d : l <> [] -> forallb p l = true -> p (last l d) = true.
Proof.
  induction l as [|x t IH]; [congruence|]. intros _ H. cbn [forallb] in H. apply andb_prop in H as [Hx Ht].
  destruct t as [|y t']; [exact Hx|]. apply IH; [discriminate|exact Ht].
Qed.

Lemma last_snoc {X} (l : list X) x d : last (l ++ [x]) d = x.
Proof. induction l as [|y t IH]; [reflexivity|]. cbn [app]. destruct (t ++ [x]) eqn:E; [destruct t; discriminate|]. exact IH. Qed.

Lemma last_cons_ne {X} (c : X) l d : l <> [] -> last (c :: l) d = last l d.
Proof. destruct l; [congruence|reflexivity]. Qed.

(* no token ends in CR: a name consists of non-space characters, a string ends with its closing
   quote, an integer with a digit, the braces are single characters *)
Lemma match_pat_last p s v r : match_pat p s = Some (v, r) -> last v 0%N <> 13%N.
Proof.
  destruct p; cbn [match_pat]; intros H.
  - destruct (span is_name_char s) as [a b] eqn:E. destruct a as [|c a]; [discriminate|].
    injection H as <- <-. destruct (BstLex.span_decomp _ _ _ _ E) as (_ & Ha & _).
    pose proof (forallb_last is_name_char (c :: a) 0%N ltac:(discriminate) Ha) as Hn.
    intros Heq. rewrite Heq in Hn. discriminate Hn.
  - destruct s as [|c t]; [discriminate|]. destruct (c =? c_quote)%N; [|discriminate].
    destruct (span not_quote t) as [body b] eqn:E. destruct b as [|q r']; [discriminate|].
    injection H as <- <-. destruct (BstLex.span_decomp _ _ _ _ E) as (_ & _ & Hst). cbn in Hst.
    rewrite last_cons_ne by (destruct body; discriminate). rewrite last_snoc.
    unfold not_quote in Hst. apply negb_false_iff in Hst. apply N.eqb_eq in Hst. subst q. discriminate.
  - destruct s as [|c t]; [discriminate|]. destruct (c =? c_hash)%N; [|discriminate].
    destruct (match t with [] => ([], t) | m :: u => if (m =? c_hyphen)%N then ([m], u) else ([], t) end) as [sign t'].
    destruct (span is_digit t') as [ds b] eqn:E. destruct ds as [|d ds']; [discriminate|].
    injection H as <- <-. destruct (BstLex.span_decomp _ _ _ _ E) as (_ & Hd & _).
    rewrite last_cons_ne by (destruct sign; discriminate).
    replace (sign ++ d :: ds') with ((sign ++ removelast (d :: ds')) ++ [last (d :: ds') 0%N])
      by (rewrite <- app_assoc, <- app_removelast_last; [reflexivity|discriminate]).
    rewrite last_snoc.
    pose proof (forallb_last is_digit (d :: ds') 0%N ltac:(discriminate) Hd) as Hn.
    intros Heq. rewrite Heq in Hn. discriminate Hn.
  - destruct s as [|c t]; [discriminate|]. destruct (N.eqb_spec c c_lbrace) as [->|]; [|discriminate].
    injection H as <- <-. discriminate.
  - destruct s as [|c t]; [discriminate|]. destruct (N.eqb_spec c c_rbrace) as [->|]; [|discriminate].
    injection H as <- <-. discriminate.
Qed.

(* required: returns a token v; the text from the token on starts with a character that is not
   white space and satisfied the invariant with the line BEFORE the token; the new line is that
   line plus the line breaks inside the token; or raises *)
Lemma required_inv ps ae s ln :
  Inv s ln ->
  match required ps ae s ln with
  | Ok ((p, v), (s1, ln1)) =>
    Inv s1 ln1 /\ exists c0 r0 lnb, v ++ s1 = c0 :: r0 /\ is_space c0 = false /\ Inv (c0 :: r0) lnb
                                   /\ ln1 = (lnb + Z.of_nat (cnt v))%Z /\ match_pat p (v ++ s1) = Some (v, s1) /\ In p ps
  | PyErr c l => c = cls_token_required -> Good l
  | _ => True
  end.
Proof.
  intros HI. unfold required, get_token.
  destruct (eat_whitespace s ln) as [r ln'] eqn:E.
  destruct (eat_whitespace_inv s ln r ln' HI E) as [HI' Hst].
  destruct r as [|c0 r0].
  - destruct ae; cbn; intros H; discriminate H.
  - cbn in Hst.
    destruct (first_match ps (c0 :: r0)) as [[[p v] r']|] eqn:Ef; cbn.
    + pose proof (BstErrors.first_match_in _ _ _ _ _ Ef) as Hin.
      apply BstErrors.first_match_inv in Ef. destruct (BstErrors.match_pat_inv _ _ _ _ Ef) as (Heq & _ & _).
      rewrite nl_count_cnt. split.
      * apply inv_token; [now rewrite <- Heq|exact (match_pat_last _ _ _ _ Ef)].
      * exists c0, r0, ln'. rewrite <- Heq.
        split; [reflexivity|]. split; [exact Hst|]. split; [exact HI'|]. split; [reflexivity|]. split; [exact Ef|exact Hin].
    + intros _. exact (good_of_inv c0 r0 ln' HI' Hst).
Qed.

Lemma literal_no_pyerr p v c l : literal p v <> PyErr c l.
Proof.
  destruct p; cbn [literal]; try discriminate.
  - unfold process_identifier. destruct v as [|x t]; [discriminate|]. destruct (x =? 39)%N; discriminate.
  - unfold process_string_literal. destruct v as [|x t]; [discriminate|].
    destruct ((x =? c_quote)%N && (last (x :: t) 0%N =? c_quote)%N); discriminate.
  - unfold process_int_literal, py_int.
    destruct (match strip_hash v with [] => (false, strip_hash v) | m :: u => if (m =? c_hyphen)%N then (true, u) else (false, strip_hash v) end) as [neg ds].
    destruct ds as [|d ds']; [discriminate|].
    destruct (negb (forallb is_digit (d :: ds'))); [discriminate|].
    destruct (max_str_digits <? Z.of_nat (length (d :: ds')))%Z; discriminate.
Qed.

Lemma parse_group_inv fuel : forall s ln, Inv s ln -> post (parse_group fuel s ln).
Proof.
  induction fuel as [|f IH]; intros s ln HI; cbn [parse_group]; [exact I|].
  pose proof (required_inv group_pats false s ln HI) as Hr.
  destruct (required group_pats false s ln) as [[[p v] [s1 ln1]]|c l| |]; cbn [bind post]; try exact I; [|exact Hr].
  destruct Hr as [HI1 _].
  destruct p.
  - pose proof (literal_no_pyerr P_NAME v) as Hno. destruct (literal P_NAME v) as [lt|c l| |]; cbn [bind post]; try exact I; [|exfalso; now apply (Hno c l)].
    specialize (IH s1 ln1 HI1). destruct (parse_group f s1 ln1) as [[g [s2 ln2]]|c l| |]; cbn [bind post fst snd] in *; auto.
  - pose proof (literal_no_pyerr P_STRING v) as Hno. destruct (literal P_STRING v) as [lt|c l| |]; cbn [bind post]; try exact I; [|exfalso; now apply (Hno c l)].
    specialize (IH s1 ln1 HI1). destruct (parse_group f s1 ln1) as [[g [s2 ln2]]|c l| |]; cbn [bind post fst snd] in *; auto.
  - pose proof (literal_no_pyerr P_INTEGER v) as Hno. destruct (literal P_INTEGER v) as [lt|c l| |]; cbn [bind post]; try exact I; [|exfalso; now apply (Hno c l)].
    specialize (IH s1 ln1 HI1). destruct (parse_group f s1 ln1) as [[g [s2 ln2]]|c l| |]; cbn [bind post fst snd] in *; auto.
  - pose proof (IH s1 ln1 HI1) as H1.
    destruct (parse_group f s1 ln1) as [[body [s2 ln2]]|c l| |]; cbn [bind post] in *; auto.
    pose proof (IH s2 ln2 H1) as H2.
    destruct (parse_group f s2 ln2) as [[g [s3 ln3]]|c l| |]; cbn [bind post fst snd] in *; auto.
  - exact HI1.
Qed.

Lemma parse_args_inv fuel n : forall s ln, Inv s ln -> post (parse_args fuel n s ln).
Proof.
  induction n as [|k IH]; intros s ln HI; cbn [parse_args]; [exact HI|].
  pose proof (required_inv [P_LBRACE] false s ln HI) as Hr.
  destruct (required [P_LBRACE] false s ln) as [[[p v] [s1 ln1]]|c l| |]; cbn [bind post]; try exact I; [|exact Hr].
  destruct Hr as [HI1 _].
  pose proof (parse_group_inv fuel s1 ln1 HI1) as Hg.
  destruct (parse_group fuel s1 ln1) as [[grp [s2 ln2]]|c l| |]; cbn [bind post] in *; auto.
  specialize (IH s2 ln2 Hg).
  destruct (parse_args fuel k s2 ln2) as [[a [s3 ln3]]|c l| |]; cbn [bind post fst snd] in *; auto.
Qed.

Lemma parse_command_inv fuel s ln : Inv s ln -> post (parse_command fuel s ln).
Proof.
  intros HI. unfold parse_command.
  pose proof (required_inv [P_NAME] true s ln HI) as Hr.
  destruct (required [P_NAME] true s ln) as [[[p name] [s1 ln1]]|c l| |]; cbn [bind post]; try exact I; [|exact Hr].
  destruct Hr as (HI1 & c0 & r0 & lnb & _ & Hc0 & HI0 & Hln & Hm & Hin).
  destruct (arity name) as [n|].
  - pose proof (parse_args_inv fuel n s1 ln1 HI1) as Ha.
    destruct (parse_args fuel n s1 ln1) as [[a [s2 ln2]]|c l| |]; cbn [bind post fst snd] in *; auto.
  - (* bst.py:143: raised after the command name was read; a name contains no line break, so the
       line is still that of its first character *)
    cbn [post]. intros _.
    assert (Hp : p = P_NAME) by (destruct Hin as [<-|[]]; reflexivity).
    subst p.
    assert (Hz : cnt name = 0%nat).
    { cbn [match_pat] in Hm. destruct (span is_name_char (name ++ s1)) as [a b] eqn:E.
      destruct a as [|x a]; [discriminate|]. injection Hm as Hn _. subst name.
      destruct (BstLex.span_decomp _ _ _ _ E) as (_ & Ha & _). apply cnt_no_nl.
      eapply BstErrors.forallb_impl; [|exact Ha]. intros y Hy. unfold is_name_char in Hy.
      apply negb_true_iff in Hy. rewrite !orb_false_iff in Hy. destruct Hy as [_ Hy]. now rewrite Hy. }
    rewrite Hz in Hln. replace ln1 with lnb by lia. exact (good_of_inv c0 r0 lnb HI0 Hc0).
Qed.

Lemma parse_loop_inv fuel : forall s ln, Inv s ln ->
  match parse_loop fuel s ln with PyErr c l => c = cls_token_required -> Good l | _ => True end.
Proof.
  induction fuel as [|f IH]; intros s ln HI; cbn [parse_loop]; [exact I|].
  pose proof (parse_command_inv (S (length s)) s ln HI) as Hc.
  destruct (parse_command (S (length s)) s ln) as [[c [s1 ln1]]|cl l| |]; try exact I.
  - cbn [post] in Hc. specialize (IH s1 ln1 Hc).
    destruct (parse_loop f s1 ln1); cbn [bind]; auto.
  - cbn [post] in Hc. destruct (cl =? cls_eof)%N; [exact I|exact Hc].
Qed.
End Inv.

(* every TokenRequired of the .bst parser names a line of the text, for every text *)
Lemma bst_token_required_line text l :
  BstParser.parse_text text = PyErr BstParser.cls_token_required l ->
  (1 <= l <= Z.of_nat (length (splitlines true text)))%Z.
Proof.
  intros H. unfold BstParser.parse_text in H.
  assert (HI : Inv text text 1%Z).
  { split; [lia|]. split; [exists []; reflexivity|lia]. }
  pose proof (parse_loop_inv text (S (length text)) text 1%Z HI) as Hl.
  rewrite H in Hl. exact (Hl eq_refl).
Qed.
