(* Proofs/BstShort.v -- malformed source, short argument list: a command followed by fewer groups
   than its arity is rejected (bst.py after fix 135237f) -- TokenRequired on the line of the token
   that stands where the next group should open, PrematureEOF at the end of the text. *)
From Pybtex Require Import Base.Prelude Base.PyChar Base.PyStr Model.BstParser Spec.BstPrint
  Proofs.BstLex Proofs.BstRoundtrip Proofs.BstErrors.
Local Open Scope N_scope.

Lemma required_lbrace_eof g ln : all_space g ->
  required [P_LBRACE] false g ln = PyErr cls_premature (ln + nl_count g)%Z.
Proof.
  intros Hg. unfold required, get_token.
  replace g with (g ++ []) at 1 by apply app_nil_r.
  rewrite eat_whitespace_gap; [reflexivity|exact Hg|exact I].
Qed.

Lemma required_lbrace_other g x r ln : all_space g -> is_space x = false -> (x =? c_lbrace) = false ->
  required [P_LBRACE] false (g ++ x :: r) ln = PyErr cls_token_required (ln + nl_count g)%Z.
Proof.
  intros Hg Hx Hb. unfold required, get_token.
  rewrite eat_whitespace_gap; [|exact Hg|exact Hx].
  cbn [first_match match_pat]. rewrite Hb. reflexivity.
Qed.

Lemma parse_args_split fuel : forall k m s ln gs s' ln' c l,
  parse_args fuel k s ln = Ok (gs, (s', ln')) -> required [P_LBRACE] false s' ln' = PyErr c l ->
  parse_args fuel (k + S m) s ln = PyErr c l.
Proof.
  induction k as [|k IH]; intros m s ln gs s' ln' c l; cbn [parse_args Nat.add].
  - intros H Hr. injection H as _ <- <-. rewrite Hr. reflexivity.
  - destruct (required [P_LBRACE] false s ln) as [[[p v] [s1 ln1]]|c0 l0| |]; cbn [bind]; try discriminate.
    destruct (parse_group fuel s1 ln1) as [[grp [s2 ln2]]|c0 l0| |]; cbn [bind]; try discriminate.
    destruct (parse_args fuel k s2 ln2) as [[gs2 [s3 ln3]]|c0 l0| |] eqn:E; cbn [bind fst snd]; try discriminate.
    intros H Hr. injection H as _ <- <-. rewrite (IH m _ _ _ _ _ _ _ E Hr). reflexivity.
Qed.

Lemma ltok_head_not_lbrace t : wf_ltok t -> t <> LL ->
  exists x r, ltok_text t = x :: r /\ is_space x = false /\ (x =? c_lbrace) = false.
Proof.
  destruct t as [s|s|z| |]; cbn [wf_ltok ltok_text]; intros Hwf Hne.
  - destruct Hwf as [Hn Hall]. destruct s as [|x s]; [congruence|]. exists x, s. split; [reflexivity|].
    cbn [forallb] in Hall. apply andb_prop in Hall as [Hx _]. split; [now apply name_char_not_space|].
    unfold is_name_char in Hx. apply negb_true_iff in Hx.
    repeat (apply orb_false_iff in Hx; destruct Hx as [Hx ?]). assumption.
  - eexists _, _. split; [reflexivity|]. split; reflexivity.
  - unfold int_text. eexists _, _. split; [reflexivity|]. split; reflexivity.
  - congruence.
  - eexists _, _. split; [reflexivity|]. split; reflexivity.
Qed.

Definition short_rest_ok (rest : list ltok) : Prop :=
  match rest with [] => True | t :: _ => wf_ltok t /\ t <> LL end.
Definition short_cls (rest : list ltok) : N :=
  match rest with [] => cls_premature | _ => cls_token_required end.

Theorem short_arguments_rejected : forall name groups rest gs n,
  wf_nameb name = true -> arity name = Some n -> (length groups < n)%nat ->
  forallb (forallb wf_tokb) groups = true -> short_rest_ok rest ->
  layout_okb None gs (LName name :: flat_map flat_group groups ++ rest) = true ->
  no_cr (weave gs (LName name :: flat_map flat_group groups ++ rest)) = true ->
  exists pre post,
    weave gs (LName name :: flat_map flat_group groups ++ rest) = pre ++ post /\
    parse_text (weave gs (LName name :: flat_map flat_group groups ++ rest)) = PyErr (short_cls rest) (1 + lf pre)%Z /\
    match rest with [] => post = [] | t :: _ => exists post', post = ltok_text t ++ post' end.
Proof.
  intros name groups rest gs n Hname Har Hlen Hwf Hrest Hlay Hcr.
  pose proof (wf_nameb_wf _ Hname) as Hn.
  rewrite weave_cons in *. cbn [ltok_text] in *.
  set (g0 := gap_hd gs) in *. set (s1 := weave (tl gs) (flat_map flat_group groups ++ rest)) in *.
  apply layout_cons in Hlay as (Hsp0 & _ & Hlay1).
  pose proof (boundary_from_layout (LName name) _ _ Hlay1) as Hb. cbn [boundary_ok] in Hb. fold s1 in Hb.
  (* the groups that are there *)
  destruct (parse_args_groups groups Hwf (tl gs) rest (Some (LName name)) (S (length (g0 ++ name ++ s1)))
              (tline 1 g0 (LName name)) Hlay1) as (gs' & prev' & ln' & Hpa & Hlay' & _).
  { fold s1. rewrite !app_length. lia. }
  fold s1 in Hpa.
  (* hypotheses about s1 *)
  destruct (no_cr_app _ _ Hcr) as [Hcr0 Hcr1']. destruct (no_cr_app _ _ Hcr1') as [_ Hcr1].
  assert (Hlfname : lf name = 0%Z).
  { destruct Hn as [_ Hall]. apply (plain_facts name (forallb_impl _ _ _ name_char_plain Hall)). }
  (* the line after the groups *)
  assert (Htl : tline 1 g0 (LName name) = (1 + lf g0)%Z).
  { unfold tline. cbn [ltok_text]. rewrite (nl_count_name name (proj2 Hn)), (nl_count_nocr g0 Hcr0). lia. }
  pose proof (parse_args_inv (S (length (g0 ++ name ++ s1))) (length groups) s1 (tline 1 g0 (LName name)) Hcr1) as Hinv.
  rewrite Hpa in Hinv. cbn [inv_result0] in Hinv.
  assert (Hk : exists k, s1 = k ++ weave gs' rest /\ ln' = (1 + lf g0 + lf k)%Z).
  { destruct Hinv as [(H1 & H2)|(k & H1 & _ & H2)].
    - exists []. split; [now rewrite H1|]. rewrite H2, Htl. unfold lf. cbn. lia.
    - exists k. rewrite <- Htl. auto. }
  destruct Hk as (k & Hs1 & Hln').
  (* the missing group *)
  destruct (Nat.le_exists_sub (S (length groups)) n Hlen) as (m & Hm & _).
  assert (Hn' : n = (length groups + S m)%nat) by lia.
  assert (Hfail : exists g post, weave gs' rest = g ++ post /\ all_space g /\
            required [P_LBRACE] false (weave gs' rest) ln' = PyErr (short_cls rest) (ln' + nl_count g)%Z /\
            match rest with [] => post = [] | t :: _ => exists post', post = ltok_text t ++ post' end).
  { destruct rest as [|t rest'].
    - cbn [weave layout_okb] in *. exists (match gs' with [] => [] | g :: _ => g end), [].
      split; [now rewrite app_nil_r|]. split; [exact Hlay'|]. split; [|reflexivity].
      apply required_lbrace_eof. exact Hlay'.
    - destruct Hrest as [Hwt Hne]. rewrite weave_cons. apply layout_cons in Hlay' as (Hsp & _ & _).
      destruct (ltok_head_not_lbrace t Hwt Hne) as (x & r & Htxt & Hx & Hbr).
      exists (gap_hd gs'), (ltok_text t ++ weave (tl gs') rest'). split; [reflexivity|]. split; [exact Hsp|].
      split; [|eexists; reflexivity]. rewrite Htxt. cbn [app]. now apply required_lbrace_other. }
  destruct Hfail as (g & post & Hw & Hg & Hreq & Hpost).
  exists (g0 ++ name ++ k ++ g), post. split.
  { rewrite Hs1, Hw, <- !app_assoc. reflexivity. }
  split; [|exact Hpost].
  assert (Hcrg : no_cr g = true).
  { rewrite Hs1, Hw in Hcr1. apply no_cr_app in Hcr1 as [_ H]. now apply no_cr_app in H as [H _]. }
  rewrite (nl_count_nocr g Hcrg) in Hreq.
  unfold parse_text. cbn [parse_loop]. unfold parse_command.
  rewrite (required_name g0 name s1 1%Z Hsp0 Hn Hb). cbn [bind]. rewrite Har, Hn'.
  rewrite (parse_args_split _ _ m _ _ _ _ _ _ _ Hpa Hreq). cbn [bind].
  assert (Hc : (short_cls rest =? cls_eof) = false) by (destruct rest; reflexivity).
  rewrite Hc. f_equal. rewrite !lf_app, Hlfname, Hln'. lia.
Qed.
