(* Proofs/WritersTokens.v -- person_parts_roundtrip for arbitrary (braced, special-character) tokens, through the
   C04 builder's tokenizer specification (Props/C04.v tokenizer_spec_all: split_tex_string = map strip . spec_tokens). *)
From Pybtex Require Import Base.Prelude Base.PyChar Base.PyStr Model.BibtexStr Model.Names Model.Scanner Model.BibParser Model.Writers
  Spec.Names Proofs.NamesTok Proofs.WritersTree Proofs.WritersPerson.
Local Open Scope N_scope.

(* a token as the one-pass tokenizer sees it from depth d with "previous character was a backslash" = pb: no
   character of it separates at brace level 0 -- whitespace, an unescaped tie, a backslash before a space (the
   character after the token's last one is taken to be a space: the joining space) *)
Fixpoint nosep (t : str) (d : nat) (pb : bool) : bool :=
  match t with
  | [] => true
  | c :: t' =>
    negb (Nat.eqb d 0 && is_sep_at pb c (match t' with [] => Some c_space | x :: _ => Some x end))
    && nosep t' (bl_step d c) (c =? c_bslash)
  end.
Definition good_tok (t : str) : Prop :=
  t <> [] /\ nosep t 0 false = true /\ closed t /\ strip t = t /\ last t 0 <> c_bslash.

Lemma is_sep_none pb c : is_sep_at pb c (Some c_space) = false -> is_sep_at pb c None = false.
Proof.
  unfold is_sep_at. intros H. apply orb_false_iff in H as [H1 H2]. rewrite H1. cbn [orb]. now rewrite andb_false_r.
Qed.

Definition good_tok' (t : str) : Prop := t <> [] /\ nosep t 0 false = true /\ closed t /\ strip t = t.

Lemma spec_tok_tokens : forall ts, Forall good_tok' ts -> forall t d pb cur,
  nosep t d pb = true -> fold_left bl_step t d = 0%nat -> rev cur ++ t <> [] ->
  spec_tok (t ++ sepjoin ts) d pb cur = (rev cur ++ t) :: ts.
Proof.
  induction ts as [|u us IHts]; intros Hts t.
  - induction t as [|c t' IHt]; intros d pb cur Hn Hd Hne.
    + cbn [app sepjoin flat_map spec_tok]. rewrite app_nil_r in *. unfold flush. destruct cur as [|x cur']; [cbn in Hne; congruence|reflexivity].
    + cbn [nosep] in Hn. apply andb_prop in Hn as [Hc Hn]. apply negb_true_iff in Hc. cbn [fold_left] in Hd.
      cbn [app spec_tok].
      assert (E : (Nat.eqb d 0 && is_sep_at pb c (hd_error (t' ++ sepjoin []))) = false).
      { destruct t' as [|x t'']; [|exact Hc]. cbn [app sepjoin flat_map hd_error].
        destruct (Nat.eqb d 0); [|reflexivity]. cbn [andb] in *. now apply is_sep_none. }
      rewrite E. rewrite (IHt _ _ (c :: cur) Hn Hd); [|cbn [rev]; rewrite <- app_assoc; destruct (rev cur); discriminate].
      cbn [rev]. now rewrite <- app_assoc.
  - inversion Hts as [|? ? (Hune & Hun & Hucl & _) Hus]; subst.
    induction t as [|c t' IHt]; intros d pb cur Hn Hd Hne.
    + cbn [fold_left] in Hd. subst d. cbn [app sepjoin flat_map spec_tok]. fold (sepjoin us).
      assert (E : (Nat.eqb 0 0 && is_sep_at pb c_space (hd_error (u ++ sepjoin us))) = true) by reflexivity.
      rewrite E. change (c_space =? c_bslash) with false.
      rewrite (IHts Hus u 0%nat false [] Hun Hucl); [|cbn; exact Hune].
      unfold flush. rewrite app_nil_r in *. destruct cur as [|x cur']; [cbn in Hne; congruence|reflexivity].
    + cbn [nosep] in Hn. apply andb_prop in Hn as [Hc Hn]. apply negb_true_iff in Hc. cbn [fold_left] in Hd.
      cbn [app spec_tok].
      assert (E : (Nat.eqb d 0 && is_sep_at pb c (hd_error (t' ++ sepjoin (u :: us)))) = false).
      { destruct t' as [|x t'']; [|exact Hc]. exact Hc. }
      rewrite E. rewrite (IHt _ _ (c :: cur) Hn Hd); [|cbn [rev]; rewrite <- app_assoc; destruct (rev cur); discriminate].
      cbn [rev]. now rewrite <- app_assoc.
Qed.

Lemma spec_tokens_text ts : Forall good_tok' ts -> spec_tokens (part_text ts) = ts.
Proof.
  intros H. destruct ts as [|t r]; [reflexivity|]. inversion H as [|? ? (Hne & Hn & Hcl & _) Hr]; subst.
  unfold part_text. rewrite join_sepjoin. unfold spec_tokens.
  now rewrite (spec_tok_tokens r Hr t 0%nat false [] Hn Hcl Hne).
Qed.

Lemma split_space_good ts : Forall good_tok' ts -> split_tex_space (part_text ts) = Ok ts.
Proof.
  intros H. rewrite tokenizer_spec_all_pf, spec_tokens_text by exact H. f_equal.
  induction H as [|t r (_ & _ & _ & Hs) _ IH]; [reflexivity|]. cbn. now rewrite Hs, IH.
Qed.

Definition good_person (p : person) : Prop :=
  Forall good_tok' (p_first p) /\ Forall good_tok' (p_middle p) /\ Forall good_tok' (p_prelast p) /\
  Forall good_tok' (p_last p) /\ Forall good_tok' (p_lineage p).

Lemma person_parts_roundtrip_pf p : good_person p -> reparse_person p = Ok p.
Proof.
  intros (H1 & H2 & H3 & H4 & H5). unfold reparse_person, person_of_parts, person_init.
  change (strip []) with ([] : str). cbn [bind].
  rewrite !split_space_good by assumption. cbn. now destruct p.
Qed.

(* braces, special characters, ties inside braces, escaped ties: all good tokens *)
Definition braced_person : person :=
  mkPerson [[123; 92; 34; 79; 125; 122]] [[123; 65; 32; 66; 125]; [97; 92; 126; 98]] [[100; 123; 126; 125]] [[123; 66; 32; 97; 110; 100; 32; 78; 125]] [].
Lemma braced_person_good : good_person braced_person.
Proof. repeat split; repeat constructor; try discriminate; try (vm_compute; reflexivity). Qed.
