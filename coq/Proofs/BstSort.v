(* Proofs/BstSort.v -- SORT: a stable sort of the citation list by sort.key$ *)
From Pybtex Require Import Base.Prelude Base.PyChar Base.PyStr Model.BibtexStr Model.Wrap Model.Bst.
From Coq Require Import Permutation Sorted RelationClasses.

(* ---- the order on strings (Python's <: lexicographic on code points) *)
Lemma str_ltb_irrefl a : str_ltb a a = false.
Proof.
  induction a as [|x a IH]; cbn; [reflexivity|].
  rewrite N.ltb_irrefl, N.eqb_refl. exact IH.
Qed.

Lemma str_ltb_asym a : forall b, str_ltb a b = true -> str_ltb b a = false.
Proof.
  induction a as [|x a IH]; intros [|y b]; cbn; try congruence.
  destruct (N.ltb_spec x y) as [L|L]; destruct (N.ltb_spec y x) as [L2|L2]; try lia; intros H.
  - destruct (N.eqb_spec y x); [lia|reflexivity].
  - destruct (N.eqb_spec x y); [lia|discriminate].
  - destruct (N.eqb_spec x y) as [->|N]; [|discriminate].
    rewrite N.eqb_refl. apply IH. exact H.
Qed.

Lemma str_ltb_cotrans c : forall a b, str_ltb c a = true -> str_ltb c b = true \/ str_ltb b a = true.
Proof.
  induction c as [|z c IH]; intros [|x a] [|y b]; cbn; try congruence; auto.
  destruct (N.ltb_spec z x) as [L1|L1].
  - intros _. destruct (N.ltb_spec z y) as [L2|L2]; [left; reflexivity|].
    destruct (N.ltb_spec y x) as [L3|L3]; [right; reflexivity|]. lia.
  - destruct (N.eqb_spec z x) as [->|N1]; [|discriminate]. intros H.
    destruct (N.ltb_spec x y) as [L2|L2]; [left; reflexivity|].
    destruct (N.ltb_spec y x) as [L3|L3]; [right; reflexivity|].
    assert (y = x) by lia. subst y. rewrite N.eqb_refl. apply IH. exact H.
Qed.

Lemma str_leb_refl a : str_leb a a = true.
Proof. unfold str_leb. rewrite str_ltb_irrefl. reflexivity. Qed.
Lemma str_leb_total a b : str_leb a b = false -> str_leb b a = true.
Proof.
  unfold str_leb. intros H. apply negb_false_iff in H. rewrite (str_ltb_asym _ _ H). reflexivity.
Qed.
Lemma str_leb_trans a b c : str_leb a b = true -> str_leb b c = true -> str_leb a c = true.
Proof.
  unfold str_leb. intros H1 H2. apply negb_true_iff in H1, H2. apply negb_true_iff.
  destruct (str_ltb c a) eqn:E; [|reflexivity].
  destruct (str_ltb_cotrans _ _ b E); congruence.
Qed.
Lemma str_leb_antisym a : forall b, str_leb a b = true -> str_leb b a = true -> a = b.
Proof.
  unfold str_leb. induction a as [|x a IH]; intros [|y b]; cbn; try congruence.
  destruct (N.ltb_spec y x); cbn; [congruence|].
  destruct (N.ltb_spec x y); cbn; [congruence|].
  assert (x = y) by lia. subst y. rewrite N.eqb_refl. intros H1 H2. f_equal. apply IH; assumption.
Qed.

(* ---- insertion sort on (key, citation) pairs *)
Definition key_le (a b : str * str) : Prop := str_leb (fst a) (fst b) = true.
Definition has_key (k : str) (e : str * str) : bool := str_eqb (fst e) k.

#[global] Instance key_le_trans : Transitive key_le.
Proof. intros a b c. unfold key_le. apply str_leb_trans. Qed.

Lemma insert_perm x l : Permutation (x :: l) (insert_sorted x l).
Proof.
  induction l as [|y l IH]; cbn; [reflexivity|].
  destruct (str_leb (fst x) (fst y)); [reflexivity|].
  rewrite perm_swap. apply perm_skip. exact IH.
Qed.

Lemma stable_sort_perm l : Permutation l (stable_sort l).
Proof.
  induction l as [|x l IH]; [reflexivity|].
  change (stable_sort (x :: l)) with (insert_sorted x (stable_sort l)).
  rewrite <- insert_perm. apply perm_skip. exact IH.
Qed.

Lemma insert_hdrel a x l : HdRel key_le a l -> key_le a x -> HdRel key_le a (insert_sorted x l).
Proof.
  intros H Hax. destruct l as [|y l]; cbn; [constructor; exact Hax|].
  destruct (str_leb (fst x) (fst y)); constructor; [exact Hax|].
  inversion H; assumption.
Qed.

Lemma insert_sorted_Sorted x l : Sorted key_le l -> Sorted key_le (insert_sorted x l).
Proof.
  induction 1 as [|y l Hs IH Hd]; cbn; [repeat constructor|].
  destruct (str_leb (fst x) (fst y)) eqn:E.
  - constructor; [constructor; assumption|constructor; exact E].
  - constructor; [exact IH|]. apply insert_hdrel; [exact Hd|]. apply str_leb_total. exact E.
Qed.

Lemma stable_sort_Sorted l : Sorted key_le (stable_sort l).
Proof.
  induction l as [|x l IH]; [constructor|].
  change (stable_sort (x :: l)) with (insert_sorted x (stable_sort l)).
  apply insert_sorted_Sorted. exact IH.
Qed.

Lemma stable_sort_StronglySorted l : StronglySorted key_le (stable_sort l).
Proof. apply Sorted_StronglySorted; [exact key_le_trans|apply stable_sort_Sorted]. Qed.

(* stability: among equal keys the original order survives *)
Lemma insert_filter k x l :
  filter (has_key k) (insert_sorted x l) =
  if has_key k x then x :: filter (has_key k) l else filter (has_key k) l.
Proof.
  induction l as [|y l IH]; cbn; [reflexivity|].
  destruct (str_leb (fst x) (fst y)) eqn:E; cbn; [reflexivity|].
  rewrite IH. destruct (has_key k y) eqn:Hy; [|reflexivity].
  destruct (has_key k x) eqn:Hx; [|reflexivity].
  unfold has_key in Hx, Hy.
  destruct (str_eqb_spec (fst y) k) as [Ey|]; [|discriminate].
  destruct (str_eqb_spec (fst x) k) as [Ex|]; [|discriminate].
  rewrite Ex, Ey, str_leb_refl in E. discriminate.
Qed.

Lemma stable_sort_stable k l : filter (has_key k) (stable_sort l) = filter (has_key k) l.
Proof.
  induction l as [|x l IH]; [reflexivity|].
  change (stable_sort (x :: l)) with (insert_sorted x (stable_sort l)).
  rewrite insert_filter, IH. reflexivity.
Qed.

(* ---- the SORT command *)
Section Sort.
  Variable fmt_name : str -> str -> res str.
  Variable cw : char -> Z.

  (* the sort key of a citation: the string sort.key$ holds in its frame *)
  Definition key_of (st : state) (c : str) : option str :=
    match alookup str_eqb nm_sort_key_ (frame st c) with
    | Some v => as_str v
    | None => None
    end.

  Lemma sort_keys_spec st : forall cites,
    (forall c, In c cites -> key_of st c <> None) ->
    exists ks, sort_keys st cites = Ok ks /\ map snd ks = cites /\
               Forall (fun p => key_of st (snd p) = Some (fst p)) ks.
  Proof.
    induction cites as [|c cites IH]; intros H.
    - exists []. repeat split. constructor.
    - destruct IH as (ks & E & M & F). { intros c' Hc'. apply H. right. exact Hc'. }
      assert (Hc := H c (or_introl eq_refl)). unfold key_of in Hc.
      cbn [sort_keys].
      destruct (alookup str_eqb nm_sort_key_ (frame st c)) as [v|] eqn:Ev; [|congruence].
      destruct (as_str v) as [s|] eqn:Es; [|congruence].
      rewrite E. cbn. exists ((s, c) :: ks). repeat split; [cbn; congruence|].
      constructor; [|exact F]. cbn. unfold key_of. rewrite Ev. exact Es.
  Qed.

  Lemma sort_stable_permutation fuel st :
    (forall c, In c (st_cites st) -> key_of st c <> None) ->
    exists ks st',
      map snd ks = st_cites st /\ Forall (fun p => key_of st (snd p) = Some (fst p)) ks /\
      run_command fmt_name cw fuel st (Cmd nm_sort []) = Ok st' /\
      st' = set_cites st (map snd (stable_sort ks)) /\
      Permutation ks (stable_sort ks) /\
      StronglySorted key_le (stable_sort ks) /\
      (forall k, filter (has_key k) (stable_sort ks) = filter (has_key k) ks) /\
      Permutation (st_cites st) (st_cites st').
  Proof.
    intros H. destruct (sort_keys_spec st (st_cites st) H) as (ks & E & M & F).
    exists ks, (set_cites st (map snd (stable_sort ks))). repeat split; auto.
    - unfold run_command. cbn -[sort_keys stable_sort]. rewrite E. reflexivity.
    - apply stable_sort_perm.
    - apply stable_sort_StronglySorted.
    - intros k. apply stable_sort_stable.
    - cbn. rewrite <- M. apply Permutation_map. apply stable_sort_perm.
  Qed.

  (* SORT without a sort key for some citation: Python's KeyError *)
  Lemma sort_unset_key_crashes fuel st c rest :
    st_cites st = c :: rest -> alookup str_eqb nm_sort_key_ (frame st c) = None ->
    run_command fmt_name cw fuel st (Cmd nm_sort []) = Crash.
  Proof.
    intros Hc Hk. unfold run_command. cbn -[sort_keys stable_sort]. rewrite Hc. cbn [sort_keys].
    rewrite Hk. reflexivity.
  Qed.
End Sort.
