(* Proofs/WritersBibP.v -- the BibTeX file-level round trip for databases WITH persons (plain-token names): the writer
   writes a role as one more field whose value is the " and "-joined formatted names; the reader cuts it back with
   split_name_list and parses every name (C02).  Extends Proofs/WritersBib.v; BibFile.v is reused unchanged. *)
From Pybtex Require Import Base.Prelude Base.PyChar Base.PyStr Model.BibtexStr Model.Names Model.Scanner Model.BibParser Model.Writers
  Proofs.Scanner Proofs.CharFacts Proofs.BibValues Proofs.BibEntry Proofs.BibFile
  Proofs.WritersDict Proofs.WritersTree Proofs.WritersQuote Proofs.WritersField Proofs.WritersName Proofs.WritersNameList Proofs.WritersBib.
Local Open Scope N_scope.

(* the fields as written: one field per role (value: the joined names), then the fields *)
Definition role_fields (e : wentry) : list (str * str) := map (fun rp => (fst rp, names_text (snd rp))) (we_persons e).
Definition pf (e : wentry) : list (str * str) := role_fields e ++ we_fields e.
Definition flat (e : wentry) : wentry := mkWE (we_key e) (we_otype e) (pf e) [].

(* ---- reader: persons_of and process_fields, any mode, nothing reported *)
Lemma persons_of_names m : forall ps acc s, Forall name_okx ps ->
  persons_of m (map format_name ps) acc s = Ret (acc ++ ps) s.
Proof.
  induction ps as [|p ps IH]; intros acc s H; cbn [map persons_of]; [now rewrite app_nil_r|].
  inversion H as [|? ? [_ Hp] Hps]; subst. rewrite Hp. cbn [obind].
  rewrite IH by exact Hps. now rewrite <- app_assoc.
Qed.

Definition role_ok (rp : str * list person) : Prop :=
  is_person_field (lower (fst rp)) = true /\ snd rp <> [] /\ Forall name_okx (snd rp) /\
  normalize_whitespace (names_text (snd rp)) = names_text (snd rp).

Lemma process_fields_roles m : forall R seen fs ps s rest,
  Forall role_ok R -> NoDup (map (fun rp => lower (fst rp)) R) ->
  (forall rp, In rp R -> ~ In (lower (fst rp)) seen) ->
  process_fields m (map (fun rp => (fst rp, [names_text (snd rp)])) R ++ rest) seen fs ps s =
  process_fields m rest (seen ++ map (fun rp => lower (fst rp)) R) fs (ps ++ R) s.
Proof.
  induction R as [|[r pl] R IH]; intros seen fs ps s rest Hok Hnd Hfr; cbn [map app].
  - now rewrite !app_nil_r.
  - inversion Hok as [|? ? (Hrole & Hne & Hnames & Hnorm) Hok']; subst. cbn [fst snd] in *.
    inversion Hnd as [|? ? Hn1 Hn2]; subst.
    cbn [process_fields].
    assert (E : existsb (str_eqb (lower r)) seen = false).
    { destruct (existsb (str_eqb (lower r)) seen) eqn:E; [|reflexivity]. exfalso.
      apply existsb_str_in in E. apply (Hfr (r, pl) (or_introl eq_refl)). exact E. }
    rewrite E, Hrole. cbn [concat]. rewrite app_nil_r, Hnorm.
    rewrite (split_name_list_namesx pl Hne Hnames). rewrite (persons_of_names m pl [] s Hnames). cbn [obind app].
    destruct pl as [|p0 pl']; [congruence|].
    rewrite IH; auto.
    + rewrite <- !app_assoc. reflexivity.
    + intros rp Hin Hin2. apply in_app_or in Hin2 as [Hin2|[Hin2|[]]].
      * apply (Hfr rp (or_intror Hin)). exact Hin2.
      * apply Hn1. rewrite Hin2. apply (in_map (fun rp => lower (fst rp)) R rp Hin).
Qed.

Section EncP.
  Variable enc : str -> str.

  (* what writing and tokenising need of a field: a NAME, a balanced value the encoder leaves alone *)
  Definition wok_field (kv : str * str) : Prop := is_name (fst kv) = true /\ balanced (snd kv) /\ enc (snd kv) = snd kv.

  Definition bibp_ok_entry (e : wentry) : Prop :=
    is_entry_type (we_otype e) = true /\ is_key true (we_key e) = true /\ wf_entry e /\
    Forall (bib_ok_field enc) (we_fields e) /\ Forall role_ok (we_persons e) /\ Forall wok_field (role_fields e).

  Lemma pf_wok e : bibp_ok_entry e -> Forall wok_field (pf e).
  Proof.
    intros (_ & _ & _ & Hf & _ & Hr). unfold pf. apply Forall_app. split; [exact Hr|].
    eapply Forall_impl; [|exact Hf]. intros kv (A & _ & B & _ & C). repeat split; assumption.
  Qed.

  Lemma sfs_wf' macros fs : Forall wok_field fs -> Forall (wf_sfield macros) (sfs fs).
  Proof.
    induction 1 as [|kv r (Hn & Hb & _) Hr IH]; [constructor|].
    assert (W : forall b, wf_sfield macros (sf_of b kv)).
    { intros b. unfold sf_of, wf_sfield. repeat split; auto; try discriminate.
      constructor; [|constructor]. cbn. repeat split; [now destruct b|]. now apply wf_body_balanced. }
    cbn [sfs]. destruct r; constructor; auto.
  Qed.

  Lemma sfs_raw macros fs : map (field_result macros) (sfs fs) = map (fun kv => (fst kv, [snd kv])) fs.
  Proof.
    induction fs as [|kv r IH]; [reflexivity|]. cbn [sfs]. destruct r as [|kv2 r']; [reflexivity|].
    cbn [map] in *. f_equal. exact IH.
  Qed.

  Lemma ientry_wf' macros e : is_entry_type (we_otype e) = true -> is_key true (we_key e) = true -> we_persons e = [] ->
    Forall wok_field (we_fields e) -> wf_item macros (ientry e).
  Proof.
    intros Ht Hk _ Hf. unfold ientry. destruct (we_fields e) as [|kv r] eqn:E; cbn [wf_item]; unfold sp.
    - repeat split; auto.
    - repeat split; auto; try discriminate. apply sfs_wf'. exact Hf.
  Qed.

  Lemma write_field_text' kv : wok_field kv ->
    write_field enc (fst kv) (snd kv) = Ok (c_comma :: render_sfield (sf_of false kv)).
  Proof.
    intros (_ & Hb & He). unfold write_field. rewrite He.
    destruct (quote_total_pf (snd kv) Hb) as (q & Q). rewrite Q. cbn [bind].
    apply quote_as_dpart in Q. subst q.
    unfold sf_of, render_sfield. cbn [render_gparts render_gpart BibValues.part_text s_field_sep s_eq app].
    repeat (rewrite <- ?app_assoc; cbn [app]). rewrite ?app_nil_r. repeat (rewrite <- ?app_assoc; cbn [app]). reflexivity.
  Qed.

  Lemma write_fields_text' fs : Forall wok_field fs ->
    concat_res (map (fun kv => write_field enc (fst kv) (snd kv)) fs) = Ok (wtext fs).
  Proof.
    induction 1 as [|kv r Hkv _ IH]; [reflexivity|]. cbn [map concat_res wtext].
    rewrite (write_field_text' kv Hkv), IH. cbn [bind app]. reflexivity.
  Qed.

  Lemma concat_res_app a b x y : concat_res a = Ok x -> concat_res b = Ok y -> concat_res (a ++ b) = Ok (x ++ y).
  Proof.
    revert x. induction a as [|r a IH]; intros x Ha Hb; cbn [app concat_res] in *.
    - inversion Ha; subst. exact Hb.
    - destruct r as [ra| | |]; cbn [bind] in *; try discriminate.
      destruct (concat_res a) as [xa| | |] eqn:E; cbn [bind] in *; try discriminate. inversion Ha; subst.
      rewrite (IH xa eq_refl Hb). cbn [bind]. now rewrite app_assoc.
  Qed.

  (* the writer does not distinguish a role from a field: an entry with persons is written as its flattened form *)
  Lemma write_entry_flat b e : bibp_ok_entry e -> exists a, write_entry enc b e = Ok a /\ write_entry enc b (flat e) = Ok a.
  Proof.
    intros H. pose proof (pf_wok e H) as Hpf. destruct H as (_ & _ & _ & Hf & Hr & Hrf).
    assert (P : concat_res (map (fun rp => write_persons enc (fst rp) (snd rp)) (we_persons e)) = Ok (wtext (role_fields e))).
    { rewrite <- (write_fields_text' (role_fields e) Hrf). unfold role_fields. rewrite map_map. f_equal.
      apply map_ext_in. intros [r pl] Hin. rewrite Forall_forall in Hr. destruct (Hr _ Hin) as (_ & Hne & _).
      cbn [fst snd] in *. destruct pl; [congruence|reflexivity]. }
    assert (F : concat_res (map (fun kv => write_field enc (fst kv) (snd kv)) (we_fields e)) = Ok (wtext (we_fields e))).
    { apply write_fields_text'. eapply Forall_impl; [|exact Hf]. intros kv (A & _ & B & _ & C). repeat split; assumption. }
    unfold write_entry. rewrite P, F. cbn [bind flat we_persons we_fields we_key we_otype map concat_res].
    rewrite (write_fields_text' (pf e) Hpf). cbn [bind]. eexists. split; [reflexivity|].
    f_equal. unfold pf. assert (WA : forall a b, wtext (a ++ b) = wtext a ++ wtext b).
    { clear. induction a as [|kv a IH]; intros b; [reflexivity|]. cbn [app wtext]. now rewrite IH, <- app_assoc. }
    rewrite WA. repeat (rewrite <- ?app_assoc; cbn [app]). reflexivity.
  Qed.
End EncP.

Section EncP2.
  Variable enc : str -> str.

  Lemma write_entry_text' b e X : we_persons e = [] -> Forall (wok_field enc) (we_fields e) ->
    exists a, write_entry enc b e = Ok a /\
      a ++ X = (if b then [] else [10]) ++ c_at :: item_text (ientry e) (10 :: X).
  Proof.
    intros Hp Hf. unfold write_entry. rewrite Hp. cbn [map concat_res bind].
    rewrite (write_fields_text' enc _ Hf). cbn [bind]. eexists. split; [reflexivity|].
    unfold ientry. destruct (we_fields e) as [|kv r] eqn:E; cbn [item_text wtext]; unfold entry_text_gen, after_key, op_char, cl_char.
    - destruct b; repeat (rewrite <- ?app_assoc; cbn [app]); reflexivity.
    - rewrite <- (wtext_fields (kv :: r) (10 :: X)) by discriminate. cbn [wtext].
      destruct b; repeat (rewrite <- ?app_assoc; cbn [app]); reflexivity.
  Qed.

  Lemma write_entries_text' : forall es b, Forall (bibp_ok_entry enc) es ->
    write_entries enc b es = Ok ((if b then [] else match es with [] => [] | _ => [10] end) ++ etext (map flat es)).
  Proof.
    induction es as [|e r IH]; intros b H; [destruct b; reflexivity|]. inversion H; subst.
    cbn [write_entries map]. rewrite (IH false) by assumption.
    destruct (write_entry_flat enc b e H2) as (a0 & Ea0 & Ef).
    destruct (write_entry_text' b (flat e) (match map flat r with [] => [] | _ => 10 :: etext (map flat r) end) eq_refl (pf_wok enc e H2))
      as (a & Ea & Ha).
    rewrite Ea0. rewrite Ef in Ea. inversion Ea; subst a0. cbn [bind]. f_equal. cbn [etext].
    destruct r as [|e2 r']; destruct b; cbn [app etext map] in *; rewrite ?app_nil_r in *; exact Ha.
  Qed.

  (* ---- reader: one entry with roles *)
  Definition rdp (e : wentry) : wentry :=
    mkWE (we_key e) (we_otype e) (map (fun kv => (fst kv, normalize_whitespace (snd kv))) (we_fields e)) (we_persons e).

  Lemma process_entry_persons m e d s : clean d s -> bibp_ok_entry enc e ->
    existsb (fun x => str_eqb (lower (en_key x)) (lower (we_key e))) (db_entries d) = false ->
    exists d', process m (CEntry (we_otype e) (Some (we_key e)) (map (fun kv => (fst kv, [snd kv])) (pf e))) d s = Ret d' s /\ clean d' s /\
      wdb_of_db d' = mkWDb (wd_entries (wdb_of_db d) ++ [rdp e]) (wd_preamble (wdb_of_db d)).
  Proof.
    intros [He Hm] (_ & _ & (Hnf & Hnp & _) & Hf & Hr & _) Hk. cbn [process]. unfold process_entry, pf, role_fields.
    rewrite map_app, map_map. cbn [fst snd].
    rewrite (process_fields_roles m (we_persons e) [] [] [] s _ Hr Hnp) by (intros rp _ []).
    cbn [app].
    rewrite (process_fields_fresh m _ _ [] (we_persons e) s).
    - cbn [obind fst snd app]. unfold add_entry. rewrite Hk, He, Hm. cbn [length Nat.ltb Nat.leb].
      eexists. split; [reflexivity|]. split; [split; [exact He|reflexivity]|].
      unfold wdb_of_db. cbn [db_entries db_preamble wd_entries wd_preamble]. rewrite map_app. cbn [map wentry_of_entry en_key en_otype en_fields en_persons].
      unfold rdp. rewrite map_map. f_equal. f_equal. f_equal. unfold wentry_of_entry. cbn [en_key en_otype en_fields en_persons]. f_equal.
      apply map_ext. intros [k v]. unfold field_value. cbn [fst snd concat]. now rewrite app_nil_r.
    - intros f Hin. apply in_map_iff in Hin as ([k v] & <- & Hin). cbn [fst]. rewrite Forall_forall in Hf. now destruct (Hf _ Hin) as (_ & Hp & _).
    - rewrite map_map. cbn [fst]. exact Hnf.
    - intros f Hin Hin2. apply in_map_iff in Hin as ([k v] & <- & Hin). cbn [fst] in Hin2.
      apply in_map_iff in Hin2 as ([r pl] & E & Hin2). cbn [fst] in E.
      rewrite Forall_forall in Hf, Hr. destruct (Hf _ Hin) as (_ & Hp & _). destruct (Hr _ Hin2) as (Hq & _). cbn [fst] in *. congruence.
  Qed.
End EncP2.

Section MainP.
  Variable enc : str -> str.

  Lemma ientry_flat_cmd macros e :
    item_cmd macros (ientry (flat e)) = Some (CEntry (we_otype e) (Some (we_key e)) (map (fun kv => (fst kv, [snd kv])) (pf e))) /\
    item_macros macros (ientry (flat e)) = macros.
  Proof.
    destruct (ientry_cmd macros (flat e)) as [A B]. split; [|exact B]. rewrite A. cbn [flat we_otype we_key we_fields].
    now rewrite sfs_raw.
  Qed.

  Lemma loop_entries_p m : forall es fuel d st ws,
    (length es < fuel)%nat -> Forall (bibp_ok_entry enc) es -> clean d st -> no_at ws ->
    NoDup (map (fun e => lower (en_key e)) (db_entries d) ++ map (fun e => lower (we_key e)) es) ->
    sc_rest (p_sc st) = ws ++ etext (map flat es) ->
    exists d' st', bib_loop process fuel m d st = Ret d' st' /\ clean d' st' /\
      wdb_of_db d' = mkWDb (wd_entries (wdb_of_db d) ++ map rdp es) (wd_preamble (wdb_of_db d)).
  Proof.
    induction es as [|e r IH]; intros fuel d st ws Hf Hok Hcl Hws Hnd Hr; (destruct fuel as [|fu]; [cbn in Hf; lia|]); cbn [bib_loop].
    - cbn [map etext] in Hr. rewrite app_nil_r in Hr. unfold skip_to. rewrite Hr, (find_first_all_false _ ws Hws).
      exists d, st. split; [reflexivity|]. split; [exact Hcl|]. cbn [map]. rewrite app_nil_r. now destruct (wdb_of_db d).
    - inversion Hok as [|? ? Hoe Hor]; subst.
      cbn [map etext] in Hr. unfold skip_to. rewrite Hr, (BibValues.find_first_app _ ws c_at _ Hws eq_refl).
      pose proof Hoe as (Ht & Hk & _ & _ & _ & _).
      match goal with |- context [parse_command m ?s1] =>
        destruct (item_reads m s1 (ientry (flat e)) _ (ientry_wf' enc _ (flat e) Ht Hk eq_refl (pf_wok enc e Hoe)) eq_refl) as (st2 & E & Hr2 & Her & Hma)
      end.
      rewrite E. cbn [p_macros p_errs set_cstart set_sc] in *.
      destruct (ientry_flat_cmd (p_macros st) e) as [Ec Em]. rewrite Ec.
      assert (Hcl2 : clean d st2) by (destruct Hcl as [H1 H2]; split; [rewrite Her; exact H1|exact H2]).
      assert (Hfresh : existsb (fun x => str_eqb (lower (en_key x)) (lower (we_key e))) (db_entries d) = false).
      { destruct (existsb _ (db_entries d)) eqn:EX; [|reflexivity]. exfalso.
        apply existsb_exists in EX as (x & Hx & Hxe). apply str_eqb_eq in Hxe.
        cbn [map] in Hnd. apply (NoDup_app_disj _ _ (lower (we_key e)) Hnd).
        - rewrite <- Hxe. apply (in_map (fun e => lower (en_key e)) _ _ Hx).
        - now left. }
      destruct (process_entry_persons enc m e d st2 Hcl2 Hoe Hfresh) as (d2 & Ep & Hcl3 & Hv).
      rewrite Ep. cbn [obind].
      destruct (IH fu d2 st2 (10 :: match map flat r with [] => [] | _ => [10] end)) as (d' & st' & E' & Hcl' & Hv'); auto.
      + cbn [length] in Hf. lia.
      + intros x Hx. destruct (map flat r); cbn in Hx; intuition (subst; reflexivity).
      + assert (En : map (fun e0 => lower (en_key e0)) (db_entries d2) = map (fun e0 => lower (en_key e0)) (db_entries d) ++ [lower (we_key e)]).
        { apply (f_equal wd_entries) in Hv. unfold wdb_of_db in Hv. cbn [wd_entries] in Hv.
          apply (f_equal (map (fun w => lower (we_key w)))) in Hv. rewrite !map_map, map_app, map_map in Hv. cbn in Hv. exact Hv. }
        rewrite En, <- app_assoc. exact Hnd.
      + rewrite Hr2. destruct (map flat r); reflexivity.
      + exists d', st'. split; [exact E'|]. split; [exact Hcl'|]. rewrite Hv', Hv. cbn [wd_entries wd_preamble map].
        rewrite <- app_assoc. reflexivity.
  Qed.

  (* the domain with persons *)
  Definition bibp_ok (d : wdb) : Prop :=
    NoDup (map (fun e => lower (we_key e)) (wd_entries d)) /\ Forall (bibp_ok_entry enc) (wd_entries d) /\
    (concat (wd_preamble d) = [] \/
     (balanced (concat (wd_preamble d)) /\ normalize_whitespace (concat (wd_preamble d)) = concat (wd_preamble d) /\
      encode_with_comments enc (concat (wd_preamble d)) = concat (wd_preamble d))).

  Lemma rdp_id e : bibp_ok_entry enc e -> rdp e = e.
  Proof.
    intros (_ & _ & _ & Hf & _ & _). unfold rdp. destruct e as [k t fs ps]. cbn in *. f_equal.
    induction Hf as [|[n v] r (_ & _ & _ & Hn & _) _ IH]; [reflexivity|]. cbn in *. now rewrite Hn, IH.
  Qed.
  Lemma map_rdp_id es : Forall (bibp_ok_entry enc) es -> map rdp es = es.
  Proof. induction 1 as [|e r He _ IH]; [reflexivity|]. cbn. now rewrite rdp_id, IH. Qed.

  Lemma etext_flat_len es : (length es <= length (etext (map flat es)))%nat.
  Proof. pose proof (etext_len (map flat es)). now rewrite map_length in H. Qed.

  Lemma entries_only_p es : Forall (bibp_ok_entry enc) es -> NoDup (map (fun e => lower (we_key e)) es) ->
    read_bibtex (etext (map flat es)) = Ok (mkWDb es []).
  Proof.
    intros Hok Hk. unfold read_bibtex, parse_bib.
    destruct (loop_entries_p Strict es (S (length (etext (map flat es)))) db_init
                (pst_init (etext (map flat es)) month_macros) []) as (d' & st' & E & _ & Hv); auto.
    - pose proof (etext_flat_len es). lia.
    - split; reflexivity.
    - intros x [].
    - rewrite E, Hv. cbn [wdb_of_db db_init db_entries db_preamble map wd_entries wd_preamble app].
      now rewrite map_rdp_id.
  Qed.

  Lemma bibtex_roundtrip_persons_pf d : bibp_ok d -> write_read enc FBib d = Ok (norm_preamble d).
  Proof.
    intros (Hk & Hok & Hpre). cbn [write_read]. unfold write_bibtex.
    rewrite (write_entries_text' enc (wd_entries d) true Hok). cbn [app].
    unfold norm_preamble. destruct (concat (wd_preamble d)) as [|c0 p0] eqn:EP.
    - cbn [write_preamble bind app]. now apply entries_only_p.
    - destruct Hpre as [Hp0|(Hpb & Hpn & Hpe)]; [discriminate|].
      set (pre := c0 :: p0) in *.
      assert (WP : write_preamble enc pre = do q <- quote (encode_with_comments enc pre); Ok (s_preamble ++ q ++ [c_rbrace; c_nl; c_nl])) by reflexivity.
      rewrite WP. rewrite Hpe. destruct (quote_total_pf pre Hpb) as (q & Q). rewrite Q.
      apply quote_as_dpart in Q. cbn [bind].
      set (es := wd_entries d) in *.
      assert (T : (s_preamble ++ q ++ [c_rbrace; c_nl; c_nl]) ++ etext (map flat es) = c_at :: item_text (ipre pre) ([10; 10] ++ etext (map flat es))).
      { subst q. unfold ipre, s_preamble, kwp. cbn [item_text render_gparts render_gpart BibValues.part_text op_char cl_char].
        repeat (rewrite <- ?app_assoc; cbn [app]). reflexivity. }
      rewrite T. unfold read_bibtex, parse_bib.
      set (text := c_at :: item_text (ipre pre) ([10; 10] ++ etext (map flat es))).
      cbn [bib_loop]. unfold skip_to. cbn [pst_init p_sc sc_init sc_rest]. unfold text at 1.
      cbn [find_first]. change (c_at =? c_at) with true. cbv iota.
      assert (Wf : forall macros, wf_item macros (ipre pre)).
      { intros macros. unfold ipre. cbn [wf_item]. unfold sp. repeat split; try discriminate.
        constructor; [|constructor]. unfold wf_gpart, wf_spart. repeat split. now apply wf_body_balanced. }
      match goal with |- context [parse_command Strict ?s1] =>
        destruct (item_reads Strict s1 (ipre pre) ([10; 10] ++ etext (map flat es)) (Wf _) eq_refl) as (st2 & E & Hr2 & Her & Hma)
      end.
      rewrite E. cbn [ipre item_cmd item_macros map gpart_value part_value] in *.
      cbn [p_macros p_errs set_cstart set_sc pst_init] in *.
      destruct (process_preamble_clean Strict kwp [pre] db_init st2 (conj Her eq_refl)) as (d2 & Ep & Hcl2 & He2 & Hv2).
      unfold str, char in *. rewrite Ep. cbn [obind].
      destruct (loop_entries_p Strict es (length text) d2 st2 [10; 10]) as (d' & st' & E' & _ & Hv'); auto.
      + unfold text. cbn [length]. pose proof (etext_flat_len es).
        assert (L : forall rest : str, (length rest <= length (item_text (ipre pre) rest))%nat).
        { intros rest. unfold ipre. cbn [item_text]. repeat (rewrite ?app_length; cbn [length]). lia. }
        specialize (L ([10; 10] ++ etext (map flat es))).
        assert (L2 : length ([10; 10] ++ etext (map flat es)) = S (S (length (etext (map flat es))))) by reflexivity. unfold str, char in *. lia.
      + intros x [<-|[<-|[]]]; reflexivity.
      + rewrite He2. cbn [db_init db_entries map app]. exact Hk.
      + rewrite E', Hv', Hv2. cbn [wdb_of_db db_init db_entries db_preamble map wd_entries wd_preamble app concat].
        rewrite map_rdp_id by assumption. rewrite app_nil_r, Hpn. reflexivity.
  Qed.
End MainP.

(* ---- chains over the domain with persons (preserve_case on) *)
From Pybtex Require Import Proofs.WritersChain.
Section ChainsP.
  Variable enc : str -> str.
  Definition allp_ok (d : wdb) : Prop := tree_ok d /\ bibp_ok enc d.

  Lemma write_read_anyp f d : allp_ok d -> write_read enc f d = Ok (step f d).
  Proof.
    intros [T B]. destruct f.
    - cbn [step]. now apply bibtex_roundtrip_persons_pf.
    - apply write_read_tree; [discriminate|exact T].
    - apply write_read_tree; [discriminate|exact T].
  Qed.
  Lemma bibp_ok_step f d : bibp_ok enc d -> bibp_ok enc (step f d).
  Proof.
    intros (W & E & P). destruct f; cbn [step]; unfold norm_preamble, drop_preamble, bibp_ok; cbn [wd_entries wd_preamble].
    - split; [exact W|]. split; [exact E|]. destruct (concat (wd_preamble d)) eqn:EP; [now left|].
      cbn [concat]. rewrite app_nil_r. destruct P as [P|P]; [discriminate|right; exact P].
    - split; [exact W|]. split; [exact E|]. now left.
    - split; [exact W|]. split; [exact E|]. destruct (concat (wd_preamble d)) eqn:EP; [now left|].
      cbn [concat]. rewrite app_nil_r. destruct P as [P|P]; [discriminate|right; exact P].
  Qed.
  Lemma chain_rest_anyp : forall fs d, allp_ok d -> chain_rest enc fs true d = Ok (expect_rest fs true d).
  Proof.
    induction fs as [|f r IH]; intros d H; [reflexivity|]. cbn [chain_rest expect_rest bind].
    rewrite write_read_anyp by exact H. cbn [bind]. apply IH. destruct H as [T B]. split; [now apply tree_ok_step|now apply bibp_ok_step].
  Qed.
  Lemma chain_roundtrip_persons_pf fs d : allp_ok d -> chain enc fs true d = Ok (expect fs true d).
  Proof.
    intros H. destruct fs as [|f r]; [reflexivity|]. cbn [chain expect].
    rewrite write_read_anyp by exact H. cbn [bind]. apply chain_rest_anyp. destruct H as [T B]. split; [now apply tree_ok_step|now apply bibp_ok_step].
  Qed.
End ChainsP.

(* ---- the side conditions on name tokens are needed *)
Definition and_person : person := mkPerson [[65]] [[97; 110; 100]; [67]] [] [[66]] [].   (* first A, middle "and" C, last B *)
Definition comma_person : person := mkPerson [[70]] [] [] [[88; 44; 89]] [].               (* last token "X,Y" *)
Definition person_db (p : person) : wdb := mkWDb [mkWE [107] [98; 111; 111; 107] [] [(k_author, [p])]] [].
Lemma name_and_refuted_pf : exists rd, write_read latex_enc FBib (person_db and_person) = Ok rd /\ rd <> person_db and_person.
Proof. eexists. split; [vm_compute; reflexivity|intro H; discriminate H]. Qed.
Lemma name_comma_refuted_pf : exists rd, write_read latex_enc FBib (person_db comma_person) = Ok rd /\ rd <> person_db comma_person.
Proof. eexists. split; [vm_compute; reflexivity|intro H; discriminate H]. Qed.

(* ---- identifier lower-casing keeps the domain with persons; chains with any preserve_case *)
Section LowerP.
  Variable enc : str -> str.

  Lemma bibp_ok_entry_lower e : bibp_ok_entry enc e -> bibp_ok_entry enc (map_ids_entry lower e).
  Proof.
    intros (Ht & Hk & (Hnf & Hnp & Hne) & Hf & Hr & Hw). unfold bibp_ok_entry.
    cbn [map_ids_entry we_otype we_key we_persons we_fields]. repeat split.
    - unfold is_entry_type in *. rewrite lower_idem.
      apply andb_prop in Ht as [Ht H3]. apply andb_prop in Ht as [Ht H2]. apply andb_prop in Ht as [H0 H1].
      now rewrite (is_name_lower _ H0), H1, H2, H3.
    - now apply is_key_lower.
    - cbn [we_fields]. change (NoDup (lkeys (map (fun kv : str * str => (lower (fst kv), snd kv)) (we_fields e)))). now rewrite lkeys_map_lower.
    - cbn [we_persons]. change (NoDup (lkeys (map (fun kv : str * list person => (lower (fst kv), snd kv)) (we_persons e)))). now rewrite lkeys_map_lower.
    - cbn [map_ids_entry we_persons]. rewrite Forall_map. eapply Forall_impl; [|exact Hne]. auto.
    - rewrite Forall_map. eapply Forall_impl; [|exact Hf]. intros [k v] (A & B & C & D & F). unfold bib_ok_field. cbn [fst snd] in *.
      rewrite lower_idem. repeat split; auto. now apply is_name_lower.
    - rewrite Forall_map. eapply Forall_impl; [|exact Hr]. intros [r pl] (A & B & C & D). unfold role_ok. cbn [fst snd] in *.
      rewrite lower_idem. repeat split; auto.
    - unfold role_fields in *. cbn [map_ids_entry we_persons]. rewrite map_map. rewrite Forall_map in Hw. rewrite Forall_map.
      eapply Forall_impl; [|exact Hw]. intros [r pl] (A & B & C). unfold wok_field in *. cbn [fst snd] in *.
      repeat split; auto. now apply is_name_lower.
  Qed.

  Lemma bibp_ok_lower d : bibp_ok enc d -> bibp_ok enc (map_ids lower d).
  Proof.
    intros (K & E & P). split; [|split; [|exact P]]; cbn [map_ids wd_entries].
    - rewrite map_map. cbn [map_ids_entry we_key]. erewrite map_ext; [exact K|]. intros e. cbn. apply lower_idem.
    - rewrite Forall_map. eapply Forall_impl; [|exact E]. apply bibp_ok_entry_lower.
  Qed.

  Lemma chain_rest_anyp_pc pc : forall fs d, allp_ok enc d -> chain_rest enc fs pc d = Ok (expect_rest fs pc d).
  Proof.
    induction fs as [|f r IH]; intros d H; [reflexivity|]. cbn [chain_rest expect_rest].
    destruct pc.
    - cbn [bind]. rewrite write_read_anyp by exact H. cbn [bind]. apply IH.
      destruct H as [T B]. split; [now apply tree_ok_step|now apply bibp_ok_step].
    - destruct H as [T B]. pose proof (proj1 T) as W. rewrite lower_only_case_pf by exact W. cbn [bind].
      assert (A : allp_ok enc (map_ids lower d)) by (split; [now apply tree_ok_lower|now apply bibp_ok_lower]).
      rewrite write_read_anyp by exact A. cbn [bind]. apply IH.
      destruct A as [T2 B2]. split; [now apply tree_ok_step|now apply bibp_ok_step].
  Qed.

  Lemma chain_roundtrip_persons_pc_pf fs pc d : allp_ok enc d -> chain enc fs pc d = Ok (expect fs pc d).
  Proof.
    intros H. destruct fs as [|f r]; [reflexivity|]. cbn [chain expect].
    rewrite write_read_anyp by exact H. cbn [bind]. apply chain_rest_anyp_pc.
    destruct H as [T B]. split; [now apply tree_ok_step|now apply bibp_ok_step].
  Qed.
End LowerP.
