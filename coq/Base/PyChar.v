(* Base/PyChar.v -- Python's character classes.
   is_space is exact for all of Unicode (CPython 3.12: str.isspace, str.strip and
   regex \s agree on exactly these 29 code points; the harness re-measures this on
   every run).  Letter/digit classes and case mapping are exact on ASCII; other code
   points are modelled as caseless non-letters (domains restricted accordingly). *)
From Pybtex Require Import Base.Prelude.
Local Open Scope N_scope.

Definition is_space (c : char) : bool :=
  ((9 <=? c) && (c <=? 13)) || ((28 <=? c) && (c <=? 32)) || (c =? 133) || (c =? 160)
  || (c =? 5760) || ((8192 <=? c) && (c <=? 8202)) || (c =? 8232) || (c =? 8233)
  || (c =? 8239) || (c =? 8287) || (c =? 12288).

Definition is_upper (c : char) : bool := (65 <=? c) && (c <=? 90).
Definition is_lower (c : char) : bool := (97 <=? c) && (c <=? 122).
Definition is_alpha (c : char) : bool := is_upper c || is_lower c.
Definition is_digit (c : char) : bool := (48 <=? c) && (c <=? 57).
Definition is_alnum (c : char) : bool := is_alpha c || is_digit c.
Definition to_lower (c : char) : char := if is_upper c then c + 32 else c.
Definition to_upper (c : char) : char := if is_lower c then c - 32 else c.
Definition is_ascii (c : char) : bool := c <? 128.

Definition ch (a : ascii) : char := N_of_ascii a.

Definition c_lbrace : char := 123.
Definition c_rbrace : char := 125.
Definition c_bslash : char := 92.
Definition c_space : char := 32.
Definition c_nl : char := 10.
Definition c_tilde : char := 126.
Definition c_hyphen : char := 45.
Definition c_comma : char := 44.
Definition c_quote : char := 34.
Definition c_at : char := 64.
Definition c_percent : char := 37.
Definition c_hash : char := 35.

Lemma to_lower_idem c : to_lower (to_lower c) = to_lower c.
Proof.
  unfold to_lower, is_upper.
  destruct ((65 <=? c) && (c <=? 90)) eqn:E; [|rewrite E; reflexivity].
  apply andb_prop in E as [E1 E2]. apply N.leb_le in E1, E2.
  assert (H : (c + 32 <=? 90) = false) by (apply N.leb_gt; lia).
  rewrite H, andb_false_r. reflexivity.
Qed.

Lemma to_upper_idem c : to_upper (to_upper c) = to_upper c.
Proof.
  unfold to_upper, is_lower.
  destruct ((97 <=? c) && (c <=? 122)) eqn:E; [|rewrite E; reflexivity].
  apply andb_prop in E as [E1 E2]. apply N.leb_le in E1, E2.
  assert (H : (97 <=? c - 32) = false) by (apply N.leb_gt; lia).
  rewrite H, andb_false_l. reflexivity.
Qed.

