(* Base/Prelude.v -- characters, strings, results, s-expressions.
   Shared by every model.  Plain stdlib, no axioms. *)
From Coq Require Export String Ascii.
From Coq Require Export NArith ZArith Arith Bool Lia List.
Export ListNotations.
Open Scope list_scope.

(* A character is a Unicode code point, a string a list of them. *)
Definition char := N.
Definition str := list char.

Fixpoint s2l (s : string) : str :=
  match s with
  | EmptyString => []
  | String a r => N_of_ascii a :: s2l r
  end.

(* results of modelled Python calls: Ok, a pybtex error (class code, line or -1),
   a foreign Python exception (Crash), or fuel exhaustion of the model itself *)
Inductive res (A : Type) : Type :=
| Ok (a : A)
| PyErr (cls : N) (line : Z)
| Crash
| OutOfFuel.
Arguments Ok {A} a.
Arguments PyErr {A} cls line.
Arguments Crash {A}.
Arguments OutOfFuel {A}.

Definition bind {A B} (r : res A) (f : A -> res B) : res B :=
  match r with
  | Ok a => f a
  | PyErr c l => PyErr c l
  | Crash => Crash
  | OutOfFuel => OutOfFuel
  end.
Notation "'do' x <- r ; k" := (bind r (fun x => k)) (at level 200, x pattern, r at level 100, k at level 200).

Definition is_ok {A} (r : res A) : bool := match r with Ok _ => true | _ => false end.

(* ---- s-expressions of integers: the only wire format between the extracted
        model and the harness ---- *)
Inductive sexp := A (z : Z) | L (l : list sexp).

Definition e_Z (z : Z) := A z.
Definition e_N (n : N) := A (Z.of_N n).
Definition e_nat (n : nat) := A (Z.of_nat n).
Definition e_bool (b : bool) := A (if b then 1%Z else 0%Z).
Definition e_str (s : str) := L (map e_N s).
Definition e_list {X} (f : X -> sexp) (l : list X) := L (map f l).
Definition e_opt {X} (f : X -> sexp) (o : option X) :=
  match o with None => L [] | Some x => L [f x] end.
Definition e_pair {X Y} (f : X -> sexp) (g : Y -> sexp) (p : X * Y) := L [f (fst p); g (snd p)].
Definition e_res {X} (f : X -> sexp) (r : res X) :=
  match r with
  | Ok v => L [A 0%Z; f v]
  | PyErr c l => L [A 1%Z; e_N c; A l]
  | Crash => L [A 2%Z]
  | OutOfFuel => L [A 3%Z]
  end.

Definition d_Z (s : sexp) : Z := match s with A z => z | L _ => 0%Z end.
Definition d_N (s : sexp) : N := Z.to_N (d_Z s).
Definition d_nat (s : sexp) : nat := Z.to_nat (d_Z s).
Definition d_bool (s : sexp) : bool := negb (Z.eqb (d_Z s) 0).
Definition d_items (s : sexp) : list sexp := match s with A _ => [] | L l => l end.
Definition d_str (s : sexp) : str := map d_N (d_items s).
Definition d_list {X} (f : sexp -> X) (s : sexp) : list X := map f (d_items s).
Definition d_opt {X} (f : sexp -> X) (s : sexp) : option X :=
  match d_items s with [] => None | x :: _ => Some (f x) end.
Definition d_nth (s : sexp) (k : nat) : sexp := nth k (d_items s) (L []).
