(* Base/PyStr.v -- the Python str / list operations the modelled code uses. *)
From Pybtex Require Import Base.Prelude Base.PyChar.

Fixpoint lstrip (s : str) : str :=
  match s with
  | c :: t => if is_space c then lstrip t else s
  | [] => []
  end.
Definition rstrip (s : str) : str := rev (lstrip (rev s)).
Definition strip (s : str) : str := rstrip (lstrip s).

Fixpoint str_eqb (a b : str) : bool :=
  match a, b with
  | [], [] => true
  | x :: a', y :: b' => N.eqb x y && str_eqb a' b'
  | _, _ => false
  end.

Lemma str_eqb_spec a b : reflect (a = b) (str_eqb a b).
Proof.
  revert b; induction a as [|x a IH]; intros [|y b]; cbn; try (constructor; congruence).
  destruct (N.eqb_spec x y) as [->|H]; cbn.
  - destruct (IH b) as [->|H']; constructor; congruence.
  - constructor; congruence.
Qed.

Lemma str_eqb_refl a : str_eqb a a = true.
Proof. destruct (str_eqb_spec a a); congruence. Qed.

Fixpoint startswith (s p : str) : bool :=
  match p, s with
  | [], _ => true
  | x :: p', y :: s' => N.eqb x y && startswith s' p'
  | _ :: _, [] => false
  end.

Definition lower (s : str) : str := map to_lower s.
Definition upper (s : str) : str := map to_upper s.

Fixpoint join (sep : str) (parts : list str) : str :=
  match parts with
  | [] => []
  | [p] => p
  | p :: rest => p ++ sep ++ join sep rest
  end.

(* str.split(sep) for a non-empty separator: acc holds the current piece reversed *)
Fixpoint split_on_aux (fuel : nat) (sep s acc : str) : list str :=
  match fuel with
  | O => [rev acc ++ s]
  | S f =>
    match s with
    | [] => [rev acc]
    | c :: t =>
      if startswith s sep
      then rev acc :: split_on_aux f sep (skipn (length sep) s) []
      else split_on_aux f sep t (c :: acc)
    end
  end.
Definition split_on (sep s : str) : list str := split_on_aux (S (length s)) sep s [].

(* str.split() -- runs of whitespace separate, no empty pieces *)
Fixpoint split_ws_aux (s acc : str) : list str :=
  match s with
  | [] => match acc with [] => [] | _ => [rev acc] end
  | c :: t =>
    if is_space c
    then match acc with [] => split_ws_aux t [] | _ => rev acc :: split_ws_aux t [] end
    else split_ws_aux t (c :: acc)
  end.
Definition split_ws (s : str) : list str := split_ws_aux s [].

(* str.replace(old, new) for non-empty old *)
Fixpoint replace_aux (fuel : nat) (old new s : str) : str :=
  match fuel with
  | O => s
  | S f =>
    match s with
    | [] => []
    | c :: t =>
      if startswith s old
      then new ++ replace_aux f old new (skipn (length old) s)
      else c :: replace_aux f old new t
    end
  end.
Definition replace (old new s : str) : str := replace_aux (S (length s)) old new s.

(* Python slice semantics s[i:j] with optional bounds, step 1 (slice.indices) *)
Definition clamp_idx (len : Z) (i : Z) : Z :=
  (if i <? 0 then Z.max 0 (len + i) else Z.min i len)%Z.
Definition pyslice {X} (l : list X) (i j : option Z) : list X :=
  let len := Z.of_nat (length l) in
  let a := match i with None => 0%Z | Some i => clamp_idx len i end in
  let b := match j with None => len | Some j => clamp_idx len j end in
  firstn (Z.to_nat (b - a)) (skipn (Z.to_nat a) l).

Definition nonspace (s : str) : str := filter (fun c => negb (is_space c)) s.

Lemma nonspace_app a b : nonspace (a ++ b) = nonspace a ++ nonspace b.
Proof. apply filter_app. Qed.

Lemma nonspace_all_space s : forallb is_space s = true -> nonspace s = [].
Proof.
  induction s as [|c s IH]; cbn; [reflexivity|].
  intros H; apply andb_prop in H as [H1 H2]. rewrite H1; cbn. auto.
Qed.

Lemma lstrip_nonspace s : nonspace (lstrip s) = nonspace s.
Proof.
  induction s as [|c s IH]; cbn; [reflexivity|].
  destruct (is_space c) eqn:E; cbn; rewrite ?E; cbn; auto.
Qed.

Lemma nonspace_rev s : nonspace (rev s) = rev (nonspace s).
Proof.
  induction s as [|c s IH]; cbn; [reflexivity|].
  rewrite nonspace_app, IH. cbn. destruct (is_space c); cbn; [now rewrite app_nil_r|reflexivity].
Qed.

Lemma rstrip_nonspace s : nonspace (rstrip s) = nonspace s.
Proof.
  unfold rstrip. rewrite nonspace_rev, lstrip_nonspace, nonspace_rev, rev_involutive. reflexivity.
Qed.
