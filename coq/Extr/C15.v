From Pybtex Require Import Base.Prelude Base.PyChar Base.PyStr Model.BstParser Spec.BstPrint.
Require Extraction.
Require Import ExtrOcamlBasic.

(* integers may have thousands of digits while the OCaml driver converts atoms through native
   ints: an Integer travels as sign and little-endian limbs base 2^30 *)
Fixpoint limbs (fuel : nat) (n : N) : list sexp :=
  match fuel with
  | O => []
  | S f => if N.eqb n 0 then [] else e_N (N.modulo n 1073741824) :: limbs f (N.div n 1073741824)
  end.
Definition e_big (z : Z) : sexp :=
  L [A (if Z.ltb z 0 then 1%Z else 0%Z); L (limbs (S (N.to_nat (N.log2 (Z.abs_N z)))) (Z.abs_N z))].
Definition d_big (s : sexp) : Z :=
  let n := fold_right (fun x acc => N.add (d_N x) (N.mul acc 1073741824)) 0%N (d_items (d_nth s 1)) in
  if d_bool (d_nth s 0) then Z.opp (Z.of_N n) else Z.of_N n.

(* tok on the wire: (0 big) Integer, (1 str) String, (2 str) QuotedVar, (3 str) Identifier,
   (4 (tok ...)) FunctionLiteral *)
Fixpoint e_tok (t : tok) : sexp :=
  match t with
  | TInt z => L [A 0%Z; e_big z]
  | TStr s => L [A 1%Z; e_str s]
  | TQuote s => L [A 2%Z; e_str s]
  | TId s => L [A 3%Z; e_str s]
  | TFun b => L [A 4%Z; L (map e_tok b)]
  end.
Fixpoint d_tok (s : sexp) : tok :=
  match s with
  | L (A tag :: x :: _) =>
    match tag with
    | 0%Z => TInt (d_big x)
    | 1%Z => TStr (d_str x)
    | 2%Z => TQuote (d_str x)
    | 3%Z => TId (d_str x)
    | _ => match x with L items => TFun (map d_tok items) | A _ => TFun [] end
    end
  | _ => TInt 0%Z
  end.
Definition e_command (c : command) : sexp := L [e_str (fst c); e_list (e_list e_tok) (snd c)].
Definition d_command (s : sexp) : command := (d_str (d_nth s 0), d_list (d_list d_tok) (d_nth s 1)).
Definition e_program (p : program) : sexp := e_list e_command p.

Definition e_trace (r : list (nat * str * Z) * (N * Z)) : sexp :=
  L [e_list (fun t => L [e_nat (fst (fst t)); e_str (snd (fst t)); A (snd t)]) (fst r);
     e_N (fst (snd r)); A (snd (snd r))].

(* 1 strip_comment(line)          2 list(parse_string(src))     3 list(parse_stream(lines))
   4 list(parse_file(content))    5 print (spec) and parse back 6 scanner trace
   7 str.splitlines               8 the text handed to BstParser by parse_string
   9 list(parse_stream(io.StringIO(src))) *)
Definition dispatch (fn : Z) (a : sexp) : sexp :=
  match fn with
  | 1%Z => e_res e_str (Ok (strip_comment (d_str (d_nth a 0))))
  | 2%Z => e_res e_program (parse_string (d_str (d_nth a 0)))
  | 3%Z => e_res e_program (parse_stream (d_list d_str (d_nth a 0)))
  | 4%Z => e_res e_program (parse_file (d_str (d_nth a 0)))
  | 5%Z => let src := print_bst (d_list d_str (d_nth a 1)) (d_list d_command (d_nth a 0)) in
           L [e_str src; e_res e_program (parse_string src)]
  | 6%Z => let s := d_str (d_nth a 0) in e_trace (scan_tokens (S (length s)) s 1%Z)
  | 7%Z => e_res (e_list e_str) (Ok (splitlines (d_str (d_nth a 0))))
  | 8%Z => e_res e_str (Ok (text_of_string (d_str (d_nth a 0))))
  | 9%Z => e_res e_program (parse_stream (lines_keepends (d_str (d_nth a 0))))
  | _ => L []
  end.

Extraction "model.ml" dispatch.
