From Pybtex Require Import Base.Prelude Base.PyChar Base.PyStr Model.BibtexStr Model.Names Model.NameFormat.
Require Extraction.
Require Import ExtrOcamlBasic.

Definition e_np (np : name_part) : sexp :=
  L [A 1%Z; e_str (np_pre np); e_opt e_N (np_char np); e_bool (np_abbr np); e_opt e_str (np_delim np);
     e_str (np_post np); e_nat (np_tie np)].
Definition e_part (p : part) : sexp :=
  match p with
  | PText t => L [A 0%Z; e_str t]
  | PName np => e_np np
  end.
Definition d_person (s : sexp) : person :=
  mkPerson (d_list d_str (d_nth s 0)) (d_list d_str (d_nth s 1)) (d_list d_str (d_nth s 2))
           (d_list d_str (d_nth s 3)) (d_list d_str (d_nth s 4)).
Definition d_raw (s : sexp) : raw_part :=
  (d_str (d_nth s 0), d_opt d_str (d_nth s 1), d_opt d_str (d_nth s 2), d_str (d_nth s 3)).
Definition e_raw (r : raw_part) : sexp :=
  let '(pre, fc, dl, post) := r in L [e_str pre; e_opt e_str fc; e_opt e_str dl; e_str post].

(* 1: NameFormat(f).parts          2: format_name(name, f)         3: format.name$ (names, n, f)
   4: join(words, tie, space)      5: tie_or_space(word, tie, space)
   6: NamePart(format_list).format(person with the given part lists)
   7: bibtex_abbreviate(s, delimiter)
   8: pattern.match(s): 0 TEXT, 1 NON_LETTERS, 2 FORMAT_CHARS -- length of the match, 0 = none
   9: NameFormat(f).format(person with the given part lists)
   10: parse_name_part on the text after an opening brace: the raw 4-tuple and the rest
   11: a history of calls (names, n, format, via) in one process, via 0 = format_name(names, format),
       via 1 = the format.name$ built-in; the model is a function, so every call is answered on its own *)
Definition dispatch (fn : Z) (a : sexp) : sexp :=
  match fn with
  | 1%Z => e_res (e_list e_part) (parse_format (d_str (d_nth a 0)))
  | 2%Z => e_res (e_pair e_str e_bool) (format_name (d_str (d_nth a 0)) (d_str (d_nth a 1)))
  | 3%Z => e_res (e_pair e_str e_bool) (format_name_n (d_str (d_nth a 0)) (d_Z (d_nth a 1)) (d_str (d_nth a 2)))
  | 4%Z => e_res e_str (join_words (d_list d_str (d_nth a 0)) (d_str (d_nth a 1)) (d_str (d_nth a 2)))
  | 5%Z => e_res e_str (tie_or_space (d_str (d_nth a 0)) (d_str (d_nth a 1)) (d_str (d_nth a 2)))
  | 6%Z => e_res e_str (do np <- mk_name_part (d_raw (d_nth a 0)); format_name_part np (d_person (d_nth a 1)))
  | 7%Z => e_res e_str (bibtex_abbreviate (d_str (d_nth a 0)) (d_opt d_str (d_nth a 1)))
  | 8%Z => let s := d_str (d_nth a 1) in
           e_nat (match d_nat (d_nth a 0) with 0 => m_text s | 1 => m_non_letters s | _ => m_format_chars s end)
  | 9%Z => e_res e_str (format_person (d_str (d_nth a 0)) (d_person (d_nth a 1)))
  | 10%Z => e_res (e_pair e_raw e_str) (parse_name_part (d_str (d_nth a 0)))
  | 11%Z => L (map (fun c =>
               e_res (e_pair e_str e_bool)
                 (if d_bool (d_nth c 3)
                  then format_name_n (d_str (d_nth c 0)) (d_Z (d_nth c 1)) (d_str (d_nth c 2))
                  else format_name (d_str (d_nth c 0)) (d_str (d_nth c 2)))) (d_items a))
  | _ => L []
  end.

Extraction "model.ml" dispatch.
