From Pybtex Require Import Base.Prelude Base.PyChar Base.PyStr Model.RtTypes Model.RichText.
Require Extraction.
Require Import ExtrOcamlBasic.

Definition d_sepk (s : sexp) : sepk :=
  match d_items s with
  | A 0%Z :: _ => SepNone
  | A 1%Z :: x :: _ => SepStr (d_str x)
  | A 2%Z :: _ => SepDelim
  | _ => SepBad
  end.

(* expressions: tags 0..5 as in RtTypes.e_rt, 6 = a non-text object, 10.. = methods *)
Fixpoint d_expr (fuel : nat) (s : sexp) : expr :=
  match fuel with
  | O => EBad
  | S f =>
    let d := d_expr f in
    match d_items s with
    | A 0%Z :: x :: _ => EStr (d_str x)
    | A 1%Z :: x :: _ => ESym (d_str x)
    | A 2%Z :: ps :: _ => EText (map d (d_items ps))
    | A 3%Z :: n :: ps :: _ => ETag (d_str n) (map d (d_items ps))
    | A 4%Z :: u :: e :: ps :: _ => EHRef (d_str u) (d_bool e) (map d (d_items ps))
    | A 5%Z :: ps :: _ => EProt (map d (d_items ps))
    (* 7 / 8: HRef / Tag whose url / name is passed as a String or Text object (mode says which);
       HRef.__init__ and Tag.__init__ take str(url) / str(name), so the model sees the same call *)
    | A 7%Z :: _ :: u :: e :: ps :: _ => EHRef (d_str u) (d_bool e) (map d (d_items ps))
    | A 8%Z :: _ :: n :: ps :: _ => ETag (d_str n) (map d (d_items ps))
    | A 10%Z :: e :: _ => EUpper (d e)
    | A 11%Z :: e :: _ => ELower (d e)
    | A 12%Z :: e :: _ => ECapitalize (d e)
    | A 13%Z :: e :: _ => ECapfirst (d e)
    | A 14%Z :: e :: p :: _ => EAddPeriod (d e) (d_str p)
    | A 15%Z :: e :: _ => EAbbrev (d e)
    | A 16%Z :: e :: i :: j :: _ => ESlice (d e) (d_opt d_Z i) (d_opt d_Z j)
    | A 17%Z :: e :: i :: _ => EIndex (d e) (d_Z i)
    | A 18%Z :: a :: b :: _ => EAdd (d a) (d b)
    (* 22: `b = a; b += x` -- no class defines __iadd__, so Python evaluates a + x *)
    | A 22%Z :: a :: b :: _ => EAdd (d a) (d b)
    | A 19%Z :: a :: b :: _ => EAppend (d a) (d b)
    | A 20%Z :: sp :: es :: _ => EJoin (d sp) (map d (d_items es))
    | A 21%Z :: e :: sp :: k :: n :: _ => ESplitNth (d e) (d_sepk sp) (d_opt d_bool k) (d_nat n)
    | _ => EBad
    end
  end.

Fixpoint sexp_depth (s : sexp) : nat :=
  match s with A _ => 0 | L l => S (list_max (map sexp_depth l)) end.
Definition d_e (s : sexp) : expr := d_expr (S (sexp_depth s)) s.

Definition e_val (v : rt) : sexp := L [e_rt v; e_flat (flat v); e_str (rstr v); e_nat (rlen v)].

(* 1: eval   2: split   3: contains   4: startswith   5: endswith   6: isalpha   7: ==  *)
Definition dispatch (fn : Z) (a : sexp) : sexp :=
  match fn with
  | 1%Z => e_res e_val (eval_c (d_e (d_nth a 0)))
  | 2%Z => e_res (e_list e_val)
             (do v <- eval_c (d_e (d_nth a 0)); split_c v (d_sepk (d_nth a 1)) (d_opt d_bool (d_nth a 2)))
  | 3%Z => e_res e_bool (do v <- eval_c (d_e (d_nth a 0)); Ok (rcontains v (d_str (d_nth a 1))))
  | 4%Z => e_res e_bool (do v <- eval_c (d_e (d_nth a 0)); Ok (rstartswith v (d_list d_str (d_nth a 1))))
  | 5%Z => e_res e_bool (do v <- eval_c (d_e (d_nth a 0)); Ok (rendswith v (d_list d_str (d_nth a 1))))
  | 6%Z => e_res e_bool (do v <- eval_c (d_e (d_nth a 0)); Ok (risalpha v))
  | 7%Z => e_res e_bool (do v <- eval_c (d_e (d_nth a 0)); do w <- eval_c (d_e (d_nth a 1)); Ok (rt_eqb v w))
  (* 9: text1 != text2 (BaseText.__ne__ 113-114: not self == other) *)
  | 9%Z => e_res e_bool (do v <- eval_c (d_e (d_nth a 0)); do w <- eval_c (d_e (d_nth a 1)); Ok (negb (rt_eqb v w)))
  | _ => L []
  end.

Extraction "model.ml" dispatch.
