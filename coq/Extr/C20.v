From Pybtex Require Import Base.Prelude Base.PyChar Base.PyStr Model.Aux.
Require Extraction.
Require Import ExtrOcamlBasic.

Definition e_cmd (c : cmdname) : sexp :=
  A (match c with CCitation => 0 | CBibdata => 1 | CBibstyle => 2 | CInput => 3 end)%Z.
Definition d_cmd (s : sexp) : cmdname :=
  match d_Z s with 0%Z => CCitation | 1%Z => CBibdata | 2%Z => CBibstyle | _ => CInput end.
Definition d_mode (s : sexp) : mode :=
  match d_Z s with 0%Z => Capture | 1%Z => Strict | _ => Lenient end.

(* error: (file? lineno kind line? args); lineno -1 = None *)
Definition e_kind_code (k : ekind) : Z :=
  match k with EMismatch _ _ => 0 | EStyle => 1 | EData => 2 | ENoData => 3 | ENoStyle => 4 | EOpen _ => 5 end%Z.
Definition e_err (e : err) : sexp :=
  L [e_opt e_str (option_map c_file (e_ctx e));
     A (match e_ctx e with Some (mkctx _ (Some n) _) => Z.of_nat n | _ => (-1)%Z end);
     A (e_kind_code (e_kind e));
     e_opt e_str (match e_ctx e with Some c => c_line c | None => None end);
     match e_kind e with EMismatch k x => L [e_str k; e_str x] | EOpen n => L [e_str n] | _ => L [] end].

Definition e_aux (a : aux) : sexp :=
  L [e_list e_str (a_cits a); e_opt e_str (a_style a); e_opt (e_list e_str) (a_data a);
     e_list e_err (a_errs a)].

Definition e_outcome {X} (f : X -> sexp) (r : outcome X) : sexp :=
  match r with
  | Ret v => L [A 0%Z; f v]
  | Raise e st => L [A 1%Z; e_err e; e_list e_err (a_errs st)]
  | CrashO => L [A 2%Z]
  | NoFuel => L [A 3%Z]
  end.

Definition d_files (s : sexp) : list (str * str) :=
  d_list (fun x => (d_str (d_nth x 0), d_str (d_nth x 1))) s.

Definition e_bibargs (b : bibargs) : sexp :=
  L [e_list e_str (b_files b); e_opt e_str (b_style b); e_list e_str (b_citations b)].

(* 1: parse_file(top) with report_error in the given mode; arg = (mode ((name content) ...)), top = first file
   2: command_re.match(line)
   3: the lines a text file yields
   4: a sequence of handle_* calls; arg = (mode file lineno ((cmd value) ...))
   5: make_bibliography's arguments to format_from_files; arg = (style? suffix ((name content) ...)) *)
Definition nest_fuel : nat := 64.

Definition dispatch (fn : Z) (a : sexp) : sexp :=
  match fn with
  | 1%Z =>
    let files := d_files (d_nth a 1) in
    let top := match files with (n, _) :: _ => n | [] => [] end in
    e_outcome e_aux (parse_aux nest_fuel (fs_of files) (d_mode (d_nth a 0)) top)
  | 2%Z => e_opt (e_pair e_cmd e_str) (match_command (d_str (d_nth a 0)))
  | 3%Z => e_list e_str (lines_of (d_str (d_nth a 0)))
  | 4%Z =>
    let c := mkctx (d_str (d_nth a 1)) (Some (d_nat (d_nth a 2))) (Some []) in
    e_outcome e_aux (run_handlers (d_mode (d_nth a 0))
                       (d_list (fun x => (d_cmd (d_nth x 0), d_str (d_nth x 1))) (d_nth a 3))
                       (set_ctx aux_init (Some c)))
  | 5%Z =>
    let files := d_files (d_nth a 2) in
    let top := match files with (n, _) :: _ => n | [] => [] end in
    e_outcome e_bibargs
      (obind (parse_aux nest_fuel (fs_of files) Strict top)
             (make_bibliography_args (d_opt d_str (d_nth a 0)) (d_str (d_nth a 1))))
  | _ => L []
  end.

Extraction "model.ml" dispatch.
