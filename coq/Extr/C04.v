From Pybtex Require Import Base.Prelude Base.PyChar Base.PyStr Model.BibtexStr Model.Names.
Require Extraction.
Require Import ExtrOcamlBasic.

Definition e_person (p : person) : sexp :=
  L [e_list e_str (p_first p); e_list e_str (p_middle p); e_list e_str (p_prelast p);
     e_list e_str (p_last p); e_list e_str (p_lineage p); e_list e_str (bibtex_first_names p)].

(* 1: Person(string)   2: Person(string, first, middle, prelast, last, lineage)   3: str(Person(string))
   4: split_tex_string(s)   5: split_tex_string(s, ',')   6: letter class of a code point (Model/NamesUni.v)
   (the person is sent as its five lists + bibtex_first_names) *)
Definition dispatch (fn : Z) (a : sexp) : sexp :=
  match fn with
  | 1%Z => e_res (e_pair e_person e_bool) (person_of_string (d_str (d_nth a 0)))
  | 2%Z => e_res (e_pair e_person e_bool)
             (person_init (d_str (d_nth a 0)) (d_str (d_nth a 1)) (d_str (d_nth a 2)) (d_str (d_nth a 3))
                          (d_str (d_nth a 4)) (d_str (d_nth a 5)))
  | 3%Z => e_res e_str (do pr <- person_of_string (d_str (d_nth a 0)); Ok (person_str (fst pr)))
  | 4%Z => e_res (e_list e_str) (split_tex_space (d_str (d_nth a 0)))
  | 5%Z => e_res (e_list e_str) (split_tex_comma (d_str (d_nth a 0)))
  | 6%Z => e_N (uni_class (d_N (d_nth a 0)))
  | _ => L []
  end.

Extraction "model.ml" dispatch.
