From Pybtex Require Import Base.Prelude Base.PyChar Base.PyStr Model.Crossref.
Require Extraction.
Require Import ExtrOcamlBasic.

(* wire format
   entry  = (id key ((fname fvalue) ...) ((role (person ...)) ...))
   db     = ((key entry) ...)
   option = () | (x) *)
Definition d_pair {X Y} (f : sexp -> X) (g : sexp -> Y) (s : sexp) : X * Y := (f (d_nth s 0), g (d_nth s 1)).
Definition d_entry (s : sexp) : entry :=
  mkEntry (d_nat (d_nth s 0)) (d_str (d_nth s 1))
          (d_list (d_pair d_str d_str) (d_nth s 2))
          (d_list (d_pair d_str (d_list d_str)) (d_nth s 3)).
Definition d_db (s : sexp) : db := d_list (d_pair d_str d_entry) s.

(* of a report only its kind goes over the wire (0 = bad cross-reference, 1 = missing entry):
   the wording of messages is not compared *)
Definition e_report (r : report) : sexp :=
  match r with
  | BadCrossref _ _ => A 0%Z
  | MissingEntry _ => A 1%Z
  end.
Definition e_bstval (v : bstval) : sexp :=
  match v with BStr s => L [A 0%Z; e_str s] | BMissing n => L [A 1%Z; e_str n] end.
Definition e_obs (o : obs) : sexp := e_pair e_str (e_list (e_opt e_str)) o.
Definition e_run (r : list report * list obs) : sexp := e_pair (e_list e_report) (e_list e_obs) r.

(* 1: Entry._find_field(name, bib_data)      arg (db entry name use_bib_data)
   2: Field.value / Crossref.value           arg (db entry name)
   3: template field(name, raw=True)         arg (db entry name use_bib_data)
   4: add_extra_citations (capture mode)     arg (db citations min_crossrefs)
   5: BST engine run, errors captured        arg (db citations min_crossrefs fields)
   6: Python engine format_bibliography, errors captured    (same)
   7, 8: the same two in strict mode (the first report raises)
   10: both engine runs (end-to-end stream)             arg (db citations min_crossrefs fields)
   9: Entry._find_field for every entry x every name   arg (db names use_bib_data) *)
Definition dispatch (fn : Z) (a : sexp) : sexp :=
  let d := d_db (d_nth a 0) in
  match fn with
  | 1%Z => let bd := if d_bool (d_nth a 3) then Some d else None in
           e_res (e_opt e_str) (entry_find_field bd (d_entry (d_nth a 1)) (d_str (d_nth a 2)))
  | 2%Z => let name := d_str (d_nth a 2) in
           e_res e_bstval (if str_eqb name s_crossref then crossref_value d (d_entry (d_nth a 1))
                           else field_value d (d_entry (d_nth a 1)) name)
  | 3%Z => let bd := if d_bool (d_nth a 3) then Some d else None in
           e_res e_str (template_field bd (d_entry (d_nth a 1)) (d_str (d_nth a 2)))
  | 4%Z => e_pair (e_list e_str) (e_list e_report)
             (add_extra_citations d (d_list d_str (d_nth a 1)) (d_Z (d_nth a 2)))
  | 5%Z => e_res e_run (bst_run d (d_list d_str (d_nth a 1)) (d_Z (d_nth a 2)) (d_list d_str (d_nth a 3)))
  | 6%Z => e_res e_run (format_bibliography d (d_list d_str (d_nth a 1)) (d_Z (d_nth a 2)) (d_list d_str (d_nth a 3)))
  | 7%Z => e_res (e_list e_obs) (strictly (bst_run d (d_list d_str (d_nth a 1)) (d_Z (d_nth a 2)) (d_list d_str (d_nth a 3))))
  | 8%Z => e_res (e_list e_obs) (strictly (format_bibliography d (d_list d_str (d_nth a 1)) (d_Z (d_nth a 2)) (d_list d_str (d_nth a 3))))
  | 9%Z => let bd := if d_bool (d_nth a 2) then Some d else None in
           e_list (fun ke : str * entry =>
                     e_list (fun nm => e_res (e_opt e_str) (entry_find_field bd (snd ke) nm)) (d_list d_str (d_nth a 1))) d
  | 10%Z => let cs := d_list d_str (d_nth a 1) in let fs := d_list d_str (d_nth a 3) in
            L [e_res e_run (bst_run d cs (d_Z (d_nth a 2)) fs); e_res e_run (format_bibliography d cs (d_Z (d_nth a 2)) fs)]
  | _ => L []
  end.

Extraction "model.ml" dispatch.
