From Pybtex Require Import Base.Prelude Base.PyChar Base.PyStr Model.Crossref.
Require Extraction.
Require Import ExtrOcamlBasic.

(* wire format
   entry  = (id key ((fname fvalue) ...) ((role (person ...)) ...))
   db     = ((key entry) ...)
   option = () | (x) *)
Definition d_pair {X Y} (f : sexp -> X) (g : sexp -> Y) (s : sexp) : X * Y := (f (d_nth s 0), g (d_nth s 1)).
Definition d_entry (s : sexp) : entry :=
  mkEntry (d_nat (d_nth s 0)) (d_str (d_nth s 1))
          (d_list (d_pair d_str d_str) (d_nth s 2))
          (d_list (d_pair d_str (d_list d_str)) (d_nth s 3)).
Definition d_db (s : sexp) : db := d_list (d_pair d_str d_entry) s.

(* of a report only its kind goes over the wire (0 = bad cross-reference, 1 = missing entry):
   the wording of messages is not compared *)
Definition e_report (r : report) : sexp :=
  match r with
  | BadCrossref _ _ => A 0%Z
  | MissingEntry _ => A 1%Z
  end.
Definition e_bstval (v : bstval) : sexp :=
  match v with BStr s => L [A 0%Z; e_str s] | BMissing n => L [A 1%Z; e_str n] end.
Definition e_obs (o : obs) : sexp := e_pair e_str (e_list (e_opt e_str)) o.
Definition e_run (r : list report * list obs) : sexp := e_pair (e_list e_report) (e_list e_obs) r.

(* 1: Entry._find_field(name, bib_data)      arg (db entry name use_bib_data)
   2: Field.value / Crossref.value           arg (db entry name)
   3: template field(name, raw=True)         arg (db entry name use_bib_data)
   4: add_extra_citations (capture mode)     arg (db citations min_crossrefs)
   5: BST engine run, errors captured        arg (db citations min_crossrefs fields)
   6: Python engine format_bibliography, errors captured    (same)
   7, 8: the same two in strict mode (the first report raises)
   10: both engine runs from a file read FILTERED by the citations (end-to-end stream)   arg (file citations min_crossrefs fields)
   11: read_filtered                                        arg (file (citations)|())
   14: both engines over several sources                  arg (sources citations min_crossrefs fields)
   15: one parser over several sources                    arg (sources (citations)|())
   13: a history of look-ups and edits on live objects     arg (db ops)
   12: BST fields vs names() of the stock styles, from files  arg (file_bst file_py citations min_crossrefs roles)
   9: Entry._find_field for every entry x every name   arg (db names use_bib_data) *)
(* history op on the wire: (code key field (value)|() n)
   0 lookup (n = through which API, not the model's business)   1 set field   2 delete field
   3 set (value) / remove () the crossref   4 new BibliographyData   5 replace by a new object n with title value *)
Definition d_hop (s : sexp) : hop :=
  let k := d_str (d_nth s 1) in let f := d_str (d_nth s 2) in
  let v := d_opt d_str (d_nth s 3) in
  let v' := match v with Some x => x | None => [] end in
  match d_Z (d_nth s 0) with
  | 0%Z => HLookup k f
  | 1%Z => HSetField k f v'
  | 2%Z => HDelField k f
  | 3%Z => match v with Some t => HSetField k s_crossref t | None => HDelField k s_crossref end
  | 5%Z => HReplace k (d_nat (d_nth s 4)) v'
  | _ => HNewDb
  end.

(* the rendered text of the stock styles identifies an entry by a token, not by entry.key: compare modulo case *)
Definition lower_keys (r : res (list report * list obs)) : res (list report * list obs) :=
  match r with
  | Ok (rs, os) => Ok (rs, map (fun o : obs => (lower (fst o), snd o)) os)
  | other => other
  end.

Definition dispatch (fn : Z) (a : sexp) : sexp :=
  let d := d_db (d_nth a 0) in
  match fn with
  | 1%Z => let bd := if d_bool (d_nth a 3) then Some d else None in
           e_res (e_opt e_str) (entry_find_field bd (d_entry (d_nth a 1)) (d_str (d_nth a 2)))
  | 2%Z => let name := d_str (d_nth a 2) in
           e_res e_bstval (if str_eqb name s_crossref then crossref_value d (d_entry (d_nth a 1))
                           else field_value d (d_entry (d_nth a 1)) name)
  | 3%Z => let bd := if d_bool (d_nth a 3) then Some d else None in
           e_res e_str (template_field bd (d_entry (d_nth a 1)) (d_str (d_nth a 2)))
  | 4%Z => e_pair (e_list e_str) (e_list e_report)
             (add_extra_citations d (d_list d_str (d_nth a 1)) (d_Z (d_nth a 2)))
  | 5%Z => e_res e_run (bst_run d (d_list d_str (d_nth a 1)) (d_Z (d_nth a 2)) (d_list d_str (d_nth a 3)))
  | 6%Z => e_res e_run (format_bibliography d (d_list d_str (d_nth a 1)) (d_Z (d_nth a 2)) (d_list d_str (d_nth a 3)))
  | 7%Z => e_res (e_list e_obs) (strictly (bst_run d (d_list d_str (d_nth a 1)) (d_Z (d_nth a 2)) (d_list d_str (d_nth a 3))))
  | 8%Z => e_res (e_list e_obs) (strictly (format_bibliography d (d_list d_str (d_nth a 1)) (d_Z (d_nth a 2)) (d_list d_str (d_nth a 3))))
  | 9%Z => let bd := if d_bool (d_nth a 2) then Some d else None in
           e_list (fun ke : str * entry =>
                     e_list (fun nm => e_res (e_opt e_str) (entry_find_field bd (snd ke) nm)) (d_list d_str (d_nth a 1))) d
  | 10%Z => let cs := d_list d_str (d_nth a 1) in let fs := d_list d_str (d_nth a 3) in
            L [e_res e_run (bst_run_file d cs (d_Z (d_nth a 2)) fs);
               e_res e_run (lower_keys (format_bibliography_file d cs (d_Z (d_nth a 2)) fs))]
  | 11%Z => let w := d_opt (d_list d_str) (d_nth a 1) in
            let st := read_state w d in
            L [e_list (fun ke : str * entry => L [e_str (fst ke); e_str (e_key (snd ke)); e_nat (e_id (snd ke))]) (fst (fst st));
               e_nat (length (snd st))]
  | 12%Z => let dP := d_db (d_nth a 1) in
            let cs := d_list d_str (d_nth a 2) in let roles := d_list d_str (d_nth a 4) in
            L [e_res e_run (bst_run_file d cs (d_Z (d_nth a 3)) roles);
               e_res e_run (lower_keys (format_bibliography_names (read_filtered (Some cs) dP) cs (d_Z (d_nth a 3)) roles))]
  | 14%Z => let srcs := d_list d_db (d_nth a 0) in
            let cs := d_list d_str (d_nth a 1) in let fs := d_list d_str (d_nth a 3) in
            L [e_res e_run (bst_run_sources srcs cs (d_Z (d_nth a 2)) fs);
               e_res e_run (lower_keys (format_bibliography_sources srcs cs (d_Z (d_nth a 2)) fs))]
  | 15%Z => let st := read_sources_state (d_opt (d_list d_str) (d_nth a 1)) (d_list d_db (d_nth a 0)) in
            L [e_list (fun ke : str * entry => L [e_str (fst ke); e_str (e_key (snd ke)); e_nat (e_id (snd ke))]) (fst (fst st));
               e_nat (length (snd st))]
  | 13%Z => e_list (e_opt (e_res (e_opt e_str))) (run_history d (d_list d_hop (d_nth a 1)))
  | _ => L []
  end.

Extraction "model.ml" dispatch.
