From Pybtex Require Import Base.Prelude Base.PyChar Base.PyStr Model.RtTypes Model.Citations Model.Template Model.Styles Model.TemplateWire.
Require Extraction.
Require Import ExtrOcamlBasic.

(* 1 BaseStyle.format_bibliography  (cfg, db, cites?, templates, dectable)
   2 Node.format_data               (tree, entry, db?, dectable, lastfirst, abbr)
   3 alpha LabelStyle.format_labels (entries)
   4 SortingStyle.sort + sorting_key (entries, sorting style)
   5 NameStyle.format(person, abbr).format_data  (person, lastfirst, abbr, dectable)
   6 textutils.abbreviate (str)
   7 Text.from_latex (str, dectable)
   8 number LabelStyle.format_labels (n)
   9 alpha LabelStyle.format_label (entry)
   10 a history of calls through the public entry points: the model is a function, so the answer to
      every call is the answer to that call alone -- ((cfg, db, cites?, templates, dectable) ...), and the
      caller's citation list is never modified (flag 1) *)
Definition e_key3 (e : entry) : sexp :=
  let '(a, b, c) := sorting_key e in L [e_str (e_key e); e_str a; e_str b; e_str c].
Definition dispatch (fn : Z) (a : sexp) : sexp :=
  match fn with
  | 1%Z => e_tres (e_list e_fentry)
             (format_bibliography (d_cfg (d_nth a 0)) (d_dec (d_nth a 4)) (d_templates (d_nth a 3))
                (d_list d_entry (d_nth a 1)) (d_opt (d_list d_str) (d_nth a 2)))
  | 2%Z => e_tres e_ftext
             (eval_top (mkC (d_entry (d_nth a 1)) (d_opt (d_list d_entry) (d_nth a 2)) (d_dec (d_nth a 3))
                            (d_nstyle (d_nth a 4)) (d_bool (d_nth a 5))) (d_tree (d_nth a 0)))
  | 3%Z => e_res (e_list e_str) (alpha_labels (d_list d_entry (d_nth a 0)))
  | 4%Z => e_res (e_list e_key3)
             (Ok (sort_entries (if d_bool (d_nth a 1) then SAuthorYearTitle else SNone) (d_list d_entry (d_nth a 0))))
  | 5%Z => e_tres e_ftext (format_name (d_dec (d_nth a 3)) (d_nstyle (d_nth a 1)) (d_bool (d_nth a 2)) (d_person (d_nth a 0)))
  | 6%Z => e_res e_str (Ok (abbreviate (d_str (d_nth a 0))))
  | 7%Z => e_tres e_ftext (from_latex (d_dec (d_nth a 1)) (d_str (d_nth a 0)))
  | 8%Z => e_res (e_list e_str) (Ok (number_labels (repeat tt (d_nat (d_nth a 0)))))
  | 9%Z => e_res e_str (format_label (d_entry (d_nth a 0)))
  | 10%Z => e_list (fun c => L [e_tres (e_list e_fentry)
             (format_bibliography (d_cfg (d_nth c 0)) (d_dec (d_nth c 4)) (d_templates (d_nth c 3))
                (d_list d_entry (d_nth c 1)) (d_opt (d_list d_str) (d_nth c 2))); A 1%Z]) (d_items a)
  | _ => L []
  end.

Extraction "model.ml" dispatch.
