From Pybtex Require Import Base.Prelude Base.PyChar Base.PyStr Model.Errors.
Require Extraction.
Require Import ExtrOcamlBasic.

(* wire format of error objects: (id msg fname kind ctx)
   fname: () | (0 str) | (1) | (2 bytes)          kind: (0) | (1 etype lineno?) | (2 lineno?)
   ctx: (0) | (1 text lineno? pos) | (2 text start? pos) | (3 line?) *)
Definition d_fname (s : sexp) : fname :=
  match d_items s with
  | [] => FnNone
  | t :: rest => if Z.eqb (d_Z t) 0 then FnStr (d_str (nth 0 rest (L [])))
                 else if Z.eqb (d_Z t) 2 then FnBytes (d_str (nth 0 rest (L []))) else FnBad
  end.
Definition d_kind (s : sexp) : skind :=
  match d_Z (d_nth s 0) with
  | 1%Z => SSyntax (d_str (d_nth s 1)) (d_opt d_Z (d_nth s 2))
  | 2%Z => SAux (d_opt d_Z (d_nth s 1))
  | _ => SPlain
  end.
Definition d_ctx (s : sexp) : ctx :=
  match d_Z (d_nth s 0) with
  | 1%Z => CScan (d_str (d_nth s 1)) (d_opt d_Z (d_nth s 2)) (d_Z (d_nth s 3))
  | 2%Z => CBib (d_str (d_nth s 1)) (d_opt d_Z (d_nth s 2)) (d_Z (d_nth s 3))
  | 3%Z => CAux (d_opt d_str (d_nth s 1))
  | _ => CNone
  end.
Definition d_err (s : sexp) : err :=
  mkErr (d_N (d_nth s 0)) (d_str (d_nth s 1)) (d_fname (d_nth s 2)) (d_kind (d_nth s 3)) (d_ctx (d_nth s 4)).

Definition enc_fname (f : fname) : sexp :=
  match f with FnNone => L [] | FnStr s => L [A 0%Z; e_str s] | FnBytes b => L [A 2%Z; e_str b] | FnBad => L [A 1%Z] end.
Definition enc_kind (k : skind) : sexp :=
  match k with
  | SPlain => L [A 0%Z]
  | SSyntax t l => L [A 1%Z; e_str t; e_opt e_Z l]
  | SAux l => L [A 2%Z; e_opt e_Z l]
  end.
Definition enc_ctx (c : ctx) : sexp :=
  match c with
  | CNone => L [A 0%Z]
  | CScan t l p => L [A 1%Z; e_str t; e_opt e_Z l; e_Z p]
  | CBib t s p => L [A 2%Z; e_str t; e_opt e_Z s; e_Z p]
  | CAux l => L [A 3%Z; e_opt e_str l]
  end.

(* ops: (0 b) strict | (1) enter | (2) exit | (3) abort1 | (4) abortall | (5 err) report *)
Definition d_op (s : sexp) : op :=
  match d_Z (d_nth s 0) with
  | 0%Z => OStrict (d_bool (d_nth s 1))
  | 1%Z => OEnter
  | 2%Z => OExit
  | 3%Z => OAbort1
  | 4%Z => OAbortAll
  | _ => OReport (d_err (d_nth s 1))
  end.
Definition e_event (e : event) : sexp :=
  match e with
  | EvYield i => L [A 0%Z; e_nat i]
  | EvAppended i id => L [A 1%Z; e_nat i; e_N id]
  | EvRaised id => L [A 2%Z; e_N id]
  | EvPrinted id => L [A 3%Z; e_N id]
  | EvCrash id => L [A 4%Z; e_N id]
  | EvForeign => L [A 5%Z]
  end.
Definition e_ids (l : list err) : sexp := e_list (fun e => e_N (e_id e)) l.
Definition e_G (g : G) : sexp :=
  L [e_bool (g_strict g); e_Z (g_code g); e_opt e_nat (g_cap g); e_list e_ids (g_heap g); e_str (g_out g)].

(* comp: ((err ...) ending)   ending: (0) done | (1 err) fatal | (2) foreign *)
Definition d_comp (s : sexp) : comp :=
  let ending := match d_Z (d_nth (d_nth s 1) 0) with
                | 1%Z => Fatal (d_err (d_nth (d_nth s 1) 1))
                | 2%Z => Foreign
                | _ => Done end in
  fold_right Report ending (d_list d_err (d_nth s 0)).
Definition e_outcome (o : outcome) : sexp :=
  match o with Returned => L [A 0%Z] | Raised e => L [A 1%Z; e_N (e_id e)] | Crashed => L [A 2%Z] end.

(* scanner state: (text filename? lineno pos)   aux context: (filename? lineno? line?) *)
Definition d_pfname (s : sexp) : pfname :=
  match d_fname s with FnStr x => PStr x | FnBytes b => PBytes b | _ => PNone end.
Definition d_scanner (s : sexp) : scanner :=
  mkScanner (d_str (d_nth s 0)) (d_pfname (d_nth s 1)) (d_Z (d_nth s 2)) (d_Z (d_nth s 3)).
Definition d_auxctx (s : sexp) : auxctx :=
  mkAuxctx (d_pfname (d_nth s 0)) (d_opt d_Z (d_nth s 1)) (d_opt d_str (d_nth s 2)).
(* constructor calls: (0 msg fname) (1 etype msg sc) (2 sc) (3 desc sc) (4 desc sc start?) (5 msg auxctx)
   (6 desc text fname pos): TokenRequired over a line-less scanner   (7 etype msg fname): syntax error of one *)
Definition d_construct (s : sexp) : err :=
  match d_Z (d_nth s 0) with
  | 0%Z => new_pybtex_error 0 (d_str (d_nth s 1)) (d_fname (d_nth s 2))
  | 1%Z => new_syntax_error 0 (d_str (d_nth s 1)) (d_str (d_nth s 2)) (d_scanner (d_nth s 3))
  | 2%Z => new_premature_eof 0 (d_scanner (d_nth s 1))
  | 3%Z => new_token_required 0 (d_str (d_nth s 1)) (d_scanner (d_nth s 2))
  | 4%Z => new_token_required_bib 0 (d_str (d_nth s 1)) (d_scanner (d_nth s 2)) (d_opt d_Z (d_nth s 3))
  | 5%Z => new_aux_error 0 (d_str (d_nth s 1)) (d_auxctx (d_nth s 2))
  | 6%Z => new_token_required_nl 0 (d_str (d_nth s 1)) (d_str (d_nth s 2)) (d_pfname (d_nth s 3)) (d_Z (d_nth s 4))
  | _ => new_syntax_error_nl 0 (d_str (d_nth s 1)) (d_str (d_nth s 2)) (d_pfname (d_nth s 3))
  end.

Definition start (strict : bool) (code : Z) : G := mkG strict code None [] [].

Definition dispatch (fn : Z) (a : sexp) : sexp :=
  match fn with
  | 1%Z => e_res e_str (format_error (d_err (d_nth a 0)) (d_str (d_nth a 1)))
  | 2%Z => L [A 0%Z; e_str (err_str (d_err a))]
  | 3%Z => e_res (e_opt e_str) (err_context (d_err a))
  | 4%Z =>
    let '(g, d, ev) := run_hist (start (d_bool (d_nth a 0)) (d_Z (d_nth a 1))) O (d_list d_op (d_nth a 2)) in
    L [e_G g; e_nat d; e_list e_event ev]
  | 5%Z =>
    let c := d_comp (d_nth a 1) in
    let code := d_Z (d_nth a 0) in
    let '(gc, oc, lst) := with_capture (start true code) c in
    let '(gc', oc', lst') := with_capture (start false code) c in
    let '(gn, on) := run_comp (start false code) c in
    let '(gs, os) := run_comp (start true code) c in
    L [L [e_G gc; e_outcome oc; e_ids lst]; L [e_G gc'; e_outcome oc'; e_ids lst'];
       L [e_G gn; e_outcome on]; L [e_G gs; e_outcome os]]
  | 6%Z =>
    let '(g, st) := cmdline_call (start (d_bool (d_nth a 0)) (d_Z (d_nth a 1))) (d_bool (d_nth a 2)) (d_comp (d_nth a 3)) in
    L [e_G g; e_res e_Z st]
  | 7%Z =>
    match scanner_required (d_str (d_nth a 0)) (d_str (d_nth a 1)) (d_fname (d_nth a 2)) 0 with
    | inl tok => L [A 0%Z; e_str tok]
    | inr e =>
      (* what a user can observe of the error: lineno, get_context(), format_error *)
      L [A 1%Z;
         e_opt e_Z (match e_kind e with SSyntax _ l => l | SAux l => l | SPlain => None end);
         e_res (e_opt e_str) (err_context e);
         e_res e_str (format_error e k_error)]
    end
  | 13%Z =>
    let e := d_construct a in
    L [L [A 0%Z; e_str (err_str e)];
       e_res (e_opt e_str) (err_context e);
       e_res e_str (format_error e k_error);
       e_opt e_Z (match e_kind e with SSyntax _ l => l | _ => None end);   (* the public lineno attribute *)
       e_res (e_opt e_str) (err_filename e)]
  | 18%Z =>
    match lineless_required (d_str (d_nth a 0)) (d_str (d_nth a 1)) (d_pfname (d_nth a 2)) 0 with
    | inl tok => L [A 0%Z; e_str tok]
    | inr e =>
      L [A 1%Z;
         e_opt e_Z (match e_kind e with SSyntax _ l => l | SAux l => l | SPlain => None end);
         e_res (e_opt e_str) (err_context e);
         e_res e_str (format_error e k_error)]
    end
  | 8%Z => e_list e_str (splitlines (d_bool (d_nth a 0)) (d_str (d_nth a 1)))
  | 9%Z => e_str (Z_to_str (d_Z a))
  | _ => L []
  end.

Extraction "model.ml" dispatch.
