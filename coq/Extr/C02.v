From Pybtex Require Import Base.Prelude Base.PyChar Base.PyStr Model.BibtexStr Model.Names Model.Scanner Model.BibParser Model.Writers.
Require Extraction.
Require Import ExtrOcamlBasic.

Definition e_person (p : person) : sexp :=
  L [e_list e_str (p_first p); e_list e_str (p_middle p); e_list e_str (p_prelast p);
     e_list e_str (p_last p); e_list e_str (p_lineage p)].
Definition d_person (s : sexp) : person :=
  mkPerson (d_list d_str (d_nth s 0)) (d_list d_str (d_nth s 1)) (d_list d_str (d_nth s 2))
           (d_list d_str (d_nth s 3)) (d_list d_str (d_nth s 4)).
Definition e_wentry (e : wentry) : sexp :=
  L [e_str (we_key e); e_str (we_otype e); e_list (e_pair e_str e_str) (we_fields e);
     e_list (e_pair e_str (e_list e_person)) (we_persons e)].
Definition d_pair {X Y} (f : sexp -> X) (g : sexp -> Y) (s : sexp) : X * Y := (f (d_nth s 0), g (d_nth s 1)).
Definition d_wentry (s : sexp) : wentry :=
  mkWE (d_str (d_nth s 0)) (d_str (d_nth s 1)) (d_list (d_pair d_str d_str) (d_nth s 2))
       (d_list (d_pair d_str (d_list d_person)) (d_nth s 3)).
Definition e_wdb (d : wdb) : sexp := L [e_list e_wentry (wd_entries d); e_list e_str (wd_preamble d)].
(* a database on the wire is built through the API: repeated keys / field names behave as in pybtex *)
Definition d_wdb (s : sexp) : res wdb := build_db (d_list d_wentry (d_nth s 0)) (d_list d_str (d_nth s 1)).

Fixpoint e_tree (t : tree) : sexp :=
  match t with
  | TStr s => L [A 0%Z; e_str s]
  | TMap l => L [A 1%Z; L (map (fun kv => L [e_str (fst kv); e_tree (snd kv)]) l)]
  | TSeq l => L [A 2%Z; L (map e_tree l)]
  end.
Fixpoint d_tree (fuel : nat) (s : sexp) : tree :=
  match fuel with
  | O => TStr []
  | S f =>
    match d_Z (d_nth s 0) with
    | 1%Z => TMap (map (fun kv => (d_str (d_nth kv 0), d_tree f (d_nth kv 1))) (d_items (d_nth s 1)))
    | 2%Z => TSeq (map (d_tree f) (d_items (d_nth s 1)))
    | _ => TStr (d_str (d_nth s 1))
    end
  end.
Fixpoint e_xml (x : xml) : sexp :=
  match x with
  | XEl t i tx cs => L [e_str t; e_opt e_str i; e_opt e_str tx; L (map e_xml cs)]
  end.
Fixpoint d_xml (fuel : nat) (s : sexp) : xml :=
  match fuel with
  | O => XEl [] None None []
  | S f => XEl (d_str (d_nth s 0)) (d_opt d_str (d_nth s 1)) (d_opt d_str (d_nth s 2)) (map (d_xml f) (d_items (d_nth s 3)))
  end.
Definition d_fmt (s : sexp) : fmt := match d_Z s with 0%Z => FBib | 1%Z => FXml | _ => FYaml end.
Definition deep : nat := 64.
Definition e_unit (_ : unit) : sexp := L [].

(* 1 Writer.quote   2 Writer.check_braces   3 Writer._format_name   4 to_string('bibtex')
   5 Writer._encode (latexcodec, measured)   6 yaml Writer._to_dict   7 yaml reader on a tree
   8 BibTeXML writer as an element tree   9 BibTeXML reader on an element tree
   10 Person(first=..,...) of the part texts   11 BibliographyData.lower()
   12 write then read in one format   13 to_file + convert() chain + parse_file
   15 pickle, 16 repr/eval: oracle only (no model)   17 Writer._encode_with_comments
   18 parse_string(text, 'bibtex') as a database
   19 write/read (op 0-2) or a chain (op 3, 4) of database A and of B derived from A's Entry objects
   20 pickle / repr of A and B: oracle only *)
Definition dispatch (fn : Z) (a : sexp) : sexp :=
  match fn with
  | 1%Z => e_res e_str (quote (d_str (d_nth a 0)))
  | 2%Z => e_res e_unit (check_braces (d_str (d_nth a 0)))
  | 3%Z => e_str (format_name (d_person (d_nth a 0)))
  | 4%Z => e_res e_str (do d <- d_wdb (d_nth a 0); write_bibtex latex_enc d)
  | 5%Z => e_str (latex_enc (d_str (d_nth a 0)))
  | 6%Z => e_res e_tree (do d <- d_wdb (d_nth a 0); Ok (to_tree_yaml d))
  | 7%Z => e_res e_wdb (from_tree_yaml (d_tree deep (d_nth a 0)))
  | 8%Z => e_res e_xml (do d <- d_wdb (d_nth a 0); Ok (to_tree_xml d))
  | 9%Z => e_res e_wdb (from_tree_xml (d_xml deep (d_nth a 0)))
  | 10%Z => e_res e_person (reparse_person (d_person (d_nth a 0)))
  | 11%Z => e_res e_wdb (do d <- d_wdb (d_nth a 0); lower_db d)
  | 12%Z => e_res e_wdb (do d <- d_wdb (d_nth a 1); write_read latex_enc (d_fmt (d_nth a 0)) d)
  | 13%Z => e_res e_wdb (do d <- d_wdb (d_nth a 2);
                         chain latex_enc (d_list d_fmt (d_nth a 0)) (d_bool (d_nth a 1)) d)
  | 19%Z => (* shared Entry objects: the same operation on database A and on the database B derived from A's entries *)
    let op := d_Z (d_nth a 0) in
    let run := fun (x : sexp) =>
      e_res e_wdb (do d <- d_wdb x;
                   match op with
                   | 3%Z => chain latex_enc [FXml; FBib; FYaml] true d
                   | 4%Z => chain latex_enc [FYaml; FXml] false d
                   | _ => write_read latex_enc (d_fmt (A op)) d
                   end) in
    L [run (d_nth a 1); run (d_nth a 2)]
  | 17%Z => e_str (encode_with_comments latex_enc (d_str (d_nth a 0)))
  | 18%Z => e_res e_wdb (read_bibtex (d_str (d_nth a 0)))
  | _ => L []
  end.

Extraction "model.ml" dispatch.
