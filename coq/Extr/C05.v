From Pybtex Require Import Base.Prelude Base.PyChar Base.PyStr Model.Citations.
Require Extraction.
Require Import ExtrOcamlBasic.

Definition d_entry (s : sexp) : entry := (d_str (d_nth s 0), d_opt d_str (d_nth s 1)).
Definition d_db (s : sexp) : list entry := d_list d_entry s.
Definition d_keys (s : sexp) : list key := d_list d_str s.
Definition e_entry (e : entry) : sexp := L [e_str (fst e); e_opt e_str (snd e)].
Definition e_report (r : report) : sexp :=
  match r with
  | RRepeated k => L [A 1%Z; L [e_str k]]
  | RBadXref c p => L [A 2%Z; L [e_str c; e_str p]]
  | RMissing c => L [A 3%Z; L [e_str c]]
  end.
Definition e_kr (p : list key * list report) : sexp := L [e_list e_str (fst p); e_list e_report (snd p)].

(* outside the property's quantifier (a citation list that spells one key in two ways) only the
   letter case of the emitted keys is left open: both sides are compared lower-cased there *)
Definition consistentb (cites : list key) : bool :=
  forallb (fun a => forallb (fun b => implb (keyb a b) (str_eqb a b)) cites) cites.
Definition lo (cites : list key) (k : key) : key := if consistentb cites then k else lower k.
Definition e_entry_c (cs : list key) (e : entry) : sexp := L [e_str (lo cs (fst e)); e_opt (fun k => e_str (lo cs k)) (snd e)].
Definition e_report_c (cs : list key) (r : report) : sexp :=
  match r with
  | RRepeated k => L [A 1%Z; L [e_str (lo cs k)]]
  | RBadXref c p => L [A 2%Z; L [e_str (lo cs c); e_str (lo cs p)]]
  | RMissing c => L [A 3%Z; L [e_str (lo cs c)]]
  end.
Definition e_kr_c (cs : list key) (p : list key * list report) : sexp :=
  L [e_list (fun k => e_str (lo cs k)) (fst p); e_list (e_report_c cs) (snd p)].
(* command_read plus what it leaves in bib_data.entries (the keys, in order) *)
Definition e_krk_c (cs : list key) (E : edict) (p : list key * list report) : sexp :=
  L [e_list (fun k => e_str (lo cs k)) (fst p); e_list (e_report_c cs) (snd p); e_list (fun k => e_str (lo cs k)) (ed_keys E)].
(* the BibTeX engine end to end: cite$ of every entry plus, per entry, the (lower-cased) keys of the entries
   whose fields it sees *)
Definition e_kra_c (cs : list key) (E : edict) (p : list key * list report) : sexp :=
  L [e_list (fun k => e_str (lo cs k)) (fst p); e_list (e_report_c cs) (snd p);
     e_list (fun k => e_list (fun a => e_str (lower a)) (ancestors E k)) (fst p)].
Definition oks (o : option (list key)) : list key := match o with Some l => l | None => [] end.

(* 1 _expand_wildcard_citations (db, cites)          2 _get_crossreferenced_citations (db, cites, m)
   3 add_extra_citations (db, cites, m)               4 BibliographyData(entries, wanted_entries) (db, wanted?)
   5 bibtex Parser(wanted_entries).parse_string       6 Interpreter.command_read (db, cites, m, strict)
   7 BaseStyle.format_bibliography (db, cites?, m)    8 PybtexEngine.format_from_string (db, cites, m, strict)
   9 BibTeXEngine.format_from_string (db, cites, m, strict)   10 unfiltered reading + selection (db, cites, m)
   11 / 12 / 13 = 5 / 9 / 8 through the multi-source entry points (parse_files, format_from_strings/files,
   make_bibliography): the database is the concatenation of the sources, further arguments ignored
   14 / 15 = 5 / 4 through the yaml / bibtexml readers and add_entries()/add_entry(); 16 / 17 / 18 = 6 / 9 / 8 on a
   yaml / bibtexml database *)
Definition dispatch (fn : Z) (a : sexp) : sexp :=
  let db := d_db (d_nth a 0) in
  let cs := d_keys (d_nth a 1) in
  let ocs := d_opt d_keys (d_nth a 1) in
  let m := d_Z (d_nth a 2) in
  match fn with
  | 1%Z => e_res (e_list (fun k => e_str (lo cs k))) (Ok (expand (bd_entries (read_db None db)) cs))
  | 2%Z => let ev := xref_events (bd_entries (read_db None db)) cs m in
           e_res (e_kr_c cs) (Ok (yields ev, reports ev))
  | 3%Z => e_res (e_kr_c cs) (Ok (add_extra (bd_entries (read_db None db)) cs m))
  | 4%Z | 5%Z | 11%Z | 14%Z | 15%Z =>
           let bd := read_db ocs db in
           e_res (fun bd => L [e_list (e_entry_c (oks ocs)) (bd_entries bd); e_list (e_report_c (oks ocs)) (bd_reports bd)]) (Ok bd)
  | 6%Z | 16%Z => e_res (e_krk_c cs (bd_entries (read_db (Some cs) db))) (command_read db cs m (d_bool (d_nth a 3)))
  | 9%Z | 12%Z | 17%Z => e_res (e_kra_c cs (bd_entries (read_db (Some cs) db))) (command_read db cs m (d_bool (d_nth a 3)))
  | 7%Z => e_res (e_kr_c (oks ocs)) (Ok (format_bibliography_raw (bd_entries (read_db None db)) ocs m))
  | 8%Z | 13%Z | 18%Z => e_res (e_kr_c cs) (py_engine db cs m (d_bool (d_nth a 3)))
  | 10%Z => e_res (e_kr_c cs) (Ok (select_unfiltered db cs m))
  | _ => L []
  end.

Extraction "model.ml" dispatch.
