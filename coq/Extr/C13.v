From Pybtex Require Import Base.Prelude Base.PyChar Base.PyStr Model.CIDict Model.CIDictStr Model.CIMulti.
Require Extraction.
Require Import ExtrOcamlBasic.

Definition d_cls (s : sexp) : cls :=
  match d_Z s with 1%Z => ClsOrdered | 2%Z => ClsDefault | _ => ClsPlain end.
Definition d_kv (s : sexp) : str * Z := (d_str (d_nth s 0), d_Z (d_nth s 1)).

(* operations: (0 k v) set, (1 k) get, (2 k) del, (3 k) contains, (4 k opt) get-with-default,
   (5 k opt) pop, (6) popitem, (7 k d) setdefault, (8 pairs) update, (9) clear, (10) lower, (11 k x) mutate the object c[k] returns: append digit x *)
Definition d_op (s : sexp) : op str Z :=
  let k := d_str (d_nth s 1) in
  match d_Z (d_nth s 0) with
  | 0%Z => OSet k (d_Z (d_nth s 2))
  | 1%Z => OGet k
  | 2%Z => ODel k
  | 3%Z => OContains k
  | 4%Z => OGetD k (d_opt d_Z (d_nth s 2))
  | 5%Z => OPop k (d_opt d_Z (d_nth s 2))
  | 6%Z => OPopitem
  | 7%Z => OSetdefault k (d_Z (d_nth s 2))
  | 8%Z => OUpdate (d_list d_kv (d_nth s 1))
  | 9%Z => OClear
  | 10%Z => OLower
  | _ => OMutate k (mut_append (d_Z (d_nth s 2)))
  end.

Definition d_tbl (s : sexp) : list (str * str) := d_list (fun p => (d_str (d_nth p 0), d_str (d_nth p 1))) s.

Definition e_eres {X} (f : X -> sexp) (r : eres X) : sexp := e_res f (eres_to_res r).
Definition e_kv (p : str * Z) : sexp := L [e_str (fst p); e_Z (snd p)].
Definition e_ret (r : ret str Z) : sexp :=
  match r with
  | RNone => L [A 0%Z]
  | RVal v => L [A 1%Z; e_Z v]
  | RBool b => L [A 2%Z; e_bool b]
  | RKey k => L [A 3%Z; e_str k]
  | RItem k v => L [A 4%Z; e_str k; e_Z v]
  end.
Definition e_obs (o : obs str Z) : sexp :=
  L [ e_list e_str (o_iter _ _ o);
      e_eres (e_list e_kv) (o_items _ _ o);
      e_nat (o_len _ _ o);
      e_eres (e_list e_kv) (o_repr _ _ o);
      e_list e_bool (o_contains _ _ o);
      e_list (e_eres e_Z) (o_lookup _ _ o) ].

(* observations are printed only from step number `from` on (step 0 = the constructor) *)
Fixpoint number {X} (from i : nat) (f : bool -> X -> sexp) (l : list X) : list sexp :=
  match l with
  | [] => []
  | x :: r => f (Nat.leb from i) x :: number from (S i) f r
  end.

(* 1: (cls dflt init_pairs ops probes from lower_table) -> ((unit obs0) (result obs) ...) *)
Definition run_dict (a : sexp) : sexp :=
  let c := d_cls (d_nth a 0) in
  let lw := tbl_lower (d_tbl (d_nth a 6)) in
  let c0 := match c with
            | ClsDefault => default_init str Z (FacVal (d_Z (d_nth a 1)))
            | _ => ci_init str Z str_eqb lw c (d_list d_kv (d_nth a 2))
            end in
  let probes := d_list d_str (d_nth a 4) in
  let from := d_nat (d_nth a 5) in
  L (number from 0 (fun b xo => L [e_eres e_ret (fst xo); if b then e_obs (snd xo) else L []])
       ((EOk RNone, observe str Z str_eqb lw probes c0) :: run str Z str_eqb lw probes c0 (d_list d_op (d_nth a 3)))).

(* set operations: (0 k) add, (1 k) discard, (2 k) remove, (3 k) contains, (4 k) get_canonical_key,
   (5) lower, (6) clear, (7 l) |=, (8 l) -=, (9 choice) pop *)
Definition d_sop (s : sexp) : sop str :=
  let k := d_str (d_nth s 1) in
  match d_Z (d_nth s 0) with
  | 0%Z => SAdd k
  | 1%Z => SDiscard k
  | 2%Z => SRemove k
  | 3%Z => SContains k
  | 4%Z => SCanonical k
  | 5%Z => SLower
  | 6%Z => SClear
  | 7%Z => SIor (d_list d_str (d_nth s 1))
  | 8%Z => SIsub (d_list d_str (d_nth s 1))
  | _ => SPop k
  end.
Definition e_sret (r : sret str) : sexp :=
  match r with
  | SRNone => L [A 0%Z]
  | SRBool b => L [A 2%Z; e_bool b]
  | SRKey k => L [A 3%Z; e_str k]
  end.
Definition e_sobs (o : sobs str) : sexp :=
  L [ e_list e_str (so_iter _ o);
      e_nat (so_len _ o);
      e_list e_str (so_repr _ o);
      e_list e_bool (so_contains _ o);
      e_list (e_eres e_str) (so_canonical _ o) ].

(* 2: (init_list ops probes from lower_table) -> (0 ((unit obs0) (result obs) ...))  or (3) for an impossible history *)
Definition run_set (a : sexp) : sexp :=
  let lw := tbl_lower (d_tbl (d_nth a 4)) in
  let s0 := cs_init str str_eqb lw (d_list d_str (d_nth a 0)) in
  let probes := d_list d_str (d_nth a 2) in
  match srun str str_eqb lw str_sort probes s0 (d_list d_sop (d_nth a 1)) with
  | None => L [A 3%Z]
  | Some l =>
    L [A 0%Z;
       L (number (d_nat (d_nth a 3)) 0 (fun b xo => L [e_eres e_sret (fst xo); if b then e_sobs (snd xo) else L []])
            ((EOk SRNone, sobserve str str_eqb lw str_sort probes s0) :: l))]
  end.

(* multi-container operations: (0 i op) op on container i, (1 i) new = c_i.lower(), (2 i cl) new = cl(c_i),
   (3 i cl) new = cl(c_i.items()), (4 i j) c_i.update(c_j), (5 cl pairs) new = cl(pairs), (6 d0) new defaulting *)
Definition d_mop (s : sexp) : mop str Z :=
  let i := d_nat (d_nth s 1) in
  match d_Z (d_nth s 0) with
  | 0%Z => MOp i (d_op (d_nth s 2))
  | 1%Z => MLower i
  | 2%Z => MCopy i (d_cls (d_nth s 2))
  | 3%Z => MCopyItems i (d_cls (d_nth s 2))
  | 4%Z => MUpdateFrom i (d_nat (d_nth s 2))
  | 5%Z => MNew (d_cls (d_nth s 1)) (d_list d_kv (d_nth s 2))
  | _ => MNewDefault (d_Z (d_nth s 1))
  end.
(* 3: (ops probes from lower_table) -> ((result (obs of every live container)) ...) *)
Definition run_multi (a : sexp) : sexp :=
  let probes := d_list d_str (d_nth a 1) in
  L (number (d_nat (d_nth a 2)) 0 (fun b xo => L [e_eres e_ret (fst xo); if b then e_list e_obs (snd xo) else L []])
       (mrun str Z str_eqb (tbl_lower (d_tbl (d_nth a 3))) probes [] (d_list d_mop (d_nth a 0)))).

(* multi-set operations: (0 i sop), (1 i) lower, (2 i) copy, (3 i j) |=, (4 i j) -=, (5 l) new *)
Definition d_smop (s : sexp) : smop str :=
  let i := d_nat (d_nth s 1) in
  match d_Z (d_nth s 0) with
  | 0%Z => SMOp i (d_sop (d_nth s 2))
  | 1%Z => SMLower i
  | 2%Z => SMCopy i
  | 3%Z => SMIorFrom i (d_nat (d_nth s 2))
  | 4%Z => SMIsubFrom i (d_nat (d_nth s 2))
  | _ => SMNew (d_list d_str (d_nth s 1))
  end.
Definition run_multiset (a : sexp) : sexp :=
  let probes := d_list d_str (d_nth a 1) in
  match smrun str str_eqb (tbl_lower (d_tbl (d_nth a 3))) str_sort probes [] (d_list d_smop (d_nth a 0)) with
  | None => L [A 3%Z]
  | Some l =>
    L [A 0%Z; L (number (d_nat (d_nth a 2)) 0 (fun b xo => L [e_eres e_sret (fst xo); if b then e_list e_sobs (snd xo) else L []]) l)]
  end.

Definition dispatch (fn : Z) (a : sexp) : sexp :=
  match fn with
  | 1%Z => run_dict a
  | 2%Z => run_set a
  | 3%Z => run_multi a
  | 4%Z => run_multiset a
  | _ => L []
  end.

Extraction "model.ml" dispatch.
