From Pybtex Require Import Base.Prelude Base.PyChar Base.PyStr Model.Wrap.
Require Extraction.
Require Import ExtrOcamlBasic.

Definition d_op (s : sexp) : str + unit :=
  match d_items s with
  | [x] => inl (d_str x)
  | _ => inr tt
  end.

(* 1: wrap(s, width, indent)   2: run of write$/newline$ operations   3: history of wrap calls *)
Definition dispatch (fn : Z) (a : sexp) : sexp :=
  match fn with
  | 1%Z => e_res e_str (wrap (d_str (d_nth a 0)) (d_nat (d_nth a 1)) (d_str (d_nth a 2)))
  | 2%Z => e_res e_str (run_output (d_list d_op a) [] [])
  (* 4: the same operations as a generated .bst run by Interpreter.run: what is still buffered at the end is not emitted *)
  | 4%Z => e_res e_str (run_output (d_list d_op a) [] [])
  (* 3: a history of wrap calls in one process; the model is a function, so every call is answered on its own *)
  | 3%Z => L (map (fun c => e_res e_str (wrap (d_str (d_nth c 0)) (d_nat (d_nth c 1)) (d_str (d_nth c 2)))) (d_items a))
  | _ => L []
  end.

Extraction "model.ml" dispatch.
