From Pybtex Require Import Base.Prelude Base.PyChar Base.PyStr Model.BibtexStr Model.Names Model.Global.
Require Extraction.
Require Import ExtrOcamlBasic.

(* ---- decoders ---- *)
Definition d_pairs (s : sexp) : list (str * str) := d_list (fun p => (d_str (d_nth p 0), d_str (d_nth p 1))) s.
Definition d_vpart (s : sexp) : vpart :=
  if Z.eqb (d_Z (d_nth s 0)) 0 then VLit (d_str (d_nth s 1)) else VMacro (d_str (d_nth s 1)).
Definition d_value (s : sexp) : list vpart := d_list d_vpart s.
Definition d_command (s : sexp) : command :=
  match d_Z (d_nth s 0) with
  | 0%Z => CString (d_str (d_nth s 1)) (d_value (d_nth s 2))
  | 1%Z => CPreamble (d_value (d_nth s 1))
  | 2%Z => CEntry (d_str (d_nth s 1)) (d_str (d_nth s 2))
                  (d_list (fun f => (d_str (d_nth f 0), d_value (d_nth f 1))) (d_nth s 3))
  | 3%Z => CComment
  | _ => CBad
  end.
Definition d_file (s : sexp) : list command := d_list d_command s.
Definition d_nkey (s : sexp) : nkey := (d_str (d_nth s 0), d_Z (d_nth s 1), d_str (d_nth s 2)).
Definition d_op (s : sexp) : bool * op :=
  (d_bool (d_nth s 0),
   match d_Z (d_nth s 1) with
   | 0%Z => ONewReader (mkOpts (d_opt d_pairs (d_nth s 2)) (d_bool (d_nth s 3)) (d_opt (d_list d_str) (d_nth s 4)))
   | 1%Z => OFeed (d_nat (d_nth s 2)) (d_file (d_nth s 3))
   | 2%Z => OParse (mkOpts (d_opt d_pairs (d_nth s 2)) (d_bool (d_nth s 5)) (d_opt (d_list d_str) (d_nth s 6))) (d_list d_file (d_nth s 3))
            (* element 4 is the entry point the implementation wrapper uses: not part of the computation *)
   | 3%Z => OLowLevel (d_opt d_nat (d_nth s 2)) (d_file (d_nth s 3))
   | 4%Z => OFormatName (d_str (d_nth s 2)) (d_Z (d_nth s 3)) (d_str (d_nth s 4))
   | 5%Z => OBstRun (d_list d_nkey (d_nth s 2))
   | 6%Z => OSetStrict (d_bool (d_nth s 2))
   | _ => OOpaque (d_N (d_nth s 2))
   end).

Definition d_err (s : sexp) : err := (d_N (d_nth s 0), d_str (d_nth s 1)).
Definition d_res {X} (f : sexp -> X) (s : sexp) : res X :=
  match d_Z (d_nth s 0) with
  | 0%Z => Ok (f (d_nth s 1))
  | 1%Z => PyErr (d_N (d_nth s 1)) (-1)%Z
  | 2%Z => Crash
  | _ => OutOfFuel
  end.

(* the table of the un-memoised name formatter: [[name, format, reports, result] ...] *)
Definition fmt_row := (str * str * (list err * res str))%type.
Definition d_fmt_row (s : sexp) : fmt_row :=
  (d_str (d_nth s 0), d_str (d_nth s 1), (d_list d_err (d_nth s 2), d_res d_str (d_nth s 3))).
Fixpoint fmt_of_table (t : list fmt_row) (name format : str) : list err * res str :=
  match t with
  | [] => ([], Crash)
  | (n, f, v) :: r => if (str_eqb n name && str_eqb f format)%bool then v else fmt_of_table r name format
  end.

(* ---- encoders ---- *)
Definition e_err (x : err) : sexp := L [e_N (fst x); e_str (snd x)].
Definition e_person (p : person) : sexp :=
  L [e_list e_str (p_first p); e_list e_str (p_middle p); e_list e_str (p_prelast p);
     e_list e_str (p_last p); e_list e_str (p_lineage p)].
Definition e_entry (ke : str * entry) : sexp :=
  L [e_str (fst ke); e_str (en_type (snd ke));
     e_list (e_pair e_str e_str) (en_fields (snd ke));
     e_list (e_pair e_str (e_list e_person)) (en_persons (snd ke))].
Definition e_item (i : item) : sexp :=
  match i with
  | IString n parts => L [A 0%Z; e_str n; e_list e_str parts]
  | IPreamble parts => L [A 1%Z; e_list e_str parts]
  | IEntry t k fs => L [A 2%Z; e_str t; e_opt e_str k; e_list (e_pair e_str (e_list e_str)) fs]
  end.
Definition e_oval (v : oval) : sexp :=
  match v with
  | VUnit => L [A 0%Z]
  | VReader i => L [A 1%Z; e_nat i]
  | VData (es, pre, mac) => L [A 2%Z; e_list e_entry es; e_list e_str pre; e_list (e_pair e_str e_str) mac]
  | VItems l => L [A 3%Z; e_list e_item l]
  | VStr s => L [A 4%Z; e_str s]
  | VStrs l => L [A 5%Z; e_list e_str l]
  end.
Definition e_outcome (o : outcome) : sexp :=
  L [e_res e_oval (o_val o); e_list e_err (o_stderr o); e_opt (e_list e_err) (o_captured o)].
Definition e_nkey (k : nkey) : sexp := let '(a, n, f) := k in L [e_str a; A n; e_str f].
Definition e_final (g : G) : sexp :=
  L [ e_list (e_pair e_str e_str) (c_items (h_get (g_heap g) 0));
      e_list (fun kv => e_nkey (fst kv)) (memory (g_mf g)); e_list e_nkey (history (g_mf g));
      e_list (fun kv => e_str (fst kv)) (memory (g_ms g)); e_list e_str (history (g_ms g));
      e_bool (e_strict (g_err g)); A (e_code (g_err g));
      e_bool (match e_captured (g_err g) with None => true | Some _ => false end) ].

(* ---- fn 1: pybtex.utils.memoize(f, capacity) over a table function, counting the calls of f ---- *)
Fixpoint tab_get (k : N) (t : list (N * res N)) : res N :=
  match t with [] => Ok 0%N | (k', v) :: r => if N.eqb k k' then v else tab_get k r end.
Definition counted (t : list (N * res N)) (k : N) (s : nat) : nat * res N := (S s, tab_get k t).

Definition run_memo (a : sexp) : sexp :=
  let cap := d_nat (d_nth a 0) in
  let t := d_list (fun p => (d_N (d_nth p 0), d_res d_N (d_nth p 1))) (d_nth a 1) in
  let ks := d_list d_N (d_nth a 2) in
  let '((m, n), rs) := memo_run N.eqb cap (counted t) ks (memo0, 0) in
  L [e_list (e_res e_N) rs; e_list (e_pair e_N e_N) (memory m); e_list e_N (history m); e_nat n].

(* ---- fn 2: a history of API calls from the initial state ---- *)
Definition self_contained (o : op) : bool :=
  match o with OParse _ _ | OFormatName _ _ _ | OBstRun _ | OLowLevel None _ | OOpaque _ => true | _ => false end.

(* each self-contained call once more from the initial state (same strict flag): what a fresh
   interpreter would return *)
Fixpoint baselines (cap : nat) (fmt : fmt_fun) (g : G) (cos : list (bool * op)) : list sexp :=
  match cos with
  | [] => []
  | co :: r =>
    let b := if self_contained (snd co)
             then L [e_outcome (snd (step cap fmt (with_err G0 (set_strict (e_strict (g_err g)) errs0)) co))]
             else L [] in
    b :: baselines cap fmt (fst (step cap fmt g co)) r
  end.

Definition run_history (a : sexp) : sexp :=
  let cap := d_nat (d_nth a 0) in
  let fmt := fmt_of_table (d_list d_fmt_row (d_nth a 1)) in
  let ops := d_list d_op (d_nth a 2) in
  let '(g, outs) := run cap fmt G0 ops in
  L [e_list e_outcome outs; e_final g; L (baselines cap fmt G0 ops); e_nat cap].

(* ---- fn 3: a history of opaque engine calls (ids).  In the model an opaque call returns and touches no cell of G
   (exec _ _ g (OOpaque id) = (g, Ok VUnit)), so what it returns can only be a function of its id: every repetition
   of an id gives what its first occurrence gave.  Output: for each position the index of the first occurrence. ---- *)
Fixpoint first_idx (ids : list N) (k : N) (i : nat) : nat :=
  match ids with [] => i | x :: r => if N.eqb x k then i else first_idx r k (S i) end.
Definition run_engines (a : sexp) : sexp :=
  let ids := d_list d_N a in
  e_list (fun k => L [e_N k; e_nat (first_idx ids k 0)]) ids.

Definition dispatch (fn : Z) (a : sexp) : sexp :=
  match fn with
  | 1%Z => run_memo a
  | 2%Z => run_history a
  | 3%Z => run_engines a
  | _ => L []
  end.

Extraction "model.ml" dispatch.
