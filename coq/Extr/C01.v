From Pybtex Require Import Base.Prelude Base.PyChar Base.PyStr Model.BibtexStr Model.Names Model.Scanner Model.BibParser Model.BibParserOpt.
Require Extraction.
Require Import ExtrOcamlBasic.

Definition d_mode (s : sexp) : mode :=
  match d_Z s with 0%Z => Strict | 1%Z => NonStrict | _ => Capture end.

Definition e_person (p : person) : sexp :=
  L [e_list e_str (p_first p); e_list e_str (p_middle p); e_list e_str (p_prelast p);
     e_list e_str (p_last p); e_list e_str (p_lineage p)].
Definition e_entry (e : entry) : sexp :=
  L [e_bool (en_dirty e); e_str (en_key e); e_str (en_type e); e_str (en_otype e);
     e_list (e_pair e_str e_str) (en_fields e);
     e_list (e_pair e_str (e_list e_person)) (en_persons e)].
Definition e_err (e : err) : sexp := L [e_N (e_cls e); A (e_line e)].
Definition e_out {X} (f : X -> pst -> sexp) (r : out X) : sexp :=
  match r with
  | Ret x s => L [A 0%Z; f x s]
  | Fatal (FErr c l) => L [A 1%Z; e_N c; A l]
  | Fatal FCrash => L [A 2%Z]
  | Fatal FFuel => L [A 3%Z]
  | Exc _ _ => L [A 4%Z]
  end.
Definition e_db (d : db) (s : pst) : sexp :=
  L [e_list e_entry (db_entries d); e_list (e_pair e_bool e_str) (db_preamble d); e_list e_err (p_errs s)].
Definition e_cmd (c : cmd) : sexp :=
  match c with
  | CString n f v => L [A 0%Z; e_str n; e_opt e_str f; e_list e_str v]
  | CPreamble n v => L [A 1%Z; e_str n; e_list e_str v]
  | CEntry n k fs => L [A 2%Z; e_str n; e_opt e_str k; e_list (e_pair e_str (e_list e_str)) fs]
  end.
Definition e_low (d : list cmd) (s : pst) : sexp :=
  L [e_list e_cmd d; e_list e_err (p_errs s); e_list (e_pair e_str e_str) (p_macros s)].

Definition d_pat (s : sexp) : pat :=
  match d_items s with
  | [A 0%Z] => P_NAME | [A 1%Z] => P_KEY_PAREN | [A 2%Z] => P_KEY_BRACE | [A 3%Z] => P_NUMBER
  | [_; c] => P_LIT (d_N c)
  | _ => P_NAME
  end.
Definition e_pat (p : pat) : sexp :=
  match p with
  | P_NAME => L [A 0%Z] | P_KEY_PAREN => L [A 1%Z] | P_KEY_BRACE => L [A 2%Z] | P_NUMBER => L [A 3%Z]
  | P_LIT c => L [A 4%Z; e_N c]
  end.
Definition e_sc (s : sc) : sexp := L [e_str (sc_rest s); A (sc_line s); e_nat (sc_pos s)].

Definition d_opts (a : sexp) : opts :=
  mkOpts (d_opt (d_list d_str) (d_nth a 0)) (d_bool (d_nth a 1))
         (d_list (fun p => (d_str (d_nth p 0), d_str (d_nth p 1))) (d_nth a 2)) (d_list d_str (d_nth a 3)).
Definition e_dbo (d : dbo) (s : pst) : sexp := e_db (d_db d) s.

(* 13: Parser(wanted_entries=, keyless_entries=, macros=, person_fields=).parse_string(text), three modes
   1: Parser().parse_string(text) in strict, non-strict and capture mode
   8: capture-mode readings of x+bad+y, x+y, x        9, 10: capture-mode reading (10: of a rendering, C01)   11: low-level commands of a rendering   12: one Parser instance reading several strings
   2: list(LowLevelParser(text)) with the same error handler
   3: normalize_whitespace     4: pattern.match(text)      5: month_names
   6: get_token(patterns) on a scanner at (text, lineno 1)
   7: skip_to(one-character literals)      *)
Definition dispatch (fn : Z) (a : sexp) : sexp :=
  match fn with
  | 1%Z => let t := d_str (d_nth a 0) in
           L [e_out e_db (parse_bib Strict t); e_out e_db (parse_bib NonStrict t); e_out e_db (parse_bib Capture t)]
  | 2%Z => e_out e_low (lowlevel (d_mode (d_nth a 0)) (d_str (d_nth a 1)))
  | 3%Z => e_str (normalize_whitespace (d_str (d_nth a 0)))
  | 4%Z => e_opt (e_pair e_str e_str) (match_pat (d_pat (d_nth a 0)) (d_str (d_nth a 1)))
  | 5%Z => e_list (e_pair e_str e_str) month_macros
  | 6%Z => let (t, s) := get_token (d_list d_pat (d_nth a 0)) (sc_init (d_str (d_nth a 1))) in
           L [match t with TokEOF => L [A 0%Z] | TokNone => L [A 1%Z] | Tok p v => L [A 2%Z; e_pat p; e_str v] end; e_sc s]
  | 7%Z => let cs := d_str (d_nth a 0) in
           e_opt (fun x => L [e_str (fst (fst x)); e_N (snd (fst x)); e_sc (snd x)])
                 (skip_to (fun c => existsb (N.eqb c) cs) (sc_init (d_str (d_nth a 1))))
  | 8%Z => let x := d_str (d_nth a 0) in let bad := d_str (d_nth a 1) in let y := d_str (d_nth a 2) in
           L [e_out e_db (parse_bib Capture (x ++ bad ++ y)); e_out e_db (parse_bib Capture (x ++ y));
              e_out e_db (parse_bib Capture x); e_out e_db (parse_bib NonStrict (x ++ bad ++ y));
              e_out e_db (parse_bib NonStrict x); e_out e_db (parse_bib Strict (x ++ bad ++ y))]
  | 9%Z | 10%Z | 14%Z | 15%Z => e_out e_db (parse_bib Capture (d_str (d_nth a 0)))
  | 11%Z => e_out e_low (lowlevel Capture (d_str (d_nth a 0)))
  | 12%Z => e_out e_db (parse_bib_seq Capture (d_list d_str (d_nth a 0)) db_init month_macros [])
  | 13%Z => let o := d_opts (d_nth a 0) in let t := d_str (d_nth a 1) in
            L [e_out e_dbo (parse_bib_o o Strict t); e_out e_dbo (parse_bib_o o NonStrict t); e_out e_dbo (parse_bib_o o Capture t)]
  | _ => L []
  end.

Extraction "model.ml" dispatch.
