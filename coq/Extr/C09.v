From Pybtex Require Import Base.Prelude Base.PyChar Base.PyStr Model.RtTypes Model.Backends.
Require Extraction.
Require Import ExtrOcamlBasic.

Definition d_backend (s : sexp) : backend :=
  match d_Z s with
  | 0%Z => BHtml | 1%Z => BLatex | 2%Z => BMarkdown | _ => BPlain
  end.
Definition d_symbols (s : sexp) : list (str * str) :=
  d_list (fun p => (d_str (d_nth p 0), d_str (d_nth p 1))) s.
Definition d_tags (s : sexp) : list (str * option str) :=
  d_list (fun p => (d_str (d_nth p 0), d_opt d_str (d_nth p 1))) s.
Definition d_enc (s : sexp) : enc_table :=
  d_list (fun p => (d_N (d_nth p 0), (d_str (d_nth p 1), d_bool (d_nth p 2)))) s.
Definition d_tree (s : sexp) : rt := d_rt 2000 s.
Definition d_entry (s : sexp) : fentry :=
  mkEntry (d_str (d_nth s 0)) (d_str (d_nth s 1)) (d_Z (d_nth s 2)) (d_tree (d_nth s 3)).
Definition tabs (sy tg : sexp) : tables := mkTables (d_symbols sy) (d_tags tg) markdown_escapable.

(* 1: text.render(Backend())            [backend symbols tags enc tree]
   2: Backend().format_str(s)           [backend enc s]
   3: Backend().write_to_stream(...)    [backend php_extra encoding preamble symbols tags enc entries]
   4: Text.from_latex(v)                [opt (decoded v)]    (dec = latexcodec, applied by the harness; none = it raised)
   5: Text.from_latex(v).render(latex)  [decoded v, symbols tags enc]
   6: format_tag / format_href / format_protected on an arbitrary rendered text
                                        [backend kind name-or-url external text tags enc] *)
Definition d_op (s : sexp) : bop :=
  match d_Z (d_nth s 0) with
  | 0%Z => OpDoc (d_str (d_nth s 1)) (d_list d_entry (d_nth s 2))
  | 1%Z => OpRender (d_tree (d_nth s 1))
  | 2%Z => OpStr (d_str (d_nth s 1))
  | _ => OpEntry (d_str (d_nth s 1)) (d_str (d_nth s 2)) (d_str (d_nth s 3))
  end.

(* 7: one back-end object, several uses in a row   [backend php_extra encoding symbols tags enc ops] *)
Definition dispatch (fn : Z) (a : sexp) : sexp :=
  match fn with
  | 1%Z => e_res e_str (render (enc_tab (d_enc (d_nth a 3))) (tabs (d_nth a 1) (d_nth a 2)) (d_backend (d_nth a 0)) (d_tree (d_nth a 4)))
  | 2%Z => e_res e_str (Ok (format_str (enc_tab (d_enc (d_nth a 1))) (tabs (L []) (L [])) (d_backend (d_nth a 0)) (d_str (d_nth a 2))))
  | 3%Z => e_res e_str (write_to_stream (enc_tab (d_enc (d_nth a 6))) (tabs (d_nth a 4) (d_nth a 5)) (d_backend (d_nth a 0))
                          (d_bool (d_nth a 1)) (d_str (d_nth a 2)) (d_str (d_nth a 3)) (d_list d_entry (d_nth a 7)))
  | 4%Z => e_res e_rt (match d_opt d_str (d_nth a 0) with Some v => parse_latex v | None => Crash end)
  | 5%Z => e_res e_str (do t <- match d_opt d_str (d_nth a 0) with Some v => parse_latex v | None => Crash end;
                        render (enc_tab (d_enc (d_nth a 3))) (tabs (d_nth a 1) (d_nth a 2)) BLatex t)
  | 6%Z =>
    let b := d_backend (d_nth a 0) in
    let T := tabs (L []) (d_nth a 5) in
    let enc := enc_tab (d_enc (d_nth a 6)) in
    let x := d_str (d_nth a 2) in let text := d_str (d_nth a 4) in
    e_res e_str (Ok (match d_Z (d_nth a 1) with
           | 0%Z => format_tag T b x text
           | 1%Z => format_href enc b x text (d_bool (d_nth a 3))
           | _ => format_protected b text
           end))
  | 7%Z => e_list (e_res e_str)
             (run_history (enc_tab (d_enc (d_nth a 5))) (tabs (d_nth a 3) (d_nth a 4)) (d_backend (d_nth a 0))
                          (d_bool (d_nth a 1)) (d_str (d_nth a 2)) (mkBState [] []) (d_list d_op (d_nth a 6)))
  | _ => L []
  end.

Extraction "model.ml" dispatch.
