From Pybtex Require Import Base.Prelude Base.PyChar Base.PyStr Model.BibtexStr Model.Wrap Model.Bst Model.Engines.
Require Extraction.
Require Import ExtrOcamlBasic.

(* instr: (0 z) | (1 s) | (2 name) | (3 name) | (4 (items))   -- the wire format of the C03 check *)
Fixpoint d_instr (s : sexp) : instr :=
  match s with
  | L (A tag :: x :: _) =>
    match tag with
    | 0%Z => IInt (d_Z x)
    | 1%Z => IStr (d_str x)
    | 2%Z => IId (d_str x)
    | 3%Z => IQuote (d_str x)
    | _ => match x with L items => IFun (map d_instr items) | A _ => IFun [] end
    end
  | _ => IInt 0
  end.
Definition d_command (s : sexp) : command :=
  Cmd (d_str (d_nth s 0)) (d_list (d_list d_instr) (d_nth s 1)).

(* entry: (key type ((name value) ...)) *)
Definition d_bentry (s : sexp) : bentry :=
  mkB (d_str (d_nth s 0)) (d_str (d_nth s 1))
      (d_list (fun p => (d_str (d_nth p 0), d_str (d_nth p 1))) (d_nth s 2)).

(* file: (name kind content)   kind 0: aux lines, 1: bst commands, 2: (fmt entries), 3: text *)
Definition d_file (s : sexp) : str * fcontent :=
  (d_str (d_nth s 0),
   match d_Z (d_nth s 1) with
   | 0%Z => FAux (d_list d_str (d_nth s 2))
   | 1%Z => FBst (d_list d_command (d_nth s 2))
   | 2%Z => FBib (d_nat (d_nth (d_nth s 2) 0)) (d_list d_bentry (d_nth (d_nth s 2) 1))
   | _ => FText (d_str (d_nth s 2))
   end).

Definition e_aux (ad : auxdata) : sexp :=
  L [e_opt e_str (ax_style ad); e_opt (e_list e_str) (ax_data ad); e_list e_str (ax_cites ad); e_nat (ax_reports ad)].

Definition written (fs : fsys) : list (str * str) :=
  flat_map (fun p => match snd p with FText t => [(fst p, t)] | _ => [] end) fs.
Definition e_outcome (o : outcome) : sexp :=
  L [e_list (e_pair e_str e_str) (written (o_fs o)); e_opt e_str (o_ret o); e_nat (o_reports o)].

Definition no_fmt (_ _ : str) : res str := OutOfFuel.    (* format.name$ is not used by the synthetic styles *)
Definition no_cw (_ : char) : Z := 0%Z.
Definition FUEL : nat := 4000.

Definition e_entry (e : Bst.entry) : sexp :=
  L [e_str (e_key e); e_str (e_type e); e_list (e_pair e_str e_str) (e_fields e); e_opt e_str (e_crossref e)].
Definition e_read (r : readres) : sexp :=
  L [e_list e_str (r_cites r); e_list (e_pair e_str e_entry) (r_entries r); e_str (r_preamble r); e_nat (r_warnings r)].
Fixpoint sx_eqb (a b : sexp) {struct a} : bool :=
  match a, b with
  | A x, A y => Z.eqb x y
  | L xs, L ys =>
      (fix go (xs ys : list sexp) {struct xs} : bool :=
         match xs, ys with
         | nil, nil => true
         | x :: xs', y :: ys' => andb (sx_eqb x y) (go xs' ys')
         | _, _ => false
         end) xs ys
  | _, _ => false
  end.

(* the engine calls of function 2: (mode ...) *)
Definition do_call (fs : fsys) (c : sexp) : res outcome :=
  let o_str := d_opt d_str in
  let o_nat := d_opt d_nat in
  let o_cites := d_opt (d_list d_str) in
  match d_Z (d_nth c 0) with
  | 0%Z => make_bibliography no_fmt no_cw FUEL fs (d_str (d_nth c 1)) (o_str (d_nth c 2)) (o_nat (d_nth c 3)) (d_Z (d_nth c 4))
  | 1%Z => format_from_files no_fmt no_cw FUEL fs (d_list (fun n => BName (d_str n)) (d_nth c 1)) (d_str (d_nth c 2))
             (o_cites (d_nth c 3)) (o_nat (d_nth c 4)) (d_Z (d_nth c 5)) (o_str (d_nth c 6)) (d_bool (d_nth c 7))
  | 2%Z => format_from_strings no_fmt no_cw FUEL fs
             (d_list (fun b => (d_nat (d_nth b 0), d_list d_bentry (d_nth b 1))) (d_nth c 1)) (d_str (d_nth c 2))
             (o_cites (d_nth c 3)) (o_nat (d_nth c 4)) (d_Z (d_nth c 5))
  | 4%Z => command_line no_fmt no_cw FUEL fs (d_str (d_nth c 1)) (o_str (d_nth c 2)) (o_nat (d_nth c 3)) (d_opt d_Z (d_nth c 4))
  | _ => format_from_file no_fmt no_cw FUEL fs (d_str (d_nth c 1)) (d_str (d_nth c 2))
             (o_cites (d_nth c 3)) (o_nat (d_nth c 4)) (d_Z (d_nth c 5))
  end.

(* SORT on a prepared interpreter: citations with (optionally) their sort.key$ *)
Definition sort_state (l : list (str * option str)) : state :=
  set_evars (initial_state (map fst l) [])
            (flat_map (fun p => match snd p with Some k => [(fst p, [(nm_sort_key_, VStr k)])] | None => [] end) l).

(* 1: auxfile.parse_file        (files name)
   2: an engine call            (files call)
   3: READ over a database      (entries citations min_crossrefs) -> the citations afterwards, number of reports
   4: SORT                      ((citation (sortkey)?) ...) -> the citations afterwards
   5: do two databases look the same to the interpreter?  (entries1 entries2 citations min_crossrefs)
   6: posixpath.splitext(p)[0]
   7: a history of engine calls, each with its own files: the model answers every call on its own ((files call) ...) *)
Definition dispatch (fn : Z) (a : sexp) : sexp :=
  match fn with
  | 1%Z => e_res e_aux (aux_parse_file aux_depth (d_list d_file (d_nth a 0)) (d_str (d_nth a 1)))
  | 2%Z => e_res e_outcome (do_call (d_list d_file (d_nth a 0)) (d_nth a 1))
  | 3%Z => let r := engine_read (d_list d_bentry (d_nth a 0)) (d_list d_str (d_nth a 1)) (d_Z (d_nth a 2)) in
           L [e_list e_str (r_cites r); e_nat (r_warnings r)]
  | 4%Z => e_res (e_list e_str)
             (do st <- run_command no_fmt no_cw FUEL
                         (sort_state (d_list (fun p => (d_str (d_nth p 0), d_opt d_str (d_nth p 1))) a)) (Cmd nm_sort []);
              Ok (st_cites st))
  | 5%Z => let c := d_list d_str (d_nth a 2) in let m := d_Z (d_nth a 3) in
           e_bool (sx_eqb (e_read (engine_read (d_list d_bentry (d_nth a 0)) c m))
                          (e_read (engine_read (d_list d_bentry (d_nth a 1)) c m)))
  | 6%Z => e_str (splitext_root (d_str a))
  | 7%Z => e_list (fun r => e_res e_outcome (do_call (d_list d_file (d_nth r 0)) (d_nth r 1))) (d_items a)
  | _ => L []
  end.

Extraction "model.ml" dispatch.
