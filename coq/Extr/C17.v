From Pybtex Require Import Base.Prelude Base.PyChar Base.PyStr Model.Plugins Model.IO Model.EntryPoints
  Model.YamlWriter Model.RealPlugins.
Require Extraction.
Require Import ExtrOcamlBasic.

(* ---- decoders ---- *)
Definition d_pname (s : sexp) : pname :=
  match d_items s with
  | [] => NNone
  | [t; x] => if Z.eqb (d_Z t) 0 then NStr (d_str x) else NClass (d_N x)
  | _ => NNone
  end.
(* a group is sent either literally (a list of code points) or as an index (an atom) into
   the table of group strings that accompanies the case: keeps the model input small *)
Definition d_gstr (tab : list str) (s : sexp) : str :=
  match s with
  | A z => nth (Z.to_nat z) tab []
  | L _ => d_str s
  end.
Definition d_pname_t (tab : list str) (s : sexp) : pname :=
  match d_items s with
  | [] => NNone
  | [t; x] => if Z.eqb (d_Z t) 0 then NStr (d_gstr tab x) else NClass (d_N x)
  | _ => NNone
  end.
Definition d_call (tab : list str) (s : sexp) : call :=
  match d_items s with
  | [t; g; n; k; f] => CReg (d_gstr tab g) (d_gstr tab n) (d_N k) (d_bool f)
  | [t; g; nm; fl] => CFind (d_gstr tab g) (d_pname_t tab nm) (d_opt (d_gstr tab) fl)
  | [t; g] => CEnum (d_gstr tab g)
  | _ => CEnum []
  end.
Definition d_eps (tab : list str) (s : sexp) : eps :=
  d_list (fun e => ((d_gstr tab (d_nth e 0), d_gstr tab (d_nth e 1)), d_N (d_nth e 2))) s.
Definition d_dflts (tab : list str) (s : sexp) : dflts :=
  d_list (fun e => (d_gstr tab (d_nth e 0), d_gstr tab (d_nth e 1))) s.
Definition e_val (v : val) : sexp :=
  match v with
  | VBool b => L [A 0%Z; e_bool b]
  | VClass k => L [A 1%Z; e_N k]
  | VNames l => L [A 2%Z; e_list e_str l]
  end.

Definition d_oresult (s : sexp) : oresult :=
  match d_items s with
  | [t; x] => if Z.eqb (d_Z t) 0 then OHandle (d_N x) else OEnvErr (d_opt d_str x)
  | _ => OOther
  end.
Definition d_proc (s : sexp) : proc :=
  match d_items s with
  | [t; x] => PExecFail (d_opt d_str x)
  | [t; rc; out] => PExit (d_Z rc) (d_str out)
  | _ => PExecFail None
  end.
Definition d_target (s : sexp) : target :=
  match d_items s with
  | [t; x] => if Z.eqb (d_Z t) 0 then TFile (d_N x) else TName (d_str x)
  | _ => TName []
  end.
Definition target_name (t : target) : str := match t with TName f => f | TFile _ => [] end.
(* an error is reported as (1 names_file): does the message contain the file name? *)
Definition e_open_out (t : target) (o : open_out) : sexp :=
  match o with
  | OpenOk h => L [A 0%Z; e_N h]
  | OpenErr msg => L [A 1%Z; e_bool (infix (target_name t) msg)]
  | OpenCrash => L [A 2%Z]
  end.
Definition e_logent (e : logent) : sexp :=
  L [e_str (fst (fst e)); e_str (snd (fst e)); e_opt e_str (snd e)].

Definition e_stream (s : stream) : sexp :=
  match s with SText t => L [A 0%Z; e_str t] | SBytes b => L [A 1%Z; e_str b] end.
Definition d_stream (s : sexp) : stream :=
  if Z.eqb (d_Z (d_nth s 0)) 0 then SText (d_str (d_nth s 1)) else SBytes (d_str (d_nth s 1)).
Definition d_fsrc (s : sexp) : fsrc :=
  match d_items s with
  | [t; x] => if Z.eqb (d_Z t) 0 then FStream (d_stream x) else FOpened (d_str x)
  | _ => FOpenErr
  end.
Definition d_wdst (s : sexp) : wdst :=
  match d_items s with
  | [t; x] => WStream (d_bool x)
  | [t] => if Z.eqb (d_Z t) 1 then WOpened else WOpenErr
  | _ => WOpenErr
  end.

(* ---- the probe plug-ins of the harness (harness/props/c17.py, classes Probe...): parse_stream records
   what it reads; a content starting with "!" raises PybtexError, with "?" ValueError;
   write_stream writes its payload (a str), encoded by the binary writer ---- *)
Definition probe_head (s : str) {X} (k : res X) : res X :=
  match s with
  | 33%N :: _ => PyErr cls_pybtex (-1)
  | 63%N :: _ => Crash
  | _ => k
  end.
Definition probe_ps (s : stream) (d : list stream) : res (list stream) :=
  probe_head (match s with SText t => t | SBytes b => b end) (Ok (d ++ [s])).
(* the probe writers write their payload in the chunks separated by "|"; the payload "~" makes
   them return without writing anything; the binary writer encodes chunk by chunk *)
Fixpoint all_some {X} (l : list (option X)) : option (list X) :=
  match l with
  | [] => Some []
  | Some x :: t => option_map (cons x) (all_some t)
  | None :: _ => None
  end.
Definition probe_chunks (d : str) : list str :=
  match d with
  | [126%N] => []
  | _ => split_on [124%N] d
  end.
Definition probe_ws (cd : codec) (unicode_io : bool) (text : bool) (d : str) : res (list str) :=
  probe_head d
    (if unicode_io then
       (match probe_chunks d with
        | [] => Ok []
        | cs => if text then Ok cs else Crash
        end)
     else
       match all_some (map (enc cd) (probe_chunks d)) with
       | None => Crash
       | Some [] => Ok []
       | Some bs => if text then Crash else Ok bs
       end).
(* class 1 = text probe (unicode_io = True), class 2 = binary probe; parser payload and writer
   payload share the type list stream (a writer payload is [SText d]) *)
Definition probe_plugin (cd : codec) (k : klass) : option (plugin (list stream)) :=
  let mk u := {| p_unicode := u; p_ps := probe_ps;
                 p_ws := fun text d => probe_ws cd u text (match d with [SText t] => t | _ => [] end) |} in
  if N.eqb k 1 then Some (mk true) else if N.eqb k 2 then Some (mk false) else None.

(* self.encoding as the harness spells it (harness/props/c17.py ENCODINGS) *)
Definition enc_name (n : N) : str :=
  match n with
  | 0%N => [117; 116; 102; 45; 56]%N                       (* utf-8 *)
  | 1%N => [108; 97; 116; 105; 110; 45; 49]%N              (* latin-1 *)
  | 3%N => [117; 116; 102; 45; 49; 54]%N                   (* utf-16 *)
  | _ => [97; 115; 99; 105; 105]%N                         (* ascii *)
  end.
Definition e_wres (r : res (option stream * option stream)) : sexp :=
  e_res (fun p => L [e_opt e_stream (fst p); e_opt e_stream (snd p)]) r.

(* one call on a reader / writer object of a shipped plug-in with recording bodies
   (plugin 0 = bibtex, 1 = yaml, 2 = bibtexml); the reader call threads the parser's data *)
Definition reader_call (pl : Z) (cd : codec) (entry : Z) (x : sexp) (data : list stream) : res (list stream) :=
  if Z.eqb pl 0 then
    (if Z.eqb entry 0 then bibtex_parse_string _ probe_ps (d_str x) data
     else if Z.eqb entry 1 then bibtex_parse_bytes _ probe_ps cd (d_str x) data
     else bibtex_parse_file _ probe_ps cd (d_fsrc x) data)
  else if Z.eqb pl 1 then
    (if Z.eqb entry 0 then yaml_parse_string _ probe_ps cd (d_str x) data
     else if Z.eqb entry 1 then yaml_parse_bytes _ probe_ps cd (d_str x) data
     else yaml_parse_file _ probe_ps cd (d_fsrc x) data)
  else
    let fs := fun b : str => Ok (SBytes b) in
    let pa := fun s : stream => Ok s in
    (if Z.eqb entry 0 then xml_parse_string _ _ fs probe_ps cd (d_str x) data
     else if Z.eqb entry 1 then xml_parse_bytes _ _ fs probe_ps (d_str x) data
     else xml_parse_file _ _ pa probe_ps cd (d_fsrc x) data).
Definition writer_call (pl : Z) (cn : N) (entry : Z) (d : str) (dst : wdst) : sexp :=
  let cd := codec_of cn in
  if Z.eqb pl 0 then
    let ws := probe_ws cd true in
    if Z.eqb entry 0 then e_res e_str (bibtex_to_string _ ws cd d)
    else if Z.eqb entry 1 then e_res e_str (bibtex_to_bytes _ ws cd d)
    else e_wres (bibtex_write_file _ ws cd d dst)
  else if Z.eqb pl 1 then
    let dump_text := fun d : str => probe_head d (Ok d) in
    let dump_utf8 := fun d : str => probe_head d (match enc codec_utf8 d with Some b => Ok b | None => Crash end) in
    if Z.eqb entry 0 then e_res e_str (yaml_to_string _ dump_text d)
    else if Z.eqb entry 1 then e_res e_str (yaml_to_bytes _ dump_utf8 d)
    else e_wres (yaml_write_file _ dump_utf8 cd d dst)
  else
    let body := fun d : str => probe_head d (Ok d) in
    let nm := enc_name cn in
    if Z.eqb entry 0 then e_res e_str (xml_to_string _ body d)
    else if Z.eqb entry 1 then e_res e_str (xml_to_bytes _ body cd nm d)
    else e_wres (xml_write_file _ body cd nm d dst).
(* a history of calls on ONE reader object: the data accumulate; the history ends with the
   first call that raises *)
Fixpoint reader_history (pl : Z) (cd : codec) (calls : list sexp) (data : list stream) : list sexp :=
  match calls with
  | [] => []
  | c :: rest =>
    let r := reader_call pl cd (d_Z (d_nth c 0)) (d_nth c 1) data in
    e_res (e_list e_stream) r ::
    match r with Ok data' => reader_history pl cd rest data' | _ => [] end
  end.

(* 1: registry history   2: splitext   3: _open / open_raw / open_unicode
   4: reader entry points of a probe parser   5: writer entry points of a probe writer
   6: module-level functions over a registry state
   7: (no model: oracle only)   8: _open on a real file-system scenario (result only)
   9: one call / 10: a history of calls on one object of a shipped plug-in (recording bodies)
   11: (no model: oracle only) histories on real plug-in objects *)
Definition dispatch (fn : Z) (a : sexp) : sexp :=
  match fn with
  | 1%Z =>
    let tab := d_list d_str (d_nth a 3) in
    let '(outs, r) := run (d_eps tab (d_nth a 0)) (d_dflts tab (d_nth a 1)) [] (d_list (d_call tab) (d_nth a 2)) in
    e_list (e_res e_val) outs
  | 2%Z => e_pair e_str e_str (splitext (d_str a))
  | 3%Z =>
    let st := {| script := d_list d_oresult (d_nth a 0); log := [] |} in
    let t := d_target (d_nth a 1) in
    let mode := d_str (d_nth a 2) in
    let enc := d_opt d_str (d_nth a 3) in
    let tex := d_opt d_str (d_nth a 4) in
    let isf := d_bool (d_nth a 5) in
    let kp := d_proc (d_nth a 6) in
    let which := d_Z (d_nth a 7) in
    let '(o, st') :=
      if Z.eqb which 1 then open_raw st t mode enc tex isf kp
      else if Z.eqb which 2 then open_unicode st t mode enc tex isf kp
      else open_ st t mode enc tex isf kp in
    L [e_open_out t o; e_list e_logent (log st')]
  | 8%Z =>
    let st := {| script := d_list d_oresult (d_nth a 0); log := [] |} in
    let t := d_target (d_nth a 1) in
    let '(o, _) := open_ st t (d_str (d_nth a 2)) (d_opt d_str (d_nth a 3)) (d_opt d_str (d_nth a 4))
                         (d_bool (d_nth a 5)) (d_proc (d_nth a 6)) in
    e_open_out t o
  | 7%Z => L [A 0%Z; L []]        (* the real plug-ins' bodies are not modelled: oracle only *)
  | 9%Z =>
    (* one call on a shipped plug-in with recording bodies: (plugin, writer?, codec, entry, payload, destination) *)
    if d_bool (d_nth a 1)
    then writer_call (d_Z (d_nth a 0)) (d_N (d_nth a 2)) (d_Z (d_nth a 3)) (d_str (d_nth a 4)) (d_wdst (d_nth a 5))
    else e_res (e_list e_stream) (reader_call (d_Z (d_nth a 0)) (codec_of (d_N (d_nth a 2))) (d_Z (d_nth a 3)) (d_nth a 4) [])
  | 10%Z =>
    (* a history of calls (entry, payload, destination) on ONE object: (plugin, writer?, codec, calls).
       A writer object carries no state: every call is answered as if it were the only one. *)
    let pl := d_Z (d_nth a 0) in
    let cn := d_N (d_nth a 2) in
    if d_bool (d_nth a 1)
    then L (map (fun c => writer_call pl cn (d_Z (d_nth c 0)) (d_str (d_nth c 1)) (d_wdst (d_nth c 2))) (d_items (d_nth a 3)))
    else L (reader_history pl (codec_of cn) (d_items (d_nth a 3)) [])
  | 11%Z => L [A 0%Z; L []]       (* histories on the real plug-in objects: oracle only *)
  | 4%Z =>
    let u := d_bool (d_nth a 0) in
    let cd := codec_of (d_N (d_nth a 1)) in
    let entry := d_Z (d_nth a 2) in
    let x := d_nth a 3 in
    e_res (e_list e_stream)
      (if Z.eqb entry 0 then parse_string _ probe_ps cd u (d_str x) []
       else if Z.eqb entry 1 then parse_bytes _ probe_ps cd u (d_str x) []
       else if Z.eqb entry 2 then parse_file _ probe_ps cd u (d_fsrc x) []
       else parse_files _ probe_ps cd u (d_list d_fsrc x) [])
  | 5%Z =>
    let u := d_bool (d_nth a 0) in
    let cd := codec_of (d_N (d_nth a 1)) in
    let entry := d_Z (d_nth a 2) in
    let d := d_str (d_nth a 3) in
    let ws := probe_ws cd u in
    if Z.eqb entry 0 then e_res e_str (to_string _ ws cd u d)
    else if Z.eqb entry 1 then e_res e_str (to_bytes _ ws cd u d)
    else e_wres (write_file _ ws cd u d (d_wdst (d_nth a 4)))
  | 6%Z =>
    let tab := d_list d_str (d_nth a 9) in
    let inst := d_eps tab (d_nth a 0) in
    let df := d_dflts tab (d_nth a 1) in
    let '(_, r) := run inst df [] (d_list (d_call tab) (d_nth a 2)) in
    let cd := codec_of (d_N (d_nth a 3)) in
    let entry := d_Z (d_nth a 4) in
    let fmt := d_pname (d_nth a 5) in
    let x := d_nth a 6 in
    let fname := d_opt d_str (d_nth a 7) in
    let pl := probe_plugin cd in
    if Z.eqb entry 0 then e_res (e_list e_stream) (db_parse_string _ pl r inst df cd [] (d_str x) fmt)
    else if Z.eqb entry 1 then e_res (e_list e_stream) (db_parse_bytes _ pl r inst df cd [] (d_str x) fmt)
    else if Z.eqb entry 2 then e_res (e_list e_stream) (db_parse_file _ pl r inst df cd [] (d_fsrc x) fname fmt)
    else if Z.eqb entry 3 then e_res e_str (db_to_string _ pl r inst df cd [SText (d_str x)] fmt)
    else if Z.eqb entry 4 then e_res e_str (db_to_bytes _ pl r inst df cd [SText (d_str x)] fmt)
    else e_wres (db_to_file _ pl r inst df cd [SText (d_str x)] (d_wdst (d_nth a 8)) fname fmt)
  | _ => L []
  end.

Extraction "model.ml" dispatch.
