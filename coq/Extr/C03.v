From Pybtex Require Import Base.Prelude Base.PyChar Base.PyStr Model.BibtexStr Model.Wrap Model.Names Model.NameFormat Model.Bst Model.BstReal Spec.BstTyping.
Require Extraction.
Require Import ExtrOcamlBasic.

(* instr: (0 z) | (1 s) | (2 name) | (3 name) | (4 (items)) *)
Fixpoint d_instr (s : sexp) : instr :=
  match s with
  | L (A tag :: x :: _) =>
    match tag with
    | 0%Z => IInt (d_Z x)
    | 1%Z => IStr (d_str x)
    | 2%Z => IId (d_str x)
    | 3%Z => IQuote (d_str x)
    | _ => match x with L items => IFun (map d_instr items) | A _ => IFun [] end
    end
  | _ => IInt 0
  end.
Fixpoint e_instr (i : instr) : sexp :=
  match i with
  | IInt z => L [A 0%Z; A z]
  | IStr s => L [A 1%Z; e_str s]
  | IId s => L [A 2%Z; e_str s]
  | IQuote s => L [A 3%Z; e_str s]
  | IFun b => L [A 4%Z; L (map e_instr b)]
  end.
Definition e_value (v : value) : sexp :=
  match v with
  | VInt z => L [A 0%Z; A z]
  | VStr s => L [A 1%Z; e_str s]
  | VMissing n => L [A 2%Z; e_str n]
  | VFun b => L [A 3%Z; L (map e_instr b)]
  | VRef n => L [A 4%Z; e_str n]
  end.
Definition e_lit (l : lit) : sexp :=
  match l with LInt z => L [A 0%Z; A z] | LStr s => L [A 1%Z; e_str s] end.
Definition e_obj (o : obj) : sexp :=
  match o with
  | OBuiltin _ => L [A 0%Z]
  | OInt v => L [A 1%Z; e_value v]
  | OStr v => L [A 2%Z; e_value v]
  | OEInt n => L [A 3%Z; e_str n]
  | OEStr n => L [A 4%Z; e_str n]
  | OField n => L [A 5%Z; e_str n]
  | OCrossref => L [A 6%Z]
  | OFun b => L [A 7%Z; L (map e_instr b)]
  end.
Definition e_warning (w : warning) : sexp :=
  match w with WUser v => L [A 0%Z; e_value v] | WType => L [A 1%Z] | WRead => L [A 2%Z] end.
Definition is_builtin_obj (o : obj) : bool := match o with OBuiltin _ => true | _ => false end.

Definition e_state (st : state) : sexp :=
  L [ e_str (output_of st);
      e_list e_value (st_stack st);
      e_list (e_pair e_str e_obj) (filter (fun p => negb (is_builtin_obj (snd p))) (st_vars st));
      e_list (e_pair e_str (e_list (e_pair e_str e_value)))
             (filter (fun p => match snd p with [] => false | _ => true end) (st_evars st));
      e_list (e_pair e_lit e_lit) (st_macros st);
      e_list e_value (st_buf st);
      e_list e_str (st_cites st);
      e_list e_warning (st_warn st);
      e_str (st_print st) ].

Definition d_command (s : sexp) : command :=
  Cmd (d_str (d_nth s 0)) (d_list (d_list d_instr) (d_nth s 1)).
Definition d_entry (s : sexp) : entry :=
  mkEntry (d_str (d_nth s 0)) (d_str (d_nth s 1))
          (d_list (fun p => (d_str (d_nth p 0), d_str (d_nth p 1))) (d_nth s 2))
          (d_opt d_str (d_nth s 3)).
Definition d_read (s : sexp) : readres :=
  mkRead (d_list d_str (d_nth s 0))
         (d_list (fun p => (d_str (d_nth p 0), d_entry (d_nth p 1))) (d_nth s 1))
         (d_str (d_nth s 2)) (d_nat (d_nth s 3)).

(* oracle tables: format_name(name, format) and charwidths *)
Definition d_res_str (s : sexp) : res str :=
  match d_Z (d_nth s 0) with
  | 0%Z => Ok (d_str (d_nth s 1))
  | 1%Z => PyErr E_BST (-1)
  | _ => Crash
  end.
Definition fmt_of (tbl : list (str * str * res str)) (name format : str) : res str :=
  match find (fun p => str_eqb (fst (fst p)) name && str_eqb (snd (fst p)) format) tbl with
  | Some p => snd p
  | None => OutOfFuel      (* the oracle was not asked: outside the supplied table *)
  end.
Definition d_fmt (s : sexp) : list (str * str * res str) :=
  d_list (fun p => (d_str (d_nth p 0), d_str (d_nth p 1), d_res_str (d_nth p 2))) s.
Definition cw_of (tbl : list (char * Z)) (c : char) : Z :=
  match find (fun p => N.eqb (fst p) c) tbl with Some p => snd p | None => 0%Z end.
Definition d_cw (s : sexp) : list (char * Z) := d_list (fun p => (d_N (d_nth p 0), d_Z (d_nth p 1))) s.


(* 2: does the type checker of Spec/BstTyping.v accept the whole program?  Declarations are run on the model
   (they execute nothing), EXECUTE {f} is checked in the current context and stack shape, ITERATE / REVERSE {f}
   must leave the stack shape unchanged (any number of entries). *)
Definition is_decl (n : str) : bool :=
  str_eqb n nm_entry || str_eqb n nm_integers || str_eqb n nm_strings || str_eqb n nm_function || str_eqb n nm_macro.
Definition no_fmt : str -> str -> res str := fun _ _ => Crash.
Definition no_cw : char -> Z := fun _ => 0%Z.
(* does this body, at its top level, assign sort.key$ ? *)
Fixpoint sets_sort_key (body : list instr) : bool :=
  match body with
  | IQuote q :: ((IId a :: _) as rest) =>
    (str_eqb (lower q) nm_sort_key_ && str_eqb (lower a) [58%N; 61%N]) || sets_sort_key rest
  | _ :: rest => sets_sort_key rest
  | [] => false
  end.
Definition fun_sets_sort_key (st : state) (f : str) : bool :=
  match vlookup f (st_vars st), vlookup [58%N; 61%N] (st_vars st), vlookup nm_sort_key_ (st_vars st) with
  | Some (OFun body), Some (OBuiltin B_assign), Some (OEStr n) => str_eqb n nm_sort_key_ && sets_sort_key body
  | _, _, _ => false
  end.

Fixpoint typecheck (tys : list str) (cmds : list command) (st : state) (rd keyed : bool) (s : list aval) : option (list aval) :=
  match cmds with
  | [] => Some s
  | Cmd name args :: rest =>
    let n := lower name in
    if is_decl n then
      match run_command no_fmt no_cw 0 st (Cmd name args) with
      | Ok st' => typecheck tys rest st' rd keyed s
      | _ => None
      end
    else if str_eqb n nm_execute then
      match args with
      | [[IId f]] =>
        if ctx_ok (st_vars st) then
          match check (st_vars st) false tys 400 s [IId f] with
          | Some s' => typecheck tys rest st rd keyed s'
          | None => None
          end
        else None
      | _ => None
      end
    else if str_eqb n nm_iterate || str_eqb n nm_reverse then
      match args with
      | [[IId f]] =>
        if ctx_ok (st_vars st) && rd then
          match check (st_vars st) true tys 400 (map weaken s) [IId f] with
          | Some s' => if stack_eqb s' s then typecheck tys rest st rd (keyed || fun_sets_sort_key st f) (map weaken s) else None
          | None => None
          end
        else None
      | _ => None
      end
    else if str_eqb n nm_read then
      match args with [] => if rd then None else typecheck tys rest st true false s | _ => None end
    else if str_eqb n nm_sort then
      (* every citation needs a sort.key$: accepted after an ITERATE / REVERSE of a function that assigns it *)
      match args with [] => if keyed then typecheck tys rest st rd keyed s else None | _ => None end
    else None
  end.


(* Fuel: the run is repeated with 8 times the fuel while it answers OutOfFuel, at most [k] times (exec_fuel_mono: a run
   that ended keeps its result).  Still OutOfFuel at the cap: (3 cap) -- the program does not end, or it prints an
   interpreter object (outside the modelled domain).  (5): the commands before the first READ for which the harness
   supplied no data run through, so the OutOfFuel comes from that READ (the implementation's own READ failed while its
   result was being measured). *)
Fixpoint before_nth_read (n : nat) (cmds : list command) : option (list command) :=
  match cmds with
  | [] => None
  | (Cmd name args as c) :: rest =>
    if str_eqb (lower name) nm_read then
      match n with
      | O => Some []
      | S n' => option_map (cons c) (before_nth_read n' rest)
      end
    else option_map (cons c) (before_nth_read n rest)
  end.
Definition read_without_data (fmt : str -> str -> res str) (cw : char -> Z) (fuel : nat) (cmds : list command) (st : state) : bool :=
  match before_nth_read (length (st_reads st)) cmds with
  | Some prefix => match run fmt cw fuel st prefix with Ok _ => true | _ => false end
  | None => false
  end.
Fixpoint run_escalating (fmt : str -> str -> res str) (cw : char -> Z) (k fuel : nat) (cmds : list command) (st : state) : sexp :=
  match run fmt cw fuel st cmds with
  | OutOfFuel =>
    if read_without_data fmt cw fuel cmds st then L [A 5%Z]
    else match k with
         | O => L [A 3%Z; e_nat fuel]
         | S k' => run_escalating fmt cw k' (8 * fuel) cmds st
         end
  | r => e_res e_state r
  end.

(* 1: a whole run:  (commands citations reads fmt_table cw_table fuel) *)
Definition dispatch (fn : Z) (a : sexp) : sexp :=
  match fn with
  | 1%Z =>
    let cmds := d_list d_command (d_nth a 0) in
    let cites := d_list d_str (d_nth a 1) in
    let reads := d_list d_read (d_nth a 2) in
    let fmt := real_fmt in      (* C11's model of names.format_name; slot 3 of the case is unused *)
    let cw := cw_of (d_cw (d_nth a 4)) in
    let fuel := d_nat (d_nth a 5) in
    run_escalating fmt cw 3 fuel cmds (initial_state cites reads)
  | 2%Z =>
    let cmds := d_list d_command (d_nth a 0) in
    let st0 := initial_state [] [] in
    (match typecheck (d_list d_str (d_nth a 1)) cmds st0 false false [] with
     | Some s => L [A 1%Z; e_nat (length s)]
     | None => L [A 0%Z]
     end)
  | _ => L []
  end.

Extraction "model.ml" dispatch.
