From Pybtex Require Import Base.Prelude Base.PyChar Base.PyStr Model.BibtexStr.
Require Extraction.
Require Import ExtrOcamlBasic.

Definition e_tok (t : tok) : sexp := L [e_str (fst t); e_nat (snd t)].
Definition cw_of (tbl : list (char * Z)) (c : char) : Z :=
  match find (fun p => N.eqb (fst p) c) tbl with Some p => snd p | None => 0%Z end.
Definition d_cw (s : sexp) : list (char * Z) := d_list (fun p => (d_N (d_nth p 0), d_Z (d_nth p 1))) s.
Definition sep_of (k : nat) : sep_matcher :=
  match k with 0 => sep_space | 1 => sep_comma | 2 => sep_hyphen | _ => sep_and end.

Definition dispatch (fn : Z) (a : sexp) : sexp :=
  match fn with
  | 1%Z => e_res (e_list e_tok) (scan (d_str (d_nth a 0)))
  | 2%Z => e_res e_nat (bibtex_len (d_str (d_nth a 0)))
  | 3%Z => e_res e_str (bibtex_prefix (d_str (d_nth a 0)) (d_Z (d_nth a 1)))
  | 4%Z => e_res e_str (Ok (bibtex_substring (d_str (d_nth a 0)) (d_Z (d_nth a 1)) (d_Z (d_nth a 2))))
  | 5%Z => e_res e_str (bibtex_purify (d_str (d_nth a 0)))
  | 6%Z => e_res e_str (change_case (d_str (d_nth a 0)) (d_nat (d_nth a 1)))
  | 7%Z => e_res e_Z (bibtex_width (cw_of (d_cw (d_nth a 1))) (d_str (d_nth a 0)))
  | 8%Z => let r := find_closing_brace (d_str (d_nth a 0)) in e_res (e_pair e_str e_str) (Ok r)
  | 9%Z => let k := d_nat (d_nth a 1) in
           e_res (e_list e_str)
             (split_tex_string_gen (sep_of k) (d_str (d_nth a 0)) (d_bool (d_nth a 2))
                (if Nat.eqb k 0 then true else d_bool (d_nth a 3)))
  | 10%Z => e_res e_str (bibtex_first_letter (d_str (d_nth a 0)))
  | 11%Z => e_res e_str (bibtex_abbreviate (d_str (d_nth a 0)) (d_opt d_str (d_nth a 1)))
  | 12%Z =>
    let s := d_str (d_nth a 1) in
    match d_nat (d_nth a 0) with
    | 0 => e_res e_str (bst_substring s (d_Z (d_nth a 2)) (d_Z (d_nth a 3)))
    | 1 => e_res e_str (bst_text_prefix s (d_Z (d_nth a 2)))
    | 2 => e_res e_nat (bst_text_length s)
    | 3 => e_res e_str (bst_purify s)
    | 4 => e_res e_str (bst_change_case s (d_str (d_nth a 4)))
    | 5 => e_res e_Z (bst_width (cw_of (d_cw (d_nth a 5))) s)
    | _ => e_res e_nat (bst_num_names s)
    end
  (* pattern conformance: the hand-written matchers against the live module-level regex objects *)
  | 13%Z =>
    let s := d_str (d_nth a 1) in
    match d_nat (d_nth a 0) with
    | 0 => e_list e_str (re_split sep_space s)            (* BIBTEX_SPACE_RE.split(s) *)
    | 1 => e_str (strip_control_sequence s)               (* purify_special_char_re.sub('', s) *)
    | 2 => e_list e_str (re_split sep_and s)              (* re.compile(' [Aa][Nn][Dd] ').split(s) *)
    | _ => let r := find_closing_brace s in e_pair e_str e_str r
    end
  | _ => L []
  end.

Extraction "model.ml" dispatch.
