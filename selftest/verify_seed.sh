#!/bin/bash
# verify_seed.sh <dir with patch.diff demo.py meta.json> <seed-id>
# Confirms, in a fresh scratch worktree of /repo (outside /repo and /verif), that the seeded change
#  (1) applies, (2) makes demo.py fail, (3) leaves the test suite's failure list identical to the
#  unchanged tree's, and that (4) demo.py passes without the change.  On success copies the
#  artefacts to /verif/seeded/<seed-id>/ and records what was run in meta.json.
set -u
src=$1; id=$2
wt=/tmp/seedverify_$id
git -C /repo worktree remove --force $wt >/dev/null 2>&1; rm -rf $wt
git -C /repo worktree add -q --detach $wt HEAD || exit 2
cleanup() { git -C /repo worktree remove --force $wt >/dev/null 2>&1; rm -rf $wt; }
run_demo() { ( cd $wt && PYTHONPATH=$wt:/verif/_pydeps PYTHONHASHSEED=0 timeout 600 /venv/bin/python -B $src/demo.py >/tmp/seedverify_$id.demo.log 2>&1 ); echo $?; }
suite() { ( cd $wt && timeout 900 /venv/bin/python -m pytest -q -p no:cacheprovider --timeout=900 --continue-on-collection-errors 2>&1 | grep -E '^(FAILED|ERROR)' | sed "s|$wt|WT|g" | sort ); }
base=$(suite | md5sum)
d0=$(run_demo)
git -C $wt apply $src/patch.diff || { echo "$id: patch does not apply"; cleanup; exit 1; }
( cd $wt && /venv/bin/python -c "import pybtex, pybtex.database, pybtex.bibtex, pybtex.richtext" ) || { echo "$id: package does not import"; cleanup; exit 1; }
d1=$(run_demo)
mut=$(suite | md5sum)
git -C $wt checkout -q -- .
ok=1
[ "$d0" = 0 ] || { echo "$id: demo fails on the unchanged tree (rc $d0)"; ok=0; }
[ "$d1" != 0 ] || { echo "$id: demo passes with the change"; ok=0; }
[ "$base" = "$mut" ] || { echo "$id: test-suite outcome differs with the change"; ok=0; }
cleanup
if [ $ok = 1 ]; then
  mkdir -p /verif/seeded/$id
  cp $src/patch.diff $src/demo.py /verif/seeded/$id/
  /venv/bin/python - $src/meta.json /verif/seeded/$id/meta.json $id $d1 <<'PY'
import json,sys
m=json.load(open(sys.argv[1]))
m['seed_id']=sys.argv[3]
m['verified']={'by':'/verif/selftest/verify_seed.sh in a fresh scratch worktree of /repo','demo_rc_unchanged':0,'demo_rc_with_change':int(sys.argv[4]),
  'suite':'failure list (pytest FAILED/ERROR lines) identical with and without the change','demo_cmd':'cd <worktree> && PYTHONPATH=<worktree>:/verif/_pydeps PYTHONHASHSEED=0 /venv/bin/python -B demo.py'}
json.dump(m,open(sys.argv[2],'w'),indent=1)
PY
  echo "$id: verified -> /verif/seeded/$id"
else
  exit 1
fi
