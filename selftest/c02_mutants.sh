#!/bin/bash
# self-test of the C02 check: each mutant of the anchored code, applied to a scratch copy of the package,
# must make ./check C02 exit 1 with a VIOLATION line; the harmless refactoring must not.
# usage: selftest/c02_mutants.sh [name ...]
HERE="$(cd "$(dirname "$0")/.." && pwd)"
run() {  # name expect file old new
  name=$1; expect=$2; file=$3
  d=/dev/shm/c02_$name; rm -rf $d; mkdir -p $d; cp -r /repo/pybtex $d/
  python3 - "$d/pybtex/$file" "$4" "$5" <<'PY' || { echo "$name: PATCH FAILED"; return; }
import sys
p, old, new = sys.argv[1:4]
s = open(p).read()
assert s.count(old) >= 1, 'pattern not found'
open(p, 'w').write(s.replace(old, new, 1))
PY
  out=$(cd $HERE && VERIF_REPO=$d VERIF_EVIDENCE_DIR=$d/evidence VERIF_REPLAY_DIR=$d/replays ./check C02 2>&1 | grep -v KNOWN-FINDING); rc=$?
  nv=$(echo "$out" | grep -c '^VIOLATION'); nf=$(echo "$out" | grep '^VIOLATION' | grep -vc 'no-failing-input-found')
  echo "$name: expect=$expect violations=$nv with-failing-input=$nf :: $(echo "$out" | tail -1)"
  for r in $(echo "$out" | grep '^VIOLATION' | sed 's/.*replay=\([^ ]*\).*/\1/' | head -2); do
    python3 -c "import json,sys; r=json.load(open('$r')); print('    ', r['kind'], r.get('function'), '|', str(r.get('property_failure') or r.get('what'))[:230])"
  done
  rm -rf $d
}
want=" $* "
sel() { [ "$want" = "  " ] || [[ "$want" == *" $1 "* ]]; }
sel m1 && run m1 alarm database/output/bibtex.py "if '\"' not in s:" "if '\"' not in s or s.startswith('{'):"
sel m2 && run m2 alarm database/output/bibtexml.py "for type in ('first', 'middle', 'prelast', 'last', 'lineage'):" "for type in ('first', 'middle', 'prelast', 'last'):"
sel m3 && run m3 alarm database/input/bibyaml.py "bib_entry.fields[key] = str(value)" "bib_entry.fields[key_lower] = str(value)"
sel m4 && run m4 alarm database/__init__.py "            preamble=self._preamble,
" ""
sel m5 && run m5 alarm database/input/bibtexml.py "field_text = field.text if field.text is not None else ''" "field_text = field.text"
sel m6 && run m6 alarm database/convert/__init__.py "if not preserve_case:" "if preserve_case:"
sel m7 && run m7 alarm database/output/bibtexml.py "writer.start('entry', dict(id=key))" "writer.start('entry', dict(id=key.lower()))"
sel m8 && run m8 alarm database/output/bibtex.py "        if lineage:
            s += ', %s' % lineage
        if first or middle:
            s += ', '
            s += join([first, middle])" "        if first or middle:
            s += ', '
            s += join([first, middle])
        if lineage:
            s += ', %s' % lineage"
sel m9 && run m9 alarm database/output/bibyaml.py "fields.update(process_person_roles(entry))" "fields.update((r.lower(), ps) for r, ps in process_person_roles(entry))"
sel m10 && run m10 alarm database/__init__.py "        return ' '.join(names)" "        return ' '.join(names[:3])"
sel m11 && run m11 alarm database/output/bibtex.py "        if first or middle:
            s += ', '" "        if first or middle:
            s += ', ' if last else ''"
sel m12 && run m12 alarm database/output/bibyaml.py "fields.update(entry.fields)" "fields.update((k, int(v) if v.isdigit() else v) for k, v in entry.fields.items())"
sel m13 && run m13 alarm database/output/bibyaml.py "data['preamble'] = bib_data.preamble" "data['preamble'] = bib_data.preamble.strip()"
sel m14 && run m14 alarm database/input/bibtexml.py "e.fields[field_name] = field_text" "e.fields[field_name] = field_text.strip()"
sel m15 && run m15 alarm database/output/bibtexml.py "writer.start('entry', dict(id=key))" "writer.start('entry', dict(id=entry.key))"
sel m16 && run m16 alarm database/output/bibtex.py "stream.write(u'{%s' % key)" "stream.write(u'{%s' % entry.key)"
sel m17 && run m17 alarm database/output/bibyaml.py "yield key, fields" "yield entry.key, fields"
sel m18 && run m18 alarm database/output/bibtex.py "        return codecs.encode(text, 'ulatex+{}'.format(self.encoding))" "        if not hasattr(Writer, '_encoder'):
            Writer._encoder = codecs.getencoder('ulatex+{}'.format(self.encoding))
        return Writer._encoder(text)[0]"
sel m19 && run m19 alarm database/__init__.py "            if string[0].islower():
                return True" "            if string[0].isalpha():
                return True"
sel m20 && run m20 alarm database/output/bibtex.py "        self._write_preamble(stream, bib_data.preamble)" "        for _pre in bib_data.preamble_list:
            self._write_preamble(stream, _pre)"
sel m21 && run m21 alarm database/__init__.py "            fields=self.fields.lower()," "            fields=type(self.fields)((k.lower(), v.lower() if k.lower() == 'crossref' else v) for k, v in self.fields.items()),"
sel m22 && run m22 alarm database/convert/__init__.py "    parser_options=None,
    preserve_case=True,
    **kwargs
):
    if parser_options is None:
        parser_options = {}

    if from_filename == to_filename:
        raise ConvertError('input and output file can not be the same')

    bib_data = database.parse_file(
        from_filename,
        bib_format=from_format, encoding=input_encoding," "    parser_options={},
    preserve_case=True,
    **kwargs
):
    if from_filename == to_filename:
        raise ConvertError('input and output file can not be the same')

    parser_options.setdefault('encoding', input_encoding)
    bib_data = database.parse_file(
        from_filename,
        bib_format=from_format,"
sel h1 && run h1 quiet database/output/bibtex.py "        first = person.get_part_as_text('first')
        middle = person.get_part_as_text('middle')
        prelast = person.get_part_as_text('prelast')
        last = person.get_part_as_text('last')
        lineage = person.get_part_as_text('lineage')
        s = ''
        if last:
            s += join([prelast, last])" "        lineage = person.get_part_as_text('lineage')
        family = person.get_part_as_text('last')
        prelast = person.get_part_as_text('prelast')
        middle = person.get_part_as_text('middle')
        first = person.get_part_as_text('first')
        s = ''
        if family:
            s += join([prelast, family])"
sel h2 && run h2 quiet database/output/bibtex.py "raise BibTeXError('String has unmatched braces: %s' % s)" "raise BibTeXError('unbalanced braces in %r' % (s,))"
