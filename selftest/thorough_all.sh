#!/bin/bash
# thorough tier of every claimed property, 2 at a time; evidence to scratch (the committed evidence is the quick tier's)
cd /verif
ids=$(/venv/bin/python -c "import json;print(' '.join(c['property_id'] for c in json.load(open('MANIFEST.json'))['checks']))")
d=/dev/shm/thorough_all; mkdir -p $d
echo $ids | tr ' ' '\n' | xargs -P 2 -I{} bash -c "VERIF_EVIDENCE_DIR=$d/ev VERIF_REPLAY_DIR=$d/rp timeout 3600 ./check {} --tier thorough 2>&1 | grep -v conda | grep -E 'VIOLATION|thorough:' | cut -c1-220"
