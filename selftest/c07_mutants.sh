#!/bin/bash
# C07 self-test: apply each mutant to a scratch copy of /repo/pybtex under /dev/shm/c07_m<k>, run the quick
# check against it, expect exit 1 with a VIOLATION line (mutants) / exit 0 (harmless refactorings).
# usage: selftest/c07_mutants.sh [name ...]
HERE="$(cd "$(dirname "$0")/.." && pwd)"
declare -A FILE SED KIND
add() { FILE[$1]=$2; SED[$1]=$3; KIND[$1]=$4; ORDER+=($1); }
ORDER=()
add m01_join_sep2        style/template.py 's/return richtext.Text(sep2).join(parts)/return richtext.Text(sep).join(parts)/' mutant
add m02_together_le      style/template.py 's/    if len(parts) <= 2:\n        tie2/XX/; /^def together/,/^@node/ s/if len(parts) <= 2:/if len(parts) < 2:/' mutant
add m03_tie_threshold    textutils.py 's/if n_chars < enough_chars:/if n_chars <= enough_chars:/' mutant
add m04_alpha_etal       style/labels/alpha.py '0,/if numnames > 4:/ s/if numnames > 4:/if numnames >= 4:/' mutant
add m05_alpha_year       style/labels/alpha.py 's/entry.fields\["year"\]\[-2:\]/entry.fields["year"][-3:]/' mutant
add m06_sort_nolower     style/sorting/author_year_title.py 's/        )).lower()/        ))/' mutant
add m07_labels_unsorted  style/formatting/__init__.py 's/labels = self.format_labels(sorted_entries)/labels = self.format_labels(entries)/' mutant
add m08_sentence_cap     style/template.py 's/        text = text.capfirst()/        text = text.capitalize()/' mutant
add m09_plain_notie      style/names/plain.py 's/name_part(tie=True)\[person.rich_prelast_names\]/name_part[person.rich_prelast_names]/' mutant
add m10_firstof_truthy   style/template.py '/^def first_of/,$ s/        if child:/        if child is not None:/' mutant
add m11_optional_catch   style/template.py 's/    except FieldIsMissing:\n        return richtext.Text()/XX/; /^def optional(/,/^@node/ s/        return richtext.Text(\*_format_list(children, data))/        return richtext.Text(*[c for c in _format_list(children, data)][:1])/' mutant
add m12_suffix_start     style/labels/alpha.py "s/yield label + chr(ord('a') + counted\[label\])/yield label + chr(ord('b') + counted[label])/" mutant
add m13_number_from0     style/labels/number.py 's/yield str(number + 1)/yield str(number)/' mutant
add m14_crossref_drop    style/formatting/__init__.py "s/formatted_entries = self.format_entries(entries, bib_data=bib_data)/formatted_entries = self.format_entries(entries)/" mutant
add m15_sort_key_order   style/sorting/author_year_title.py "s/return (author_key, entry.fields.get('year', ''), entry.fields.get('title', ''))/return (author_key, entry.fields.get('title', ''), entry.fields.get('year', ''))/" mutant
add m16_add_period_drop  style/template.py 's/def sentence(children, data, capfirst=False, capitalize=False, add_period=True/def sentence(children, data, capfirst=False, capitalize=False, add_period=False/' mutant
add m17_abbr_flag        style/template.py 's/style.format_name(person, style.abbreviate_names)/style.format_name(person, False)/' mutant
add m18_lastfirst_order  style/names/lastfirst.py "s/name_part(before=', ') \[person.rich_lineage_names\],/name_part(before=' ') [person.rich_lineage_names],/" mutant
add m19_dashify_re       style/formatting/unsrt.py "s/dash_re = re.compile(r'-+')/dash_re = re.compile(r'-')/" mutant
add m20_missing_msg_key  style/template.py "s/'missing {0} in {1}'.format(field_name, getattr(entry, 'key', '<unnamed>'))/'missing {0} in {1}'.format(field_name, getattr(entry, 'type', '<unnamed>'))/" mutant
add m21_lastfirst_noabbr style/names/lastfirst.py "s/name_part(before=', ', abbr=abbr) \[person.rich_first_names + person.rich_middle_names\]/name_part(before=', ') [person.rich_first_names + person.rich_middle_names]/" mutant
add m22_namepart_tie     style/names/__init__.py "s/return Text(before, parts, tie_or_space(parts, nbsp, ' '))/return Text(before, parts, nbsp)/" mutant
add m23_abbreviate_two   textutils.py "s/            return part\[0\] + '.'/            return part[:2] + '.'/" mutant
add m24_empty_cites_all  style/formatting/__init__.py 's/        if citations is None:/        if not citations:/' mutant
add m25_names_inherit    style/template.py "s/        persons = context\['entry'\].persons\[role\]/        persons = context['entry'].persons[role] if role in context['entry'].persons else [__import__('pybtex.database').database.Person(x) for x in context['entry']._find_field(role, bib_data=context.get('bib_data')).split(' and ')]/" mutant
add h01_rename_local     style/template.py '/^def join/,/^@node/ s/\bparts\b/pieces/g' harmless
add h02_message_text     style/template.py "s/'missing {0} in {1}'.format/'field {0} is missing in entry {1}'.format/" harmless
add h03_reorder          style/formatting/__init__.py "s/        self.abbreviate_names = abbreviate_names/        self.abbreviate_names = bool(abbreviate_names) or False/" harmless
names=("$@"); [ ${#names[@]} -eq 0 ] && names=("${ORDER[@]}")
run_one() {
  n=$1; d=/dev/shm/c07_$n
  rm -rf $d; mkdir -p $d; cp -r /repo/pybtex $d/pybtex
  sed -i "${SED[$n]}" $d/pybtex/${FILE[$n]}
  if diff -rq /repo/pybtex $d/pybtex >/dev/null; then echo "$n: NOT APPLIED"; rm -rf $d; return; fi
  out=$(cd $HERE && VERIF_REPO=$d VERIF_EVIDENCE_DIR=$d/ev VERIF_REPLAY_DIR=$d/rp VERIF_NPROC=${VERIF_NPROC:-8} timeout 1500 ./check C07 2>&1); rc=$?
  viol=$(echo "$out" | grep -c '^VIOLATION')
  kinds=$(cd $HERE && for f in $(echo "$out" | grep '^VIOLATION' | sed 's/.*replay=\([^ ]*\).*/\1/'); do python3 -c "import json,sys; r=json.load(open('$f')); print(r['kind']+':'+str(r.get('function',''))+(':failing-input' if r.get('failing_input_found') else ''))"; done | sort | uniq -c | tr '\n' ';')
  echo "$n (${KIND[$n]}): rc=$rc violations=$viol $kinds"
  rm -rf $d
}
for n in "${names[@]}"; do run_one $n; done
