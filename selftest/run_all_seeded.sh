#!/bin/bash
# Runs every seeded change under /verif/seeded against the quick check of the property it breaks
# (plus the extra properties listed in seeded/ALSO.txt as "<seed-id> <property>"), 3 at a time;
# writes seeded/RESULTS.txt (one line per pair).
cd /verif
claimed=$(/venv/bin/python -c "import json;print(' '.join(c['property_id'] for c in json.load(open('MANIFEST.json'))['checks']))")
pairs=""
for d in seeded/*/; do
  id=$(basename $d)
  [ -f $d/meta.json ] || continue
  p=$(/venv/bin/python -c "import json;print(json.load(open('$d/meta.json'))['property'])")
  pairs="$pairs $id:$p"
done
[ -f seeded/ALSO.txt ] && while read id p; do pairs="$pairs $id:$p"; done < seeded/ALSO.txt
for x in $pairs; do echo $x; done | xargs -P ${PAR:-3} -I{} bash -c 'x={}; selftest/run_seeded.sh ${x%%:*}__${x##*:} ${x##*:}' 2>&1 | grep -v conda | sort > seeded/RESULTS.txt
cat seeded/RESULTS.txt
