#!/bin/bash
# Runs every seeded change under /verif/seeded against the quick check of the property it breaks
# (and any extra properties given in meta.json "also_check"), prints one line per pair.
cd /verif
claimed=$(/venv/bin/python -c "import json;print(' '.join(c['property_id'] for c in json.load(open('MANIFEST.json'))['checks']))")
for d in seeded/*/; do
  id=$(basename $d)
  p=$(/venv/bin/python -c "import json;m=json.load(open('$d/meta.json'));print(' '.join([m['property']]+m.get('also_check',[])))")
  for q in $p; do
    case " $claimed " in *" $q "*) selftest/run_seeded.sh $id $q ;; *) echo "$id $q: property not claimed yet" ;; esac
  done
done
