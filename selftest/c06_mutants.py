#!/usr/bin/env python3
# self-test of the C06 check: hand-made mutants of the anchored code, each applied to a scratch copy of the
# package (never to /repo); the quick check must alarm on each (exit 1, a VIOLATION line) and must stay quiet on
# the harmless refactoring.  usage: selftest/c06_mutants.py [name ...]
import os, re, shutil, subprocess, sys
HERE = os.path.dirname(os.path.dirname(os.path.abspath(__file__)))
MUTANTS = {
 'm1_style_override_ignored': ('pybtex/__init__.py', "            style=style,\n", "            style=aux_data.style,\n"),
 'm2_bib_format_not_forwarded': ('pybtex/__init__.py', "            bib_format=bib_format,\n            output_encoding=output_encoding,\n            output_filename=base_filename,", "            output_encoding=output_encoding,\n            output_filename=base_filename,"),
 'm3_sort_ties_by_name': ('pybtex/bibtex/interpreter.py', "return self.entry_vars[citation]['sort.key$']", "return (self.entry_vars[citation]['sort.key$'], citation)"),
 'm4_read_unfiltered': ('pybtex/bibtex/interpreter.py', "wanted_entries=self.citations,", "wanted_entries=None,"),
 'm5_aux_regex_nongreedy': ('pybtex/auxfile.py', "{(.*)}", "{(.*?)}"),
 'm6_min_crossrefs_dropped': ('pybtex/bibtex/__init__.py', "bib_files_or_filenames, min_crossrefs=min_crossrefs)", "bib_files_or_filenames, min_crossrefs=2)"),
 'm7_bbl_name_first_dot': ('pybtex/__init__.py', "base_filename = path.splitext(aux_filename)[0]", "base_filename = aux_filename.split('.')[0] if '.' in aux_filename[1:] else aux_filename"),
 'm8_only_first_bib_file': ('pybtex/database/input/__init__.py', "for filename in base_filenames:", "for filename in base_filenames[:1]:"),
 'm9_reverse_skips_first': ('pybtex/bibtex/interpreter.py', "self._iterate(function, reversed(self.citations))", "self._iterate(function, list(reversed(self.citations))[1:])"),
 'm10_iterate_stale_entry_vars': ('pybtex/bibtex/interpreter.py', "            self.current_entry_vars = self.entry_vars[key]\n", "            self.current_entry_vars = self.entry_vars[key.lower()]\n"),
 'm11_aux_citations_deduplicated': ('pybtex/auxfile.py', "            self.citations.append(key)\n", "            if key not in self.citations:\n                self.citations.append(key)\n"),
 'm12_second_bibstyle_wins': ('pybtex/auxfile.py', "        if self.style is not None:\n            report_error(AuxDataError(r'illegal, another \\bibstyle command', self.context))\n        else:\n            self.style = style", "        if self.style is not None:\n            report_error(AuxDataError(r'illegal, another \\bibstyle command', self.context))\n        self.style = style"),
 'm13_string_entry_point_ignores_citations': ('pybtex/__init__.py', "        return self.format_from_files(inputs, *args, **kwargs)", "        kwargs.pop('citations', None)\n        return self.format_from_files(inputs, *args, **kwargs)"),
 'm14_cli_min_crossrefs_dropped': ('pybtex/__main__.py', "        engine.make_bibliography(filename, **options)", "        options.pop('min_crossrefs', None)\n        engine.make_bibliography(filename, **options)"),
 'm15_cli_style_option_dropped': ('pybtex/__main__.py', "        ext = path.splitext(filename)[1]", "        options['style'] = None\n        ext = path.splitext(filename)[1]"),
 'm16_bibdata_sorted_set': ('pybtex/__init__.py', "for filename in aux_data.data]", "for filename in sorted(set(aux_data.data))]"),
 'm17_bst_script_cache_by_name': ('pybtex/bibtex/__init__.py', "        bst_script = bst.parse_file(bst_filename, bst_encoding)\n", "        if (style, bst_encoding) not in _BST_CACHE:\n            _BST_CACHE[(style, bst_encoding)] = list(bst.parse_file(bst_filename, bst_encoding))\n        bst_script = _BST_CACHE[(style, bst_encoding)]\n"),
 'm18_aux_inputs_queued': ('pybtex/auxfile.py', "        self.parse_file(filename, toplevel=False)\n", "        self.__dict__.setdefault('_queued', []).append(filename)\n"),
 'm19_parse_files_stops_early': ('pybtex/database/input/__init__.py', "        for filename in base_filenames:\n            self.parse_file(filename, file_suffix)\n", "        for filename in base_filenames:\n            self.parse_file(filename, file_suffix)\n            cited = list(self.data.citations)\n            if cited and '*' not in cited and all(k in self.data.entries for k in cited):\n                break\n"),
 # must NOT alarm: renamed local, reordered independent statements, reworded messages
 'h1_harmless_refactoring': [
   ('pybtex/__init__.py', "        base_filename = path.splitext(aux_filename)[0]\n        bib_filenames = [filename + bib_format.default_suffix for filename in aux_data.data]\n",
                          "        names_of_databases = [name + bib_format.default_suffix for name in aux_data.data]\n        base_filename = path.splitext(aux_filename)[0]\n        bib_filenames = names_of_databases\n"),
   ('pybtex/auxfile.py', "found no \\bibdata command", "no \\bibdata command was found"),
   ('pybtex/bibtex/interpreter.py', "        def key(citation):\n            return self.entry_vars[citation]['sort.key$']\n        self.citations.sort(key=key)", "        self.citations.sort(key=lambda c: self.entry_vars[c]['sort.key$'])"),
 ],
}
def run(name):
    spec = MUTANTS[name]
    d = '/dev/shm/c06_' + name
    shutil.rmtree(d, ignore_errors=True)
    os.makedirs(d)
    shutil.copytree('/repo/pybtex', d + '/pybtex')
    os.makedirs(d + '/tests'); shutil.copytree('/repo/tests/data', d + '/tests/data')
    for (f, old, new) in (spec if isinstance(spec, list) else [spec]):
        p = os.path.join(d, f); s = open(p).read()
        if s.count(old) != 1:
            print(name, 'PATCH DOES NOT APPLY (%d occurrences) in %s' % (s.count(old), f)); return
        open(p, 'w').write(s.replace(old, new))
    if name.startswith('m18'):
        p = os.path.join(d, 'pybtex/auxfile.py'); t = open(p).read()
        old = "        if previous_context:\n"
        assert t.count(old) == 1
        open(p, 'w').write(t.replace(old, "        while self.__dict__.get('_queued'):\n            self.parse_file(self._queued.pop(0), toplevel=False)\n" + old))
    if name.startswith('m17'):
        p = os.path.join(d, 'pybtex/bibtex/__init__.py'); t = open(p).read()
        open(p, 'w').write(t.replace('class BibTeXEngine(Engine):', '_BST_CACHE = {}\n\n\nclass BibTeXEngine(Engine):'))
    env = dict(os.environ, VERIF_REPO=d, VERIF_EVIDENCE_DIR=d + '/evidence', VERIF_REPLAY_DIR=d + '/replays')
    p = subprocess.run([os.path.join(HERE, 'check'), 'C06'], env=env, capture_output=True, text=True)
    viol = [l for l in p.stdout.split('\n') if l.startswith('VIOLATION')]
    import json
    what = []
    for l in viol[:12]:
        m = re.search(r'replay=(\S+)', l)
        try:
            r = json.load(open(m.group(1)))
            what.append('%s fn=%s %s%s' % (r['kind'], r.get('fn'), 'FAILING-INPUT ' if r.get('failing_input_found') else '', str(r.get('property_failure') or r.get('what') or (r.get('case'), r.get('detail')))[:200]))
        except Exception as e:
            what.append(l)
    print('%-44s exit=%d violations=%d' % (name, p.returncode, len(viol)))
    for w in what: print('      ', w)
    shutil.rmtree(d, ignore_errors=True)   # (evidence and replays of the mutant run go with it)
if __name__ == '__main__':
    for n in (sys.argv[1:] or list(MUTANTS)):
        run(n)
