#!/usr/bin/env python3
"""prints the per-property 'as built' table (markdown) from the files present in /verif"""
import json, re, glob, os
V='/verif'
known=[]
for f in [V+'/known_findings.json']+sorted(glob.glob(V+'/known_findings.d/*.json')):
    known+=json.load(open(f)).get('findings',[])
seed={}
if os.path.exists(V+'/seeded/RESULTS.txt'):
    for l in open(V+'/seeded/RESULTS.txt'):
        m=re.match(r'(\S+) (C\d\d): violations=(\d+) \(without failing input: (\d+)\)',l)
        if m:
            sid,p,v,nf=m.group(1),m.group(2),int(m.group(3)),int(m.group(4))
            seed.setdefault(p,[]).append('%s:%s'%(sid,'missed' if v==0 else ('input' if v>nf else 'corr.')))
man=json.load(open(V+'/MANIFEST.json'))
print('| id | theorems (Props/C<nn>.v) | of which `_partial` / `_refuted` | model files | known findings | repaired findings | seeded changes (quick tier) |')
print('|---|---|---|---|---|---|---|')
for c in man['checks']:
    p=c['property_id']
    src=open('%s/coq/Props/%s.v'%(V,p)).read()
    names=re.findall(r'^\s*(?:Theorem|Corollary)\s+([A-Za-z0-9_\']+)',src,flags=re.M)
    part=[n for n in names if n.endswith('_partial') or '_partial_' in n]
    ref=[n for n in names if '_refuted' in n]
    imports=sorted(set(re.findall(r'Model\.([A-Za-z0-9_]+)',src)))
    kn=sorted(set(k['id'] for k in known if k.get('property')==p and k.get('status')=='known'))
    fx=sorted(set(k['id'] for k in known if k.get('property')==p and k.get('status')=='fixed'))
    print('| %s | %d | %d / %d | %s | %s | %s | %s |'%(p,len(names),len(part),len(ref),' '.join(imports),' '.join(kn) or '–',' '.join(fx) or '–',' '.join(seed.get(p,[])) or ''))
