#!/usr/bin/env python3
"""integrate.py <PID> [<PID> ...]  -- after `git merge <branch>`: register the property's check in
MANIFEST.json from notes/<PID>.manifest.json (removing it from not_applicable), run the quick check,
validate the evidence file.  Used by the integrator only; not a registered check."""
import json, sys, subprocess, os
V = '/verif'
man = json.load(open(V + '/MANIFEST.json'))
for pid in sys.argv[1:]:
    ent = json.load(open('%s/notes/%s.manifest.json' % (V, pid)))
    ent['property_id'] = pid
    ent['quick_cmd'] = './check %s --tier quick' % pid
    ent['thorough_cmd'] = './check %s --tier thorough' % pid
    ent['evidence_file'] = '/verif/evidence/%s.json' % pid
    ent['replay_cmd_template'] = './check %s --replay {path}' % pid
    ent.setdefault('technique', 'machine-checked proof in Coq over a hand-written model + differential correspondence check against the implementation')
    ent['level_claimed']['category'] = 'proof'
    man['checks'] = [c for c in man['checks'] if c['property_id'] != pid] + [ent]
    man['not_applicable'] = [n for n in man['not_applicable'] if n['property_id'] != pid]
man['checks'].sort(key=lambda c: c['property_id'])
json.dump(man, open(V + '/MANIFEST.json', 'w'), indent=1)
subprocess.run(['python3-vt', '-c', "import json,jsonschema; jsonschema.validate(json.load(open('/verif/MANIFEST.json')), json.load(open('/root/.vp/MANIFEST.schema.json'))); print('manifest valid')"], check=True)
for pid in sys.argv[1:]:
    p = subprocess.run(['./check', pid, '--tier', 'quick'], cwd=V, capture_output=True, text=True)
    print('\n'.join(l for l in (p.stdout + p.stderr).split('\n') if 'conda' not in l)[-1500:], 'rc=%d' % p.returncode)
    subprocess.run(['python3-vt', '-c', "import json,jsonschema; jsonschema.validate(json.load(open('/verif/evidence/%s.json')), json.load(open('/root/.vp/EVIDENCE.schema.json'))); print('evidence valid')" % pid])
