#!/bin/bash
# run_seeded.sh <seed-id> [property ...]   -- run the quick check(s) against a scratch copy of /repo with
# the seeded change /verif/seeded/<seed-id>/patch.diff applied; expect exit 1 + a VIOLATION line.
# (The brief's canonical procedure -- git -C /repo apply ...; run; git -C /repo checkout -- . -- gives the
#  same result; a scratch copy is used so that checks running concurrently against /repo are not disturbed.)
full=$1; shift
id=${full%%__*}
props="$@"
[ -n "$props" ] || props=$(/venv/bin/python -c "import json;print(json.load(open('/verif/seeded/$id/meta.json'))['property'])")
d=/dev/shm/seedrun_$full
rm -rf $d; mkdir -p $d
git -C /repo archive HEAD | tar -x -C $d
( cd $d && patch -s -p1 < /verif/seeded/$id/patch.diff ) || { echo "$id: patch failed"; rm -rf $d; exit 2; }
for p in $props; do
  out=$(cd /verif && VERIF_EVIDENCE_DIR=$d/_evidence VERIF_REPLAY_DIR=$d/_replays VERIF_REPO=$d timeout 1200 ./check $p --tier ${TIER:-quick} 2>&1 | grep -v conda); rc=$?
  v=$(echo "$out" | grep -c '^VIOLATION')
  nf=$(echo "$out" | grep '^VIOLATION' | grep -c 'no-failing-input-found')
  echo "$id $p: violations=$v (without failing input: $nf) :: $(echo "$out" | tail -1)"
done
rm -rf $d
