#!/usr/bin/env python3
"""regenerates the generated tables of DESIGN.md section 9 (9.3 per-property status, 9.4 findings)"""
import json, glob, re, subprocess
V='/verif'
table=subprocess.run(['python3',V+'/selftest/asbuilt_table.py'],capture_output=True,text=True).stdout
known=[]
for f in [V+'/known_findings.json']+sorted(glob.glob(V+'/known_findings.d/*.json')):
    known+=json.load(open(f)).get('findings',[])
seen={}
for k in known:
    e=seen.setdefault(k['id'],{'props':set(),'status':k.get('status'),'what':k.get('what',''),'commit':k.get('commit','')})
    e['props'].add(k.get('property'))
    if k.get('status')=='known': e['status']='known'
    if k.get('commit'): e['commit']=k['commit']
def sk(i):
    m=re.match(r'F(\d+)([a-z]*)$',i)
    return (0,int(m.group(1)),m.group(2)) if m else (1,0,i)
rows=['| %s | %s | %s | %s |'%(i,' '.join(sorted(seen[i]['props'])),('known finding' if seen[i]['status']=='known' else 'fixed in '+seen[i]['commit']),seen[i]['what'].replace('|','\\|')[:230]) for i in sorted(seen,key=sk)]
p=V+'/DESIGN.md'
s=open(p).read()
i=s.index('| id | theorems (Props/C<nn>.v)'); j=s.index('Theorem counts include the')
s=s[:i]+table+'\n'+s[j:]
i=s.index('| id | properties | disposition | what fails |'); j=s.index('### 9.5')
s=s[:i]+'| id | properties | disposition | what fails |\n|---|---|---|---|\n'+'\n'.join(rows)+'\n\n'+s[j:]
nfix=len([1 for l in subprocess.run(['git','-C','/repo','log','--oneline'],capture_output=True,text=True).stdout.split('\n') if ' fix:' in l])
s=re.sub(r'they suppress nothing\.','they suppress nothing.',s)
s=re.sub(r'`fix:` commits in /repo \(\d+ in all, including the first batch\)','`fix:` commits in /repo (%d in all, including the first batch)'%nfix,s)
open(p,'w').write(s)
print('fix commits:',nfix,'findings:',len(rows))
