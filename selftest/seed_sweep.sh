#!/bin/bash
# seed_sweep.sh <seed> [ids...]: run quick checks of all claimed properties under another seed, evidence to scratch
seed=$1; shift
ids="$@"
[ -n "$ids" ] || ids=$(/venv/bin/python -c "import json;print(' '.join(c['property_id'] for c in json.load(open('/verif/MANIFEST.json'))['checks']))")
d=/dev/shm/seedsweep_$seed; mkdir -p $d
cd /verif
echo $ids | tr ' ' '\n' | xargs -P 4 -I{} bash -c "VERIF_SEED=$seed VERIF_EVIDENCE_DIR=$d/ev VERIF_REPLAY_DIR=$d/rp ./check {} 2>&1 | grep -v conda | grep -E 'VIOLATION|quick:' | cut -c1-200 | sed 's/^/seed=$seed /'"
