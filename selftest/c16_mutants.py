#!/usr/bin/env python3
# C16 self-test: apply each hand-made mutant to a scratch copy of /repo/pybtex under /dev/shm/c16_m_<name>,
# run the quick check against it (evidence/replays go to the scratch copy), report what caught it, remove the copy.
# usage: selftest/c16_mutants.py [name ...]      (m* must alarm, h* must stay quiet)
import os, shutil, subprocess, sys, re, json
WK = os.path.dirname(os.path.dirname(os.path.abspath(__file__)))
REPO_SRC = os.environ.get('C16_MUTANT_BASE', '/repo')      # the tree the mutants are applied to
M = {}
ALT = {}
def mut(name, file, old, new):
    M[name] = (file, old, new)
mut('m1_no_finally', 'errors.py', """    try:
        yield captured_errors
    finally:
        captured_errors = None""", """    yield captured_errors
    captured_errors = None""")
mut('m2_no_error_code', 'errors.py', "        print_error(exception, 'WARNING: ')\n        error_code = 2", "        print_error(exception, 'WARNING: ')")
mut('m3_truthy_capture', 'errors.py', "    if captured_errors is not None:\n        captured_errors.append", "    if captured_errors:\n        captured_errors.append")
mut('m4_prefix_last_line_only', 'errors.py', "            for line in lines\n", "            for line in lines[-1:]\n")
mut('m5_scanner_off_by_one', 'scanner.py', "context = lines[error_lineno0].rstrip('\\r\\n')", "context = lines[error_lineno].rstrip('\\r\\n')")
mut('m6_aux_context_no_guard', 'auxfile.py', "        if self.context.line:\n            marker", "        if True:\n            marker")
mut('m7_exit_zero', 'cmdline.py', "sys.exit(errors.error_code)", "sys.exit(0)")
mut('m8_cmdline_stays_strict', 'cmdline.py', "        errors.set_strict_mode(False)\n", "")
mut('m9_filename_lost', 'exceptions.py', "        if self.filename is None or isinstance(self.filename, str):\n            return self.filename", "        if self.filename is None or isinstance(self.filename, str):\n            return None")
mut('m10_reader_observes_mode', 'auxfile.py', "    def handle_bibstyle(self, style):\n        if self.style is not None:", "    def handle_bibstyle(self, style):\n        import pybtex.errors\n        if self.style is not None and not pybtex.errors.strict:")
mut('m11_strict_raises_copy', 'errors.py', "    if strict:\n        raise exception", "    if strict:\n        raise type(exception)(*exception.args)")
mut('m12_print_to_stdout', 'errors.py', "print(format_error(exception, prefix), file=pybtex.io.stderr)", "print(format_error(exception, prefix))")
mut('m13_capture_sets_strict', 'errors.py', "    global captured_errors\n    captured_errors = []", "    global captured_errors, strict\n    strict = False\n    captured_errors = []")
mut('m14_syntax_str_typeerror', 'scanner.py', "pos = u' in line {0}'.format(self.lineno) if self.lineno is not None else ''", "pos = u' in line {0}'.format(self.lineno + 0) if self.lineno != 0 else ''")
mut('m15_capture_dedup', 'errors.py', "        captured_errors.append(exception)\n", "        if exception not in captured_errors:\n            captured_errors.append(exception)\n")
mut('m16_bib_context_empty', 'database/input/bibtex.py', "before_error = self.text[error_start:error_pos]", "before_error = self.text[error_pos:error_pos]")
mut('m17_lineno_double_count', 'scanner.py', 'num_newlines = value.count("\\n") + value.count("\\r") - value.count("\\r\\n")', 'num_newlines = value.count("\\n") + value.count("\\r")')
mut('m18_ws_lineno_not_updated', 'scanner.py', "            self.pos = whitespace.end()\n            self.update_lineno(whitespace.group())", "            self.pos = whitespace.end()")
# the error computes its source context lazily from the live parser (and no longer stores error_context_info)
mut('m19_lazy_context', 'scanner.py', "        context, lineno, colno = self.parser.get_error_context(self.error_context_info)", "        context, lineno, colno = self.parser.get_error_context(self.parser.get_error_context_info())")
mut('m20_lazy_context_no_attr', 'scanner.py', ("        self.error_context_info = parser.get_error_context_info()\n", "        context, lineno, colno = self.parser.get_error_context(self.error_context_info)"),
    ("", "        context, lineno, colno = self.parser.get_error_context(self.parser.get_error_context_info())"))
# the .aux error keeps the live context object again (F22 re-seeded)
mut('m21_aux_alias_context', 'auxfile.py', "        self.context = copy(context)", "        self.context = context")
# a bytes file name is decoded strictly
mut('m22_filename_strict_decode', 'exceptions.py', "            return _decode_filename(self.filename, errors='replace')", "            import sys\n            return self.filename.decode(sys.getfilesystemencoding() or 'utf-8')")
mut('m23_filename_decode_ignore', 'exceptions.py', "            return _decode_filename(self.filename, errors='replace')", "            return _decode_filename(self.filename, errors='ignore')")
# the message is used as a format template ('format once' refactorings)
mut('m24_aux_str_formats_message', 'auxfile.py', "        location = 'in line {0}: '.format(lineno) if lineno else ''\n        return location + base_message", "        template = 'in line {0}: ' + base_message if lineno else base_message\n        return template.format(lineno)")
mut('m25_repeated_entry_percent_twice', 'database/__init__.py', "report_error(BibliographyDataError('repeated bibliography entry: %s' % key))", "report_error(BibliographyDataError(('repeated bibliography entry: %s' % key) % ()))")
mut('m26_format_error_formats_line', 'errors.py', "    lines.append(u'{0}{1}'.format(prefix, str(exception)))", "    lines.append((prefix + str(exception)).format())")
# the scanner without line numbers (NameFormatParser) is forgotten in get_error_context
mut('m27_lineless_context_typeerror', 'scanner.py', "        if error_lineno is not None:\n            error_lineno0 = error_lineno - 1", "        if True:\n            error_lineno0 = error_lineno - 1")
mut('m28_lineless_str', 'scanner.py', "pos = u' in line {0}'.format(self.lineno) if self.lineno is not None else ''", "pos = u' in line {0}'.format(self.lineno + 0)")
# PluginNotFound tests the group instead of the name: no extension -> AssertionError
# (two spellings: before and after fix 3f5a30c)
ALT['m29_plugin_no_extension_assert'] = [
    ('plugin/__init__.py', "        else:\n            message = (\n                u'plugin {plugin_group} for suffix", "        else:\n            assert name.startswith('.')\n            message = (\n                u'plugin {plugin_group} for suffix"),
    ('plugin/__init__.py', "        if not name.startswith('.'):\n            message = u'plugin {plugin_group}.{name} not found'.format(\n                plugin_group=plugin_group,\n                name=name,\n            )\n        else:\n            assert plugin_group.endswith('.suffixes')", "        if not plugin_group.endswith('.suffixes'):\n            message = u'plugin {plugin_group}.{name} not found'.format(\n                plugin_group=plugin_group,\n                name=name,\n            )\n        else:\n            assert name.startswith('.')"),
]
M['m29_plugin_no_extension_assert'] = ALT['m29_plugin_no_extension_assert'][0]
# harmless
mut('h1_refactor_capture', 'errors.py', """    global captured_errors
    captured_errors = []
    try:
        yield captured_errors
    finally:
        captured_errors = None""", """    global captured_errors
    collected = []
    captured_errors = collected
    try:
        yield collected
    finally:
        captured_errors = None""")
mut('h2_message_text', 'auxfile.py', "r'illegal, another \\bibstyle command'", "r'a second \\bibstyle command is not allowed'")
mut('h3_format_error_rewrite', 'errors.py', """        lines = (
            u'{0}: {1}'.format(filename, line)
            for line in lines
        )""", """        lines = [filename + u': ' + line for line in lines]""")
mut('h4_syntax_wording', 'scanner.py', "pos = u' in line {0}'.format(self.lineno)", "pos = u' at line {0}'.format(self.lineno)")
mut('h5_report_reorder', 'errors.py', "        print_error(exception, 'WARNING: ')\n        error_code = 2", "        error_code = 2\n        print_error(exception, 'WARNING: ')")
mut('h6_private_attr_renamed', 'scanner.py', ("self.error_context_info = parser.get_error_context_info()", "self.parser.get_error_context(self.error_context_info)"),
    ("self._where = parser.get_error_context_info()", "self.parser.get_error_context(self._where)"))
sel = sys.argv[1:] or sorted(M)
for name in sel:
    file, old, new = M[name]
    for cand in ALT.get(name, []):
        if open(REPO_SRC + '/pybtex/' + cand[0]).read().count(cand[1]) == 1:
            file, old, new = cand
            break
    d = '/dev/shm/c16_m_' + name
    shutil.rmtree(d, ignore_errors=True)
    os.makedirs(d)
    shutil.copytree(REPO_SRC + '/pybtex', d + '/pybtex')
    p = d + '/pybtex/' + file
    s = open(p).read()
    olds, news = (old, new) if isinstance(old, tuple) else ((old,), (new,))
    for o, n in zip(olds, news):
        assert s.count(o) == 1, (name, o, s.count(o))
        s = s.replace(o, n)
    open(p, 'w').write(s)
    env = dict(os.environ, VERIF_REPO=d, VERIF_EVIDENCE_DIR=d + '/_evidence', VERIF_REPLAY_DIR=d + '/_replays')
    r = subprocess.run(['./check', 'C16'], cwd=WK, env=env, capture_output=True, text=True)
    lines = [l for l in r.stdout.split('\n') if l.startswith('VIOLATION')]
    kinds = []
    for l in lines:
        m = re.search(r'replay=(\S+)', l)
        rec = json.load(open(m.group(1)))
        kinds.append((rec['kind'], str(rec.get('what') or rec.get('detail'))[:150], str(rec.get('readable') or rec.get('case') or '')[:120], 'NOINPUT' if 'no-failing-input-found' in l else 'input'))
    verdict = 'ok' if (name.startswith('m') and r.returncode == 1 and lines) or (name.startswith('h') and r.returncode == 0 and not lines) else 'UNEXPECTED'
    print(name, 'rc=%d' % r.returncode, len(lines), 'violations', verdict)
    for k in sorted(kinds, key=lambda k: k[0] != "oracle")[:4]:
        print('    ', k)
    if r.returncode not in (0, 1) or (not lines and r.returncode):
        print(r.stdout[-500:], r.stderr[-1500:])
    shutil.rmtree(d, ignore_errors=True)
