#!/bin/sh
# regenerate coq/_CoqProject from the files present
cd "$(dirname "$0")/coq" || exit 2
{ echo "-Q . Pybtex"; echo "-arg -w -arg -notation-overridden,-deprecated-hint-without-locality,-deprecated-instance-without-locality"; find Base Model Spec Proofs Props -name '*.v' | sort; } > _CoqProject
coq_makefile -f _CoqProject -o Makefile >/dev/null
